(* The producer of the stateful phase (engine/phases/stateful/_executor.py: execute_state_machine_loop with its
   _InstrumentedStateMachine: setup / step / teardown and the `while True` suite loop with its except ladder) as a labelled
   transition system.  What Hypothesis does inside `run` - how many scenarios it starts, how many steps each has, what every
   step does, how `run` finally ends - is the input (`suite_beh`); a stop request (EventStream.stop(), Ctrl-C handled by the
   consumer) may arrive between any two actions of the thread (label LStop).  Executable definitions only.
   Shared by C11 (nesting), C12 (nothing is sent after a stop) and C05 (suite status). *)
From Coq Require Import List Bool Arith.
From Verif Require Import C11.Model_C11.
Import ListNotations.

Record pcfg := { p_maxf : option nat;      (* max_failures *)
                 p_maxex : nat }.          (* hypothesis_settings.max_examples *)

(* one call of step(): the request went out and ... *)
Inductive step_out :=
| StOk                       (* all checks passed (or every failure was seen before): ctx.step_succeeded() *)
| StFail (extra : nat)       (* FailureGroup with 1 + extra new failures: control.count_failure() each, ctx.step_failed() *)
| StErr                      (* another Exception: ctx.step_errored() *)
| StKI.                      (* KeyboardInterrupt raised inside the step (user code): ctx.step_interrupted() *)

(* how InstrumentedStateMachine.run(...) ends when nothing interrupts it *)
Inductive run_end := ROk | RFailureGroup | RFlaky | RSkipTest | RUnsat | ROther.

Definition suite_beh := (list (list step_out) * run_end)%type.

Inductive pev :=
| SuS (id : nat)
| SuF (id : nat) (st : status)
| ScS (id suite : nat)
| ScF (id suite : nat) (st : status)
| PIntr
| PNFE.

Inductive why := ByRun (e : run_end) | ByKI.
Inductive tcont := TNext (scs : list (list step_out)) (e : run_end) | TRaise.

Inductive ppc :=
| PTop                                   (* top of `while True`: put SuiteStarted *)
| PIntrCheck                             (* `if engine.is_interrupted` *)
| PEarlyIntr | PEarlyFin                 (* put Interrupted; put SuiteFinished(INTERRUPTED); break *)
| PScen (scs : list (list step_out)) (e : run_end)      (* inside run: next scenario (setup) or the end of run *)
| PCheck (st : step_out) (steps : list step_out) (scs : list (list step_out)) (e : run_end)   (* step(): `if engine.has_to_stop` *)
| PBody (st : step_out) (steps : list step_out) (scs : list (list step_out)) (e : run_end)    (* the request and the checks *)
| PTear (k : tcont)                      (* teardown: put ScenarioFinished *)
| PExcept (w : why)                      (* run returned or raised: the except ladder *)
| PPutIntr | PPutNFE
| PFinally (st : status) (again : bool)  (* finally: put SuiteFinished(st); ctx.reset(); continue / break *)
| PDone.

Record pstate := {
  p_out : list pev;            (* what the thread has put, newest first *)
  p_stop : bool;               (* the stop event *)
  p_limit : bool;              (* has_reached_the_failure_limit *)
  p_counter : nat;             (* _failures_counter *)
  p_suite : nat;               (* id of the current suite *)
  p_nsuites : nat;             (* suites created so far *)
  p_scen : nat;                (* id of the current scenario *)
  p_nscen : nat;               (* scenarios created so far *)
  p_cur : option status;       (* ctx.current_step_status *)
  p_completed : nat;           (* ctx.completed_scenarios *)
  p_behs : list suite_beh;     (* what Hypothesis will do in the coming suites *)
  p_pc : ppc;
  p_bodies : list bool;        (* step bodies executed, newest first: has_to_stop at that moment *)
  p_faults : list bool         (* fault injection: does ctx.maximize_metrics() raise in the next teardowns (one entry per teardown) *)
}.

Inductive plabel := LP | LStop.

Definition p_has_to_stop (s : pstate) : bool := p_stop s || p_limit s.

Definition pset (s : pstate) (pc : ppc) : pstate :=
  {| p_out := p_out s; p_stop := p_stop s; p_limit := p_limit s; p_counter := p_counter s; p_suite := p_suite s;
     p_nsuites := p_nsuites s; p_scen := p_scen s; p_nscen := p_nscen s; p_cur := p_cur s; p_completed := p_completed s;
     p_behs := p_behs s; p_pc := pc; p_bodies := p_bodies s; p_faults := p_faults s |}.

Definition pput (s : pstate) (e : pev) (pc : ppc) : pstate :=
  {| p_out := e :: p_out s; p_stop := p_stop s; p_limit := p_limit s; p_counter := p_counter s; p_suite := p_suite s;
     p_nsuites := p_nsuites s; p_scen := p_scen s; p_nscen := p_nscen s; p_cur := p_cur s; p_completed := p_completed s;
     p_behs := p_behs s; p_pc := pc; p_bodies := p_bodies s; p_faults := p_faults s |}.

(* ExecutionControl.count_failure, n times *)
Fixpoint count_failures (maxf : option nat) (n : nat) (counter : nat) (limit : bool) : nat * bool :=
  match n with
  | O => (counter, limit)
  | S n' =>
      match maxf with
      | None => count_failures maxf n' counter limit
      | Some m => let c := S counter in count_failures maxf n' c (if m <=? c then true else limit)
      end
  end.

Definition next_step (steps : list step_out) (scs : list (list step_out)) (e : run_end) : ppc :=
  match steps with
  | [] => PTear (TNext scs e)
  | st :: steps' => PCheck st steps' scs e
  end.

Definition pstep (c : pcfg) (s : pstate) (l : plabel) : pstate :=
  match l with
  | LStop =>
      {| p_out := p_out s; p_stop := true; p_limit := p_limit s; p_counter := p_counter s; p_suite := p_suite s;
         p_nsuites := p_nsuites s; p_scen := p_scen s; p_nscen := p_nscen s; p_cur := p_cur s; p_completed := p_completed s;
         p_behs := p_behs s; p_pc := p_pc s; p_bodies := p_bodies s; p_faults := p_faults s |}
  | LP =>
      match p_pc s with
      | PTop =>
          {| p_out := SuS (p_nsuites s) :: p_out s; p_stop := p_stop s; p_limit := p_limit s; p_counter := p_counter s;
             p_suite := p_nsuites s; p_nsuites := S (p_nsuites s); p_scen := p_scen s; p_nscen := p_nscen s; p_cur := p_cur s;
             p_completed := p_completed s; p_behs := p_behs s; p_pc := PIntrCheck; p_bodies := p_bodies s; p_faults := p_faults s |}
      | PIntrCheck =>
          if p_stop s then pset s PEarlyIntr
          else
            let '(scs, e, rest) := match p_behs s with [] => ([], ROk, []) | (scs, e) :: rest => (scs, e, rest) end in
            {| p_out := p_out s; p_stop := p_stop s; p_limit := p_limit s; p_counter := p_counter s; p_suite := p_suite s;
               p_nsuites := p_nsuites s; p_scen := p_scen s; p_nscen := p_nscen s; p_cur := p_cur s; p_completed := p_completed s;
               p_behs := rest; p_pc := PScen scs e; p_bodies := p_bodies s; p_faults := p_faults s |}
      | PEarlyIntr => pput s PIntr PEarlyFin
      | PEarlyFin => pput s (SuF (p_suite s) INTERRUPTED) PDone
      | PScen [] e => pset s (PExcept (ByRun e))
      | PScen (steps :: scs) e =>
          {| p_out := ScS (p_nscen s) (p_suite s) :: p_out s; p_stop := p_stop s; p_limit := p_limit s; p_counter := p_counter s;
             p_suite := p_suite s; p_nsuites := p_nsuites s; p_scen := p_nscen s; p_nscen := S (p_nscen s); p_cur := p_cur s;
             p_completed := p_completed s; p_behs := p_behs s; p_pc := next_step steps scs e; p_bodies := p_bodies s; p_faults := p_faults s |}
      | PCheck st steps scs e =>
          if p_has_to_stop s then pset s (PTear TRaise) else pset s (PBody st steps scs e)
      | PBody st steps scs e =>
          let bodies := p_has_to_stop s :: p_bodies s in
          match st with
          | StOk =>
              {| p_out := p_out s; p_stop := p_stop s; p_limit := p_limit s; p_counter := p_counter s; p_suite := p_suite s;
                 p_nsuites := p_nsuites s; p_scen := p_scen s; p_nscen := p_nscen s; p_cur := Some SUCCESS;
                 p_completed := p_completed s; p_behs := p_behs s; p_pc := next_step steps scs e; p_bodies := bodies; p_faults := p_faults s |}
          | StFail extra =>
              let '(cnt, lim) := count_failures (p_maxf c) (S extra) (p_counter s) (p_limit s) in
              {| p_out := p_out s; p_stop := p_stop s; p_limit := lim; p_counter := cnt; p_suite := p_suite s;
                 p_nsuites := p_nsuites s; p_scen := p_scen s; p_nscen := p_nscen s; p_cur := Some FAILURE;
                 p_completed := p_completed s; p_behs := p_behs s; p_pc := PTear (TNext scs e); p_bodies := bodies; p_faults := p_faults s |}
          | StErr =>
              {| p_out := p_out s; p_stop := p_stop s; p_limit := p_limit s; p_counter := p_counter s; p_suite := p_suite s;
                 p_nsuites := p_nsuites s; p_scen := p_scen s; p_nscen := p_nscen s; p_cur := Some ERROR;
                 p_completed := p_completed s; p_behs := p_behs s; p_pc := PTear (TNext scs e); p_bodies := bodies; p_faults := p_faults s |}
          | StKI =>
              {| p_out := p_out s; p_stop := p_stop s; p_limit := p_limit s; p_counter := p_counter s; p_suite := p_suite s;
                 p_nsuites := p_nsuites s; p_scen := p_scen s; p_nscen := p_nscen s; p_cur := Some INTERRUPTED;
                 p_completed := p_completed s; p_behs := p_behs s; p_pc := PTear TRaise; p_bodies := bodies; p_faults := p_faults s |}
          end
      | PTear k =>
          (* teardown: put ScenarioFinished FIRST, then ctx.maximize_metrics() - which may raise (fault injection; taken into
             account only when no KeyboardInterrupt is in flight) and then skips ctx.reset_scenario() - then the base teardown *)
          let fault := match k, p_faults s with TNext _ _, f :: _ => f | _, _ => false end in
          {| p_out := ScF (p_scen s) (p_suite s) (match p_cur s with Some st => st | None => SKIP end) :: p_out s;
             p_stop := p_stop s; p_limit := p_limit s; p_counter := p_counter s; p_suite := p_suite s;
             p_nsuites := p_nsuites s; p_scen := p_scen s; p_nscen := p_nscen s; p_cur := if fault then p_cur s else None;
             p_completed := if fault then p_completed s else S (p_completed s); p_behs := p_behs s;
             p_pc := match k with TNext scs e => PScen scs e | TRaise => PExcept ByKI end; p_bodies := p_bodies s;
             p_faults := tl (p_faults s) |}
      | PExcept ByKI =>
          {| p_out := p_out s; p_stop := true; p_limit := p_limit s; p_counter := p_counter s; p_suite := p_suite s;
             p_nsuites := p_nsuites s; p_scen := p_scen s; p_nscen := p_nscen s; p_cur := p_cur s; p_completed := p_completed s;
             p_behs := p_behs s; p_pc := PPutIntr; p_bodies := p_bodies s; p_faults := p_faults s |}
      | PExcept (ByRun ROk) => pset s (PFinally SUCCESS false)
      | PExcept (ByRun RSkipTest) => pset s (PFinally SKIP false)
      | PExcept (ByRun RFailureGroup) => pset s (PFinally FAILURE (negb (p_limit s)))
      | PExcept (ByRun RFlaky) => pset s (PFinally FAILURE (negb (p_limit s)))
      | PExcept (ByRun RUnsat) =>
          if 0 <? p_completed s
          then pset s (PFinally SUCCESS (negb (p_maxex c <=? p_completed s)))
          else pset s PPutNFE
      | PExcept (ByRun ROther) => pset s PPutNFE
      | PPutIntr => pput s PIntr (PFinally INTERRUPTED false)
      | PPutNFE => pput s PNFE (PFinally ERROR false)
      | PFinally st again =>
          {| p_out := SuF (p_suite s) st :: p_out s; p_stop := p_stop s; p_limit := p_limit s; p_counter := p_counter s;
             p_suite := p_suite s; p_nsuites := p_nsuites s; p_scen := p_scen s; p_nscen := p_nscen s; p_cur := None;
             p_completed := S (p_completed s); p_behs := p_behs s; p_pc := if again then PTop else PDone;
             p_bodies := p_bodies s; p_faults := p_faults s |}
      | PDone => s
      end
  end.

Definition pinit_f (faults : list bool) (stop0 limit0 : bool) (counter0 : nat) (behs : list suite_beh) : pstate :=
  {| p_out := []; p_stop := stop0; p_limit := limit0; p_counter := counter0; p_suite := 0; p_nsuites := 0; p_scen := 0;
     p_nscen := 0; p_cur := None; p_completed := 0; p_behs := behs; p_pc := PTop; p_bodies := []; p_faults := faults |}.
Definition pinit := pinit_f [].

Definition prun (c : pcfg) (ls : list plabel) (s : pstate) : pstate := fold_left (pstep c) ls s.

Definition pscript (s : pstate) : list pev := rev (p_out s).

(* ---------------------------------------------------------------------------------------------------------------- *)
(* Reference nesting automaton (the property text): suites are opened and closed one at a time, scenarios inside
   their suite, identifiers match, a closing event never without its opening one. *)

Record nst := { n_suite : option nat; n_scen : option nat; n_ok : bool }.

Definition is_none {A} (o : option A) : bool := match o with None => true | Some _ => false end.
Definition opt_is (o : option nat) (x : nat) : bool := match o with Some y => Nat.eqb x y | None => false end.

Definition nstep (n : nst) (e : pev) : nst :=
  match e with
  | SuS id => {| n_suite := Some id; n_scen := n_scen n; n_ok := n_ok n && is_none (n_suite n) && is_none (n_scen n) |}
  | SuF id _ => {| n_suite := None; n_scen := n_scen n; n_ok := n_ok n && opt_is (n_suite n) id && is_none (n_scen n) |}
  | ScS id su => {| n_suite := n_suite n; n_scen := Some id; n_ok := n_ok n && opt_is (n_suite n) su && is_none (n_scen n) |}
  | ScF id su _ => {| n_suite := n_suite n; n_scen := None; n_ok := n_ok n && opt_is (n_suite n) su && opt_is (n_scen n) id |}
  | PIntr | PNFE => n
  end.

Definition ninit : nst := {| n_suite := None; n_scen := None; n_ok := true |}.
Definition nest (l : list pev) : nst := fold_left nstep l ninit.
Definition nested (l : list pev) : bool := n_ok (nest l).
Definition all_closed_p (l : list pev) : bool := is_none (n_suite (nest l)) && is_none (n_scen (nest l)).

(* the status the consumer (stateful/__init__.py: execute) folds from the SuiteFinished events *)
Definition fold_status (acc : option status) (e : pev) : option status :=
  match e with
  | SuF _ st =>
      if status_eqb st SKIP then acc
      else match acc with None => Some st | Some a => if status_lt a st then Some st else Some a end
  | _ => acc
  end.
Definition phase_status (l : list pev) : status :=
  match fold_left fold_status l None with Some st => st | None => SKIP end.

(* scenario statuses seen in a script *)
Fixpoint scenario_statuses (l : list pev) : list status :=
  match l with
  | [] => []
  | ScF _ _ st :: r => st :: scenario_statuses r
  | _ :: r => scenario_statuses r
  end.

Fixpoint count_true (l : list bool) : nat := match l with [] => 0 | true :: r => S (count_true r) | false :: r => count_true r end.

(* Hypothesis' contract used by the status theorem only: an exception raised by a step is what `run` ends with
   (or something at least as bad). *)
Definition rank_step (st : step_out) : nat := match st with StOk => 0 | StFail _ => 1 | StErr => 2 | StKI => 0 end.
Definition rank_end (e : run_end) : nat :=
  match e with ROk => 0 | RFailureGroup => 1 | RFlaky => 1 | RSkipTest => 0 | RUnsat => 0 | ROther => 2 end.
Definition consistent_beh (b : suite_beh) : bool :=
  forallb (fun steps => forallb (fun st => rank_step st <=? rank_end (snd b)) steps) (fst b).

(* numbering for the correspondence: program point reached *)
Definition pcode (s : pstate) : nat :=
  match p_pc s with
  | PTop => 0 | PIntrCheck => 1 | PEarlyIntr => 2 | PEarlyFin => 3 | PScen _ _ => 4 | PCheck _ _ _ _ => 5 | PBody _ _ _ _ => 6
  | PTear _ => 7 | PExcept _ => 8 | PPutIntr => 9 | PPutNFE => 10 | PFinally _ _ => 11 | PDone => 12
  end.

(* One label per OBSERVABLE action of the thread (a put, a flag read, a step body, the end of run): the evaluation of the
   except ladder is not observable from outside, so it is taken together with the action before it.  A schedule of the
   same LTS, used by the correspondence. *)
Definition is_except (pc : ppc) : bool := match pc with PExcept _ => true | _ => false end.
Definition pstep_obs (c : pcfg) (s : pstate) (l : plabel) : pstate :=
  match l with
  | LStop => pstep c s LStop
  | LP => let s' := pstep c s LP in if is_except (p_pc s') then pstep c s' LP else s'
  end.
Definition prun_obs (c : pcfg) (ls : list plabel) (s : pstate) : pstate := fold_left (pstep_obs c) ls s.

(* ---- statuses: a suite is at least as bad as its worst scenario, the phase (the consumer's fold over SuiteFinished)
        at least as bad as every suite.  rk puts SKIP at the bottom ("nothing happened"). ---- *)
Definition rk (st : status) : nat := match st with SKIP => 0 | _ => srank st end.
Definition worst_scenario (l : list pev) : nat := fold_left (fun n st => Nat.max n (rk st)) (scenario_statuses l) 0.
Definition phase_rank (l : list pev) : nat := rk (phase_status l).
