From Coq Require Import List NArith Bool Arith Lia.
From Verif Require Import C11.Model_C11.
Import ListNotations.

(* ------------------------------------------------------------------ *)
(* list update                                                         *)
(* ------------------------------------------------------------------ *)
Lemma upd_length {A} i (x : A) l : length (upd i x l) = length l.
Proof. revert i; induction l as [|y l IH]; intros [|i]; cbn; auto. Qed.

Lemma nth_error_upd_same {A} i (x : A) l : i < length l -> nth_error (upd i x l) i = Some x.
Proof. revert i; induction l as [|y l IH]; intros [|i] H; cbn in *; try lia; auto. apply IH; lia. Qed.

Lemma nth_error_upd_other {A} i j (x : A) l : i <> j -> nth_error (upd i x l) j = nth_error l j.
Proof.
  revert i j; induction l as [|y l IH]; intros [|i] [|j] H; cbn; auto; try congruence.
Qed.

Lemma nth_error_upd {A} i j (x : A) l w :
  nth_error (upd i x l) j = Some w -> (j = i /\ w = x) \/ (j <> i /\ nth_error l j = Some w).
Proof.
  revert i j. induction l as [|y l IH]; intros [|i] [|j] H; cbn in *; try discriminate.
  - inversion H; auto.
  - right. split; [lia|auto].
  - right. split; [lia|auto].
  - destruct (IH _ _ H) as [[-> ->]|[Hne Hn]]; [left; auto | right; split; [lia|auto]].
Qed.

Definition wforall (P : wpc -> Prop) (ws : list wpc) : Prop :=
  forall j w, nth_error ws j = Some w -> P w.

Lemma wforall_upd (P : wpc -> Prop) i x ws : wforall P ws -> P x -> wforall P (upd i x ws).
Proof.
  intros H Hx j w Hj. apply nth_error_upd in Hj. destruct Hj as [[_ ->]|[_ Hj]]; eauto.
Qed.

Lemma wforall_impl (P Q : wpc -> Prop) ws : (forall w, P w -> Q w) -> wforall P ws -> wforall Q ws.
Proof. intros H HP j w Hj. eauto. Qed.

Lemma wforall_repeat (P : wpc -> Prop) w n : P w -> wforall P (repeat w n).
Proof.
  intros H j w' Hj. apply nth_error_In in Hj. apply repeat_spec in Hj. subst; auto.
Qed.

(* ------------------------------------------------------------------ *)
(* Invariant A: every finish is preceded by the start of its scenario  *)
(* ------------------------------------------------------------------ *)
Definition ok_seq (t : list ev) : Prop :=
  forall pre id st post, t = pre ++ ScFinish id st :: post -> In (ScStart id) pre.

Lemma ok_seq_nil : ok_seq [].
Proof. intros [|] ? ? ? H; discriminate. Qed.

Lemma ok_seq_prefix a b : ok_seq (a ++ b) -> ok_seq a.
Proof.
  intros H pre id st post E. apply (H pre id st (post ++ b)). rewrite E, <- app_assoc. reflexivity.
Qed.

Lemma app_eq_mid {A} (a b pre post : list A) x :
  a ++ b = pre ++ x :: post ->
  (exists post', a = pre ++ x :: post' /\ post = post' ++ b) \/
  (exists pre', pre = a ++ pre' /\ b = pre' ++ x :: post).
Proof.
  revert pre. induction a as [|y a IH]; intros pre E.
  - right. exists pre. auto.
  - destruct pre as [|p pre]; cbn in E.
    + inversion E; subst. left. exists a. auto.
    + inversion E; subst. destruct (IH pre H1) as [[post' [-> ->]]|[pre' [-> ->]]].
      * left. exists post'. auto.
      * right. exists pre'. auto.
Qed.

Lemma ok_seq_snoc h e : ok_seq h -> (forall id st, e = ScFinish id st -> In (ScStart id) h) -> ok_seq (h ++ [e]).
Proof.
  intros Hh He pre id st post E. apply app_eq_mid in E.
  destruct E as [[post' [-> _]]|[pre' [-> E]]].
  - eapply Hh. reflexivity.
  - destruct pre' as [|x pre']; cbn in E.
    + inversion E; subst. apply in_or_app. left. eapply He. reflexivity.
    + inversion E. destruct pre'; discriminate.
Qed.

Lemma ok_seq_insert h e k : ok_seq (h ++ k) -> ok_seq (h ++ [e]) -> ok_seq (h ++ e :: k).
Proof.
  intros Hk He pre id st post E.
  apply app_eq_mid in E. destruct E as [[post' [-> _]]|[pre' [-> E]]].
  - apply (ok_seq_prefix _ _ He _ _ _ _ eq_refl).
  - destruct pre' as [|x pre']; cbn in E.
    + inversion E; subst. rewrite app_nil_r. apply (He h id st []). reflexivity.
    + inversion E; subst.
      assert (H := Hk (h ++ pre') id st post). rewrite <- app_assoc in H. specialize (H eq_refl).
      apply in_app_or in H. apply in_or_app. destruct H; [left; auto | right; right; auto].
Qed.

Lemma ok_seq_app_script h k :
  ok_seq h -> (forall pre id st post, k = pre ++ ScFinish id st :: post -> In (ScStart id) (h ++ pre)) ->
  ok_seq (h ++ k).
Proof.
  intros Hh Hk pre id st post E. apply app_eq_mid in E.
  destruct E as [[post' [-> _]]|[pre' [-> E]]].
  - eapply Hh; reflexivity.
  - eapply Hk; eauto.
Qed.

Definition hist (s : state) : list ev := rev (emitted s) ++ queue s.

Definition wok (h : list ev) (w : wpc) : Prop :=
  match w with
  | WCheck o _ _ _ | WSend o _ _ _ => In (ScStart (op_id o)) h
  | WPut k => ok_seq (h ++ k)
  | _ => True
  end.

Definition invA (s : state) : Prop :=
  ok_seq (trace s) /\ (dropped s = [] -> ok_seq (hist s) /\ wforall (wok (hist s)) (workers s)) /\
  (dropped s <> [] -> cp s = CDone).

Lemma wok_mono h e w : ok_seq (h ++ [e]) -> wok h w -> wok (h ++ [e]) w.
Proof.
  intros He. destruct w; cbn; auto.
  - intros H. apply in_or_app; auto.
  - intros H. apply in_or_app; auto.
  - intros H. rewrite <- app_assoc. cbn. apply ok_seq_insert; auto.
Qed.

Lemma script_fin_ok h id st tail_ : ok_seq h -> In (ScStart id) h ->
  (forall pre i s post, tail_ = pre ++ ScFinish i s :: post -> False) ->
  ok_seq (h ++ ScFinish id st :: tail_).
Proof.
  intros Hh Hin Ht. apply ok_seq_app_script; auto.
  intros pre i s post E. destruct pre as [|x pre]; cbn in E.
  - inversion E; subst. rewrite app_nil_r. auto.
  - inversion E; subst. exfalso. eapply Ht; eauto.
Qed.

Lemma no_fin_nil : forall pre i s post, @nil ev = pre ++ ScFinish i s :: post -> False.
Proof. intros [|] ? ? ? H; discriminate. Qed.

Lemma no_fin_interrupt : forall pre i s post, [Interrupt] = pre ++ ScFinish i s :: post -> False.
Proof. intros [|? [|]] ? ? ? H; discriminate. Qed.

Lemma wok_next_case h o rest st : ok_seq h -> In (ScStart (op_id o)) h -> wok h (next_case o rest st).
Proof.
  intros Hh Hin. unfold next_case. destruct rest; cbn; auto.
  unfold final_script. destruct st; apply script_fin_ok; eauto using no_fin_nil.
Qed.

Ltac inv_some := match goal with H : Some _ = Some _ |- _ => inversion H; subst; clear H end.

Lemma invA_worker c s i w : nth_error (workers s) i = Some w -> invA s -> invA (worker_step c s i w).
Proof.
  intros Hi [HA1 [HA2 HA3]].
  assert (Hgen : forall s', emitted s' = emitted s -> dropped s' = dropped s -> cp s' = cp s ->
            (dropped s = [] -> ok_seq (hist s') /\ wforall (wok (hist s')) (workers s')) -> invA s').
  { intros s' E1 E2 E3 H. split; [unfold trace; rewrite E1; exact HA1|]. split; rewrite E2, ?E3; auto. }
  destruct w; cbn [worker_step].
  - (* WLoop *) apply Hgen; try reflexivity. intros Hd. destruct (HA2 Hd) as [Hh Hw]. split; auto.
    apply wforall_upd; auto. destruct (has_to_stop s); cbn; auto.
  - (* WFetch *) destruct (ops s) as [|o rest].
    + apply Hgen; try reflexivity. intros Hd. destruct (HA2 Hd) as [Hh Hw]. split; auto.
      apply wforall_upd; cbn; auto.
    + destruct (build_err o).
      * apply Hgen; try reflexivity. intros Hd. destruct (HA2 Hd) as [Hh Hw]. split; auto.
        apply wforall_upd; auto. cbn. apply ok_seq_app_script; auto.
        intros pre id st post E.
        destruct pre as [|x1 [|x2 [|x3 pre]]]; cbn in E; inversion E; subst.
        -- apply in_or_app; right; left; reflexivity.
        -- destruct pre; discriminate.
      * apply Hgen; try reflexivity. intros Hd. destruct (HA2 Hd) as [Hh Hw]. split; auto.
        apply wforall_upd; cbn; auto.
  - (* WStart *) apply Hgen; try reflexivity. intros Hd. destruct (HA2 Hd) as [Hh Hw].
    unfold hist in *. cbn. rewrite app_assoc.
    assert (Hs : ok_seq ((rev (emitted s) ++ queue s) ++ [ScStart (op_id o)])).
    { apply ok_seq_snoc; auto. intros; discriminate. }
    split; auto. apply wforall_upd.
    + eapply wforall_impl; [|exact Hw]. intros w'. apply wok_mono; auto.
    + apply wok_next_case; auto. apply in_or_app; right; left; reflexivity.
  - (* WCheck *) destruct (has_to_stop s); apply Hgen; try reflexivity; intros Hd;
    destruct (HA2 Hd) as [Hh Hw]; pose proof (Hw _ _ Hi) as Hme; cbn in Hme;
    (split; [exact Hh|]); apply wforall_upd; auto; cbn; auto.
    apply script_fin_ok; eauto using no_fin_interrupt.
  - (* WSend *)
    assert (Hgoal : forall w', (forall h, ok_seq h -> In (ScStart (op_id o)) h -> wok h w') ->
       invA (set_worker {| queue := queue s; emitted := emitted s; ops := ops s; stop := stop s; limit := limit s;
                   counter := counter s; cstatus := cstatus s; executed := executed s; cp := cp s;
                   workers := workers s; sent := (op_id o, has_to_stop s) :: sent s; dropped := dropped s |} i w')).
    { intros w' Hw'. apply Hgen; try reflexivity. intros Hd. destruct (HA2 Hd) as [Hh Hw].
      pose proof (Hw _ _ Hi) as Hme. cbn in Hme. split; auto. apply wforall_upd; auto. }
    destruct c0.
    + apply Hgoal. intros; apply wok_next_case; auto.
    + destruct (cof c); apply Hgoal; intros; [apply wok_next_case; auto|].
      cbn. apply script_fin_ok; eauto using no_fin_nil.
    + apply Hgoal. intros h Hh Hin. cbn. apply ok_seq_app_script; auto.
      intros pre id st0 post E. destruct pre as [|x1 [|x2 pre]]; cbn in E; inversion E; subst.
      * apply in_or_app; left; auto.
      * destruct pre; discriminate.
  - (* WPut *) destruct script as [|e k].
    + apply Hgen; try reflexivity. intros Hd. destruct (HA2 Hd) as [Hh Hw]. split; auto.
      apply wforall_upd; cbn; auto.
    + apply Hgen; try reflexivity. intros Hd. destruct (HA2 Hd) as [Hh Hw].
      pose proof (Hw _ _ Hi) as Hme. cbn in Hme.
      unfold hist in *. cbn. rewrite app_assoc.
      assert (Hs : ok_seq ((rev (emitted s) ++ queue s) ++ [e])).
      { apply (ok_seq_prefix _ k). rewrite <- app_assoc. exact Hme. }
      split; auto. apply wforall_upd.
      * eapply wforall_impl; [|exact Hw]. intros w'. apply wok_mono; auto.
      * unfold after_put. destruct k; cbn; auto. rewrite <- app_assoc. exact Hme.
  - (* WDead *) split; auto.
Qed.

Lemma invA_consumer c s : invA s -> invA (consumer_step c s).
Proof.
  intros [HA1 [HA2 HA3]]. unfold consumer_step. destruct (cp s) eqn:Ecp.
  - destruct (queue s) as [|e q] eqn:Eq.
    + split; auto. cbn. split.
      * intros Hd. destruct (HA2 Hd) as [Hh Hw]. unfold hist in *. cbn. rewrite Eq in Hh, Hw. auto.
      * intros Hd. apply HA3 in Hd. discriminate.
    + assert (Hd : dropped s = []).
      { destruct (dropped s) eqn:Ed; auto. assert (CGet = CDone) by (apply HA3; discriminate). discriminate. }
      destruct (stop s).
      * split; [|split; cbn; [discriminate|reflexivity]]. unfold trace. cbn. apply ok_seq_snoc; auto. intros; discriminate.
      * assert (He : hist s = (rev (emitted s) ++ [e]) ++ q).
        { unfold hist. rewrite Eq, <- app_assoc. reflexivity. }
        destruct (HA2 Hd) as [Hh Hw].
        split; [|split].
        -- unfold trace. cbn. rewrite He in Hh. eapply ok_seq_prefix; eauto.
        -- cbn. intros _. unfold hist in *. cbn. rewrite <- app_assoc. cbn. rewrite Eq in Hh, Hw. auto.
        -- cbn. intros Hd'. congruence.
  - destruct (if counts_as_failure e then count_failure c (counter s) (limit s) else (counter s, limit s)) as [n lim].
    split; auto. split; auto. cbn. intros Hd. apply HA3 in Hd. discriminate.
  - split; auto. split; auto. cbn. intros Hd. apply HA3 in Hd. discriminate.
  - split; auto. split; auto. cbn. intros Hd. apply HA3 in Hd. discriminate.
  - split; auto.
Qed.

Lemma invA_step c s l : invA s -> invA (step c s l).
Proof.
  intros H. destruct l; cbn [step].
  - apply invA_consumer; auto.
  - destruct (nth_error (workers s) i) eqn:E; auto. apply invA_worker; auto.
  - destruct H as [H1 [H2 H3]]. split; auto.
Qed.

Lemma invA_init n os : invA (init n os).
Proof.
  split; [apply ok_seq_nil|]. split; [|intros H; exfalso; apply H; reflexivity].
  intros _. split; [apply ok_seq_nil|]. apply wforall_repeat. exact I.
Qed.

Lemma run_inv (P : state -> Prop) c : (forall s l, P s -> P (step c s l)) ->
  forall sched s, P s -> P (run c sched s).
Proof.
  intros Hstep sched. induction sched as [|l sched IH]; intros s H; cbn; auto.
  apply IH. apply Hstep. exact H.
Qed.

Lemma invA_run c sched n os : invA (run c sched (init n os)).
Proof. apply run_inv; [intros; apply invA_step; auto | apply invA_init]. Qed.

(* boolean reading of ok_seq *)
Lemma fhs_spec t : forall seen, (forall pre id st post, t = pre ++ ScFinish id st :: post -> In (ScStart id) (rev seen ++ pre)) ->
  finishes_have_starts seen t = true.
Proof.
  induction t as [|e t IH]; intros seen H; cbn; auto.
  apply andb_true_iff. split.
  - destruct e; auto. specialize (H [] id st t eq_refl). rewrite app_nil_r in H.
    apply existsb_exists. exists (ScStart id). split; [apply in_rev; exact H | cbn; apply Nat.eqb_refl].
  - apply IH. intros pre id st post E. subst t. specialize (H (e :: pre) id st post eq_refl).
    cbn. rewrite <- app_assoc. exact H.
Qed.

Lemma finish_has_start c sched n os : finishes_have_starts [] (trace (run c sched (init n os))) = true.
Proof.
  apply fhs_spec. destruct (invA_run c sched n os) as [H _]. intros pre id st post E. cbn. eapply H; eauto.
Qed.

(* ------------------------------------------------------------------ *)
(* Invariant B: a started scenario is finished or still owed by a worker *)
(* ------------------------------------------------------------------ *)
Definition owes (w : wpc) (id : nat) : Prop :=
  match w with
  | WCheck o _ _ _ | WSend o _ _ _ => op_id o = id
  | WPut k => exists st, In (ScFinish id st) k
  | _ => False
  end.

Definition script_ok (w : wpc) : Prop :=
  match w with
  | WPut k => (forall id, ~ In (ScStart id) k) \/ exists id, k = [ScStart id; NonFatal id; ScFinish id ERROR]
  | _ => True
  end.

Definition covered (h : list ev) (ws : list wpc) (id : nat) : Prop :=
  (exists st, In (ScFinish id st) h) \/ exists j w, nth_error ws j = Some w /\ owes w id.

Definition invB (s : state) : Prop :=
  wforall script_ok (workers s) /\
  (dropped s = [] -> forall id, In (ScStart id) (hist s) -> covered (hist s) (workers s) id).

Lemma covered_step h ws i w w' added id :
  nth_error ws i = Some w ->
  (forall id, owes w id -> owes w' id \/ exists st, In (ScFinish id st) added) ->
  covered h ws id -> covered (h ++ added) (upd i w' ws) id.
Proof.
  intros Hi Hkeep [[st H]|[j [wj [Hj Ho]]]].
  - left. exists st. apply in_or_app; auto.
  - destruct (Nat.eq_dec j i) as [->|Hne].
    + rewrite Hi in Hj. inversion Hj; subst wj. destruct (Hkeep _ Ho) as [H|[st H]].
      * right. exists i, w'. split; auto. apply nth_error_upd_same. apply nth_error_Some. congruence.
      * left. exists st. apply in_or_app; auto.
    + right. exists j, wj. split; auto. rewrite nth_error_upd_other; auto.
Qed.

Lemma invB_set s s' i w w' added :
  nth_error (workers s) i = Some w ->
  hist s' = hist s ++ added -> workers s' = upd i w' (workers s) -> dropped s' = dropped s ->
  script_ok w' ->
  (forall id, owes w id -> owes w' id \/ exists st, In (ScFinish id st) added) ->
  (forall id, In (ScStart id) added -> owes w' id \/ exists st, In (ScFinish id st) added) ->
  invB s -> invB s'.
Proof.
  intros Hi Hh Hw Hd Hok Hkeep Hnew [HS HB]. split.
  - rewrite Hw. apply wforall_upd; auto.
  - rewrite Hd, Hh, Hw. intros Hd0 id Hin. apply in_app_or in Hin. destruct Hin as [Hin|Hin].
    + eapply covered_step; eauto.
    + destruct (Hnew _ Hin) as [H|[st H]].
      * right. exists i, w'. split; auto. apply nth_error_upd_same. apply nth_error_Some. congruence.
      * left. exists st. apply in_or_app; auto.
Qed.

Lemma hist_put s e : hist (put s e) = hist s ++ [e].
Proof. unfold hist, put. cbn. rewrite app_assoc. reflexivity. Qed.

Lemma owes_next_case o rest st : owes (next_case o rest st) (op_id o).
Proof.
  unfold next_case. destruct rest; cbn; auto. unfold final_script.
  destruct st; eexists; left; reflexivity.
Qed.

Lemma script_ok_next_case o rest st : script_ok (next_case o rest st).
Proof.
  unfold next_case. destruct rest; cbn; auto. left. intros id. unfold final_script.
  destruct st; cbn; intros [H|[]]; discriminate.
Qed.

Ltac bset w' added :=
  match goal with Hi : nth_error (workers ?s) ?i = Some _, HB : invB ?s |- _ =>
    apply (invB_set s _ i _ w' added Hi); [ | reflexivity | reflexivity | | | | exact HB]
  end.

Lemma invB_worker c s i w : nth_error (workers s) i = Some w -> invB s -> invB (worker_step c s i w).
Proof.
  intros Hi HB. pose proof HB as [HS _]. pose proof (HS _ _ Hi) as Hsk.
  destruct w; cbn [worker_step].
  - destruct (has_to_stop s).
    + bset WDead (@nil ev); cbn; try (rewrite app_nil_r; reflexivity); auto; intros ? [].
    + bset WFetch (@nil ev); cbn; try (rewrite app_nil_r; reflexivity); auto; intros ? [].
  - destruct (ops s) as [|o rest].
    + bset WDead (@nil ev); cbn; try (rewrite app_nil_r; reflexivity); auto; intros ? [].
    + destruct (build_err o).
      * bset (WPut [ScStart (op_id o); NonFatal (op_id o); ScFinish (op_id o) ERROR]) (@nil ev);
          cbn; try (rewrite app_nil_r; reflexivity); auto; try (intros ? []).
        right. eexists; reflexivity.
      * bset (WStart o) (@nil ev); cbn; try (rewrite app_nil_r; reflexivity); auto; intros ? [].
  - bset (next_case o (cases o) SUCCESS) [ScStart (op_id o)].
    + cbn. unfold hist. cbn. rewrite app_assoc. reflexivity.
    + apply script_ok_next_case.
    + intros ? [].
    + intros id [H|[]]. inversion H; subst. left. apply owes_next_case.
  - destruct (has_to_stop s).
    + bset (WPut [ScFinish (op_id o) INTERRUPTED; Interrupt]) (@nil ev); cbn; try (rewrite app_nil_r; reflexivity).
      * left. intros id [H|[H|[]]]; discriminate.
      * intros id <-. left. eexists. left. reflexivity.
      * intros ? [].
    + bset (WSend o c0 rest st) (@nil ev); cbn; try (rewrite app_nil_r; reflexivity); auto. intros ? [].
  - assert (Hg : forall w', script_ok w' -> owes w' (op_id o) ->
       invB (set_worker {| queue := queue s; emitted := emitted s; ops := ops s; stop := stop s; limit := limit s;
                   counter := counter s; cstatus := cstatus s; executed := executed s; cp := cp s;
                   workers := workers s; sent := (op_id o, has_to_stop s) :: sent s; dropped := dropped s |} i w')).
    { intros w' H1 H2. bset w' (@nil ev); cbn; try (rewrite app_nil_r; reflexivity); auto.
      - intros id <-. auto.
      - intros ? []. }
    destruct c0.
    + apply Hg; [apply script_ok_next_case | apply owes_next_case].
    + destruct (cof c); apply Hg; try apply script_ok_next_case; try apply owes_next_case.
      * left. intros id [H|[]]; discriminate.
      * eexists; left; reflexivity.
    + apply Hg.
      * left. intros id [H|[H|[]]]; discriminate.
      * eexists; right; left; reflexivity.
  - destruct script as [|e k].
    + bset WLoop (@nil ev); cbn; try (rewrite app_nil_r; reflexivity); auto;
        try (intros ? [? []]); try (intros ? []).
    + bset (after_put k) [e].
      * apply hist_put.
      * cbn in Hsk. unfold after_put. destruct k as [|e2 k]; cbn; auto.
        destruct Hsk as [Hno|[id E]].
        -- left. intros id H. apply (Hno id). right. exact H.
        -- inversion E; subst. left. intros id' [H|[H|[]]]; discriminate.
      * intros id [st [H|H]].
        -- right. exists st. left. exact H.
        -- left. unfold after_put. destruct k; [destruct H|]. exists st. exact H.
      * intros id [H|[]]. subst e. cbn in Hsk. destruct Hsk as [Hno|[id' E]].
        -- exfalso. apply (Hno id). left. reflexivity.
        -- inversion E; subst. left. cbn. eexists. right. left. reflexivity.
  - exact HB.
Qed.

Lemma invB_consumer c s : invA s -> invB s -> invB (consumer_step c s).
Proof.
  intros [_ [_ HA3]] [HS HB]. unfold consumer_step. destruct (cp s) eqn:Ecp.
  - destruct (queue s) as [|e q] eqn:Eq.
    + split; auto. cbn. intros Hd id Hin. unfold hist in *. cbn in *. rewrite Eq in HB. apply HB; auto.
    + destruct (stop s).
      * split; auto. cbn. discriminate.
      * split; auto. cbn. intros Hd id. unfold hist in *. cbn. rewrite <- app_assoc. cbn.
        rewrite Eq in HB. apply HB; auto.
  - destruct (if counts_as_failure e then count_failure c (counter s) (limit s) else (counter s, limit s)) as [n lim].
    split; auto.
  - split; auto.
  - split; auto.
  - split; auto.
Qed.

Lemma invAB_step c s l : invA s /\ invB s -> invA (step c s l) /\ invB (step c s l).
Proof.
  intros [HA HB]. split; [apply invA_step; auto|].
  destruct l; cbn [step].
  - apply invB_consumer; auto.
  - destruct (nth_error (workers s) i) eqn:E; auto. apply invB_worker; auto.
  - destruct HB as [H1 H2]. split; auto.
Qed.

Lemma invB_init n os : invB (init n os).
Proof.
  split; [apply wforall_repeat; exact I|]. intros _ id []. 
Qed.

(* ------------------------------------------------------------------ *)
(* Invariant C: how the consumer can be done without a stop request     *)
(* ------------------------------------------------------------------ *)
Definition invC (c : cfg) (s : state) : Prop :=
  (maxf c = None -> limit s = false) /\
  (cp s = CDone -> has_to_stop s = false ->
     forallb is_dead (workers s) = true /\ queue s = [] /\ dropped s = []) /\
  (cp s = CEmpty -> forallb is_dead (workers s) = true).

Lemma all_dead_nth ws i w : forallb is_dead ws = true -> nth_error ws i = Some w -> w = WDead.
Proof.
  intros H Hi. rewrite forallb_forall in H. apply nth_error_In in Hi. specialize (H _ Hi). destruct w; try discriminate; auto.
Qed.

Lemma worker_step_flags c s i w :
  stop (worker_step c s i w) = stop s /\ limit (worker_step c s i w) = limit s /\ cp (worker_step c s i w) = cp s.
Proof.
  destruct w; cbn [worker_step]; auto.
  - destruct (ops s); auto. destruct (build_err o); auto.
  - destruct (has_to_stop s); auto.
  - destruct c0; auto. destruct (cof c); auto.
  - destruct script; auto.
Qed.

Lemma invC_step c s l : drain_fix c = true -> invA s -> invC c s -> invC c (step c s l).
Proof.
  intros Hfix [_ [_ HA3]] [HC1 [HC2 HC3]]. destruct l; cbn [step].
  - unfold consumer_step. destruct (cp s) eqn:Ecp.
    + destruct (queue s) as [|e q] eqn:Eq.
      * split; auto. split; cbn; intros H; discriminate H.
      * destruct (stop s) eqn:Es.
        -- split; auto. split; cbn; [unfold has_to_stop; cbn; intros _ H; discriminate H | intros H; discriminate H].
        -- split; auto. split; cbn; intros H; discriminate H.
    + destruct (if counts_as_failure e then count_failure c (counter s) (limit s) else (counter s, limit s))
        as [n lim] eqn:E.
      assert (Hl : maxf c = None -> lim = false).
      { intros Hm. destruct (counts_as_failure e).
        - unfold count_failure in E. rewrite Hm in E. inversion E; subst. auto.
        - inversion E; subst. auto. }
      split; [exact Hl|]. split; cbn; unfold has_to_stop; cbn.
      * destruct ((if is_interrupt e || stop s then true else stop s) || lim); [intros _ H; discriminate H | intros H; discriminate H].
      * destruct ((if is_interrupt e || stop s then true else stop s) || lim); intros H; discriminate H.
    + split; auto. cbn. rewrite Hfix.
      destruct (forallb is_dead (workers s)) eqn:Ed; split; intros H; try discriminate H; auto.
    + (* CEmpty: all workers are dead; leave iff the queue is empty *)
      specialize (HC3 eq_refl).
      split; auto. cbn. destruct (queue s) eqn:Eq; split; intros H; try discriminate H.
      intros _. split; auto. split; auto.
      destruct (dropped s) eqn:Edr; auto. assert (CEmpty = CDone) by (apply HA3; discriminate). discriminate.
    + split; auto. rewrite Ecp. split; [intros _; apply HC2; reflexivity | intros H; discriminate H].
  - destruct (nth_error (workers s) i) eqn:Ei; [|split; auto].
    destruct (worker_step_flags c s i w) as (F1 & F2 & F3).
    split; [rewrite F2; auto|]. rewrite F3. unfold has_to_stop. rewrite F1, F2. split.
    + intros Hcp Hs. destruct (HC2 Hcp Hs) as (D1 & D2 & D3).
      assert (w = WDead) by (eapply all_dead_nth; eauto). subst w. cbn. auto.
    + intros Hcp. specialize (HC3 Hcp).
      assert (w = WDead) by (eapply all_dead_nth; eauto). subst w. cbn. auto.
  - split; auto. split; cbn; [unfold has_to_stop; cbn; intros _ H; discriminate H | exact HC3].
Qed.

Lemma invC_init c n os : invC c (init n os).
Proof. split; auto. split; cbn; intros H; discriminate H. Qed.

Definition invABC c s := invA s /\ invB s /\ invC c s.

Lemma invABC_run c sched n os : drain_fix c = true -> invABC c (run c sched (init n os)).
Proof.
  intros Hfix. apply run_inv.
  - intros s l (HA & HB & HC). destruct (invAB_step c s l (conj HA HB)) as [HA' HB'].
    split; [exact HA'|]. split; [exact HB'|]. apply invC_step; auto.
  - split; [apply invA_init|]. split; [apply invB_init | apply invC_init].
Qed.

Lemma in_started_ids id t : In id (started_ids t) <-> In (ScStart id) t.
Proof.
  unfold started_ids. rewrite in_flat_map. split.
  - intros [e [He Hi]]. destruct e; cbn in Hi; try contradiction. destruct Hi as [->|[]]. exact He.
  - intros H. exists (ScStart id). split; auto. left; reflexivity.
Qed.

Lemma closed_unless_stopped c sched n os :
  drain_fix c = true ->
  let s := run c sched (init n os) in
  cp s = CDone -> has_to_stop s = false -> all_closed (trace s) = true.
Proof.
  intros Hfix s Hcp Hs. destruct (invABC_run c sched n os Hfix) as (HA & [_ HB] & [_ [HC _]]).
  fold s in HA, HB, HC. destruct (HC Hcp Hs) as (D1 & D2 & D3).
  unfold all_closed. apply forallb_forall. intros id Hid. apply in_started_ids in Hid.
  assert (Hh : hist s = trace s) by (unfold hist, trace; rewrite D2, app_nil_r; reflexivity).
  rewrite <- Hh in Hid. destruct (HB D3 id Hid) as [[st H]|[j [w [Hj Ho]]]].
  - apply existsb_exists. exists (ScFinish id st). rewrite <- Hh. split; auto. cbn. apply Nat.eqb_refl.
  - assert (w = WDead) by (eapply all_dead_nth; eauto). subst w. destruct Ho.
Qed.

Lemma closed_unless_interrupted c sched n os :
  drain_fix c = true -> maxf c = None ->
  let s := run c sched (init n os) in
  cp s = CDone -> stop s = false -> all_closed (trace s) = true.
Proof.
  intros Hfix Hm s Hcp Hs. apply closed_unless_stopped; auto.
  destruct (invABC_run c sched n os Hfix) as (_ & _ & [HC _]). fold s in HC.
  unfold has_to_stop. subst s. rewrite (HC Hm). rewrite Hs. reflexivity.
Qed.

(* ------------------------------------------------------------------ *)
(* Witnesses                                                           *)
(* ------------------------------------------------------------------ *)
Definition op_ok (id : nat) (k : nat) : opb :=
  {| op_id := id; build_err := false; cases := repeat CaseOk k; end_skip := false |}.
Definition op_fail (id : nat) : opb :=
  {| op_id := id; build_err := false; cases := [CaseFail]; end_skip := false |}.

Definition cfg_now (m : option nat) : cfg := {| maxf := m; cof := false; drain_fix := true |}.
Definition cfg_before_fix : cfg := {| maxf := None; cof := false; drain_fix := false |}.

(* (b) two workers, max_failures = 1: scenario 1 is announced and never closed, nobody asked to stop *)
Definition sched_limit : list label :=
  [W 0; W 0; W 1; W 1; W 0; W 1; W 0; W 0; W 0; C; C; C; C; C; C].
Lemma closed_refuted_failure_limit :
  let s := run (cfg_now (Some 1)) sched_limit (init 2 [op_fail 0; op_ok 1 2]) in
  cp s = CDone /\ stop s = false /\ all_closed (trace s) = false /\
  trace s = [ScStart 0; ScStart 1; ScFinish 0 FAILURE].
Proof. vm_compute. repeat split; reflexivity. Qed.

(* (a) the code before the fix: timeout, then the worker puts its last event and dies, then the liveness test *)
Definition sched_race : list label :=
  [W 0; W 0; W 0; W 0; W 0; W 0; W 0; C; C; C; W 0; W 0; W 0; C].
Lemma race_refuted_before_fix :
  let s := run cfg_before_fix sched_race (init 1 [op_ok 0 2]) in
  cp s = CDone /\ has_to_stop s = false /\ all_closed (trace s) = false /\ trace s = [ScStart 0].
Proof. vm_compute. repeat split; reflexivity. Qed.
(* the same schedule on the code as it is now *)
Lemma race_schedule_now :
  let s := run (cfg_now None) (sched_race ++ [C; C; C; C; C; C]) (init 1 [op_ok 0 2]) in
  cp s = CDone /\ has_to_stop s = false /\ trace s = [ScStart 0; ScFinish 0 SUCCESS].
Proof. vm_compute. repeat split; reflexivity. Qed.

Lemma run_workers_length c sched : forall s, length (workers (run c sched s)) = length (workers s).
Proof.
  induction sched as [|l sched IH]; intros s; [reflexivity|].
  change (run c (l :: sched) s) with (run c sched (step c s l)). rewrite IH.
  destruct l; cbn [step]; auto.
  - unfold consumer_step. destruct (cp s); auto.
    + destruct (queue s); auto. destruct (stop s); auto.
    + destruct (if counts_as_failure e then count_failure c (counter s) (limit s) else (counter s, limit s)); auto.
  - destruct (nth_error (workers s) i) eqn:E; auto.
    destruct w; cbn [worker_step]; try (cbn; apply upd_length); auto.
    + destruct (ops s); [cbn; apply upd_length|]. destruct (build_err o); cbn; apply upd_length.
    + destruct (has_to_stop s); cbn; apply upd_length.
    + destruct c0; [cbn; apply upd_length | destruct (cof c); cbn; apply upd_length | cbn; apply upd_length].
    + destruct script; cbn; apply upd_length.
Qed.


(* ------------------------------------------------------------------ *)
(* plan level: one start, one finish last, phases in order, each opened and closed once *)
(* ------------------------------------------------------------------ *)
Lemma plan_loop_wf phases : forall p st lim,
  plan_wf_body p None (plan_loop p phases st lim ++ [EngineFinished]) = true.
Proof.
  induction phases as [|[pc pr] rest IH]; intros p st lim; [reflexivity|].
  cbn [plan_loop].
  destruct (enabled pc && negb (st || lim)); cbn [app plan_wf_body]; rewrite ?Nat.eqb_refl; cbn [andb].
  - destruct (r_stop pr); [reflexivity | apply IH].
  - destruct st; [reflexivity | apply IH].
Qed.

Lemma plan_events_wf phases stop0 : plan_wf (plan_events phases stop0) = true.
Proof.
  unfold plan_events. destruct stop0; [reflexivity|]. cbn [plan_wf]. apply plan_loop_wf.
Qed.

Lemma plan_nothing_after_finish phases stop0 :
  exists t, plan_events phases stop0 = EngineStarted :: t ++ [EngineFinished] /\ ~ In EngineFinished t /\ ~ In EngineStarted t.
Proof.
  unfold plan_events. destruct stop0.
  - exists []. repeat split; auto.
  - exists (plan_loop 0 phases false false). split; [reflexivity|].
    assert (H : forall p st lim e, In e (plan_loop p phases st lim) -> e <> EngineFinished /\ e <> EngineStarted).
    { induction phases as [|[pc pr] rest IH]; intros p st lim e Hin; [destruct Hin|].
      cbn [plan_loop] in Hin. apply in_app_or in Hin. destruct Hin as [Hin|Hin].
      - destruct (enabled pc && negb (st || lim)); cbn in Hin;
          repeat (destruct Hin as [<-|Hin]; [split; discriminate|]); destruct Hin.
      - destruct (if enabled pc && negb (st || lim) then r_stop pr else st); [destruct Hin | eapply IH; eauto]. }
    split; intros Hin; apply H in Hin; destruct Hin; congruence.
Qed.

(* the event being post-processed by the consumer is the last one it emitted *)
Definition invP (s : state) : Prop := forall e, cp s = CPost e -> exists t, emitted s = e :: t.

Lemma invP_step c s l : invP s -> invP (step c s l).
Proof.
  intros HP. destruct l; cbn [step].
  - unfold consumer_step. destruct (cp s) eqn:Ecp.
    + destruct (queue s) as [|e q]; [intros e He; discriminate|].
      destruct (stop s); intros e0 He; cbn in He; [discriminate|]. inversion He; subst. eexists; reflexivity.
    + destruct (if counts_as_failure e then count_failure c (counter s) (limit s) else (counter s, limit s)) as [n lim].
      intros e0 He. cbn in He. destruct ((if is_interrupt e || stop s then true else stop s) || lim); discriminate.
    + intros e0 He. cbn in He.
      destruct (forallb is_dead (workers s)); [destruct (drain_fix c)|]; discriminate.
    + intros e0 He. cbn in He. destruct (queue s); discriminate.
    + intros e0 He. rewrite Ecp in He. discriminate.
  - destruct (nth_error (workers s) i) eqn:Ei; auto.
    destruct (worker_step_flags c s i w) as (_ & _ & F3).
    assert (F4 : emitted (worker_step c s i w) = emitted s).
    { destruct w; cbn [worker_step]; auto.
      - destruct (ops s); auto. destruct (build_err o); auto.
      - destruct (has_to_stop s); auto.
      - destruct c0; auto. destruct (cof c); auto.
      - destruct script; auto. }
    intros e He. rewrite F3 in He. rewrite F4. auto.
  - exact HP.
Qed.

Lemma invP_init n os : invP (init n os).
Proof. intros e He. discriminate. Qed.


(* ------------------------------------------------------------------ *)
(* Status consistency: the phase is at least as bad as its worst scenario *)
(* ------------------------------------------------------------------ *)
Definition hot (e : ev) : bool :=
  match e with Interrupt => true | ScFinish _ INTERRUPTED => true | _ => false end.

Definition wcool (w : wpc) : Prop :=
  match w with WPut k => forallb (fun e => negb (hot e)) k = true | _ => True end.

(* F: interruption events exist only after somebody asked to stop (or the limit was reached) *)
Definition invF (s : state) : Prop :=
  has_to_stop s = false ->
  forallb (fun e => negb (hot e)) (queue s) = true /\ wforall wcool (workers s) /\
  (forall e, cp s = CPost e -> hot e = false).

Definition low_status (cur : option status) : Prop :=
  match cur with None => True | Some st => srank st <= 2 end.

Definition processed (s : state) : list ev :=
  match cp s with CPost _ => tl (emitted s) | _ => emitted s end.

Definition invE (s : state) : Prop :=
  (cp s <> CDone -> low_status (cstatus s)) /\
  (forall id st, In (ScFinish id st) (processed s) -> st <> SKIP ->
     exists cur, cstatus s = Some cur /\ srank st <= srank cur) /\
  (emitted s <> [] -> executed s = true).

Lemma has_to_stop_mono_worker c s i w : has_to_stop (worker_step c s i w) = has_to_stop s.
Proof. destruct (worker_step_flags c s i w) as (F1 & F2 & _). unfold has_to_stop. rewrite F1, F2. reflexivity. Qed.

Lemma cool_final o st : st <> INTERRUPTED -> forallb (fun e => negb (hot e)) (final_script o st) = true.
Proof. intros H. unfold final_script. destruct st; cbn; auto; try (destruct (end_skip o); reflexivity); try (exfalso; apply H; reflexivity). Qed.

Definition st_calm (w : wpc) : Prop :=
  match w with WCheck _ _ _ st | WSend _ _ _ st => st = SUCCESS \/ st = FAILURE | _ => True end.

Lemma st_calm_next_case o rest st : st = SUCCESS \/ st = FAILURE -> st_calm (next_case o rest st).
Proof. intros H. unfold next_case. destruct rest; cbn; auto. Qed.

Lemma wcool_next_case o rest st : st = SUCCESS \/ st = FAILURE -> wcool (next_case o rest st).
Proof.
  intros H. unfold next_case. destruct rest; cbn; auto. apply cool_final. destruct H as [-> | ->]; discriminate.
Qed.

(* the accumulated status of a running test is SUCCESS or FAILURE: for every reachable state *)
Lemma st_calm_worker c s i w : nth_error (workers s) i = Some w -> wforall st_calm (workers s) ->
  wforall st_calm (workers (worker_step c s i w)).
Proof.
  intros Hi Hall. pose proof (Hall _ _ Hi) as Hme.
  destruct w; cbn [worker_step]; cbn [workers set_worker put]; try (apply wforall_upd; cbn; auto; fail).
  - destruct (has_to_stop s); cbn; apply wforall_upd; cbn; auto.
  - destruct (ops s); [cbn; apply wforall_upd; cbn; auto|]. destruct (build_err o); cbn; apply wforall_upd; cbn; auto.
  - cbn. apply wforall_upd; auto. apply st_calm_next_case. auto.
  - destruct (has_to_stop s); cbn; apply wforall_upd; cbn; auto.
  - cbn in Hme. destruct c0; [|destruct (cof c)|]; cbn; apply wforall_upd; auto; try apply st_calm_next_case; cbn; auto.
  - destruct script; cbn; apply wforall_upd; cbn; auto. unfold after_put. destruct script; cbn; auto.
  - exact Hall.
Qed.

Lemma invF_worker c s i w : nth_error (workers s) i = Some w -> wforall st_calm (workers s) -> invF s -> invF (worker_step c s i w).
Proof.
  intros Hi Hcalm HF. unfold invF. rewrite has_to_stop_mono_worker. intros Hs. destruct (HF Hs) as (F1 & F2 & F3).
  destruct (worker_step_flags c s i w) as (_ & _ & Fcp). rewrite Fcp.
  pose proof (F2 _ _ Hi) as Hme. pose proof (Hcalm _ _ Hi) as Hst.
  assert (Hset : forall s' w', queue s' = queue s -> workers s' = upd i w' (workers s) -> wcool w' ->
            forallb (fun e => negb (hot e)) (queue s') = true /\ wforall wcool (workers s') /\
            (forall e, cp s = CPost e -> hot e = false)).
  { intros s' w' E1 E2 Hw. rewrite E1, E2. split; auto. split; auto. apply wforall_upd; auto. }
  assert (Hputq : forall e w', hot e = false -> wcool w' ->
            forallb (fun e => negb (hot e)) (queue (set_worker (put s e) i w')) = true /\
            wforall wcool (workers (set_worker (put s e) i w')) /\ (forall e, cp s = CPost e -> hot e = false)).
  { intros e w' He Hw. cbn. rewrite forallb_app, F1. cbn. rewrite He. cbn. split; auto. split; auto. apply wforall_upd; auto. }
  destruct w; cbn [worker_step].
  - rewrite Hs. apply (Hset _ WFetch); auto; try exact I.
  - destruct (ops s) as [|o rest]; [apply (Hset _ WDead); auto; try exact I|].
    destruct (build_err o).
    + apply (Hset _ (WPut [ScStart (op_id o); NonFatal (op_id o); ScFinish (op_id o) ERROR])); auto; reflexivity.
    + apply (Hset _ (WStart o)); auto; try exact I.
  - apply Hputq; auto. apply wcool_next_case. auto.
  - rewrite Hs. apply (Hset _ (WSend o c0 rest st)); auto; try exact I.
  - cbn in Hst. destruct c0; [|destruct (cof c)|].
    + apply (Hset _ (next_case o rest st)); auto. apply wcool_next_case; auto.
    + apply (Hset _ (next_case o rest FAILURE)); auto. apply wcool_next_case; auto.
    + apply (Hset _ (WPut [ScFinish (op_id o) FAILURE])); auto; reflexivity.
    + apply (Hset _ (WPut [NonFatal (op_id o); ScFinish (op_id o) ERROR])); auto; reflexivity.
  - destruct script as [|e k]; [apply (Hset _ WLoop); auto; try exact I|].
    cbn in Hme. apply andb_true_iff in Hme. destruct Hme as [He Hk]. apply negb_true_iff in He.
    apply Hputq; auto. unfold after_put. destruct k; cbn; auto.
  - auto.
Qed.

Lemma count_failure_limit_mono c e k l0 n lim :
  (if counts_as_failure e then count_failure c k l0 else (k, l0)) = (n, lim) ->
  l0 = true -> lim = true.
Proof.
  intros E Hl. destruct (counts_as_failure e); [|inversion E; subst; auto].
  unfold count_failure in E. destruct (maxf c); inversion E; subst; auto. destruct (_ <=? _); auto.
Qed.

Lemma invF_consumer c s : invP s -> invF s -> invF (consumer_step c s).
Proof.
  intros HP HF. unfold consumer_step. destruct (cp s) eqn:Ecp.
  - destruct (queue s) as [|e q] eqn:Eq.
    + unfold invF, has_to_stop in *. cbn. rewrite Eq in HF. intros Hs. destruct (HF Hs) as (F1 & F2 & F3).
      split; auto. split; auto. intros e He; discriminate.
    + destruct (stop s) eqn:Es.
      * unfold invF, has_to_stop. cbn. intros H; discriminate.
      * unfold invF, has_to_stop in *. cbn. rewrite Es, Eq in *. intros Hs. destruct (HF Hs) as (F1 & F2 & F3).
        cbn in F1. apply andb_true_iff in F1. destruct F1 as [He Hq]. apply negb_true_iff in He.
        split; auto. split; auto. intros e0 H0. inversion H0; subst. exact He.
  - destruct (if counts_as_failure e then count_failure c (counter s) (limit s) else (counter s, limit s)) as [n lim] eqn:E.
    unfold invF, has_to_stop in *. cbn. intros Hs.
    assert (Hold : stop s || limit s = false).
    { destruct (stop s) eqn:Es.
      - rewrite orb_true_r in Hs. cbn in Hs. discriminate.
      - cbn. destruct (limit s) eqn:El; auto. rewrite (count_failure_limit_mono _ _ _ _ _ _ E eq_refl) in Hs.
        rewrite orb_true_r in Hs. discriminate. }
    destruct (HF Hold) as (F1 & F2 & F3). split; auto. split; auto.
    intros e0 H0. destruct ((if is_interrupt e || stop s then true else stop s) || lim); discriminate.
  - unfold invF, has_to_stop in *. cbn. intros Hs. destruct (HF Hs) as (F1 & F2 & F3). split; auto. split; auto.
    intros e0 H0. destruct (forallb is_dead (workers s)); [destruct (drain_fix c)|]; discriminate.
  - unfold invF, has_to_stop in *. cbn. intros Hs. destruct (HF Hs) as (F1 & F2 & F3). split; auto. split; auto.
    intros e0 H0. destruct (queue s); discriminate.
  - exact HF.
Qed.

Lemma invE_consumer c s : invP s -> invF s -> invE s -> invE (consumer_step c s).
Proof.
  intros HP HF (E1 & E2 & E3). unfold consumer_step. destruct (cp s) eqn:Ecp.
  - unfold processed in E2. rewrite Ecp in E2.
    destruct (queue s) as [|e q] eqn:Eq.
    + unfold invE, processed. cbn [cp emitted cstatus executed]. split; [intros _; apply E1; discriminate|]. split; auto.
    + destruct (stop s) eqn:Es.
      * unfold invE, processed. cbn [cp emitted cstatus executed]. split; [intros H; exfalso; apply H; reflexivity|]. split; [|auto].
        intros id st [H|H] Hne; [discriminate|]. exists INTERRUPTED. split; auto.
        destruct st; cbn; try lia. exfalso; apply Hne; reflexivity.
      * unfold invE, processed. cbn [cp emitted cstatus executed tl]. split; [intros _; apply E1; discriminate|]. split; auto.
  - destruct (HP e Ecp) as [t Et]. unfold processed in E2. rewrite Ecp, Et in E2. cbn [tl] in E2.
    assert (Hlow : low_status (cstatus s)) by (apply E1; discriminate).
    destruct (if counts_as_failure e then count_failure c (counter s) (limit s) else (counter s, limit s)) as [n lim] eqn:E.
    unfold invE, processed. cbn [cp emitted cstatus executed].
    assert (Hproc : forall b : bool, match (if b then CDone else CGet) with CPost _ => tl (emitted s) | _ => emitted s end = e :: t).
    { intros []; exact Et. }
    rewrite Hproc.
    destruct (is_interrupt e || stop s) eqn:Eint.
    + (* interrupted *)
      cbn [orb]. split; [intros H; exfalso; apply H; reflexivity|]. split; [|auto].
      intros id st Hin Hne. exists INTERRUPTED. split; auto. destruct st; cbn; try lia. exfalso; apply Hne; reflexivity.
    + apply orb_false_iff in Eint. destruct Eint as [Ei Es]. rewrite Es. cbn [orb].
      split; [|split; [|auto]].
      * (* still running: nobody asked to stop, so e is not an interruption event *)
        intros Hrun. destruct lim eqn:El; [exfalso; apply Hrun; reflexivity|].
        assert (Hts : has_to_stop s = false).
        { unfold has_to_stop. rewrite Es. cbn. destruct (limit s) eqn:Els; auto.
          pose proof (count_failure_limit_mono _ _ _ _ _ _ E eq_refl) as Hc. discriminate Hc. }
        destruct (HF Hts) as (_ & _ & F3). specialize (F3 e Ecp).
        destruct e; cbn; auto. destruct st; cbn in F3; try discriminate; destruct (cstatus s) as [[]|]; cbn in *; auto; lia.
      * intros id st [H|H] Hne.
        -- subst e. cbn. destruct st; try (exfalso; apply Hne; reflexivity);
             destruct (cstatus s) as [[]|]; cbn in *; eexists; split; try reflexivity; cbn; lia.
        -- destruct (E2 id st H Hne) as [cur [Ec Hr]]. rewrite Ec in *. cbn in Hlow.
           destruct e; cbn; try (exists cur; split; auto; fail).
           ++ exists ERROR. split; auto. cbn. lia.
           ++ destruct st0; cbn; try (exists cur; split; auto; fail);
                destruct cur; cbn in *; eexists; split; try reflexivity; cbn; lia.
  - unfold processed in E2. rewrite Ecp in E2. unfold invE, processed. cbn [cp emitted cstatus executed].
    split; [intros _; apply E1; discriminate|]. split; auto.
    destruct (forallb is_dead (workers s)); [destruct (drain_fix c)|]; auto.
  - unfold processed in E2. rewrite Ecp in E2. unfold invE, processed. cbn [cp emitted cstatus executed].
    split; [intros _; apply E1; discriminate|]. split; auto. destruct (queue s); auto.
  - unfold invE. rewrite Ecp. split; auto.
Qed.

Lemma invE_worker c s i w : invE s -> invE (worker_step c s i w).
Proof.
  intros (E1 & E2 & E3). destruct (worker_step_flags c s i w) as (_ & _ & F3).
  assert (F : emitted (worker_step c s i w) = emitted s /\ cstatus (worker_step c s i w) = cstatus s /\
              executed (worker_step c s i w) = executed s).
  { destruct w; cbn [worker_step]; auto.
    - destruct (ops s); auto. destruct (build_err o); auto.
    - destruct (has_to_stop s); auto.
    - destruct c0; auto. destruct (cof c); auto.
    - destruct script; auto. }
  destruct F as (F4 & F5 & F6). unfold invE, processed. rewrite F3, F4, F5, F6. split; auto.
Qed.

Definition invK (s : state) : Prop := cstatus s <> Some SKIP.

Lemma invK_step c s l : invK s -> invK (step c s l).
Proof.
  intros HK. destruct l; cbn [step].
  - unfold consumer_step. destruct (cp s); auto.
    + destruct (queue s); auto. destruct (stop s); [intros H; discriminate H | auto].
    + destruct (if counts_as_failure e then count_failure c (counter s) (limit s) else (counter s, limit s)) as [n lim].
      unfold invK in *. cbn. destruct (is_interrupt e || stop s); [intros H; discriminate H|].
      destruct (cstatus s) as [cur|] eqn:Ec.
      * assert (Hcur : cur <> SKIP) by (intros ->; apply HK; reflexivity).
        destruct e; cbn; try congruence. destruct st; cbn; try congruence; destruct cur; cbn; congruence.
      * destruct e; cbn; try congruence. destruct st; cbn; congruence.
  - destruct (nth_error (workers s) i) eqn:Ei; auto.
    assert (F : cstatus (worker_step c s i w) = cstatus s).
    { destruct w; cbn [worker_step]; auto.
      - destruct (ops s); auto. destruct (build_err o); auto.
      - destruct (has_to_stop s); auto.
      - destruct c0; auto. destruct (cof c); auto.
      - destruct script; auto. }
    unfold invK. rewrite F. exact HK.
  - exact HK.
Qed.

Definition invFE (s : state) : Prop := invP s /\ wforall st_calm (workers s) /\ invF s /\ invE s.

Lemma invFE_step c s l : invFE s -> invFE (step c s l).
Proof.
  intros (HP & HC & HF & HE). split; [apply invP_step; auto|]. destruct l; cbn [step].
  - split; [|split; [apply invF_consumer; auto | apply invE_consumer; auto]].
    unfold consumer_step. destruct (cp s); auto.
    + destruct (queue s); auto. destruct (stop s); auto.
    + destruct (if counts_as_failure e then count_failure c (counter s) (limit s) else (counter s, limit s)); auto.
  - destruct (nth_error (workers s) i) eqn:Ei; [|split; auto].
    split; [apply st_calm_worker; auto|]. split; [apply invF_worker; auto | apply invE_worker; auto].
  - split; auto. split; [|exact HE]. unfold invF, has_to_stop. cbn. intros H; discriminate.
Qed.

Lemma invFE_init n os : invFE (init n os).
Proof.
  split; [apply invP_init|]. split; [apply wforall_repeat; exact I|]. split.
  - intros _. cbn. split; auto. split; [apply wforall_repeat; exact I|]. intros e H; discriminate.
  - split; [intros _; exact I|]. split; [intros id st []|]. intros H; exfalso; apply H; reflexivity.
Qed.

Lemma status_at_least_worst c sched n os :
  let s := run c sched (init n os) in
  cp s = CDone ->
  forall id st, In (ScFinish id st) (trace s) -> st <> SKIP ->
    final_status s <> SKIP /\ srank st <= srank (final_status s).
Proof.
  intros s Hcp id st Hin Hne.
  assert (H : invFE s) by (apply run_inv; [intros; apply invFE_step; auto | apply invFE_init]).
  destruct H as (_ & _ & _ & (E1 & E2 & E3)).
  unfold processed in E2. rewrite Hcp in E2. unfold trace in Hin. apply in_rev in Hin.
  destruct (E2 id st Hin Hne) as [cur [Ec Hr]].
  assert (Hex : executed s = true) by (apply E3; intros H; rewrite H in Hin; destruct Hin).
  assert (HK : invK s) by (apply run_inv; [intros; apply invK_step; auto | intros H; discriminate H]).
  unfold final_status. rewrite Hex, Ec. split; auto.
  intros ->. apply HK. exact Ec.
Qed.
