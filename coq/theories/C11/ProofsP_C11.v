From Coq Require Import List Bool Arith Lia.
From Verif Require Import C11.Model_C11 C11.ModelP_C11.
Import ListNotations.

Lemma nest_snoc e out : nest (rev (e :: out)) = nstep (nest (rev out)) e.
Proof. unfold nest. cbn [rev]. rewrite fold_left_app. reflexivity. Qed.

Definition suite_open (pc : ppc) : bool := match pc with PTop | PDone => false | _ => true end.
Definition scen_open (pc : ppc) : bool := match pc with PCheck _ _ _ _ | PBody _ _ _ _ | PTear _ => true | _ => false end.

Definition PInv (s : pstate) : Prop :=
  let n := nest (pscript s) in
  n_ok n = true /\
  n_suite n = (if suite_open (p_pc s) then Some (p_suite s) else None) /\
  n_scen n = (if scen_open (p_pc s) then Some (p_scen s) else None).

Lemma next_step_open steps scs e : suite_open (next_step steps scs e) = true /\ scen_open (next_step steps scs e) = true.
Proof. destruct steps; cbn; auto. Qed.

Ltac pinv_tac :=
  unfold PInv, pscript, pset, pput in *; cbn [p_out p_pc p_suite p_scen suite_open scen_open] in *;
  rewrite ?nest_snoc; cbn [nstep n_ok n_suite n_scen];
  repeat match goal with
  | H : _ /\ _ |- _ => destruct H
  | H : n_suite _ = _ |- _ => rewrite H
  | H : n_scen _ = _ |- _ => rewrite H
  | H : n_ok _ = true |- _ => rewrite H
  end;
  cbn [is_none opt_is andb]; rewrite ?Nat.eqb_refl; auto.

Lemma PInv_step c s l : PInv s -> PInv (pstep c s l).
Proof.
  intros H. destruct l; cbn [pstep]; [|exact H].
  unfold PInv in H. destruct (p_pc s) eqn:Epc; cbn [suite_open scen_open] in H.
  - (* PTop *) pinv_tac.
  - (* PIntrCheck *) destruct (p_stop s); [pinv_tac|].
    destruct (p_behs s) as [|[scs e] rest]; pinv_tac.
  - pinv_tac.
  - pinv_tac.
  - (* PScen *) destruct scs as [|steps scs]; [pinv_tac|].
    unfold PInv, pscript in *; cbn [p_out p_pc p_suite p_scen] in *.
    destruct (next_step_open steps scs e) as [Ha Hb]. rewrite Ha, Hb.
    rewrite nest_snoc. cbn [nstep n_ok n_suite n_scen suite_open scen_open] in *.
    destruct H as (H1 & H2 & H3). rewrite H1, H2, H3. cbn. rewrite Nat.eqb_refl. auto.
  - (* PCheck *) destruct (p_has_to_stop s); pinv_tac.
  - (* PBody *) destruct st.
    + unfold PInv, pscript in *; cbn [p_out p_pc p_suite p_scen] in *.
      destruct (next_step_open steps scs e) as [Ha Hb]. rewrite Ha, Hb. cbn [suite_open scen_open] in H. exact H.
    + destruct (count_failures (p_maxf c) (S extra) (p_counter s) (p_limit s)) as [cnt lim]. pinv_tac.
    + pinv_tac.
    + pinv_tac.
  - (* PTear *) destruct k; pinv_tac.
  - (* PExcept *) destruct w as [e|]; [|pinv_tac].
    destruct e; try pinv_tac.
    destruct (0 <? p_completed s); pinv_tac.
  - pinv_tac.
  - pinv_tac.
  - (* PFinally *) destruct again; pinv_tac.
  - (* PDone *) unfold PInv. rewrite Epc. exact H.
Qed.

Lemma PInv_init faults stop0 limit0 counter0 behs : PInv (pinit_f faults stop0 limit0 counter0 behs).
Proof. unfold PInv, pinit_f, pscript. cbn. auto. Qed.

Lemma PInv_run c ls s : PInv s -> PInv (prun c ls s).
Proof. unfold prun. revert s. induction ls as [|l ls IH]; intros s H; cbn [fold_left]; auto. apply IH, PInv_step, H. Qed.

(* Every prefix of what the state-machine thread puts is properly nested, whatever Hypothesis does, wherever the stop arrives. *)
Lemma producer_nested c faults stop0 limit0 counter0 behs ls :
  nested (pscript (prun c ls (pinit_f faults stop0 limit0 counter0 behs))) = true.
Proof. destruct (PInv_run c ls _ (PInv_init faults stop0 limit0 counter0 behs)) as (H & _). exact H. Qed.

(* When the thread has ended, every suite and every scenario it announced has been closed - interrupted or not. *)
Lemma producer_closed c faults stop0 limit0 counter0 behs ls :
  let s := prun c ls (pinit_f faults stop0 limit0 counter0 behs) in
  p_pc s = PDone -> all_closed_p (pscript s) = true.
Proof.
  intros s Hd. destruct (PInv_run c ls _ (PInv_init faults stop0 limit0 counter0 behs)) as (_ & H2 & H3). fold s in H2, H3.
  rewrite Hd in H2, H3. cbn in H2, H3. unfold all_closed_p. rewrite H2, H3. reflexivity.
Qed.

(* ---- nothing is sent once the stop is visible (C12): at most one step body runs with has_to_stop already true
        (the one whose entry test came just before the stop), for every behaviour and every stop point ---- *)
Definition is_body (pc : ppc) : bool := match pc with PBody _ _ _ _ => true | _ => false end.

Ltac break_match := repeat match goal with
  | |- context [match ?x with _ => _ end] => destruct x eqn:?
  end.

Lemma count_failures_limit_mono maxf n cnt lim : lim = true -> snd (count_failures maxf n cnt lim) = true.
Proof.
  revert cnt lim. induction n as [|n IH]; intros cnt lim H; cbn; auto.
  destruct maxf as [m|]; [|apply IH; auto]. apply IH. destruct (m <=? S cnt); auto.
Qed.

Lemma has_to_stop_mono c s l : p_has_to_stop s = true -> p_has_to_stop (pstep c s l) = true.
Proof.
  unfold p_has_to_stop. intros H. destruct l; cbn [pstep]; [|cbn; reflexivity].
  unfold pset, pput, next_step. break_match; cbn [p_stop p_limit]; auto; try apply orb_true_r.
  all: try (match goal with E : count_failures ?m ?n ?cnt ?lim = (_, ?b) |- _ =>
              apply orb_true_iff in H; destruct H as [H|H]; [rewrite H; reflexivity|];
              pose proof (count_failures_limit_mono m n cnt lim H) as Hm; rewrite E in Hm; cbn in Hm; rewrite Hm; apply orb_true_r end).
Qed.

Lemma bodies_step c s l :
  p_bodies (pstep c s l) =
  match l with LP => if is_body (p_pc s) then p_has_to_stop s :: p_bodies s else p_bodies s | LStop => p_bodies s end.
Proof.
  destruct l; cbn [pstep]; [|reflexivity]. unfold pset, pput. break_match; cbn [p_bodies is_body] in *; try reflexivity; try discriminate.
Qed.

Lemma body_entry c s l :
  is_body (p_pc (pstep c s l)) = true -> is_body (p_pc s) = false -> p_has_to_stop s = false.
Proof.
  destruct l; cbn [pstep]; [|cbn; congruence]. unfold pset, pput, next_step.
  break_match; cbn [p_pc is_body]; intros; try discriminate; auto;
    try (match goal with E : p_pc ?s = _, H : is_body (p_pc ?s) = true |- _ => rewrite E in H; discriminate end).
Qed.

Lemma body_leaves c s : is_body (p_pc s) = true -> is_body (p_pc (pstep c s LP)) = false.
Proof.
  cbn [pstep]. unfold pset, pput, next_step. break_match; cbn [p_pc is_body]; intros; try discriminate; auto.
Qed.

Definition SInv (s : pstate) : Prop :=
  count_true (p_bodies s) = 0 \/ (count_true (p_bodies s) = 1 /\ p_has_to_stop s = true /\ is_body (p_pc s) = false).

Lemma SInv_step c s l : SInv s -> SInv (pstep c s l).
Proof.
  intros H. unfold SInv. rewrite bodies_step. destruct l.
  - destruct (is_body (p_pc s)) eqn:Eb.
    + destruct H as [H|(_ & _ & H)]; [|congruence]. cbn [count_true]. destruct (p_has_to_stop s) eqn:Eh.
      * right. rewrite H. repeat split; auto. apply has_to_stop_mono, Eh. apply body_leaves, Eb.
      * left. exact H.
    + destruct H as [H|(H1 & H2 & H3)]; [left; exact H|right]. repeat split; auto. apply has_to_stop_mono, H2.
      destruct (is_body (p_pc (pstep c s LP))) eqn:En; auto. pose proof (body_entry c s LP En Eb). congruence.
  - destruct H as [H|(H1 & H2 & H3)]; [left; exact H|right]. repeat split; auto.
Qed.

Lemma producer_at_most_one_after_stop c faults stop0 limit0 counter0 behs ls :
  count_true (p_bodies (prun c ls (pinit_f faults stop0 limit0 counter0 behs))) <= 1.
Proof.
  assert (H : SInv (prun c ls (pinit_f faults stop0 limit0 counter0 behs))).
  { unfold prun. generalize (pinit_f faults stop0 limit0 counter0 behs) (or_introl eq_refl : SInv (pinit_f faults stop0 limit0 counter0 behs)).
    induction ls as [|l ls IH]; intros s H; cbn [fold_left]; auto. apply IH, SInv_step, H. }
  destruct H as [H|(H & _)]; rewrite H; auto.
Qed.

(* a run that starts after the stop was requested sends nothing at all and announces no scenario *)
Definition early (pc : ppc) : bool :=
  match pc with PTop | PIntrCheck | PEarlyIntr | PEarlyFin | PDone => true | _ => false end.

Definition EInv (s : pstate) : Prop := p_stop s = true /\ p_bodies s = [] /\ early (p_pc s) = true /\ scenario_statuses (p_out s) = [].

Lemma EInv_step c s l : EInv s -> EInv (pstep c s l).
Proof.
  intros (H1 & H2 & H3 & H4). destruct l; cbn [pstep]; [|repeat split; auto].
  unfold EInv, pset, pput. destruct (p_pc s) eqn:Epc; try discriminate; cbn [p_stop p_bodies p_pc early p_out scenario_statuses];
    try rewrite H1; cbn [p_stop p_bodies p_pc early p_out scenario_statuses]; repeat split; auto. rewrite Epc. reflexivity.
Qed.

Lemma producer_stopped_before_start c faults limit0 counter0 behs ls :
  let s := prun c ls (pinit_f faults true limit0 counter0 behs) in
  p_bodies s = [] /\ scenario_statuses (p_out s) = [].
Proof.
  assert (H : EInv (prun c ls (pinit_f faults true limit0 counter0 behs))).
  { unfold prun.
    assert (H0 : EInv (pinit_f faults true limit0 counter0 behs)) by (repeat split; auto).
    revert H0. generalize (pinit_f faults true limit0 counter0 behs) as s0.
    induction ls as [|l ls IH]; intros s0 H0; cbn [fold_left]; auto. apply IH, EInv_step, H0. }
  destruct H as (_ & H2 & _ & H4). auto.
Qed.
