(* Model of one unit phase of the engine (engine/phases/unit/__init__.py, _pool.py,
   _executor.py: execute, worker_task, run_test, cached_test_func) as a labelled
   transition system over thread interleavings, and of the ExecutionPlan wrapper
   (engine/core.py).  Executable definitions only.  Shared by C11, C12 and C05. *)
From Coq Require Import List NArith Bool Arith.
Import ListNotations.

Inductive status := SUCCESS | FAILURE | ERROR | INTERRUPTED | SKIP.
(* _STATUS_ORDER of engine/__init__.py *)
Definition srank (s : status) : nat :=
  match s with SUCCESS => 0 | FAILURE => 1 | ERROR => 2 | INTERRUPTED => 3 | SKIP => 4 end.
Definition status_eqb (a b : status) : bool := Nat.eqb (srank a) (srank b).
Definition status_lt (a b : status) : bool := Nat.ltb (srank a) (srank b).

(* events a worker puts on the queue; scenario ids are the ids of the operations *)
Inductive ev :=
| ScStart (id : nat)
| NonFatal (id : nat)
| ScFinish (id : nat) (st : status)
| Interrupt.

(* what one case (one request) of a test does *)
Inductive case_out := CaseOk | CaseFail | CaseErr.

(* behaviour of one operation: the scripted API + Hypothesis decide how many cases
   the test function is called with and what each of them does *)
Record opb := {
  op_id : nat;
  build_err : bool;              (* create_test raises: on_error(exc, method, path) *)
  cases : list case_out;
  end_skip : bool                (* the test ends by SkipTest (no examples) when no case failed *)
}.

Record cfg := {
  maxf : option nat;             (* max_failures *)
  cof : bool;                    (* continue_on_failure *)
  drain_fix : bool               (* True = the code as it is now: the consumer leaves on
                                    dead workers only if the queue is also empty;
                                    False = the code before the fix (regression model) *)
}.

Inductive wpc :=
| WLoop                                   (* about to evaluate `while not ctx.has_to_stop` *)
| WFetch                                  (* about to call producer.next_operation() *)
| WStart (o : opb)                        (* about to put ScenarioStarted *)
| WCheck (o : opb) (c : case_out) (rest : list case_out) (st : status)   (* cached_test_func: about to test has_to_stop *)
| WSend (o : opb) (c : case_out) (rest : list case_out) (st : status)  (* about to send the request *)
| WPut (script : list ev)                 (* events still to be put *)
| WDead.

Inductive cpc := CGet | CPost (e : ev) | CAlive | CEmpty | CDone.

Record state := {
  queue : list ev;
  emitted : list ev;            (* newest first *)
  ops : list opb;
  stop : bool;                  (* the threading.Event *)
  limit : bool;                 (* has_reached_the_failure_limit *)
  counter : nat;                (* _failures_counter *)
  cstatus : option status;
  executed : bool;
  cp : cpc;
  workers : list wpc;
  sent : list (nat * bool);     (* requests sent, newest first: (operation id, has_to_stop at that moment) *)
  dropped : list ev             (* events taken from the queue but never emitted *)
}.

Inductive label := C | W (i : nat) | Stop.

Fixpoint upd {A} (i : nat) (x : A) (l : list A) : list A :=
  match l, i with
  | [], _ => []
  | _ :: r, O => x :: r
  | y :: r, S i' => y :: upd i' x r
  end.

Definition has_to_stop (s : state) : bool := stop s || limit s.

Definition is_dead (w : wpc) : bool := match w with WDead => true | _ => false end.

(* what run_test yields after the test function returned or raised *)
Definition final_script (o : opb) (st : status) : list ev :=
  match st with
  | SUCCESS => [ScFinish (op_id o) (if end_skip o then SKIP else SUCCESS)]
  | _ => [ScFinish (op_id o) st]
  end.

Definition set_worker (s : state) (i : nat) (w : wpc) : state :=
  {| queue := queue s; emitted := emitted s; ops := ops s; stop := stop s; limit := limit s;
     counter := counter s; cstatus := cstatus s; executed := executed s; cp := cp s;
     workers := upd i w (workers s); sent := sent s; dropped := dropped s |}.

Definition put (s : state) (e : ev) : state :=
  {| queue := queue s ++ [e]; emitted := emitted s; ops := ops s; stop := stop s; limit := limit s;
     counter := counter s; cstatus := cstatus s; executed := executed s; cp := cp s;
     workers := workers s; sent := sent s; dropped := dropped s |}.

Definition after_put (k : list ev) : wpc := match k with [] => WLoop | _ => WPut k end.

(* the test function is entered for the next case, or the test is over *)
Definition next_case (o : opb) (rest : list case_out) (st : status) : wpc :=
  match rest with
  | [] => WPut (final_script o st)
  | c0 :: rest' => WCheck o c0 rest' st
  end.

Definition worker_step (c : cfg) (s : state) (i : nat) (w : wpc) : state :=
  match w with
  | WLoop => set_worker s i (if has_to_stop s then WDead else WFetch)
  | WFetch =>
      match ops s with
      | [] => set_worker s i WDead
      | o :: rest =>
          let s' := {| queue := queue s; emitted := emitted s; ops := rest; stop := stop s; limit := limit s;
                       counter := counter s; cstatus := cstatus s; executed := executed s; cp := cp s;
                       workers := workers s; sent := sent s; dropped := dropped s |} in
          if build_err o
          then set_worker s' i (WPut [ScStart (op_id o); NonFatal (op_id o); ScFinish (op_id o) ERROR])
          else set_worker s' i (WStart o)
      end
  | WStart o => set_worker (put s (ScStart (op_id o))) i (next_case o (cases o) SUCCESS)
  | WCheck o c0 rest st =>
      if has_to_stop s
      then set_worker s i (WPut [ScFinish (op_id o) INTERRUPTED; Interrupt])
      else set_worker s i (WSend o c0 rest st)
  | WSend o c0 rest st =>
      let s' := {| queue := queue s; emitted := emitted s; ops := ops s; stop := stop s; limit := limit s;
                   counter := counter s; cstatus := cstatus s; executed := executed s; cp := cp s;
                   workers := workers s; sent := (op_id o, has_to_stop s) :: sent s; dropped := dropped s |} in
      match c0 with
      | CaseOk => set_worker s' i (next_case o rest st)
      | CaseFail => if cof c then set_worker s' i (next_case o rest FAILURE)
                    else set_worker s' i (WPut [ScFinish (op_id o) FAILURE])
      | CaseErr => set_worker s' i (WPut [NonFatal (op_id o); ScFinish (op_id o) ERROR])
      end
  | WPut [] => set_worker s i WLoop
  | WPut (e :: k) => set_worker (put s e) i (after_put k)
  | WDead => s
  end.

(* ExecutionControl.count_failure *)
Definition count_failure (c : cfg) (counter0 : nat) (limit0 : bool) : nat * bool :=
  match maxf c with
  | None => (counter0, limit0)
  | Some m => let n := S counter0 in (n, if Nat.leb m n then true else limit0)
  end.

(* the status fold of unit.execute for one yielded event (before the interruption test) *)
Definition fold_status (cur : option status) (e : ev) : option status :=
  match e with
  | NonFatal _ => Some ERROR
  | ScFinish _ st =>
      if status_eqb st SKIP then cur
      else match cur with
           | None => Some st
           | Some s0 => if status_lt s0 st then Some st else cur
           end
  | _ => cur
  end.

Definition counts_as_failure (e : ev) : bool :=
  match e with
  | ScFinish _ ERROR | ScFinish _ FAILURE => true
  | _ => false
  end.

Definition is_interrupt (e : ev) : bool := match e with Interrupt => true | _ => false end.

Definition consumer_step (c : cfg) (s : state) : state :=
  match cp s with
  | CGet =>
      match queue s with
      | [] => {| queue := queue s; emitted := emitted s; ops := ops s; stop := stop s; limit := limit s;
                 counter := counter s; cstatus := cstatus s; executed := executed s; cp := CAlive;
                 workers := workers s; sent := sent s; dropped := dropped s |}
      | e :: q =>
          if stop s
          then (* raise KeyboardInterrupt: the event just taken is not yielded *)
            {| queue := q; emitted := Interrupt :: emitted s; ops := ops s; stop := true; limit := limit s;
               counter := counter s; cstatus := Some INTERRUPTED; executed := true; cp := CDone;
               workers := workers s; sent := sent s; dropped := e :: dropped s |}
          else
            {| queue := q; emitted := e :: emitted s; ops := ops s; stop := stop s; limit := limit s;
               counter := counter s; cstatus := cstatus s; executed := true; cp := CPost e;
               workers := workers s; sent := sent s; dropped := dropped s |}
      end
  | CPost e =>
      let st1 := fold_status (cstatus s) e in
      let '(n, lim) := if counts_as_failure e then count_failure c (counter s) (limit s) else (counter s, limit s) in
      let interrupted := is_interrupt e || stop s in
      let st2 := if interrupted then Some INTERRUPTED else st1 in
      let stop' := if interrupted then true else stop s in
      {| queue := queue s; emitted := emitted s; ops := ops s; stop := stop'; limit := lim;
         counter := n; cstatus := st2; executed := executed s;
         cp := if stop' || lim then CDone else CGet;
         workers := workers s; sent := sent s; dropped := dropped s |}
  | CAlive =>
      (* `all(not worker.is_alive() ...) and pool.events_queue.empty()`: the liveness test comes first; only if
         every worker is dead is the queue looked at (second step, CEmpty).  Before the fix: leave at once. *)
      let next := if forallb is_dead (workers s) then (if drain_fix c then CEmpty else CDone) else CGet in
      {| queue := queue s; emitted := emitted s; ops := ops s; stop := stop s; limit := limit s;
         counter := counter s; cstatus := cstatus s; executed := executed s;
         cp := next;
         workers := workers s; sent := sent s; dropped := dropped s |}
  | CEmpty =>
      {| queue := queue s; emitted := emitted s; ops := ops s; stop := stop s; limit := limit s;
         counter := counter s; cstatus := cstatus s; executed := executed s;
         cp := match queue s with [] => CDone | _ => CGet end;
         workers := workers s; sent := sent s; dropped := dropped s |}
  | CDone => s
  end.

Definition step (c : cfg) (s : state) (l : label) : state :=
  match l with
  | C => consumer_step c s
  | W i => match nth_error (workers s) i with
           | Some w => worker_step c s i w
           | None => s
           end
  | Stop => {| queue := queue s; emitted := emitted s; ops := ops s; stop := true; limit := limit s;
               counter := counter s; cstatus := cstatus s; executed := executed s; cp := cp s;
               workers := workers s; sent := sent s; dropped := dropped s |}
  end.

Definition init (nworkers : nat) (os : list opb) : state :=
  {| queue := []; emitted := []; ops := os; stop := false; limit := false; counter := 0;
     cstatus := None; executed := false; cp := CGet; workers := repeat WLoop nworkers;
     sent := []; dropped := [] |}.

Definition run (c : cfg) (sched : list label) (s : state) : state := fold_left (step c) sched s.

(* observation used by the step-wise correspondence with the real engine: after each label, the code of the
   program point the moved thread is now at (0 for Stop / an unknown worker index) *)
Definition wcode (w : wpc) : nat :=
  match w with WLoop => 1 | WFetch => 2 | WStart _ => 3 | WPut _ => 3 | WCheck _ _ _ _ => 4 | WSend _ _ _ _ => 5 | WDead => 6 end.
Definition ccode (p : cpc) : nat := match p with CGet => 10 | CPost _ => 11 | CAlive => 12 | CDone => 13 | CEmpty => 14 end.
Definition obs (s : state) (l : label) : nat :=
  match l with
  | C => ccode (cp s)
  | W i => match nth_error (workers s) i with Some w => wcode w | None => 0 end
  | Stop => 0
  end.
Fixpoint run_log (c : cfg) (sched : list label) (s : state) : list nat * state :=
  match sched with
  | [] => ([], s)
  | l :: r => let s' := step c s l in let '(log, fin) := run_log c r s' in (obs s' l :: log, fin)
  end.

(* the status reported by SuiteFinished / PhaseFinished *)
Definition final_status (s : state) : status :=
  if executed s then match cstatus s with Some st => st | None => SKIP end else SKIP.

(* events in the order the consumer yielded them *)
Definition trace (s : state) : list ev := rev (emitted s).

(* ---------- predicates on traces (the reference automaton, scenario level) ---------- *)
Definition is_start (id : nat) (e : ev) : bool := match e with ScStart j => Nat.eqb id j | _ => false end.
Definition is_finish (id : nat) (e : ev) : bool := match e with ScFinish j _ => Nat.eqb id j | _ => false end.

(* every finish is preceded by the start of the same scenario *)
Fixpoint finishes_have_starts (seen : list ev) (t : list ev) : bool :=
  match t with
  | [] => true
  | e :: r =>
      (match e with
       | ScFinish id _ => existsb (is_start id) seen
       | _ => true
       end) && finishes_have_starts (e :: seen) r
  end.

Definition started_ids (t : list ev) : list nat :=
  flat_map (fun e => match e with ScStart id => [id] | _ => [] end) t.
Definition all_closed (t : list ev) : bool :=
  forallb (fun id => existsb (is_finish id) t) (started_ids t).

(* failed or errored scenarios reported *)
Definition failed_scenarios (t : list ev) : nat := length (filter counts_as_failure t).

(* requests sent while the stop flag was already set *)
Definition sends_after_stop (s : state) : nat := length (filter (fun x => snd x) (sent s)).

(* ---------- ExecutionPlan (engine/core.py) ---------- *)
Inductive pev :=
| EngineStarted
| PhaseStarted (p : nat)
| PhaseBody (p : nat) (body : list ev) (st : status)    (* SuiteStarted, events, SuiteFinished *)
| PhaseFinished (p : nat) (st : status) (skipped_for_limit : bool)
| EngineFinished.

Record phase_cfg := { enabled : bool }.

(* outcome of executing one enabled phase: what it emitted, its status, and the control flags afterwards *)
Record phase_res := { r_body : list ev; r_status : status; r_stop : bool; r_limit : bool }.

Fixpoint plan_loop (p : nat) (phases : list (phase_cfg * phase_res)) (stop0 limit0 : bool) : list pev :=
  match phases with
  | [] => []
  | (pc, pr) :: rest =>
      let run_it := enabled pc && negb (stop0 || limit0) in
      let evs := if run_it
                 then [PhaseStarted p; PhaseBody p (r_body pr) (r_status pr); PhaseFinished p (r_status pr) false]
                 else [PhaseStarted p; PhaseFinished p SKIP limit0] in
      let stop1 := if run_it then r_stop pr else stop0 in
      let limit1 := if run_it then r_limit pr else limit0 in
      evs ++ (if stop1 then [] else plan_loop (S p) rest stop1 limit1)
  end.

Definition plan_events (phases : list (phase_cfg * phase_res)) (stop0 : bool) : list pev :=
  if stop0 then [EngineStarted; EngineFinished]
  else EngineStarted :: plan_loop 0 phases false false ++ [EngineFinished].

(* reference automaton for the plan level *)
Fixpoint plan_wf_body (next : nat) (open : option nat) (t : list pev) : bool :=
  match t with
  | [] => false
  | [EngineFinished] => match open with None => true | Some _ => false end
  | PhaseStarted p :: r =>
      match open with None => Nat.eqb p next && plan_wf_body (S next) (Some p) r | Some _ => false end
  | PhaseBody p _ _ :: r => match open with Some q => Nat.eqb p q && plan_wf_body next open r | None => false end
  | PhaseFinished p _ _ :: r => match open with Some q => Nat.eqb p q && plan_wf_body next None r | None => false end
  | _ => false
  end.
Definition plan_wf (t : list pev) : bool :=
  match t with EngineStarted :: r => plan_wf_body 0 None r | _ => false end.
