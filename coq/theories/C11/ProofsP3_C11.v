(* After a stop request the state-machine thread announces at most one more scenario (ModelP_C11), provided every
   scenario Hypothesis starts has at least one step (its state-machine runner always executes a first step). *)
From Coq Require Import List Bool Arith Lia.
From Verif Require Import C11.Model_C11 C11.ModelP_C11 C11.ProofsP_C11.
Import ListNotations.

Fixpoint count_scs (l : list pev) : nat :=
  match l with
  | [] => 0
  | ScS _ _ :: r => S (count_scs r)
  | _ :: r => count_scs r
  end.

Definition nonempty_scs (scs : list (list step_out)) : bool := forallb (fun steps => negb (match steps with [] => true | _ => false end)) scs.
Definition nonempty_beh (b : suite_beh) : bool := nonempty_scs (fst b).

Definition pc_scs (pc : ppc) : list (list step_out) :=
  match pc with
  | PScen scs _ | PCheck _ _ scs _ | PBody _ _ scs _ | PTear (TNext scs _) => scs
  | _ => []
  end.

(* how many scenarios may still be announced from here when the stop flag is set *)
Definition budget (pc : ppc) : nat :=
  match pc with
  | PScen (_ :: _) _ => 1
  | PBody _ _ (_ :: _) _ => 1
  | PTear (TNext (_ :: _) _) => 1
  | _ => 0
  end.

Definition NInv (s : pstate) : Prop :=
  nonempty_scs (pc_scs (p_pc s)) = true /\ forallb nonempty_beh (p_behs s) = true.

Lemma NInv_step c s l : NInv s -> NInv (pstep c s l).
Proof.
  intros [H1 H2]. destruct l; cbn [pstep]; [|split; auto].
  unfold NInv, pset, pput, next_step. destruct (p_pc s) eqn:Epc; cbn [pc_scs] in H1.
  2:{ destruct (p_stop s); cbn [p_pc p_behs pc_scs nonempty_scs forallb]; [split; auto|].
      destruct (p_behs s) as [|[scs e] rest]; cbn [p_pc p_behs pc_scs nonempty_scs forallb]; [split; auto|].
      cbn [forallb] in H2. apply andb_true_iff in H2. destruct H2 as [Ha Hb]. split; auto. }
  all: break_match; cbn [p_pc p_behs pc_scs nonempty_scs forallb]; try (split; auto; fail).
  all: try (subst; cbn [forallb nonempty_scs] in *; repeat match goal with H : _ && _ = true |- _ => apply andb_true_iff in H; destruct H end; split; auto; fail).
  all: try (rewrite Epc; cbn [pc_scs]; split; auto).
Qed.

Definition AInv (base : nat) (s : pstate) : Prop :=
  p_stop s = true /\ count_scs (p_out s) + budget (p_pc s) <= S base.

Lemma AInv_step c base s l : NInv s -> AInv base s -> AInv base (pstep c s l).
Proof.
  intros [N1 N2] [H1 H2]. destruct l; cbn [pstep]; [|split; auto].
  unfold AInv, pset, pput, next_step, p_has_to_stop. rewrite ?H1.
  destruct (p_pc s) eqn:Epc; cbn [pc_scs budget] in *.
  all: break_match; cbn [p_stop p_pc p_out count_scs budget orb] in *; try (split; auto; lia).
  all: try (subst; cbn [nonempty_scs forallb negb andb] in N1; discriminate).
  all: try (rewrite Epc; cbn [budget]; split; auto; lia).
Qed.

Lemma budget_le1 pc : budget pc <= 1.
Proof. destruct pc as [| | | |scs e|st steps scs e|st steps scs e|k|w| | |st again|]; cbn; try lia; try (destruct scs; lia). destruct k as [scs e|]; [destruct scs|]; lia. Qed.

Lemma NInv_run c ls s : NInv s -> NInv (prun c ls s).
Proof. unfold prun. revert s. induction ls as [|l ls IH]; intros s H; cbn [fold_left]; auto. apply IH, NInv_step, H. Qed.

Lemma AInv_run c base ls s : NInv s -> AInv base s -> AInv base (prun c ls s).
Proof.
  unfold prun. revert s. induction ls as [|l ls IH]; intros s HN HA; cbn [fold_left]; auto.
  apply IH; [apply NInv_step, HN|apply AInv_step; assumption].
Qed.

Lemma scenarios_after_stop c stop0 limit0 counter0 behs s1 s2 :
  forallb nonempty_beh behs = true ->
  let a := pstep c (prun c s1 (pinit stop0 limit0 counter0 behs)) LStop in
  count_scs (p_out (prun c s2 a)) <= S (count_scs (p_out a)).
Proof.
  intros Hb a.
  assert (HN : NInv a).
  { apply NInv_step, NInv_run. split; cbn; auto. }
  assert (HA : AInv (count_scs (p_out a)) a).
  { split; [reflexivity|]. pose proof (budget_le1 (p_pc a)). lia. }
  destruct (AInv_run c _ s2 a HN HA) as [_ H]. lia.
Qed.

(* the bound is reached: the stop arrives while the first scenario is being closed, the second one is still announced *)
Lemma one_scenario_after_stop_is_reached :
  let c := {| p_maxf := None; p_maxex := 5 |} in
  let a := pstep c (prun c (repeat LP 5) (pinit false false 0 [([[StOk]; [StOk]], ROk)])) LStop in
  count_scs (p_out a) = 1 /\ count_scs (p_out (prun c (repeat LP 9) a)) = 2 /\ p_bodies (prun c (repeat LP 9) a) = [false].
Proof. vm_compute. auto. Qed.

(* scenarios without steps never test the flag: without the hypothesis the statement is false *)
Lemma scenarios_after_stop_needs_steps :
  let c := {| p_maxf := None; p_maxex := 5 |} in
  let a := pstep c (prun c (repeat LP 2) (pinit false false 0 [([[]; []; []], ROk)])) LStop in
  count_scs (p_out a) = 0 /\ count_scs (p_out (prun c (repeat LP 9) a)) = 3.
Proof. vm_compute. auto. Qed.
