From Coq Require Import List Bool Arith Lia.
From Verif Require Import C11.Model_C11 C11.ModelE_C11.
Import ListNotations.

Lemma ewf_ebody next p n k rest :
  ewf_body next (Some p) (map (EvBody p) (seq k n) ++ rest) = ewf_body next (Some p) rest.
Proof.
  revert k. induction n as [|n IH]; intros k; cbn [seq map app]; [reflexivity|].
  cbn [ewf_body]. rewrite Nat.eqb_refl. cbn [andb]. apply IH.
Qed.

Lemma eloop_wf phases : forall p st lim,
  ewf_body p None (eloop true p phases st lim ++ [EvFinish]) = true.
Proof.
  induction phases as [|ph rest IH]; intros p st lim; [reflexivity|].
  cbn [eloop]. destruct (e_enabled ph && negb (st || lim)).
  - destruct (e_ki ph); cbn [app ewf_body]; rewrite Nat.eqb_refl; cbn [andb]; unfold ebody; rewrite <- ?app_assoc;
      rewrite ewf_ebody; cbn [app ewf_body]; rewrite ?Nat.eqb_refl; cbn [andb]; auto.
    destruct (e_stop ph); [reflexivity|apply IH].
  - cbn [app ewf_body]. rewrite !Nat.eqb_refl. cbn [andb]. destruct st; [reflexivity|apply IH].
Qed.

(* every phase that was announced is closed exactly once, in order, whatever the phases do and wherever an interruption
   escapes them; one start first, one finish last *)
Lemma eplan_wf phases stop0 : ewf (eplan true phases stop0) = true.
Proof. unfold eplan. destruct stop0; [reflexivity|]. cbn [ewf]. apply eloop_wf. Qed.

(* before the repair: Ctrl-C while the first (probing) phase is running leaves it open *)
Lemma eplan_before_fix_open :
  ewf (eplan false [{| e_enabled := true; e_body := 0; e_status := SUCCESS; e_stop := true; e_limit := false; e_ki := KiBeforeFinish |}] false) = false.
Proof. reflexivity. Qed.

(* whatever happens on the probe request, the probing phase is opened and closed once and the plan goes on / finishes *)
Lemma probing_closed b rest stop0 : ewf (eplan true (probing_phase b :: rest) stop0) = true.
Proof. apply eplan_wf. Qed.

Lemma probing_status b :
  e_ki (probing_phase b) = KiNone ->
  e_status (probing_phase b) = match b with PbRequestError => ERROR | _ => SUCCESS end.
Proof. destruct b as [st| | |]; cbn; try reflexivity; try discriminate. destruct (Nat.eqb st 400); reflexivity. Qed.
