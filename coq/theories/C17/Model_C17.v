(* C17 model: schemathesis.specs.openapi.examples (produce_combinations,
   _produce_parameter_combinations, _expand_subschemas, extract_inner_examples,
   the per-parameter part of extract_top_level, extract_from_schema),
   schemathesis.generation.hypothesis.builder.add_examples (+ the mark handling
   at the end of engine run_test) and the explicit-container merge of
   specs.openapi._hypothesis.get_parameters_value / get_parameters_strategy.
   Executable definitions and specification predicates only (no proofs). *)
From Coq Require Import List NArith ZArith Bool PeanoNat.
From Verif Require Import Common.Str Common.Json.
Import ListNotations.

(* ------------------------------------------------------------------ *)
(* 1. Examples and their grouping (examples.py:30-47, 311-323)         *)
(* ------------------------------------------------------------------ *)
Inductive example :=
| PEx (container name : str) (value : json)       (* ParameterExample *)
| BEx (value : json) (media_type : str).          (* BodyExample *)

(* parameters : dict[container, dict[name, list]], bodies : dict[media_type, list];
   insertion ordered *)
Definition pgroups := list (str * list (str * list json)).
Definition bgroups := list (str * list json).

(* d.setdefault(k, []).append(v) *)
Fixpoint push_val (k : str) (v : json) (l : list (str * list json)) : list (str * list json) :=
  match l with
  | [] => [(k, [v])]
  | (k', vs) :: r => if str_eqb k k' then (k', vs ++ [v]) :: r else (k', vs) :: push_val k v r
  end.

(* parameters.setdefault(c, {}).setdefault(n, []).append(v) *)
Fixpoint push_param (c n : str) (v : json) (l : pgroups) : pgroups :=
  match l with
  | [] => [(c, [(n, [v])])]
  | (c', m) :: r => if str_eqb c c' then (c', push_val n v m) :: r else (c', m) :: push_param c n v r
  end.

Definition group_step (acc : pgroups * bgroups) (e : example) : pgroups * bgroups :=
  match e with
  | PEx c n v => (push_param c n v (fst acc), snd acc)
  | BEx v mt => (fst acc, push_val mt v (snd acc))
  end.

Definition group (exs : list example) : pgroups * bgroups := fold_left group_step exs ([], []).

(* ------------------------------------------------------------------ *)
(* 2. produce_combinations (examples.py:311-356)                       *)
(* ------------------------------------------------------------------ *)
(* next(islice(cycle(l), idx, None)).  On an empty list Python raises
   (StopIteration inside a generator); the grouped lists are never empty
   (lemma group_nonempty in Proofs), the default is never returned. *)
Definition cyc {A} (d : A) (l : list A) (idx : nat) : A := nth (idx mod length l) l d.

(* values of the keyword-argument dictionary handed to openapi_cases *)
Inductive kwval :=
| KStr (s : str)                    (* media_type *)
| KVal (v : json)                   (* body *)
| KCont (m : list (str * json)).    (* a container: name -> value *)
Definition combo := list (str * kwval).

Definition s_media_type : str := [109;101;100;105;97;95;116;121;112;101]%N.   (* media_type *)
Definition s_body : str := [98;111;100;121]%N.                                (* body *)

(* max(len(variants) for container_variants in parameters.values() for variants in container_variants.values()) *)
Definition max_len (p : pgroups) : nat :=
  list_max (flat_map (fun cm => map (fun nv => length (snd nv)) (snd cm)) p).

Definition param_combo (p : pgroups) (idx : nat) : combo :=
  map (fun cm => (fst cm, KCont (map (fun nv => (fst nv, cyc JNull (snd nv) idx)) (snd cm)))) p.

(* _produce_parameter_combinations *)
Definition param_combos (p : pgroups) : list combo := map (param_combo p) (seq 0 (max_len p)).

Definition body_combos (b : bgroups) : list combo :=
  flat_map (fun mv => map (fun v => [(s_media_type, KStr (fst mv)); (s_body, KVal v)]) (snd mv)) b.

Definition combine (pc bc : list combo) : list combo :=
  map (fun idx => assoc_update (cyc [] bc idx) (cyc [] pc idx))      (* {**body, **params} *)
      (seq 0 (Nat.max (length pc) (length bc))).

Definition produce_grouped (p : pgroups) (b : bgroups) : list combo :=
  match b with
  | [] => match p with [] => [] | _ => param_combos p end
  | _ => match p with
         | [] => body_combos b
         | _ => combine (param_combos p) (body_combos b)
         end
  end.

Definition produce_combinations (exs : list example) : list combo :=
  produce_grouped (fst (group exs)) (snd (group exs)).

(* ---- specification vocabulary for the theorems ---- *)
(* combination c sends example e unchanged *)
Definition carries (c : combo) (e : example) : Prop :=
  match e with
  | PEx cn n v => exists m, assoc_get cn c = Some (KCont m) /\ assoc_get n m = Some v
  | BEx v mt => assoc_get s_media_type c = Some (KStr mt) /\ assoc_get s_body c = Some (KVal v)
  end.

Definition carriesb (c : combo) (e : example) : bool :=
  match e with
  | PEx cn n v => match assoc_get cn c with
                  | Some (KCont m) => match assoc_get n m with Some v' => json_eqb v' v | None => false end
                  | _ => false end
  | BEx v mt => match assoc_get s_media_type c, assoc_get s_body c with
                | Some (KStr mt'), Some (KVal v') => str_eqb mt' mt && json_eqb v' v
                | _, _ => false end
  end.

(* container names come from LOCATION_TO_CONTAINER of non-body locations:
   never media_type / body (checked against the real constant by the harness) *)
Definition container_ok (c : str) : bool := negb (str_eqb c s_media_type) && negb (str_eqb c s_body).
Definition containers_ok (exs : list example) : bool :=
  forallb (fun e => match e with PEx c _ _ => container_ok c | BEx _ _ => true end) exs.

Definition same_key (c n : str) (e : example) : bool :=
  match e with PEx c' n' _ => str_eqb c c' && str_eqb n n' | BEx _ _ => false end.
Definition is_body (e : example) : bool := match e with BEx _ _ => true | _ => false end.
(* how many examples the same parameter has *)
Definition n_same (exs : list example) (e : example) : nat :=
  match e with
  | PEx c n _ => length (filter (same_key c n) exs)
  | BEx _ _ => 0
  end.
Definition n_bodies (exs : list example) : nat := length (filter is_body exs).
Definition expected_count (exs : list example) : nat :=
  Nat.max (list_max (map (n_same exs) exs)) (n_bodies exs).

(* ------------------------------------------------------------------ *)
(* 3. get_parameters_strategy(exclude=...) / get_parameters_value       *)
(*    (_hypothesis.py:213-239, 334-383)                                *)
(* ------------------------------------------------------------------ *)
Definition in_strs (k : str) (l : list str) : bool := existsb (str_eqb k) l.

(* list.remove(x): first occurrence only (ValueError suppressed) *)
Fixpoint remove_first (k : str) (l : list str) : list str :=
  match l with
  | [] => []
  | x :: r => if str_eqb k x then r else x :: remove_first k r
  end.

(* for name in exclude: schema[properties].pop(name, None); schema[required].remove(name) *)
Definition exclude_step (acc : list (str * json) * list str) (name : str) : list (str * json) * list str :=
  (assoc_remove name (fst acc), remove_first name (snd acc)).
Definition strategy_schema (props : list (str * json)) (required : list str) (exclude : list str)
  : list (str * json) * list str :=
  fold_left exclude_step exclude (props, required).

Definition keys {A} (l : list (str * A)) : list str := map fst l.

(* gen props required = draw(strategy) for the location schema with these
   properties / required names: foreign (hypothesis-jsonschema + serializer),
   None when the strategy is st.none().  has_params = the operation declares
   parameters for the location at all. *)
Definition draw_location (gen : list (str * json) -> list str -> option (list (str * json)))
  (has_params : bool) (props : list (str * json)) (required exclude : list str) : option (list (str * json)) :=
  if has_params then
    let s := strategy_schema props required exclude in gen (fst s) (snd s)
  else None.

(* value = NOT_SET is None here *)
Definition get_parameters_value (gen : list (str * json) -> list str -> option (list (str * json)))
  (has_params : bool) (props : list (str * json)) (required : list str)
  (value : option (list (str * json))) : option (list (str * json)) :=
  match value with
  | None => draw_location gen has_params props required []
  | Some [] => draw_location gen has_params props required []
  | Some v =>
      match draw_location gen has_params props required (keys v) with
      | Some new => Some (assoc_update v new)          (* copied.update(new) *)
      | None => Some v
      end
  end.

(* contract assumed about the foreign generator: additionalProperties false
   + required, and a key-preserving serializer *)
Definition gen_contract (gen : list (str * json) -> list str -> option (list (str * json))) : Prop :=
  forall props req new, gen props req = Some new ->
    (forall k, In k (keys new) -> In k (keys props)) /\
    (forall k, In k req -> In k (keys props) -> In k (keys new)).

(* ------------------------------------------------------------------ *)
(* 4. add_examples (builder.py:170-210) and the marks read back by       *)
(*    engine run_test (_executor.py:187-211)                            *)
(* ------------------------------------------------------------------ *)
Inductive exn :=
| EInvalidSchema | ERefResolution | EUnsatisfiable | ESerialization | ESchemaError
| EOther.                                       (* anything not named in the except clause *)
Inductive mark := MUnsatisfiable | MNonSerializable | MInvalidRegex | MInvalidHeaders.

(* a generated example case: identity + does find_invalid_headers return something *)
Record ecase := { case_id : nat; has_headers : bool; invalid_headers : bool }.

(* outcome of [generate_one(s) for s in operation.get_strategies_from_examples()]:
   the comprehension is all or nothing *)
Inductive gen_outcome :=
| GenCases (cs : list ecase)
| GenRaises (e : exn) (intended : nat).          (* intended = number of combinations *)

Inductive add_result :=
| Added (examples : list ecase) (marks : list mark)
| Propagates (e : exn).                           (* create_test raises; the worker reports it *)

Definition marks_of_exn (e : exn) : list mark :=
  (match e with EUnsatisfiable => [MUnsatisfiable] | _ => [] end) ++
  (match e with ESerialization => [MNonSerializable] | _ => [] end) ++
  (match e with ESchemaError => [MInvalidRegex] | _ => [] end).

Definition header_bad (c : ecase) : bool := has_headers c && invalid_headers c.

Definition add_examples (g : gen_outcome) : add_result :=
  match g with
  | GenRaises EOther _ => Propagates EOther
  | GenRaises e _ => Added [] (marks_of_exn e)
  | GenCases cs =>
      Added (filter (fun c => negb (header_bad c)) cs)
            (if existsb header_bad cs then [MInvalidHeaders] else [])
  end.

(* run_test: every mark ends in status ERROR + a NonFatalError; a propagated
   exception is reported by worker_task.on_error *)
Definition reported (r : add_result) : bool :=
  match r with
  | Propagates _ => true
  | Added _ [] => false
  | Added _ (_ :: _) => true
  end.

Definition intended (g : gen_outcome) : nat :=
  match g with GenCases cs => length cs | GenRaises _ n => n end.
Definition n_added (r : add_result) : nat :=
  match r with Added xs _ => length xs | Propagates _ => 0 end.

(* region: exception classes that are swallowed without any mark *)
Definition silent_exn (g : gen_outcome) : bool :=
  match g with
  | GenRaises EInvalidSchema _ => true
  | GenRaises ERefResolution _ => true
  | _ => false
  end.

(* ------------------------------------------------------------------ *)
(* 5. Extraction on schema fragments (examples.py:138-160, 204-218,     *)
(*    245-295).  Python exceptions are XRaises; XFuel = fuel exhausted.  *)
(*    Fragment: anyOf / oneOf / allOf values are lists, properties is a  *)
(*    dict, required is a list, subschemas are dicts or booleans; no     *)
(*    externalValue (network).                                          *)
(* ------------------------------------------------------------------ *)
Definition s_properties : str := [112;114;111;112;101;114;116;105;101;115]%N.   (* properties *)
Definition s_required : str := [114;101;113;117;105;114;101;100]%N.   (* required *)
Definition s_examples : str := [101;120;97;109;112;108;101;115]%N.   (* examples *)
Definition s_example : str := [101;120;97;109;112;108;101]%N.   (* example *)
Definition s_items : str := [105;116;101;109;115]%N.   (* items *)
Definition s_anyOf : str := [97;110;121;79;102]%N.   (* anyOf *)
Definition s_oneOf : str := [111;110;101;79;102]%N.   (* oneOf *)
Definition s_allOf : str := [97;108;108;79;102]%N.   (* allOf *)
Definition s_value : str := [118;97;108;117;101]%N.   (* value *)
Definition s_ref : str := [36;114;101;102]%N.   (* $ref *)
Definition s_externalValue : str := [101;120;116;101;114;110;97;108;86;97;108;117;101]%N.   (* externalValue *)
Inductive xres := XOk (vs : list json) | XRaises | XFuel.

Inductive xerr := Raised | OutOfFuel.
Inductive res (A : Type) := Ok (a : A) | Err (e : xerr).
Arguments Ok {A} a.
Arguments Err {A} e.
Definition bind {A B} (r : res A) (f : A -> res B) : res B :=
  match r with Ok a => f a | Err e => Err e end.
Definition to_xres (r : res (list json)) : xres :=
  match r with Ok vs => XOk vs | Err Raised => XRaises | Err OutOfFuel => XFuel end.

Definition obj_get (k : str) (j : json) : option json :=
  match j with JObj d => assoc_get k d | _ => None end.

(* one key of a later allOf member merged into the clone of the first
   (examples.py:149-159).  None = the Python statement raises *)
Definition chars_of (s : str) : list json := map (fun c => JStr [c]) s.
Definition extend_list (existing : json) (value : json) : option json :=
  match existing with
  | JArr l =>
      match value with
      | JArr l' => Some (JArr (l ++ l'))
      | JObj kvs => Some (JArr (l ++ map (fun kv => JStr (fst kv)) kvs))    (* iterating a dict gives its keys *)
      | JStr s => Some (JArr (l ++ chars_of s))                              (* iterating a str gives its characters *)
      | _ => None
      end
  | _ => None
  end.

Definition merge_key (acc : option json) (kv : str * json) : option json :=
  match acc with
  | Some (JObj d) =>
      let key := fst kv in let value := snd kv in
      if str_eqb key s_properties then
        match (match assoc_get s_properties d with Some x => x | None => JObj [] end), value with
        | JObj ex, JObj upd => Some (JObj (assoc_set s_properties (JObj (assoc_update ex upd)) d))
        | _, _ => None
        end
      else if str_eqb key s_required then
        match extend_list (match assoc_get s_required d with Some x => x | None => JArr [] end) value with
        | Some x => Some (JObj (assoc_set s_required x d))
        | None => None
        end
      else if str_eqb key s_examples then
        match extend_list (match assoc_get s_examples d with Some x => x | None => JArr [] end) value with
        | Some x => Some (JObj (assoc_set s_examples x d))
        | None => None
        end
      else if str_eqb key s_example then
        match (match assoc_get s_examples d with Some x => x | None => JArr [] end) with
        | JArr l => Some (JObj (assoc_set s_examples (JArr (l ++ [value])) d))
        | _ => None
        end
      else Some (JObj (assoc_set key value d))
  | _ => None          (* item assignment / setdefault on a non-dict, or already raised *)
  end.

Definition merge_sub (acc : option json) (sub : json) : option json :=
  match sub with
  | JObj kvs => fold_left merge_key kvs acc
  | _ => acc
  end.

Definition branch_list (key : str) (d : list (str * json)) : res (list json) :=
  match assoc_get key d with
  | None => Ok []
  | Some (JArr l) => Ok l
  | Some _ => Err Raised          (* outside the fragment *)
  end.

Definition expand_res (schema : json) : res (list json) :=
  match schema with
  | JObj d =>
      bind (branch_list s_anyOf d) (fun a =>
      bind (branch_list s_oneOf d) (fun o =>
      match assoc_get s_allOf d with
      | None => Ok (schema :: a ++ o)
      | Some (JArr (first :: rest)) =>
          match fold_left merge_sub rest (Some first) with
          | Some merged => Ok (schema :: a ++ o ++ [merged])
          | None => Err Raised
          end
      | Some _ => Err Raised        (* allOf: [] is an IndexError *)
      end))
  | _ => Ok [schema]
  end.

Definition expand_subschemas (schema : json) : xres := to_xres (expand_res schema).

(* `k in x` for the shapes that occur *)
Fixpoint is_infix (p s : str) : bool :=
  starts_with p s || match s with [] => false | _ :: s' => is_infix p s' end.
Definition py_in (k : str) (j : json) : option bool :=
  match j with
  | JObj d => Some (assoc_mem k d)
  | JStr s => Some (is_infix k s)
  | JArr l => Some (existsb (json_eqb (JStr k)) l)
  | _ => None                           (* TypeError: argument of type int / NoneType / bool is not iterable *)
  end.

Definition inner_step (unresolved : json) (acc : res (list json)) (kv : str * json) : res (list json) :=
  bind acc (fun out =>
  let name := fst kv in let example := snd kv in
  match obj_get name unresolved with
  | None => Err Raised                                    (* KeyError *)
  | Some u =>
      match py_in s_ref u with
      | None => Err Raised
      | Some false =>
          Ok (out ++ match obj_get s_value example with Some v => [v] | None => [] end)
      | Some true =>
          match py_in s_value example with
          | None => Err Raised
          | Some true => Ok (out ++ match obj_get s_value example with Some v => [v] | None => [] end)
          | Some false =>
              match py_in s_externalValue example with
              | None => Err Raised
              | Some true => Ok out                         (* externalValue: outside the fragment *)
              | Some false => Ok (out ++ [example])         (* a resolved bare value *)
              end
          end
      end
  end).

Definition extract_inner_examples (examples unresolved : json) : xres :=
  match examples with
  | JObj kvs => to_xres (fold_left (inner_step unresolved) kvs (Ok []))
  | _ => XRaises
  end.

(* one expanded subschema of one property (examples.py:259-275) *)
Definition prop_step (rec : json -> res (list json)) (ef esf : str) (is_required : bool)
  (acc : res (list json * option json)) (s : json) : res (list json * option json) :=
  bind acc (fun st =>
  let values := fst st in let tg := snd st in
  match s with
  | JBool _ => Ok (values, Some s)
  | JObj d =>
      let v1 := values ++ match assoc_get ef d with Some x => [x] | None => [] end in
      let v2 := v1 ++ match assoc_get esf d with Some (JArr l) => l | _ => [] end in
      bind (rec s) (fun more =>
      let v3 := v2 ++ more in
      match v3 with
      | [] => Ok (v3, if is_required then Some s else tg)
      | _ => Ok (v3, tg)
      end)
  | _ => Err Raised
  end).

Definition json_list_mem (name : str) (l : list json) : bool := existsb (json_eqb (JStr name)) l.

Definition props_step (rec : json -> res (list json)) (ef esf : str) (required : list json)
  (acc : res (list (str * list json) * list (str * json))) (kv : str * json)
  : res (list (str * list json) * list (str * json)) :=
  bind acc (fun st =>
  let name := fst kv in
  bind (expand_res (snd kv)) (fun subs =>
  bind (fold_left (prop_step rec ef esf (json_list_mem name required)) subs (Ok ([], None))) (fun r =>
  let variants := match fst r with [] => fst st | vs => assoc_set name vs (fst st) end in
  let to_gen := match snd r with Some s => assoc_set name s (snd st) | None => snd st end in
  Ok (variants, to_gen)))).

Definition add_generated (gen : json -> json) (variants : list (str * list json)) (kv : str * json)
  : list (str * list json) :=
  if assoc_mem (fst kv) variants then variants else assoc_set (fst kv) [gen (snd kv)] variants.

Definition variant_objects (variants : list (str * list json)) : list json :=
  map (fun idx => JObj (map (fun nv => (fst nv, cyc JNull (snd nv) idx)) variants))
      (seq 0 (list_max (map (fun nv => length (snd nv)) variants))).

Fixpoint extract_res (fuel : nat) (gen : json -> json) (ef esf : str) (schema : json) : res (list json) :=
  match fuel with
  | O => Err OutOfFuel
  | S fuel' =>
    match schema with
    | JObj d =>
      match assoc_get s_properties d with
      | Some (JObj props) =>
          let required := match assoc_get s_required d with Some (JArr l) => l | _ => [] end in
          bind (fold_left (props_step (extract_res fuel' gen ef esf) ef esf required) props (Ok ([], [])))
            (fun st =>
             match fst st with
             | [] => Ok []
             | variants => Ok (variant_objects (fold_left (add_generated gen) (snd st) variants))
             end)
      | Some _ => Err Raised
      | None =>
          match assoc_get s_items d with
          | Some (JObj it) =>
              bind (extract_res fuel' gen ef esf (JObj it)) (fun vs => Ok (map (fun v => JArr [v]) vs))
          | _ => Ok []
          end
      end
    | _ => Err Raised
    end
  end.

Definition extract_from_schema (fuel : nat) (generated : json) (ef esf : str) (schema : json) : xres :=
  to_xres (extract_res fuel (fun _ => generated) ef esf schema).

(* the schema part of extract_top_level for one parameter / media type
   (examples.py:83-94 and 103-109): the example fields of every expanded
   schema, then the items of the examples field of every expanded schema *)
Definition s_x_example : str := [120;45;101;120;97;109;112;108;101]%N.        (* x-example *)
Definition s_x_examples : str := [120;45;101;120;97;109;112;108;101;115]%N.   (* x-examples *)

Definition iter_values (j : json) : res (list json) :=
  match j with
  | JArr l => Ok l
  | JObj kvs => Ok (map (fun kv => JStr (fst kv)) kvs)
  | JStr s => Ok (chars_of s)
  | _ => Err Raised
  end.

Definition singles (efs : list str) (subs : list json) : list json :=
  flat_map (fun s => flat_map (fun ef => match obj_get ef s with Some v => [v] | None => [] end) efs) subs.

Definition multi_step (esf : str) (acc : res (list json)) (s : json) : res (list json) :=
  bind acc (fun out =>
  match obj_get esf s with
  | Some x => bind (iter_values x) (fun l => Ok (out ++ l))
  | None => Ok out
  end).

Definition top_values_res (efs : list str) (esf : str) (schema : json) : res (list json) :=
  bind (expand_res schema) (fun subs =>
  bind (fold_left (multi_step esf) subs (Ok [])) (fun multi =>
  Ok (singles efs subs ++ multi))).

Definition top_values (efs : list str) (esf : str) (schema : json) : xres :=
  to_xres (top_values_res efs esf schema).

(* 5b. the WHOLE node of extract_top_level (examples.py:92-146): a parameter
   object / media type object / OpenAPI 2.0 body parameter object.
   definitions = [node] + expanded subschemas of node[schema] (node alone when
   it has no schema key); for every definition every keyword of the SORTED set
   (example, x-example) that is present gives one value (singles); then the
   named examples of node[esf] (extract_inner_examples against the unresolved
   definition); then the items of esf of every expanded subschema.
   The selection of single values is a parameter so that the rule of the code
   (every keyword present) and the sentinel (first keyword present only) are the
   same function otherwise. *)
Definition s_schema : str := [115;99;104;101;109;97]%N.   (* schema *)

Definition inner_res (examples unresolved : json) : res (list json) :=
  match examples with
  | JObj kvs => fold_left (inner_step unresolved) kvs (Ok [])
  | _ => Err Raised
  end.

Definition node_defs_res (node : json) : res (list json) :=
  match obj_get s_schema node with
  | Some sch => bind (expand_res sch) (fun subs => Ok (node :: subs))
  | None => Ok [node]
  end.

Definition node_values_gen (pick : list json -> list json) (esf : str) (node unresolved : json) : res (list json) :=
  bind (node_defs_res node) (fun defs =>
  bind (match obj_get esf node with Some x => inner_res x unresolved | None => Ok [] end) (fun inner =>
  bind (match obj_get s_schema node with
        | Some sch => bind (expand_res sch) (fun subs => fold_left (multi_step esf) subs (Ok []))
        | None => Ok []
        end) (fun multi =>
  Ok (pick defs ++ inner ++ multi)))).

(* the code: every keyword of efs present in a definition *)
Definition node_values_res (efs : list str) (esf : str) (node unresolved : json) : res (list json) :=
  node_values_gen (singles efs) esf node unresolved.
Definition node_values (efs : list str) (esf : str) (node unresolved : json) : xres :=
  to_xres (node_values_res efs esf node unresolved).

(* SENTINEL, not the code: only the FIRST keyword of the preference list that is
   present in a definition gives a value (x-example has precedence over example) *)
Fixpoint first_keyword (prefs : list str) (s : json) : list json :=
  match prefs with
  | [] => []
  | ef :: rest => match obj_get ef s with Some v => [v] | None => first_keyword rest s end
  end.
Definition singles_first_only (prefs : list str) (subs : list json) : list json :=
  flat_map (first_keyword prefs) subs.
Definition node_values_first_only_res (prefs : list str) (esf : str) (node unresolved : json) : res (list json) :=
  node_values_gen (singles_first_only prefs) esf node unresolved.
Definition node_values_first_only (prefs : list str) (esf : str) (node unresolved : json) : xres :=
  to_xres (node_values_first_only_res prefs esf node unresolved).

(* ------------------------------------------------------------------ *)
(* 6. _find_parameter_examples_definition (examples.py:163-179): the    *)
(*    raw parameter objects of the operation followed by those of the   *)
(*    path item, each after $ref resolution.  A parameter is identified  *)
(*    by its name AND its location (fix b8949ae5).  KeyError on a       *)
(*    missing name / field and the final RuntimeError are Err Raised.   *)
(*    Note on extract_top_level: the example fields are iterated in      *)
(*    sorted order (fix 353ffa52): example before x-example, which is    *)
(*    the order of the list [s_example; s_x_example] handed to singles.  *)
(* ------------------------------------------------------------------ *)
Definition s_name : str := [110;97;109;101]%N.   (* name *)
Definition s_in : str := [105;110]%N.            (* in *)

Definition name_is (name : str) (p : json) : bool :=
  match obj_get s_name p with Some n => json_eqb n (JStr name) | None => false end.
Definition in_is (loc : str) (p : json) : bool :=
  match obj_get s_in p with Some l => json_eqb l (JStr loc) | None => false end.   (* parameter.get(in) == location *)
Definition has_name (p : json) : bool :=
  match obj_get s_name p with Some _ => true | None => false end.

Fixpoint find_param_examples (params : list json) (name loc field : str) : res json :=
  match params with
  | [] => Err Raised                                     (* RuntimeError: definition is not found *)
  | p :: rest =>
      if has_name p then
        if name_is name p && in_is loc p then
          match obj_get field p with Some d => Ok d | None => Err Raised end      (* parameter[field_name] *)
        else find_param_examples rest name loc field
      else Err Raised                                    (* parameter[name]: KeyError *)
  end.

(* SENTINEL, not the code any more: the rule before b8949ae5 matched by name only *)
Fixpoint find_param_examples_by_name_only (params : list json) (name field : str) : res json :=
  match params with
  | [] => Err Raised
  | p :: rest =>
      if has_name p then
        if name_is name p then
          match obj_get field p with Some d => Ok d | None => Err Raised end
        else find_param_examples_by_name_only rest name field
      else Err Raised
  end.

Definition xres1 (r : res json) : xres :=
  match r with Ok v => XOk [v] | Err Raised => XRaises | Err OutOfFuel => XFuel end.

(* ------------------------------------------------------------------ *)
(* 7. Case assembly with OBJECT IDENTITY                                *)
(*    (get_strategies_from_examples examples.py:50-76,                  *)
(*     produce_combinations as an allocator of dict objects 311-356,    *)
(*     get_parameters_value _hypothesis.py:213-239 on an object,        *)
(*     serialize_components examples.py:56-74 (since fix cedd1977: only  *)
(*     the keys of the EXPLICIT container go through the serializer, the *)
(*     case gets a NEW dict; the pre-fix in-place update of the whole    *)
(*     container is kept as a labelled SENTINEL),                        *)
(*     add_examples builder.py:176-178: one generate_one per strategy,  *)
(*     in order; the requests are sent after ALL cases were built).     *)
(*    A dict object is an address into a heap of container contents.    *)
(*    The style serializer of a container (foreign: serialization.py,   *)
(*    property C06) and the draw of the fill-in strategy (foreign:      *)
(*    hypothesis-jsonschema) are function arguments.                    *)
(* ------------------------------------------------------------------ *)
Definition dict := list (str * json).
Definition heap := list dict.                 (* address = index; allocation appends *)
Definition hget (h : heap) (a : nat) : dict := nth a h [].
Fixpoint hset (h : heap) (a : nat) (d : dict) : heap :=
  match h, a with
  | [], _ => []
  | _ :: r, O => d :: r
  | x :: r, S a1 => x :: hset r a1 d
  end.
Definition halloc (h : heap) (d : dict) : heap * nat := (h ++ [d], length h).

(* a combination as openapi_cases receives it: container name -> dict OBJECT *)
Definition rcombo := list (str * nat).

Definition containers (c : combo) : list (str * dict) :=
  flat_map (fun kv => match snd kv with KCont m => [(fst kv, m)] | _ => [] end) c.

(* _produce_parameter_combinations: every container of every parameter
   combination is a dict display, i.e. a new object *)
Definition alloc_container (acc : heap * rcombo) (cd : str * dict) : heap * rcombo :=
  (fst acc ++ [snd cd], snd acc ++ [(fst cd, length (fst acc))]).
Definition alloc_param_combo (h : heap) (c : combo) : heap * rcombo :=
  fold_left alloc_container (containers c) (h, []).
Definition alloc_step (acc : heap * list rcombo) (c : combo) : heap * list rcombo :=
  (fst (alloc_param_combo (fst acc) c), snd acc ++ [snd (alloc_param_combo (fst acc) c)]).
Definition alloc_param_combos (pcs : list combo) : heap * list rcombo :=
  fold_left alloc_step pcs ([], []).

(* produce_combinations with identities: parameter_combos is a LIST built once;
   {**body, **params} makes a new outer dict whose container values are the
   SAME objects each time the combination comes round in cycle() *)
Definition ref_grouped (p : pgroups) (b : bgroups) : heap * list rcombo :=
  match b with
  | [] => match p with [] => ([], []) | _ => alloc_param_combos (param_combos p) end
  | _ => match p with
         | [] => ([], map (fun _ => []) (body_combos b))
         | _ => let hr := alloc_param_combos (param_combos p) in
                (fst hr, map (fun idx => cyc [] (snd hr) idx)
                             (seq 0 (Nat.max (length (snd hr)) (length (body_combos b)))))
         end
  end.
Definition ref_combinations (exs : list example) : heap * list rcombo :=
  ref_grouped (fst (group exs)) (snd (group exs)).

Definition deref (h : heap) (rc : rcombo) : list (str * dict) :=
  map (fun ca => (fst ca, hget h (snd ca))) rc.

(* which rule get_parameters_value follows when the strategy drew something *)
Inductive gpv_rule :=
| CopyWhenDrawn            (* the code: if new is not None: copied = deepclone(value); copied.update(new); return copied *)
| ShareWhenNothingNew.     (* SENTINEL, not the code: if not new: return value (seed C17_c) *)

(* get_parameters_value(value = the object at address a).  drawn = draw(strategy)
   of this call (None: st.none(), the location declares no parameter).
   Result: the heap and the object returned (None: Python None). *)
Definition gpv_ref (rule : gpv_rule) (drawn : option dict) (h : heap) (a : nat) : heap * option nat :=
  match hget h a with
  | [] =>                                             (* not value: return draw(strategy) - a new object *)
      match drawn with
      | Some new => (h ++ [new], Some (length h))
      | None => (h, None)
      end
  | v =>
      match drawn with
      | None => (h, Some a)                           (* return value: the object of the caller itself *)
      | Some new =>
          match rule, new with
          | ShareWhenNothingNew, [] => (h, Some a)
          | _, _ => (h ++ [assoc_update v new], Some (length h))
          end
      end
  end.

Definition case_refs := list (str * option nat).
(* draw idx c v: what the fill-in strategy of container c gives, for the
   idx-th case, when v is the explicit part (exclude = v.keys()) *)
Definition draw_fn := nat -> str -> dict -> option dict.
Definition ser_fn := str -> dict -> dict.

Definition gen_step (rule : gpv_rule) (draw : draw_fn) (idx : nat)
  (acc : heap * case_refs) (ca : str * nat) : heap * case_refs :=
  let r := gpv_ref rule (draw idx (fst ca) (hget (fst acc) (snd ca))) (fst acc) (snd ca) in
  (fst r, snd acc ++ [(fst ca, snd r)]).

Definition is_some {A} (o : option A) : bool := match o with Some _ => true | None => false end.
Definition is_nil {A} (l : list A) : bool := match l with [] => true | _ => false end.

(* which rule serialize_components follows *)
Inductive ser_rule :=
| SerExplicitOnly          (* the code since cedd1977: own = keys of the explicit container, {**map_func(own), **generated} *)
| SerWholeContainer.       (* SENTINEL, not the code: setattr(case, container, map_func(value)) on the merged container, in place (finding F7) *)

(* key in names *)
Definition own (names v : dict) : dict := filter (fun kv => assoc_mem (fst kv) names) v.
Definition generated (names v : dict) : dict := filter (fun kv => negb (assoc_mem (fst kv) names)) v.
(* {**map_func(own), **generated}: a dict display, i.e. a new object (own is a
   new dict too; map_func writes into it and nobody else holds it) *)
Definition ser_new (ser : ser_fn) (c : str) (names v : dict) : dict :=
  assoc_update (ser c (own names v)) (generated names v).

(* one round of `for container, map_func in maps.items()` for a container of the
   combination.  x = ((container, address of the EXPLICIT object = explicit.get(container)),
                      (container, what the case holds after generation)).
   smap c = the operation has a serializer for the container (c in maps); containers
   outside maps are never touched.  (maps is iterated in the order of
   LOCATION_TO_CONTAINER, here the order of the combination: every round allocates at
   most one object and reads only the explicit objects and its own case object, so the
   order changes addresses but neither contents nor which objects are distinct.) *)
Definition ser_one (srule : ser_rule) (smap : str -> bool) (ser : ser_fn) (h : heap)
  (x : (str * nat) * (str * option nat)) : heap * (str * option nat) :=
  let c := fst (snd x) in
  match snd (snd x) with
  | None => (h, (c, None))                                   (* not value: continue / map_func(None) is None *)
  | Some a =>
      if smap c then
        match srule with
        | SerWholeContainer => (hset h a (ser c (hget h a)), (c, Some a))
        | SerExplicitOnly =>
            if is_nil (hget h a) then (h, (c, Some a))         (* not value: continue *)
            else (h ++ [ser_new ser c (hget h (snd (fst x))) (hget h a)], (c, Some (length h)))
        end
      else (h, (c, Some a))
  end.
Fixpoint ser_phase (srule : ser_rule) (smap : str -> bool) (ser : ser_fn) (h : heap)
  (xs : list ((str * nat) * (str * option nat))) : heap * case_refs :=
  match xs with
  | [] => (h, [])
  | x :: r =>
      let s := ser_one srule smap ser h x in
      let rest := ser_phase srule smap ser (fst s) r in
      (fst rest, snd s :: snd rest)
  end.

(* the generation half of generate_one: get_parameters_value per container *)
Definition gen_case (rule : gpv_rule) (draw : draw_fn) (idx : nat) (h : heap) (rc : rcombo) : heap * case_refs :=
  fold_left (gen_step rule draw idx) rc (h, []).

(* generate_one of openapi_cases called with the combination, mapped through
   make_serializer(explicit) where explicit = the combination itself (no overrides) *)
Definition build_case (rule : gpv_rule) (srule : ser_rule) (draw : draw_fn) (smap : str -> bool) (ser : ser_fn)
  (idx : nat) (h : heap) (rc : rcombo) : heap * case_refs :=
  let g := gen_case rule draw idx h rc in
  ser_phase srule smap ser (fst g) (List.combine rc (snd g)).

Fixpoint assemble_from (rule : gpv_rule) (srule : ser_rule) (draw : draw_fn) (smap : str -> bool) (ser : ser_fn)
  (idx : nat) (h : heap) (rcs : list rcombo) : heap * list case_refs :=
  match rcs with
  | [] => (h, [])
  | rc :: r =>
      let b := build_case rule srule draw smap ser idx h rc in
      let rest := assemble_from rule srule draw smap ser (S idx) (fst b) r in
      (fst rest, snd b :: snd rest)
  end.
Definition assemble (rule : gpv_rule) (srule : ser_rule) (draw : draw_fn) (smap : str -> bool) (ser : ser_fn)
  (h : heap) (rcs : list rcombo) :=
  assemble_from rule srule draw smap ser 0 h rcs.

(* what get_parameters_value returned for every container of every case (the object
   serialize_components finds in the case), in the same sequence *)
Fixpoint gen_refs_from (rule : gpv_rule) (srule : ser_rule) (draw : draw_fn) (smap : str -> bool) (ser : ser_fn)
  (idx : nat) (h : heap) (rcs : list rcombo) : list case_refs :=
  match rcs with
  | [] => []
  | rc :: r => snd (gen_case rule draw idx h rc)
               :: gen_refs_from rule srule draw smap ser (S idx) (fst (build_case rule srule draw smap ser idx h rc)) r
  end.

(* what each case holds when the requests are sent *)
Definition wire (h : heap) (cr : case_refs) : list (str * option dict) :=
  map (fun co => (fst co, match snd co with Some a => Some (hget h a) | None => None end)) cr.
Definition wires (rule : gpv_rule) (srule : ser_rule) (draw : draw_fn) (smap : str -> bool) (ser : ser_fn)
  (h : heap) (rcs : list rcombo) : list (list (str * option dict)) :=
  map (wire (fst (assemble rule srule draw smap ser h rcs))) (snd (assemble rule srule draw smap ser h rcs)).

(* ---- specification: the value-level meaning of one case ---- *)
Definition strip (o : option dict) : dict := match o with Some d => d | None => [] end.
(* explicit part merged with the drawn part (copied.update(new)); an empty
   explicit container is replaced by the draw *)
Definition merged (v new : dict) : dict := match v with [] => new | _ => assoc_update v new end.
(* the value serialize_components leaves in the case for a merged container m whose
   explicit part is names: the explicit keys serialized, the rest as generated *)
Definition sval (smap : str -> bool) (ser : ser_fn) (c : str) (names m : dict) : dict :=
  if smap c && negb (is_nil m) then ser_new ser c names m else m.
Definition case_value (draw : draw_fn) (smap : str -> bool) (ser : ser_fn) (h0 : heap) (idx : nat) (rc : rcombo)
  : list (str * option dict) :=
  map (fun ca => (fst ca, Some (sval smap ser (fst ca) (hget h0 (snd ca))
         (merged (hget h0 (snd ca)) (strip (draw idx (fst ca) (hget h0 (snd ca)))))))) rc.
Fixpoint values_from (draw : draw_fn) (smap : str -> bool) (ser : ser_fn) (h0 : heap) (idx : nat) (rcs : list rcombo)
  : list (list (str * option dict)) :=
  match rcs with
  | [] => []
  | rc :: r => case_value draw smap ser h0 idx rc :: values_from draw smap ser h0 (S idx) r
  end.

(* the pre-fix meaning of a case (SENTINEL side): the serializer applied to the whole
   merged container *)
Definition case_value_whole (draw : draw_fn) (ser : ser_fn) (h0 : heap) (idx : nat) (rc : rcombo)
  : list (str * option dict) :=
  map (fun ca => (fst ca, Some (ser (fst ca)
         (merged (hget h0 (snd ca)) (strip (draw idx (fst ca) (hget h0 (snd ca)))))))) rc.

(* SERIALIZED EXACTLY ONCE: the explicit container through the serializer of its
   location (the identity where the operation has none), the fill-in as its strategy
   delivered it (that strategy applies the same serializer itself: draw_of_strategy) *)
Definition ser1 (smap : str -> bool) (ser : ser_fn) : ser_fn := fun c d => if smap c then ser c d else d.
Definition once_case (draw : draw_fn) (smap : str -> bool) (ser : ser_fn) (idx : nat) (l : list (str * dict))
  : list (str * option dict) :=
  map (fun cd => (fst cd, Some (assoc_update (ser1 smap ser (fst cd) (snd cd)) (strip (draw idx (fst cd) (snd cd)))))) l.
Fixpoint once_from (draw : draw_fn) (smap : str -> bool) (ser : ser_fn) (idx : nat) (ls : list (list (str * dict)))
  : list (list (str * option dict)) :=
  match ls with
  | [] => []
  | l :: r => once_case draw smap ser idx l :: once_from draw smap ser (S idx) r
  end.

(* region predicates (executable) *)
Definition wf_refs (h : heap) (rcs : list rcombo) : bool :=
  forallb (fun rc => forallb (fun ca => Nat.ltb (snd ca) (length h)) rc) rcs.
(* every location that has an explicit container declares parameters: the
   strategy is not st.none() *)
Fixpoint all_drawn (draw : draw_fn) (h0 : heap) (idx : nat) (rcs : list rcombo) : bool :=
  match rcs with
  | [] => true
  | rc :: r => forallb (fun ca => is_some (draw idx (fst ca) (hget h0 (snd ca)))) rc
               && all_drawn draw h0 (S idx) r
  end.
(* every parameter of every explicit container has an example: the explicit
   containers are not empty and the strategy draws the empty object *)
Fixpoint nothing_to_fill (draw : draw_fn) (h0 : heap) (idx : nat) (rcs : list rcombo) : bool :=
  match rcs with
  | [] => true
  | rc :: r => forallb (fun ca => negb (is_nil (hget h0 (snd ca)))
                                  && match draw idx (fst ca) (hget h0 (snd ca)) with
                                     | Some [] => true | _ => false end) rc
               && nothing_to_fill draw h0 (S idx) r
  end.
(* the contract of the fill-in draw (exclude = value.keys(), a dict has unique keys):
   something is drawn, its keys are pairwise different and none is an explicit key;
   the explicit containers are not empty *)
Fixpoint nodup_strs (l : list str) : bool :=
  match l with [] => true | k :: r => negb (existsb (str_eqb k) r) && nodup_strs r end.
Definition draw_ok (v : dict) (o : option dict) : bool :=
  match o with
  | Some new => negb (is_nil v) && nodup_strs (keys new) && forallb (fun k => negb (assoc_mem k v)) (keys new)
  | None => false
  end.
Fixpoint fill_ok (draw : draw_fn) (h0 : heap) (idx : nat) (rcs : list rcombo) : bool :=
  match rcs with
  | [] => true
  | rc :: r => forallb (fun ca => draw_ok (hget h0 (snd ca)) (draw idx (fst ca) (hget h0 (snd ca)))) rc
               && fill_ok draw h0 (S idx) r
  end.
(* the examples, each serialized exactly once *)
Definition examples_serialized_once (ser : ser_fn) (h0 : heap) (rcs : list rcombo)
  : list (list (str * option dict)) :=
  map (fun rc => map (fun ca => (fst ca, Some (ser (fst ca) (hget h0 (snd ca))))) rc) rcs.

(* addresses held by the cases *)
Definition case_addrs (crs : list case_refs) : list nat :=
  flat_map (fun cr => flat_map (fun co => match snd co with Some a => [a] | None => [] end) cr) crs.

(* get_parameters_strategy maps the drawn object through the SAME style
   serializer before get_parameters_value merges it (strategy.map(serialize),
   _hypothesis.py:362-364); post = quote_all / jsonify_python_specific_types *)
Definition draw_of_strategy (ser post : ser_fn) (raw : draw_fn) : draw_fn :=
  fun idx c v => match raw idx c v with Some r => Some (post c (ser c r)) | None => None end.

(* demo serializer for the witnesses: matrix_primitive on every entry,
   item[name] = ;name=value (values here are strings) *)
Definition matrix_entry (kv : str * json) : str * json :=
  (fst kv, match snd kv with JStr s => JStr (59%N :: fst kv ++ [61%N] ++ s) | x => x end).
Definition ser_matrix : ser_fn := fun _ d => map matrix_entry d.

(* finite tables standing for the two foreign functions in the correspondence
   runs (the harness fills them from the real serializer / the recorded draws);
   a serializer input that is not in the table gives a marker entry *)
Definition dict_eqb (a b : dict) : bool := json_eqb (JObj a) (JObj b).
Definition s_unmapped : str := [60;117;110;109;97;112;112;101;100;62]%N.   (* <unmapped> *)
Definition ser_table (tbl : list (str * dict * dict)) : ser_fn :=
  fun c d => match find (fun e => str_eqb c (fst (fst e)) && dict_eqb d (snd (fst e))) tbl with
             | Some e => snd e
             | None => [(s_unmapped, JNull)]
             end.
Definition draw_table (tbl : list (nat * str * option dict)) : draw_fn :=
  fun idx c _ => match find (fun e => Nat.eqb idx (fst (fst e)) && str_eqb c (snd (fst e))) tbl with
                 | Some e => snd e
                 | None => None
                 end.
Definition smap_of (l : list str) : str -> bool := fun c => in_strs c l.
Definition smap_all : str -> bool := fun _ => true.
Definition heap_eqb (a b : heap) : bool := json_eqb (JArr (map JObj a)) (JArr (map JObj b)).
(* everything the correspondence compares, for one example list *)
Definition assembly_report (rule : gpv_rule) (srule : ser_rule) (draw : draw_fn) (smap : str -> bool) (ser : ser_fn)
  (exs : list example)
  : list rcombo * list (list (str * option dict)) * list case_refs * bool * list case_refs :=
  let hr := ref_combinations exs in
  let asm := assemble rule srule draw smap ser (fst hr) (snd hr) in
  (snd hr, wires rule srule draw smap ser (fst hr) (snd hr), snd asm,
   heap_eqb (firstn (length (fst hr)) (fst asm)) (fst hr),
   gen_refs_from rule srule draw smap ser 0 (fst hr) (snd hr)).

(* ------------------------------------------------------------------ *)
(* 8. add_examples on cases with their REAL header dictionaries         *)
(*    (builder.py:200-210 the loop, builder.py:722-726                  *)
(*    find_invalid_headers, core/validation.py:4-28, the two regular    *)
(*    expressions of requests._internal_utils).  Section 4 abstracts a  *)
(*    case to two booleans; here a case keeps the combination it was     *)
(*    built from and its header dictionary, and the mark keeps the       *)
(*    dictionary handed to InvalidHeadersExampleMark.set.                *)
(*    Added after seed C17_d_invalid_headers_accumulated.                *)
(* ------------------------------------------------------------------ *)
(* Python str whitespace (the class \s of re on str patterns) *)
Definition py_space (c : N) : bool :=
  ((9 <=? c) && (c <=? 13) || (28 <=? c) && (c <=? 32) || (c =? 133) || (c =? 160) || (c =? 5760)
   || (8192 <=? c) && (c <=? 8202) || (c =? 8232) || (c =? 8233) || (c =? 8239) || (c =? 8287) || (c =? 12288))%N.
Definition is_crlf (c : N) : bool := ((c =? 10) || (c =? 13))%N.
(* value.encode(latin-1) succeeds *)
Definition latin1 (s : str) : bool := forallb (fun c => (c <=? 255)%N) s.
(* requests _VALID_HEADER_VALUE_RE_STR: ^\S[^\r\n]*\Z|^\Z *)
Definition value_re_ok (v : str) : bool :=
  match v with [] => true | c :: r => negb (py_space c) && negb (existsb is_crlf r) end.
(* requests _VALID_HEADER_NAME_RE_STR: ^[^:\s][^:\r\n]*\Z *)
Definition name_re_ok (n : str) : bool :=
  match n with
  | [] => false
  | c :: r => negb (c =? 58)%N && negb (py_space c) && negb (existsb (fun x => (x =? 58)%N || is_crlf x) r)
  end.
(* INVALID_HEADER_RE.search: \n(?![ \t])|\r(?![ \t\n]) *)
Fixpoint invalid_header_re (v : str) : bool :=
  match v with
  | [] => false
  | c :: r =>
      (if (c =? 10)%N then match r with x :: _ => negb ((x =? 32) || (x =? 9))%N | [] => true end
       else if (c =? 13)%N then match r with x :: _ => negb ((x =? 32) || (x =? 9) || (x =? 10))%N | [] => true end
       else false) || invalid_header_re r
  end.

(* a header value: a str, or anything else (an int that was not serialized, ...) *)
Inductive hval := HStr (s : str) | HNonStr (n : nat).
Definition hdict := list (str * hval).

Definition is_latin_1_encodable (v : hval) : bool :=
  match v with HStr s => latin1 s | HNonStr _ => false end.
(* check_header_validity raising InvalidHeader -> True; else the search *)
Definition has_invalid_characters (n : str) (v : hval) : bool :=
  match v with
  | HNonStr _ => false
  | HStr s => if name_re_ok n && value_re_ok s then invalid_header_re s else true
  end.
Definition header_invalid (nv : str * hval) : bool :=
  negb (is_latin_1_encodable (snd nv)) || has_invalid_characters (fst nv) (snd nv).
(* dict(find_invalid_headers(headers)): headers is a dict, the pairs kept have
   distinct keys, dict() of them is the same sequence *)
Definition find_invalid_headers (hs : hdict) : hdict := filter header_invalid hs.

(* a generated example case: the combination it was built from (what it
   carries), and case.headers (None = the case has no headers) *)
Record hcase := { hc_id : nat; hc_combo : combo; hc_headers : option hdict }.

(* OwnHeaders: the code.  AccumulatedHeaders: labelled SENTINEL, the variant
   that gathers the invalid headers of all cases in one dict, tests that dict,
   and sets the mark once after the loop (seed C17_d). *)
Inductive hdr_rule := OwnHeaders | AccumulatedHeaders.

Record hstate := { hs_added : list hcase; hs_mark : option hdict; hs_acc : hdict }.
Definition hs_init : hstate := {| hs_added := []; hs_mark := None; hs_acc := [] |}.
Definition hs_add (st : hstate) (c : hcase) : hstate :=
  {| hs_added := hs_added st ++ [c]; hs_mark := hs_mark st; hs_acc := hs_acc st |}.

Definition add_step (rule : hdr_rule) (st : hstate) (c : hcase) : hstate :=
  match hc_headers c with
  | None => hs_add st c
  | Some hs =>
      match rule with
      | OwnHeaders =>
          match find_invalid_headers hs with
          | [] => hs_add st c
          | inv => {| hs_added := hs_added st; hs_mark := Some inv; hs_acc := hs_acc st |}   (* Mark.set; continue *)
          end
      | AccumulatedHeaders =>
          let acc := assoc_update (hs_acc st) (find_invalid_headers hs) in
          match acc with
          | [] => {| hs_added := hs_added st ++ [c]; hs_mark := hs_mark st; hs_acc := acc |}
          | _ => {| hs_added := hs_added st; hs_mark := hs_mark st; hs_acc := acc |}
          end
      end
  end.

Record hresult := { hr_added : list hcase; hr_mark : option hdict }.
Definition add_examples_h (rule : hdr_rule) (cs : list hcase) : hresult :=
  let st := fold_left (add_step rule) cs hs_init in
  {| hr_added := hs_added st;
     hr_mark := match rule with
                | OwnHeaders => hs_mark st
                | AccumulatedHeaders => match hs_acc st with [] => None | a => Some a end
                end |}.

(* ---- specification vocabulary ---- *)
Definition case_invalid (c : hcase) : hdict :=
  match hc_headers c with Some hs => find_invalid_headers hs | None => [] end.
Definition case_bad (c : hcase) : bool :=
  match case_invalid c with [] => false | _ => true end.
(* example e goes out: some attached case carries it *)
Definition sent (r : hresult) (e : example) : Prop :=
  exists c, In c (hr_added r) /\ carries (hc_combo c) e.
Definition sentb (r : hresult) (e : example) : bool :=
  existsb (fun c => carriesb (hc_combo c) e) (hr_added r).
(* the error built from the mark names this header with this value *)
Definition named (r : hresult) (nv : str * hval) : Prop :=
  exists inv, hr_mark r = Some inv /\ In nv inv.
(* the abstraction of section 4 *)
Definition abs_case (c : hcase) : ecase :=
  {| case_id := hc_id c;
     has_headers := match hc_headers c with Some _ => true | None => false end;
     invalid_headers := case_bad c |}.
Definition abs_result (r : hresult) : add_result :=
  Added (map abs_case (hr_added r)) (match hr_mark r with Some _ => [MInvalidHeaders] | None => [] end).
Fixpoint last_opt {A} (l : list A) : option A :=
  match l with [] => None | [x] => Some x | _ :: r => last_opt r end.
(* region of the naming theorem: at most one case has invalid headers *)
Definition single_bad_case (cs : list hcase) : bool := length (filter case_bad cs) <=? 1.
(* generate_one is foreign: mk idx combo is the case built from the idx-th combination *)
Fixpoint imap {A B} (f : nat -> A -> B) (i : nat) (l : list A) : list B :=
  match l with [] => [] | x :: r => f i x :: imap f (S i) r end.
(* for the correspondence: ids of the attached cases and the mark *)
Definition add_examples_h_report (rule : hdr_rule) (cs : list hcase) : list nat * option hdict :=
  let r := add_examples_h rule cs in (map hc_id (hr_added r), hr_mark r).
