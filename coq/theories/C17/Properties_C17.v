(* C17 property theorems only.  Each is closed by [exact] of a lemma of
   Proofs_C17 and followed by Print Assumptions. *)
From Coq Require Import List NArith ZArith Bool PeanoNat.
From Verif Require Import Common.Str Common.Json C17.Model_C17 C17.Proofs_C17 C17.AsmProofs_C17 C17.HdrProofs_C17.
Import ListNotations.

(* every example of the extracted list occurs unchanged in some combination
   handed to openapi_cases, whatever the mix of parameters / media types and
   however many examples each has *)
Theorem C17_every_example_used : forall exs e,
  containers_ok exs = true -> In e exs ->
  exists c, In c (produce_combinations exs) /\ carries c e.
Proof. exact every_example_used. Qed.
Print Assumptions C17_every_example_used.

(* ... and a combination carries nothing but examples of the list *)
Theorem C17_nothing_invented : forall exs c x,
  containers_ok exs = true -> In c (produce_combinations exs) -> carries c x -> In x exs.
Proof. exact nothing_invented. Qed.
Print Assumptions C17_nothing_invented.

(* the number of combinations is the largest number of examples any single
   parameter has, or the number of body examples, whichever is larger *)
Theorem C17_count_is_max : forall exs,
  length (produce_combinations exs) = expected_count exs.
Proof. exact count_is_max. Qed.
Print Assumptions C17_count_is_max.

(* no examples <-> no examples-phase cases *)
Theorem C17_no_examples_no_cases : forall exs, produce_combinations exs = [] <-> exs = [].
Proof. exact no_examples_no_cases. Qed.
Print Assumptions C17_no_examples_no_cases.

(* the round-robin never falls back on its default: no grouped list is empty *)
Theorem C17_groups_nonempty : forall exs c m n vs,
  In (c, m) (fst (group exs)) -> In (n, vs) m -> vs <> [].
Proof. exact group_nonempty. Qed.
Print Assumptions C17_groups_nonempty.

(* the fill-in of a partly explicit container keeps every explicit value and
   only adds declared names (gen = the foreign generator, under its contract) *)
Theorem C17_explicit_not_overwritten : forall gen, gen_contract gen ->
  forall hp props req v r,
  v <> [] -> get_parameters_value gen hp props req (Some v) = Some r ->
  (forall k x, assoc_get k v = Some x -> assoc_get k r = Some x) /\
  (forall k, assoc_mem k r = true -> assoc_mem k v = true \/ In k (keys props)).
Proof. exact explicit_not_overwritten. Qed.
Print Assumptions C17_explicit_not_overwritten.

(* ... and required names without an example are present after the fill-in *)
Theorem C17_required_filled : forall gen, gen_contract gen ->
  forall props req v new,
  draw_location gen true props req (keys v) = Some new ->
  forall k, In k req -> In k (keys props) -> assoc_mem k (assoc_update v new) = true.
Proof. exact required_filled. Qed.
Print Assumptions C17_required_filled.

(* an example case that is not added to the test is reported, except when the
   generation raised one of the two exception classes that set no mark *)
Theorem C17_dropped_is_reported_partial : forall g,
  silent_exn g = false ->
  n_added (add_examples g) < intended g -> reported (add_examples g) = true.
Proof. exact dropped_is_reported_partial. Qed.
Print Assumptions C17_dropped_is_reported_partial.

Theorem C17_dropped_is_reported_refuted : exists g,
  n_added (add_examples g) < intended g /\ reported (add_examples g) = false.
Proof. exists g_silent. exact dropped_is_reported_refuted. Qed.
Print Assumptions C17_dropped_is_reported_refuted.

(* extraction: an example written on the schema itself or on one of its anyOf /
   oneOf branches is among the extracted top-level values (when extraction does
   not raise) *)
Theorem C17_branch_examples_extracted : forall d key l b ef efs esf v vs,
  key = s_anyOf \/ key = s_oneOf ->
  assoc_get key d = Some (JArr l) -> In b l -> In ef efs -> obj_get ef b = Some v ->
  top_values_res efs esf (JObj d) = Ok vs -> In v vs.
Proof. exact branch_examples_extracted. Qed.
Print Assumptions C17_branch_examples_extracted.

Theorem C17_self_example_extracted : forall d ef efs esf v vs,
  In ef efs -> assoc_get ef d = Some v ->
  top_values_res efs esf (JObj d) = Ok vs -> In v vs.
Proof. exact self_example_extracted. Qed.
Print Assumptions C17_self_example_extracted.

(* the WHOLE node of extract_top_level (parameter object / media type object /
   OpenAPI 2.0 body parameter object, followed by the expanded subschemas of its
   schema): every declared single example of the node is extracted - every
   keyword of the list (example; x-example for OpenAPI 2.0) present on the node
   itself ... *)
Theorem C17_node_keyword_extracted : forall efs esf node unresolved ef v vs,
  In ef efs -> obj_get ef node = Some v ->
  node_values_res efs esf node unresolved = Ok vs -> In v vs.
Proof. exact node_keyword_extracted. Qed.
Print Assumptions C17_node_keyword_extracted.

(* ... and on every expanded subschema of its schema *)
Theorem C17_node_schema_keyword_extracted : forall efs esf node unresolved sch subs s ef v vs,
  obj_get s_schema node = Some sch -> expand_res sch = Ok subs -> In s subs ->
  In ef efs -> obj_get ef s = Some v ->
  node_values_res efs esf node unresolved = Ok vs -> In v vs.
Proof. exact node_schema_keyword_extracted. Qed.
Print Assumptions C17_node_schema_keyword_extracted.

(* OpenAPI 2.0 nodes that carry BOTH keywords: both values are extracted, for the
   node itself and for its schema *)
Theorem C17_both_keywords_extracted : forall esf node unresolved v w vs,
  obj_get s_example node = Some v -> obj_get s_x_example node = Some w ->
  node_values_res [s_example; s_x_example] esf node unresolved = Ok vs -> In v vs /\ In w vs.
Proof. exact both_keywords_extracted. Qed.
Print Assumptions C17_both_keywords_extracted.

Theorem C17_both_keywords_of_schema_extracted : forall esf node unresolved d v w vs,
  obj_get s_schema node = Some (JObj d) ->
  assoc_get s_example d = Some v -> assoc_get s_x_example d = Some w ->
  node_values_res [s_example; s_x_example] esf node unresolved = Ok vs -> In v vs /\ In w vs.
Proof. exact both_keywords_of_schema_extracted. Qed.
Print Assumptions C17_both_keywords_of_schema_extracted.

(* the first-keyword-only rule (x-example has precedence; a sentinel, not the
   code) loses the plain example of a 2.0 query parameter and of a 2.0 body
   parameter, its schema and a branch of it; the rule of the code gives all *)
Theorem C17_first_keyword_only_refuted : exists q b,
  obj_get s_example q = Some (JStr [101]%N) /\ obj_get s_x_example q = Some (JStr [120]%N) /\
  node_values [s_example; s_x_example] s_x_examples q q = XOk [JStr [101]%N; JStr [120]%N] /\
  node_values_first_only [s_x_example; s_example] s_x_examples q q = XOk [JStr [120]%N] /\
  node_values [s_example; s_x_example] s_x_examples b b = XOk [JInt 2; JInt 1; JInt 4; JInt 3; JInt 5; JInt 6] /\
  node_values_first_only [s_x_example; s_example] s_x_examples b b = XOk [JInt 1; JInt 3; JInt 6].
Proof. exists node_both_query, node_both_body. exact first_keyword_only_refuted. Qed.
Print Assumptions C17_first_keyword_only_refuted.

(* the hypotheses of the two both-keywords theorems hold on a witness *)
Theorem C17_both_keywords_hypotheses_satisfiable : exists node,
  obj_get s_example node = Some (JInt 2) /\ obj_get s_x_example node = Some (JInt 1) /\
  (exists d, obj_get s_schema node = Some (JObj d) /\
             assoc_get s_example d = Some (JInt 4) /\ assoc_get s_x_example d = Some (JInt 3)) /\
  exists vs, node_values_res [s_example; s_x_example] s_x_examples node node = Ok vs.
Proof. exists node_both_body. exact both_keywords_demo. Qed.
Print Assumptions C17_both_keywords_hypotheses_satisfiable.

(* ... but not on a later allOf member of an OpenAPI 2.0 schema (fields example /
   x-example / x-examples): the same schema read with the 3.0 fields gives both *)
Theorem C17_allof_examples_20_refuted : exists schema first second,
  schema = JObj [(s_allOf, JArr [first; second])] /\ obj_get s_example second = Some (JInt 2) /\
  top_values [s_example; s_x_example] s_x_examples schema = XOk [JInt 1] /\
  top_values [s_example] s_examples schema = XOk [JInt 1; JInt 2].
Proof.
  exists sch_allof_20, (JObj [(s_example, JInt 1)]), (JObj [(s_example, JInt 2)]).
  repeat split; exact (proj1 allof_examples_20_refuted) || exact (proj2 allof_examples_20_refuted).
Qed.
Print Assumptions C17_allof_examples_20_refuted.

(* ... nor inside a branch of a branch *)
Theorem C17_nested_branch_refuted : exists inner,
  obj_get s_example inner = Some (JInt 1) /\
  top_values [s_example] s_examples (JObj [(s_anyOf, JArr [JObj [(s_anyOf, JArr [inner])]])]) = XOk [].
Proof. exists (JObj [(s_example, JInt 1)]). split; [reflexivity | exact nested_branch_refuted]. Qed.
Print Assumptions C17_nested_branch_refuted.

(* ... nor on a property of an object schema that is itself an allOf member *)
Theorem C17_property_in_branch_refuted : exists schema, forall fuel g,
  extract_from_schema (S fuel) g s_example s_examples schema = XOk [] /\
  top_values [s_example] s_examples schema = XOk [].
Proof. exists sch_prop_in_branch. exact property_in_branch_refuted. Qed.
Print Assumptions C17_property_in_branch_refuted.

(* the unresolved examples definition of a parameter is the one of the first raw
   parameter with the same name AND location, whatever same-named parameters of
   other locations (with or without examples) are listed before or after it *)
Theorem C17_examples_lookup_by_location : forall pre p post name loc field x,
  forallb (fun q => has_name q && negb (name_is name q && in_is loc q)) pre = true ->
  name_is name p = true -> in_is loc p = true -> obj_get field p = Some x ->
  find_param_examples (pre ++ p :: post) name loc field = Ok x.
Proof. exact lookup_by_location. Qed.
Print Assumptions C17_examples_lookup_by_location.

(* the rule before b8949ae5 (name only; kept as a sentinel) dies on a header `id`
   without examples listed before a query `id` with examples; the present rule
   finds the definition and its example is extracted *)
Theorem C17_examples_lookup_by_name_only_refuted : exists params name field d v,
  find_param_examples_by_name_only params name field = Err Raised /\
  find_param_examples params name s_query field = Ok d /\
  extract_inner_examples d d = XOk [v].
Proof.
  exists [p_header_id; p_query_id], s_id, s_examples, d_examples, (JStr [81;49]%N).
  exact lookup_by_name_only_refuted.
Qed.
Print Assumptions C17_examples_lookup_by_name_only_refuted.

(* hypotheses are satisfiable by non-trivial inputs *)
Theorem C17_hypotheses_satisfiable :
  (exists exs, containers_ok exs = true /\ length (produce_combinations exs) = 3 /\
     forallb (fun e => existsb (fun c => carriesb c e) (produce_combinations exs)) exs = true) /\
  (exists gen, gen_contract gen /\
     get_parameters_value gen true [([113]%N, JNull); ([114]%N, JNull)] [[114]%N; [113]%N] (Some [([113]%N, JInt 7)])
     = Some [([113]%N, JInt 7); ([114]%N, JNull)]).
Proof.
  split; [exists exs_demo; exact exs_demo_ok | exists gen_demo; split; [exact gen_demo_contract | exact merge_demo]].
Qed.
Print Assumptions C17_hypotheses_satisfiable.

(* ---- case assembly with object identity (Model_C17 section 7; the serializer half follows fix cedd1977) ---- *)

(* The sequence [generate_one(strategy) for strategy in get_strategies_from_examples()] over a heap of dict
   objects - get_parameters_value on the container OBJECT of the combination, then serialize_components
   building a new dict {**map_func(own), **generated} from the keys of the explicit container, one case after
   the other - equals the pure per-case value (sval: the explicit keys of the merged container through the
   serializer, the other keys as generated), whatever the serializer, the set of containers that have one,
   the draws, the number of cases and the sharing of container objects between the combinations; the source
   objects keep their contents; the containers of the cases are new and pairwise distinct objects. *)
Theorem C17_cases_independent : forall draw smap ser h0 rcs,
  wf_refs h0 rcs = true -> all_drawn draw h0 0 rcs = true ->
  wires CopyWhenDrawn SerExplicitOnly draw smap ser h0 rcs = values_from draw smap ser h0 0 rcs /\
  firstn (length h0) (fst (assemble CopyWhenDrawn SerExplicitOnly draw smap ser h0 rcs)) = h0 /\
  NoDup (case_addrs (snd (assemble CopyWhenDrawn SerExplicitOnly draw smap ser h0 rcs))) /\
  (forall a, In a (case_addrs (snd (assemble CopyWhenDrawn SerExplicitOnly draw smap ser h0 rcs))) -> length h0 <= a).
Proof. exact cases_independent. Qed.
Print Assumptions C17_cases_independent.

(* the identity-level produce_combinations (which objects are shared between the combinations) denotes the
   value-level one of the theorems above *)
Theorem C17_ref_combinations_sound : forall exs, containers_ok exs = true ->
  map (deref (fst (ref_combinations exs))) (snd (ref_combinations exs)) = map containers (produce_combinations exs) /\
  wf_refs (fst (ref_combinations exs)) (snd (ref_combinations exs)) = true.
Proof. exact ref_combinations_sound. Qed.
Print Assumptions C17_ref_combinations_sound.

(* FULL since fix cedd1977 (was C17_serialized_once_partial on the region nothing_to_fill, refuted outside it
   by finding F7): for ALL draws that honour the contract of the fill-in (fill_ok: something is drawn, its keys
   are distinct and none is an explicit key - exclude = value.keys()), every case of the sequence carries, for
   every container, the example container serialized exactly ONCE (ser1: the identity where the operation has
   no serializer for the location) and the fill-in exactly as its strategy delivered it *)
Theorem C17_serialized_once : forall draw smap ser h0 rcs,
  wf_refs h0 rcs = true -> fill_ok draw h0 0 rcs = true ->
  wires CopyWhenDrawn SerExplicitOnly draw smap ser h0 rcs = once_from draw smap ser 0 (map (deref h0) rcs).
Proof. exact serialized_once. Qed.
Print Assumptions C17_serialized_once.

(* ... with the strategy of get_parameters_strategy, which maps the raw drawn object through the same style
   serializer (draw_of_strategy): explicit values and generated values each pass through it once *)
Theorem C17_fill_in_serialized_once : forall ser post raw smap h0 rcs,
  wf_refs h0 rcs = true -> fill_ok (draw_of_strategy ser post raw) h0 0 rcs = true ->
  wires CopyWhenDrawn SerExplicitOnly (draw_of_strategy ser post raw) smap ser h0 rcs =
  once_from (fun idx c v => match raw idx c v with Some r => Some (post c (ser c r)) | None => None end)
            smap ser 0 (map (deref h0) rcs).
Proof. exact fill_in_serialized_once. Qed.
Print Assumptions C17_fill_in_serialized_once.

(* ... stated on example lists, through produce_combinations *)
Theorem C17_examples_serialized_once : forall exs draw smap ser, containers_ok exs = true ->
  fill_ok draw (fst (ref_combinations exs)) 0 (snd (ref_combinations exs)) = true ->
  wires CopyWhenDrawn SerExplicitOnly draw smap ser (fst (ref_combinations exs)) (snd (ref_combinations exs)) =
  once_from draw smap ser 0 (map containers (produce_combinations exs)).
Proof. exact examples_once_end_to_end. Qed.
Print Assumptions C17_examples_serialized_once.

(* SENTINEL rule, not the code (finding F7, fixed by cedd1977: setattr(case, container, map_func(value)) on the
   whole merged container): the fill-in strategy already maps the drawn object through the style serializer,
   the pre-fix serialize_components applied it again - the generated parameter goes out serialized twice
   (witness: a = 5 explicit, b = 3 generated, matrix style: a = ;a=5 but b = ;b=;b=3); the rule of the code
   serializes both once *)
Theorem C17_whole_container_serializer_refuted : exists ser post raw h0 rcs,
  wf_refs h0 rcs = true /\ fill_ok (draw_of_strategy ser post raw) h0 0 rcs = true /\
  wires CopyWhenDrawn SerWholeContainer (draw_of_strategy ser post raw) smap_all ser h0 rcs
    <> once_from (draw_of_strategy ser post raw) smap_all ser 0 (map (deref h0) rcs) /\
  wires CopyWhenDrawn SerExplicitOnly (draw_of_strategy ser post raw) smap_all ser h0 rcs
    = once_from (draw_of_strategy ser post raw) smap_all ser 0 (map (deref h0) rcs).
Proof. exact whole_container_serializer_refuted. Qed.
Print Assumptions C17_whole_container_serializer_refuted.

(* SENTINEL rule, not the code (seed C17_c: if not new: return value): one path parameter with one example and
   three body examples - get_parameters_value hands the ONE object of the combination to the three cases (an
   address below length of the source heap among the generated objects; never under the rule of the code).
   Under the pre-fix serializer the three cases hold one dict serialized three times and no case carries the
   example serialized once; the serializer of the code builds a new dict per case, so the wire is right again
   and the sharing is visible only in the object identities *)
Theorem C17_shared_container_refuted : exists exs ser draw,
  let hr := ref_combinations exs in
  wf_refs (fst hr) (snd hr) = true /\ nothing_to_fill draw (fst hr) 0 (snd hr) = true /\
  (exists a, a < length (fst hr) /\
     In a (case_addrs (gen_refs_from ShareWhenNothingNew SerExplicitOnly draw smap_all ser 0 (fst hr) (snd hr)))) /\
  (forall a, In a (case_addrs (gen_refs_from CopyWhenDrawn SerExplicitOnly draw smap_all ser 0 (fst hr) (snd hr))) ->
     length (fst hr) <= a) /\
  wires ShareWhenNothingNew SerWholeContainer draw smap_all ser (fst hr) (snd hr) <> examples_serialized_once ser (fst hr) (snd hr) /\
  wires CopyWhenDrawn SerWholeContainer draw smap_all ser (fst hr) (snd hr) = examples_serialized_once ser (fst hr) (snd hr) /\
  ~ NoDup (case_addrs (snd (assemble ShareWhenNothingNew SerWholeContainer draw smap_all ser (fst hr) (snd hr)))) /\
  wires ShareWhenNothingNew SerExplicitOnly draw smap_all ser (fst hr) (snd hr) = examples_serialized_once ser (fst hr) (snd hr) /\
  wires CopyWhenDrawn SerExplicitOnly draw smap_all ser (fst hr) (snd hr) = examples_serialized_once ser (fst hr) (snd hr).
Proof. exact shared_container_refuted. Qed.
Print Assumptions C17_shared_container_refuted.

(* non-vacuity: two parameter combinations cycled over three bodies; a fill-in next to the example (each
   serialized once); without a serializer the case keeps the object get_parameters_value returned *)
Theorem C17_assembly_hypotheses_satisfiable :
  let hr := ref_combinations exs_two in
  length (snd hr) = 3 /\ wf_refs (fst hr) (snd hr) = true /\
  all_drawn raw_fill_b (fst hr) 0 (snd hr) = true /\
  fill_ok (draw_of_strategy ser_matrix post_id raw_fill_b) (fst hr) 0 (snd hr) = true /\
  nothing_to_fill draw_nothing (fst hr) 0 (snd hr) = true /\
  wires CopyWhenDrawn SerExplicitOnly draw_nothing smap_all ser_matrix (fst hr) (snd hr) =
    [[(s_path_parameters, Some [(s_id, JStr [59;105;100;61;53]%N)])];
     [(s_path_parameters, Some [(s_id, JStr [59;105;100;61;54]%N)])];
     [(s_path_parameters, Some [(s_id, JStr [59;105;100;61;53]%N)])]] /\
  wires CopyWhenDrawn SerExplicitOnly (draw_of_strategy ser_matrix post_id raw_fill_b) smap_all ser_matrix (fst hr) (snd hr) =
    [[(s_path_parameters, Some [(s_id, JStr [59;105;100;61;53]%N); (s_b, JStr [59;98;61;51]%N)])];
     [(s_path_parameters, Some [(s_id, JStr [59;105;100;61;54]%N); (s_b, JStr [59;98;61;51]%N)])];
     [(s_path_parameters, Some [(s_id, JStr [59;105;100;61;53]%N); (s_b, JStr [59;98;61;51]%N)])]] /\
  snd (assemble CopyWhenDrawn SerExplicitOnly draw_nothing (smap_of []) ser_matrix (fst hr) (snd hr)) =
    gen_refs_from CopyWhenDrawn SerExplicitOnly draw_nothing (smap_of []) ser_matrix 0 (fst hr) (snd hr).
Proof. exact assembly_hypotheses_satisfiable. Qed.
Print Assumptions C17_assembly_hypotheses_satisfiable.

(* ---- add_examples on cases with their real header dictionaries (Model_C17 section 8; added after seed
   C17_d_invalid_headers_accumulated) ---- *)

(* the loop of add_examples in closed form, for all case lists: attached are exactly the cases without an
   invalid header of their OWN, in order; the mark holds the invalid headers of the last case that has some *)
Theorem C17_add_examples_per_case : forall cs,
  add_examples_h OwnHeaders cs =
  {| hr_added := filter (fun c => negb (case_bad c)) cs;
     hr_mark := match last_opt (filter case_bad cs) with Some c => Some (case_invalid c) | None => None end |}.
Proof. exact add_examples_h_own. Qed.
Print Assumptions C17_add_examples_per_case.

(* the two-boolean model of section 4 (filter / existsb) is the abstraction of this loop *)
Theorem C17_add_examples_refines : forall cs,
  abs_result (add_examples_h OwnHeaders cs) = add_examples (GenCases (map abs_case cs)).
Proof. exact add_examples_h_refines. Qed.
Print Assumptions C17_add_examples_refines.

(* an example is dropped only if EVERY case that carries it has an invalid header of its own, and then the
   mark is set (run_test reports an error for the operation) - all case lists, all examples *)
Theorem C17_dropped_only_with_own_invalid_header : forall cs e,
  ~ sent (add_examples_h OwnHeaders cs) e ->
  forall c, In c cs -> carries (hc_combo c) e ->
    case_bad c = true /\ hr_mark (add_examples_h OwnHeaders cs) <> None.
Proof. exact dropped_only_with_own_invalid_header. Qed.
Print Assumptions C17_dropped_only_with_own_invalid_header.

(* the same over all example lists, through produce_combinations; generate_one is the foreign function mk,
   assumed only to keep the combination it is given: every example of the list is carried by an attached case,
   or every case carrying it (there is one) has an invalid header of its own and the mark is set *)
Theorem C17_example_sent_or_own_case_invalid : forall exs (mk : nat -> combo -> hcase) e,
  (forall i c, hc_combo (mk i c) = c) ->
  containers_ok exs = true -> In e exs ->
  let cases := imap mk 0 (produce_combinations exs) in
  sent (add_examples_h OwnHeaders cases) e \/
  ((exists c, In c cases /\ carries (hc_combo c) e) /\
   (forall c, In c cases -> carries (hc_combo c) e -> case_bad c = true) /\
   hr_mark (add_examples_h OwnHeaders cases) <> None).
Proof. exact example_sent_or_own_case_invalid. Qed.
Print Assumptions C17_example_sent_or_own_case_invalid.

(* no attached case has an invalid header *)
Theorem C17_sent_case_valid : forall cs c nv hs,
  In c (hr_added (add_examples_h OwnHeaders cs)) -> hc_headers c = Some hs -> In nv hs -> header_invalid nv = false.
Proof. exact sent_case_valid. Qed.
Print Assumptions C17_sent_case_valid.

(* the reported error blames nothing valid: the mark is not empty, and it is the set of invalid headers of one
   dropped case *)
Theorem C17_mark_sound : forall cs inv,
  hr_mark (add_examples_h OwnHeaders cs) = Some inv ->
  inv <> [] /\ exists c, In c cs /\ case_bad c = true /\ inv = case_invalid c /\
                         forall nv, In nv inv -> header_invalid nv = true.
Proof. exact mark_sound. Qed.
Print Assumptions C17_mark_sound.

(* every invalid header of every dropped case is named by the error - when at most one case is invalid *)
Theorem C17_dropped_reason_named_partial : forall cs, single_bad_case cs = true ->
  forall c nv, In c cs -> In nv (case_invalid c) -> named (add_examples_h OwnHeaders cs) nv.
Proof. exact dropped_reason_named_partial. Qed.
Print Assumptions C17_dropped_reason_named_partial.

(* ... refuted beyond: Mark.set overwrites, with two invalid cases the invalid header of the first is neither
   sent nor named (finding F8) *)
Theorem C17_dropped_reason_named_refuted :
  exists cs c nv, In c cs /\ In nv (case_invalid c) /\ ~ named (add_examples_h OwnHeaders cs) nv.
Proof. exact dropped_reason_named_refuted. Qed.
Print Assumptions C17_dropped_reason_named_refuted.

(* SENTINEL rule, not the code (seed C17_d: one dict accumulated over all cases, tested per case): header
   examples a / b-LF-c / g with query examples 1 / 2 / 3 - the third case has no invalid header, carries the
   header example g, and is dropped (one case attached instead of two); the rule of the code sends it *)
Theorem C17_accumulated_headers_refuted :
  exists exs mk c e,
    (forall i x, hc_combo (mk i x) = x) /\ containers_ok exs = true /\ In e exs /\
    In c (imap mk 0 (produce_combinations exs)) /\ carries (hc_combo c) e /\ case_bad c = false /\
    ~ sent (add_examples_h AccumulatedHeaders (imap mk 0 (produce_combinations exs))) e /\
    sent (add_examples_h OwnHeaders (imap mk 0 (produce_combinations exs))) e /\
    length (hr_added (add_examples_h AccumulatedHeaders (imap mk 0 (produce_combinations exs)))) = 1 /\
    length (hr_added (add_examples_h OwnHeaders (imap mk 0 (produce_combinations exs)))) = 2.
Proof. exact accumulated_headers_refuted. Qed.
Print Assumptions C17_accumulated_headers_refuted.

(* non-vacuity: three cases, the middle one invalid; the validity predicate separates the classes *)
Theorem C17_header_hypotheses_satisfiable :
  map hc_id (hr_added (add_examples_h OwnHeaders cases_acc)) = [0; 2] /\
  hr_mark (add_examples_h OwnHeaders cases_acc) = Some [(s_tag, HStr [98;10;99]%N)] /\
  single_bad_case cases_acc = true /\
  map (sentb (add_examples_h OwnHeaders cases_acc)) exs_acc = [true; false; true; true; false; true] /\
  single_bad_case cs_two_bad = false /\
  map header_invalid [(s_tag, HStr [97;32]%N); (s_tag, HStr []); (s_tag, HStr [32;97]%N); (s_tag, HStr [97;13]%N);
                      (s_tag, HStr [97;10;32;98]%N); (s_tag, HStr [160;97]%N); (s_tag, HStr [97;160]%N);
                      (s_tag, HStr [256]%N); (s_tag, HNonStr 5); ([88;58]%N, HStr [97]%N)]
  = [false; false; true; true; true; true; false; true; true; true].
Proof. exact header_hypotheses_satisfiable. Qed.
Print Assumptions C17_header_hypotheses_satisfiable.
