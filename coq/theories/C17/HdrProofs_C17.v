(* C17, add_examples on cases with their real header dictionaries
   (Model_C17 section 8): proofs.
   Added after seed C17_d_invalid_headers_accumulated. *)
From Coq Require Import List NArith ZArith Bool PeanoNat Lia.
From Verif Require Import Common.Str Common.Json C17.Model_C17 C17.Proofs_C17.
Import ListNotations.

(* ------------------------------------------------------------------ *)
(* carriesb decides carries                                            *)
(* ------------------------------------------------------------------ *)
Lemma carriesb_carries c e : carriesb c e = true -> carries c e.
Proof.
  destruct e as [cn n v | v mt]; cbn.
  - destruct (assoc_get cn c) as [[s|b|m]|] eqn:E1; try discriminate.
    destruct (assoc_get n m) as [v'|] eqn:E2; try discriminate.
    intros H. apply json_eqb_eq in H. subst v'. exists m. split; [reflexivity | exact E2].
  - destruct (assoc_get s_media_type c) as [[mt'|b|m]|] eqn:E1; try discriminate.
    destruct (assoc_get s_body c) as [[s|v'|m]|] eqn:E2; try discriminate.
    intros H. apply andb_true_iff in H. destruct H as [H1 H2].
    apply str_eqb_spec in H1. apply json_eqb_eq in H2. subst. split; reflexivity.
Qed.

Lemma carries_carriesb c e : carries c e -> carriesb c e = true.
Proof.
  destruct e as [cn n v | v mt]; cbn.
  - intros [m [H1 H2]]. rewrite H1, H2. apply json_eqb_refl.
  - intros [H1 H2]. rewrite H1, H2. rewrite str_eqb_refl, json_eqb_refl. reflexivity.
Qed.

Lemma sent_sentb r e : sent r e <-> sentb r e = true.
Proof.
  unfold sent, sentb. rewrite existsb_exists. split.
  - intros [c [H1 H2]]. exists c. split; [exact H1 | apply carries_carriesb; exact H2].
  - intros [c [H1 H2]]. exists c. split; [exact H1 | apply carriesb_carries; exact H2].
Qed.

(* ------------------------------------------------------------------ *)
(* the loop under the rule of the code: a closed form                   *)
(* ------------------------------------------------------------------ *)
Definition keep (c : hcase) : bool := negb (case_bad c).

Lemma step_own_good st c : case_bad c = false ->
  add_step OwnHeaders st c = hs_add st c.
Proof.
  unfold case_bad, case_invalid, add_step. destruct (hc_headers c) as [hs|]; [|reflexivity].
  destruct (find_invalid_headers hs); [reflexivity | discriminate].
Qed.

Lemma step_own_bad st c : case_bad c = true ->
  add_step OwnHeaders st c =
  {| hs_added := hs_added st; hs_mark := Some (case_invalid c); hs_acc := hs_acc st |}.
Proof.
  unfold case_bad, case_invalid, add_step. destruct (hc_headers c) as [hs|]; [|discriminate].
  destruct (find_invalid_headers hs); [discriminate | reflexivity].
Qed.

Definition mark_after (m : option hdict) (cs : list hcase) : option hdict :=
  match last_opt (filter case_bad cs) with Some c => Some (case_invalid c) | None => m end.

Lemma last_opt_cons {A} (x : A) l : last_opt (x :: l) = match last_opt l with Some y => Some y | None => Some x end.
Proof.
  revert x. induction l as [|y l IH]; intros x; [reflexivity|].
  change (last_opt (x :: y :: l)) with (last_opt (y :: l)). rewrite (IH y).
  destruct (last_opt l); reflexivity.
Qed.

Lemma fold_own cs : forall st,
  fold_left (add_step OwnHeaders) cs st =
  {| hs_added := hs_added st ++ filter keep cs; hs_mark := mark_after (hs_mark st) cs; hs_acc := hs_acc st |}.
Proof.
  induction cs as [|c cs IH]; intros st.
  - cbn. rewrite app_nil_r. destruct st; reflexivity.
  - cbn [fold_left]. rewrite IH. unfold keep at 2, mark_after. cbn [filter].
    destruct (case_bad c) eqn:B; cbn [negb].
    + rewrite (step_own_bad _ _ B). cbn [hs_added hs_mark hs_acc]. f_equal.
      rewrite last_opt_cons. destruct (last_opt (filter case_bad cs)); reflexivity.
    + rewrite (step_own_good _ _ B). unfold hs_add. cbn [hs_added hs_mark hs_acc].
      rewrite <- app_assoc. reflexivity.
Qed.

(* which cases are attached: exactly those without an invalid header of their
   own, in order; the mark: the invalid headers of the LAST case that has some *)
Lemma add_examples_h_own cs :
  add_examples_h OwnHeaders cs =
  {| hr_added := filter keep cs;
     hr_mark := match last_opt (filter case_bad cs) with Some c => Some (case_invalid c) | None => None end |}.
Proof. unfold add_examples_h. rewrite fold_own. reflexivity. Qed.

Lemma last_opt_in {A} (l : list A) x : last_opt l = Some x -> In x l.
Proof.
  induction l as [|y l IH]; [discriminate|]. rewrite last_opt_cons.
  destruct (last_opt l) as [z|] eqn:E.
  - intros H. injection H as ->. right. apply IH. reflexivity.
  - intros H. injection H as ->. left. reflexivity.
Qed.

Lemma last_opt_none {A} (l : list A) : last_opt l = None -> l = [].
Proof. destruct l as [|y l]; [reflexivity|]. rewrite last_opt_cons. destruct (last_opt l); discriminate. Qed.

(* ------------------------------------------------------------------ *)
(* the abstraction of section 4 is sound: the refined loop refines the   *)
(* filter / existsb form of Model_C17.add_examples                       *)
(* ------------------------------------------------------------------ *)
Lemma header_bad_abs c : header_bad (abs_case c) = case_bad c.
Proof.
  unfold header_bad, abs_case, case_bad, case_invalid. cbn.
  destruct (hc_headers c); [reflexivity | reflexivity].
Qed.

Lemma add_examples_h_refines cs :
  abs_result (add_examples_h OwnHeaders cs) = add_examples (GenCases (map abs_case cs)).
Proof.
  rewrite add_examples_h_own. unfold abs_result. cbn [hr_added hr_mark add_examples]. f_equal.
  - induction cs as [|c cs IH]; [reflexivity|]. cbn [filter map]. rewrite header_bad_abs. unfold keep at 1.
    destruct (case_bad c); cbn [negb]; [exact IH | cbn [map]; f_equal; exact IH].
  - assert (H : existsb header_bad (map abs_case cs) = match filter case_bad cs with [] => false | _ => true end).
    { induction cs as [|c cs IH]; [reflexivity|]. cbn [map existsb filter]. rewrite header_bad_abs.
      destruct (case_bad c); [reflexivity | exact IH]. }
    rewrite H. destruct (filter case_bad cs) as [|x l] eqn:E; [reflexivity|].
    rewrite last_opt_cons. destruct (last_opt l); reflexivity.
Qed.

(* ------------------------------------------------------------------ *)
(* per-example dropping rule                                            *)
(* ------------------------------------------------------------------ *)
(* a case without invalid headers of its own is attached, whatever the
   other cases of the operation are *)
Lemma good_case_attached cs c : In c cs -> case_bad c = false -> In c (hr_added (add_examples_h OwnHeaders cs)).
Proof.
  intros Hin Hg. rewrite add_examples_h_own. cbn [hr_added]. apply filter_In. split; [exact Hin|].
  unfold keep. rewrite Hg. reflexivity.
Qed.

Lemma attached_is_good cs c : In c (hr_added (add_examples_h OwnHeaders cs)) -> In c cs /\ case_bad c = false.
Proof.
  rewrite add_examples_h_own. cbn [hr_added]. intros H. apply filter_In in H. destruct H as [H1 H2].
  split; [exact H1|]. unfold keep in H2. destruct (case_bad c); [discriminate | reflexivity].
Qed.

Lemma some_bad_marked cs c : In c cs -> case_bad c = true -> hr_mark (add_examples_h OwnHeaders cs) <> None.
Proof.
  intros Hin Hb. rewrite add_examples_h_own. cbn [hr_mark].
  destruct (last_opt (filter case_bad cs)) eqn:E; [discriminate|].
  apply last_opt_none in E. assert (H : In c (filter case_bad cs)) by (apply filter_In; split; assumption).
  rewrite E in H. destruct H.
Qed.

(* an example is dropped only if EVERY case carrying it has an invalid header
   of its own; and then the mark is set (an error is reported) *)
Lemma dropped_only_with_own_invalid_header cs e :
  ~ sent (add_examples_h OwnHeaders cs) e ->
  forall c, In c cs -> carries (hc_combo c) e ->
    case_bad c = true /\ hr_mark (add_examples_h OwnHeaders cs) <> None.
Proof.
  intros Hns c Hin Hc. destruct (case_bad c) eqn:B.
  - split; [reflexivity | apply (some_bad_marked cs c Hin B)].
  - exfalso. apply Hns. exists c. split; [apply good_case_attached; assumption | exact Hc].
Qed.

(* and nothing invalid is sent: an attached case has no invalid header *)
Lemma sent_case_valid cs c nv hs : In c (hr_added (add_examples_h OwnHeaders cs)) ->
  hc_headers c = Some hs -> In nv hs -> header_invalid nv = false.
Proof.
  intros H Hh Hin. apply attached_is_good in H. destruct H as [_ Hg].
  unfold case_bad, case_invalid in Hg. rewrite Hh in Hg.
  destruct (header_invalid nv) eqn:E; [|reflexivity].
  assert (Hf : In nv (find_invalid_headers hs)) by (apply filter_In; split; assumption).
  destruct (find_invalid_headers hs); [destruct Hf | discriminate].
Qed.

(* ------------------------------------------------------------------ *)
(* over all example lists: produce_combinations -> generate_one (foreign, *)
(* the function argument mk) -> add_examples                             *)
(* ------------------------------------------------------------------ *)
Lemma imap_in {A B} (f : nat -> A -> B) l : forall i x, In x l -> exists k, In (f k x) (imap f i l).
Proof.
  induction l as [|y l IH]; intros i x H; [destruct H|]. destruct H as [-> | H].
  - exists i. left. reflexivity.
  - destruct (IH (S i) x H) as [k Hk]. exists k. right. exact Hk.
Qed.

Lemma in_imap {A B} (f : nat -> A -> B) l : forall i y, In y (imap f i l) -> exists k x, In x l /\ y = f k x.
Proof.
  induction l as [|x l IH]; intros i y H; [destruct H|]. destruct H as [<- | H].
  - exists i, x. split; [left; reflexivity | reflexivity].
  - destruct (IH (S i) y H) as [k [x' [H1 H2]]]. exists k, x'. split; [right; exact H1 | exact H2].
Qed.

Lemma example_sent_or_own_case_invalid exs (mk : nat -> combo -> hcase) e :
  (forall i c, hc_combo (mk i c) = c) ->
  containers_ok exs = true -> In e exs ->
  let cases := imap mk 0 (produce_combinations exs) in
  sent (add_examples_h OwnHeaders cases) e \/
  ((exists c, In c cases /\ carries (hc_combo c) e) /\
   (forall c, In c cases -> carries (hc_combo c) e -> case_bad c = true) /\
   hr_mark (add_examples_h OwnHeaders cases) <> None).
Proof.
  intros Hmk Hok Hin cases.
  destruct (sentb (add_examples_h OwnHeaders cases) e) eqn:S.
  - left. apply sent_sentb. exact S.
  - right. assert (Hns : ~ sent (add_examples_h OwnHeaders cases) e).
    { intros H. apply sent_sentb in H. rewrite H in S. discriminate. }
    destruct (every_example_used exs e Hok Hin) as [c0 [Hc0 Hcar]].
    destruct (imap_in mk (produce_combinations exs) 0 c0 Hc0) as [k Hk].
    assert (Hcar' : carries (hc_combo (mk k c0)) e) by (rewrite Hmk; exact Hcar).
    split; [exists (mk k c0); split; [exact Hk | exact Hcar']|].
    split.
    + intros c H1 H2. apply (dropped_only_with_own_invalid_header cases e Hns c H1 H2).
    + apply (dropped_only_with_own_invalid_header cases e Hns (mk k c0) Hk Hcar').
Qed.

(* ------------------------------------------------------------------ *)
(* what the mark (the reported error) names                              *)
(* ------------------------------------------------------------------ *)
(* soundness: every header named is a genuinely invalid header of one dropped case *)
Lemma mark_sound cs inv : hr_mark (add_examples_h OwnHeaders cs) = Some inv ->
  inv <> [] /\ exists c, In c cs /\ case_bad c = true /\ inv = case_invalid c /\
                         forall nv, In nv inv -> header_invalid nv = true.
Proof.
  rewrite add_examples_h_own. cbn [hr_mark].
  destruct (last_opt (filter case_bad cs)) as [c|] eqn:E; [|discriminate].
  intros H. injection H as <-. apply last_opt_in in E. apply filter_In in E. destruct E as [Hin Hb].
  split.
  - unfold case_bad in Hb. destruct (case_invalid c); [discriminate | discriminate].
  - exists c. repeat split; try assumption.
    intros nv Hnv. unfold case_invalid in Hnv. destruct (hc_headers c); [|destruct Hnv].
    apply filter_In in Hnv. apply Hnv.
Qed.

(* completeness of the naming holds when at most one case is invalid ... *)
Lemma filter_single {A} (f : A -> bool) l x :
  length (filter f l) <= 1 -> In x l -> f x = true -> last_opt (filter f l) = Some x.
Proof.
  intros Hlen Hin Hf. assert (H : In x (filter f l)) by (apply filter_In; split; assumption).
  destruct (filter f l) as [|y [|z r]]; [destruct H | | cbn in Hlen; lia].
  destruct H as [-> | []]. reflexivity.
Qed.

Lemma dropped_reason_named_partial cs : single_bad_case cs = true ->
  forall c nv, In c cs -> In nv (case_invalid c) -> named (add_examples_h OwnHeaders cs) nv.
Proof.
  unfold single_bad_case. intros Hs c nv Hin Hnv. apply Nat.leb_le in Hs.
  assert (Hb : case_bad c = true) by (unfold case_bad; destruct (case_invalid c); [destruct Hnv | reflexivity]).
  exists (case_invalid c). split; [|exact Hnv].
  rewrite add_examples_h_own. cbn [hr_mark]. rewrite (filter_single case_bad cs c Hs Hin Hb). reflexivity.
Qed.

(* ... and fails otherwise: the mark is overwritten, the first invalid header is
   neither sent nor named (finding F8) *)
Definition s_xa : str := [88;45;65]%N.    (* X-A *)
Definition s_xb : str := [88;45;66]%N.    (* X-B *)
Definition v_bad_nl : hval := HStr [97;10;98]%N.       (* a, line feed, b *)
Definition v_bad_cyr : hval := HStr [1046]%N.          (* not latin-1 *)
Definition v_ok1 : hval := HStr [111;107]%N.
Definition cs_two_bad : list hcase :=
  [ {| hc_id := 0; hc_combo := []; hc_headers := Some [(s_xa, v_bad_nl); (s_xb, v_ok1)] |};
    {| hc_id := 1; hc_combo := []; hc_headers := Some [(s_xa, v_ok1); (s_xb, v_bad_cyr)] |} ].

Lemma dropped_reason_named_refuted :
  exists cs c nv, In c cs /\ In nv (case_invalid c) /\ ~ named (add_examples_h OwnHeaders cs) nv.
Proof.
  exists cs_two_bad, (nth 0 cs_two_bad {| hc_id := 9; hc_combo := []; hc_headers := None |}), (s_xa, v_bad_nl).
  split; [left; reflexivity|]. split; [left; reflexivity|].
  intros [inv [H1 H2]]. vm_compute in H1. injection H1 as <-.
  destruct H2 as [H | []]. discriminate.
Qed.

(* ------------------------------------------------------------------ *)
(* SENTINEL: the accumulated-dict variant (seed C17_d) drops valid       *)
(* examples that come after an invalid one                              *)
(* ------------------------------------------------------------------ *)
Definition s_hdrs : str := [104;101;97;100;101;114;115]%N.    (* headers *)
Definition s_qry : str := [113;117;101;114;121]%N.            (* query *)
Definition s_tag : str := [88;45;84;97;103]%N.                (* X-Tag *)
Definition s_q : str := [113]%N.
Definition exs_acc : list example :=
  [ PEx s_hdrs s_tag (JStr [97]%N); PEx s_hdrs s_tag (JStr [98;10;99]%N); PEx s_hdrs s_tag (JStr [103]%N);
    PEx s_qry s_q (JInt 1); PEx s_qry s_q (JInt 2); PEx s_qry s_q (JInt 3) ].
(* the case built from a combination: its headers are the header container (all strings here) *)
Definition mk_plain (i : nat) (c : combo) : hcase :=
  {| hc_id := i; hc_combo := c;
     hc_headers := match assoc_get s_hdrs c with
                   | Some (KCont m) => Some (map (fun kv => (fst kv, match snd kv with JStr s => HStr s | _ => HNonStr 0 end)) m)
                   | _ => None end |}.
Definition cases_acc : list hcase := imap mk_plain 0 (produce_combinations exs_acc).

Lemma accumulated_headers_refuted :
  exists exs mk c e,
    (forall i x, hc_combo (mk i x) = x) /\ containers_ok exs = true /\ In e exs /\
    In c (imap mk 0 (produce_combinations exs)) /\ carries (hc_combo c) e /\ case_bad c = false /\
    ~ sent (add_examples_h AccumulatedHeaders (imap mk 0 (produce_combinations exs))) e /\
    sent (add_examples_h OwnHeaders (imap mk 0 (produce_combinations exs))) e /\
    length (hr_added (add_examples_h AccumulatedHeaders (imap mk 0 (produce_combinations exs)))) = 1 /\
    length (hr_added (add_examples_h OwnHeaders (imap mk 0 (produce_combinations exs)))) = 2.
Proof.
  exists exs_acc, mk_plain,
    (nth 2 cases_acc {| hc_id := 9; hc_combo := []; hc_headers := None |}), (PEx s_hdrs s_tag (JStr [103]%N)).
  split; [intros i x; reflexivity|]. split; [reflexivity|]. split; [cbn; auto|].
  split; [right; right; left; reflexivity|].
  split; [apply carriesb_carries; vm_compute; reflexivity|]. split; [vm_compute; reflexivity|].
  split; [intros H; apply sent_sentb in H; vm_compute in H; discriminate|].
  split; [apply sent_sentb; vm_compute; reflexivity|].
  split; vm_compute; reflexivity.
Qed.

(* ------------------------------------------------------------------ *)
(* non-vacuity                                                          *)
(* ------------------------------------------------------------------ *)
Lemma header_hypotheses_satisfiable :
  (* three cases, the middle one invalid: two attached, the mark names the invalid header, both
     valid header examples and their query partners are sent, the middle ones are not *)
  map hc_id (hr_added (add_examples_h OwnHeaders cases_acc)) = [0; 2] /\
  hr_mark (add_examples_h OwnHeaders cases_acc) = Some [(s_tag, HStr [98;10;99]%N)] /\
  single_bad_case cases_acc = true /\
  map (sentb (add_examples_h OwnHeaders cases_acc)) exs_acc = [true; false; true; true; false; true] /\
  single_bad_case cs_two_bad = false /\
  (* the validity predicate separates: trailing blank valid, leading blank, CR, LF, non latin-1, non-str invalid *)
  map header_invalid [(s_tag, HStr [97;32]%N); (s_tag, HStr []); (s_tag, HStr [32;97]%N); (s_tag, HStr [97;13]%N);
                      (s_tag, HStr [97;10;32;98]%N); (s_tag, HStr [160;97]%N); (s_tag, HStr [97;160]%N);
                      (s_tag, HStr [256]%N); (s_tag, HNonStr 5); ([88;58]%N, HStr [97]%N)]
  = [false; false; true; true; true; true; false; true; true; true].
Proof. vm_compute. repeat split. Qed.
