(* C17 proofs. *)
From Coq Require Import List NArith ZArith Bool PeanoNat Lia.
From Verif Require Import Common.Str Common.Json C17.Model_C17.
Import ListNotations.

(* ------------------------------------------------------------------ *)
(* generic facts about association lists                               *)
(* ------------------------------------------------------------------ *)
Lemma str_eqb_sym a b : str_eqb a b = str_eqb b a.
Proof.
  destruct (str_eqb a b) eqn:E1, (str_eqb b a) eqn:E2; try reflexivity.
  - apply str_eqb_spec in E1; subst. rewrite str_eqb_refl in E2. discriminate.
  - apply str_eqb_spec in E2; subst. rewrite str_eqb_refl in E1. discriminate.
Qed.

Lemma str_eqb_false a b : str_eqb a b = false <-> a <> b.
Proof.
  split.
  - intros E ->. rewrite str_eqb_refl in E. discriminate.
  - intros N. destruct (str_eqb a b) eqn:E; [apply str_eqb_spec in E; contradiction | reflexivity].
Qed.

Lemma assoc_get_In {A} k (x : A) l : assoc_get k l = Some x -> In (k, x) l.
Proof.
  induction l as [|[k' v'] r IH]; cbn; [discriminate|].
  destruct (str_eqb k k') eqn:E.
  - intros H; inversion H; subst. apply str_eqb_spec in E; subst. left; reflexivity.
  - intros H; right; auto.
Qed.

Lemma assoc_get_None {A} k (l : list (str * A)) : ~ In k (keys l) -> assoc_get k l = None.
Proof.
  induction l as [|[k' v'] r IH]; cbn; [reflexivity|].
  intros N. destruct (str_eqb k k') eqn:E.
  - apply str_eqb_spec in E; subst. exfalso; apply N; left; reflexivity.
  - apply IH. intros H; apply N; right; exact H.
Qed.

Lemma assoc_get_keys {A} k (x : A) l : assoc_get k l = Some x -> In k (keys l).
Proof. intros H. apply assoc_get_In in H. apply (in_map fst) in H. exact H. Qed.

Lemma In_NoDup_assoc_get {A} k (x : A) l : NoDup (keys l) -> In (k, x) l -> assoc_get k l = Some x.
Proof.
  induction l as [|[k' v'] r IH]; cbn; [intros _ []|].
  intros ND [H|H].
  - inversion H; subst. rewrite str_eqb_refl. reflexivity.
  - inversion ND as [|? ? Hn ND']; subst.
    destruct (str_eqb k k') eqn:E.
    + apply str_eqb_spec in E; subst. exfalso; apply Hn. apply (in_map fst) in H. exact H.
    + apply IH; assumption.
Qed.

Lemma assoc_get_map {A B} (f : A -> B) k (l : list (str * A)) :
  assoc_get k (map (fun kv => (fst kv, f (snd kv))) l) = option_map f (assoc_get k l).
Proof.
  induction l as [|[k' v'] r IH]; cbn; [reflexivity|].
  destruct (str_eqb k k'); [reflexivity | exact IH].
Qed.

Lemma keys_map {A B} (f : A -> B) (l : list (str * A)) :
  keys (map (fun kv => (fst kv, f (snd kv))) l) = keys l.
Proof. unfold keys. rewrite map_map. reflexivity. Qed.

(* dict merge {**b, **u}: keys absent from u keep the value of b *)
Lemma assoc_update_other {A} k (u : list (str * A)) : forall b,
  ~ In k (keys u) -> assoc_get k (assoc_update b u) = assoc_get k b.
Proof.
  unfold assoc_update.
  induction u as [|[k1 v1] u IH]; intros b N; cbn; [reflexivity|].
  rewrite IH by (intros H; apply N; right; exact H).
  apply assoc_get_set_other. apply str_eqb_false. intros ->. apply N. left; reflexivity.
Qed.

(* ... keys of u take the value of u *)
Lemma assoc_update_in {A} k (x : A) (u : list (str * A)) : forall b,
  NoDup (keys u) -> In (k, x) u -> assoc_get k (assoc_update b u) = Some x.
Proof.
  unfold assoc_update.
  induction u as [|[k1 v1] u IH]; intros b ND H; cbn; [destruct H|].
  inversion ND as [|? ? Hn ND']; subst.
  destruct H as [H|H].
  - inversion H; subst.
    change (fold_left (fun acc kv => assoc_set (fst kv) (snd kv) acc) u (assoc_set k x b))
      with (assoc_update (assoc_set k x b) u).
    rewrite assoc_update_other by exact Hn. apply assoc_get_set_same.
  - apply IH; assumption.
Qed.

Lemma assoc_mem_set {A} k k' (v : A) l : assoc_mem k (assoc_set k' v l) = str_eqb k k' || assoc_mem k l.
Proof.
  unfold assoc_mem. destruct (str_eqb k k') eqn:E.
  - apply str_eqb_spec in E; subst. rewrite assoc_get_set_same. reflexivity.
  - rewrite assoc_get_set_other by exact E. reflexivity.
Qed.

Lemma assoc_mem_update {A} k (u : list (str * A)) : forall b,
  assoc_mem k (assoc_update b u) = assoc_mem k b || in_strs k (keys u).
Proof.
  unfold assoc_update.
  induction u as [|[k1 v1] u IH]; intros b; cbn; [rewrite orb_false_r; reflexivity|].
  rewrite IH, assoc_mem_set. destruct (str_eqb k k1), (assoc_mem k b); reflexivity.
Qed.

Lemma in_strs_In k l : in_strs k l = true <-> In k l.
Proof.
  unfold in_strs. rewrite existsb_exists. split.
  - intros [x [Hx E]]. apply str_eqb_spec in E; subst. exact Hx.
  - intros H. exists k. split; [exact H | apply str_eqb_refl].
Qed.

Lemma assoc_mem_In {A} k (l : list (str * A)) : assoc_mem k l = true <-> In k (keys l).
Proof.
  unfold assoc_mem. split.
  - destruct (assoc_get k l) eqn:E; [intros _; eapply assoc_get_keys; exact E | discriminate].
  - intros H. destruct (assoc_get k l) eqn:E; [reflexivity|].
    exfalso. induction l as [|[k' v'] r IH]; [destruct H|].
    cbn in E, H. destruct (str_eqb k k') eqn:E'; [discriminate|].
    destruct H as [H|H]; [subst; rewrite str_eqb_refl in E'; discriminate | auto].
Qed.

(* ------------------------------------------------------------------ *)
(* grouping                                                            *)
(* ------------------------------------------------------------------ *)
Definition getl {A} (k : str) (l : list (str * list A)) : list A :=
  match assoc_get k l with Some v => v | None => [] end.
Definition get2 (c n : str) (p : pgroups) : list json := getl n (getl c p).

Definition pvals (c n : str) (exs : list example) : list json :=
  flat_map (fun e => match e with
                     | PEx c' n' v => if str_eqb c c' && str_eqb n n' then [v] else []
                     | BEx _ _ => [] end) exs.
Definition bvals (mt : str) (exs : list example) : list json :=
  flat_map (fun e => match e with
                     | BEx v mt' => if str_eqb mt mt' then [v] else []
                     | PEx _ _ _ => [] end) exs.

Lemma getl_push_val k k' v l :
  getl k (push_val k' v l) = getl k l ++ (if str_eqb k k' then [v] else []).
Proof.
  unfold getl. induction l as [|[k2 vs] r IH]; cbn.
  - destruct (str_eqb k k'); reflexivity.
  - destruct (str_eqb k' k2) eqn:E2; cbn.
    + apply str_eqb_spec in E2; subst k2.
      destruct (str_eqb k k') eqn:E; [reflexivity|]. rewrite app_nil_r. reflexivity.
    + destruct (str_eqb k k2) eqn:E; [|exact IH].
      apply str_eqb_spec in E; subst k2. rewrite (str_eqb_sym k k'), E2, app_nil_r. reflexivity.
Qed.

Lemma get2_push_param c n c' n' v p :
  get2 c n (push_param c' n' v p) = get2 c n p ++ (if str_eqb c c' && str_eqb n n' then [v] else []).
Proof.
  unfold get2. induction p as [|[c2 m] r IH]; cbn.
  - unfold getl at 2. cbn. destruct (str_eqb c c'); cbn.
    + unfold getl; cbn. destruct (str_eqb n n'); reflexivity.
    + reflexivity.
  - destruct (str_eqb c' c2) eqn:E2.
    + apply str_eqb_spec in E2; subst c2.
      unfold getl at 2 4. cbn. destruct (str_eqb c c') eqn:E; cbn.
      * apply getl_push_val.
      * rewrite app_nil_r. reflexivity.
    + unfold getl at 2 4. cbn. destruct (str_eqb c c2) eqn:E.
      * apply str_eqb_spec in E; subst c2. rewrite (str_eqb_sym c c'), E2. cbn. rewrite app_nil_r. reflexivity.
      * exact IH.
Qed.

Lemma get2_fold c n exs : forall p b,
  get2 c n (fst (fold_left group_step exs (p, b))) = get2 c n p ++ pvals c n exs.
Proof.
  induction exs as [|e exs IH]; intros p b; cbn [fold_left pvals flat_map].
  - rewrite app_nil_r. reflexivity.
  - destruct e as [c' n' v | v mt]; cbn [group_step fst snd].
    + rewrite IH, get2_push_param, <- app_assoc. reflexivity.
    + rewrite IH. reflexivity.
Qed.

Lemma getl_fold mt exs : forall p b,
  getl mt (snd (fold_left group_step exs (p, b))) = getl mt b ++ bvals mt exs.
Proof.
  induction exs as [|e exs IH]; intros p b; cbn [fold_left bvals flat_map].
  - rewrite app_nil_r. reflexivity.
  - destruct e as [c' n' v | v mt']; cbn [group_step fst snd].
    + rewrite IH. reflexivity.
    + rewrite IH, getl_push_val, <- app_assoc. reflexivity.
Qed.

Lemma get2_group c n exs : get2 c n (fst (group exs)) = pvals c n exs.
Proof. unfold group. rewrite get2_fold. reflexivity. Qed.
Lemma getl_group mt exs : getl mt (snd (group exs)) = bvals mt exs.
Proof. unfold group. rewrite getl_fold. reflexivity. Qed.

Lemma In_pvals c n v exs : In v (pvals c n exs) <-> In (PEx c n v) exs.
Proof.
  unfold pvals. rewrite in_flat_map. split.
  - intros [e [He Hv]]. destruct e as [c' n' v' | ? ?]; [|destruct Hv].
    destruct (str_eqb c c') eqn:E1; [|destruct Hv]. destruct (str_eqb n n') eqn:E2; [|destruct Hv].
    apply str_eqb_spec in E1, E2; subst. destruct Hv as [<-|[]]. exact He.
  - intros H. exists (PEx c n v). split; [exact H|]. rewrite !str_eqb_refl. left; reflexivity.
Qed.

Lemma In_bvals mt v exs : In v (bvals mt exs) <-> In (BEx v mt) exs.
Proof.
  unfold bvals. rewrite in_flat_map. split.
  - intros [e [He Hv]]. destruct e as [? ? ? | v' mt']; [destruct Hv|].
    destruct (str_eqb mt mt') eqn:E1; [|destruct Hv].
    apply str_eqb_spec in E1; subst. destruct Hv as [<-|[]]. exact He.
  - intros H. exists (BEx v mt). split; [exact H|]. rewrite str_eqb_refl. left; reflexivity.
Qed.

Lemma length_pvals c n exs : length (pvals c n exs) = length (filter (same_key c n) exs).
Proof.
  induction exs as [|e exs IH]; [reflexivity|].
  cbn [pvals flat_map filter]. fold (pvals c n exs). rewrite app_length, IH.
  destruct e as [c' n' v | ? ?]; cbn [same_key]; [|reflexivity].
  destruct (str_eqb c c' && str_eqb n n'); reflexivity.
Qed.

(* a lookup that finds a value locates the group *)
Lemma get2_found c n v p : In v (get2 c n p) ->
  exists m vs, assoc_get c p = Some m /\ assoc_get n m = Some vs /\ vs = get2 c n p.
Proof.
  unfold get2, getl. intros H.
  destruct (assoc_get c p) as [m|] eqn:E1; [|destruct H].
  destruct (assoc_get n m) as [vs|] eqn:E2; [|destruct H].
  exists m, vs. auto.
Qed.

(* keys of the grouped dictionaries *)
Lemma keys_push_val k v l :
  keys (push_val k v l) = if in_strs k (keys l) then keys l else keys l ++ [k].
Proof.
  unfold keys, in_strs. induction l as [|[k2 vs] r IH]; cbn; [reflexivity|].
  destruct (str_eqb k k2) eqn:E; cbn; [reflexivity|].
  rewrite IH. destruct (existsb (str_eqb k) (map fst r)); reflexivity.
Qed.

Lemma keys_push_param c n v p :
  keys (push_param c n v p) = if in_strs c (keys p) then keys p else keys p ++ [c].
Proof.
  unfold keys, in_strs. induction p as [|[c2 m] r IH]; cbn; [reflexivity|].
  destruct (str_eqb c c2) eqn:E; cbn; [reflexivity|].
  rewrite IH. destruct (existsb (str_eqb c) (map fst r)); reflexivity.
Qed.

Lemma NoDup_snoc {A} (l : list A) x : NoDup l -> ~ In x l -> NoDup (l ++ [x]).
Proof.
  intros ND N. induction ND as [|y l Hy ND IH]; cbn.
  - constructor; [intros []|constructor].
  - constructor.
    + rewrite in_app_iff. intros [H|[H|[]]]; [contradiction | subst; apply N; left; reflexivity].
    + apply IH. intros H; apply N; right; exact H.
Qed.

Definition good_keys (p : pgroups) : Prop :=
  NoDup (keys p) /\ Forall (fun k => container_ok k = true) (keys p).

Lemma good_keys_push c n v p : container_ok c = true -> good_keys p -> good_keys (push_param c n v p).
Proof.
  intros Hc [ND F]. unfold good_keys. rewrite keys_push_param.
  destruct (in_strs c (keys p)) eqn:E; [split; assumption|].
  split.
  - apply NoDup_snoc; [exact ND|]. intros H. apply in_strs_In in H. congruence.
  - apply Forall_app. split; [exact F | constructor; [exact Hc | constructor]].
Qed.

Lemma good_keys_fold exs : forall p b, containers_ok exs = true -> good_keys p ->
  good_keys (fst (fold_left group_step exs (p, b))).
Proof.
  induction exs as [|e exs IH]; intros p b Hc G; cbn [fold_left]; [exact G|].
  cbn [containers_ok forallb] in Hc. apply andb_true_iff in Hc. destruct Hc as [He Hc].
  destruct e as [c n v | v mt]; cbn [group_step fst snd].
  - apply IH; [exact Hc | apply good_keys_push; assumption].
  - apply IH; assumption.
Qed.

Lemma good_keys_group exs : containers_ok exs = true -> good_keys (fst (group exs)).
Proof. intros H. apply good_keys_fold; [exact H|]. split; constructor. Qed.

(* ------------------------------------------------------------------ *)
(* cycling and the combination lists                                   *)
(* ------------------------------------------------------------------ *)
Lemma cyc_small {A} (d : A) l i : i < length l -> cyc d l i = nth i l d.
Proof. intros H. unfold cyc. rewrite Nat.mod_small by exact H. reflexivity. Qed.

Lemma cyc_In {A} (d : A) l i : l <> [] -> In (cyc d l i) l.
Proof.
  intros N. unfold cyc. apply nth_In. apply Nat.mod_upper_bound.
  destruct l; [contradiction | cbn; lia].
Qed.

Lemma cyc_cases {A} (d : A) l i : (l = [] /\ cyc d l i = d) \/ In (cyc d l i) l.
Proof.
  destruct l as [|x l]; [left; split; [reflexivity|]|right; apply cyc_In; discriminate].
  unfold cyc. cbn. destruct i; reflexivity.
Qed.

Lemma In_le_list_max x l : In x l -> x <= list_max l.
Proof.
  intros H. assert (F : Forall (fun k => k <= list_max l) l) by (apply list_max_le; lia).
  rewrite Forall_forall in F. apply F. exact H.
Qed.

Lemma group_len_le_max c m n vs p :
  assoc_get c p = Some m -> assoc_get n m = Some vs -> length vs <= max_len p.
Proof.
  intros H1 H2. apply In_le_list_max. unfold max_len. rewrite in_flat_map.
  exists (c, m). split; [apply assoc_get_In; exact H1|].
  cbn. apply (in_map (fun nv => length (snd nv)) _ (n, vs)). apply assoc_get_In. exact H2.
Qed.

Lemma nth_param_combos p i d : i < max_len p -> nth i (param_combos p) d = param_combo p i.
Proof.
  intros H. unfold param_combos.
  rewrite (nth_indep _ d (param_combo p 0)) by (rewrite map_length, seq_length; exact H).
  rewrite map_nth, seq_nth by exact H. reflexivity.
Qed.

Lemma length_param_combos p : length (param_combos p) = max_len p.
Proof. unfold param_combos. rewrite map_length, seq_length. reflexivity. Qed.

Lemma param_combo_get c p i :
  assoc_get c (param_combo p i) =
  option_map (fun m => KCont (map (fun nv => (fst nv, cyc JNull (snd nv) i)) m)) (assoc_get c p).
Proof. unfold param_combo. apply (assoc_get_map (fun m => KCont (map (fun nv => (fst nv, cyc JNull (snd nv) i)) m))). Qed.

Lemma keys_param_combo p i : keys (param_combo p i) = keys p.
Proof. unfold param_combo. apply (keys_map (fun m => KCont (map (fun nv => (fst nv, cyc JNull (snd nv) i)) m))). Qed.

(* the parameter combination with index i carries the i-th value of every group *)
Lemma param_combo_carries c n v p i :
  In v (get2 c n p) -> nth i (get2 c n p) JNull = v -> i < length (get2 c n p) ->
  carries (param_combo p i) (PEx c n v).
Proof.
  intros Hin Hn Hi. destruct (get2_found _ _ _ _ Hin) as (m & vs & E1 & E2 & Evs).
  cbn [carries]. eexists. split.
  - rewrite param_combo_get, E1. cbn [option_map]. reflexivity.
  - rewrite (assoc_get_map (fun vs0 => cyc JNull vs0 i)), E2. cbn [option_map].
    rewrite Evs, cyc_small by exact Hi. rewrite Hn. reflexivity.
Qed.

(* ------------------------------------------------------------------ *)
(* invariants of the grouped dictionaries                              *)
(* ------------------------------------------------------------------ *)
Definition AllV (Q : str -> list json -> Prop) (m : list (str * list json)) : Prop :=
  forall n vs, In (n, vs) m -> Q n vs.
Definition AllG (Q : str -> str -> list json -> Prop) (p : pgroups) : Prop :=
  forall c m n vs, In (c, m) p -> In (n, vs) m -> Q c n vs.

Lemma AllV_push (Q Q' : str -> list json -> Prop) n' v m :
  AllV Q m -> (forall n vs, Q n vs -> Q' n vs) ->
  (forall vs, Q n' vs -> Q' n' (vs ++ [v])) -> Q' n' [v] ->
  AllV Q' (push_val n' v m).
Proof.
  intros HA Hmono Hstep Hnew. induction m as [|[k2 vs2] r IH]; cbn.
  - intros n vs [H|[]]. inversion H; subst. exact Hnew.
  - destruct (str_eqb n' k2) eqn:E.
    + apply str_eqb_spec in E; subst k2. intros n vs [H|H].
      * inversion H; subst. apply Hstep. apply (HA n vs2). left; reflexivity.
      * apply Hmono. apply (HA n vs). right; exact H.
    + intros n vs [H|H].
      * inversion H; subst. apply Hmono. apply (HA n vs). left; reflexivity.
      * apply IH; [|exact H]. intros n0 vs0 H0. apply (HA n0 vs0). right; exact H0.
Qed.

Lemma AllG_push (Q Q' : str -> str -> list json -> Prop) c' n' v p :
  AllG Q p -> (forall c n vs, Q c n vs -> Q' c n vs) ->
  (forall vs, Q c' n' vs -> Q' c' n' (vs ++ [v])) -> Q' c' n' [v] ->
  AllG Q' (push_param c' n' v p).
Proof.
  intros HA Hmono Hstep Hnew. induction p as [|[c2 m2] r IH]; cbn.
  - intros c m n vs [H|[]] Hn. inversion H; subst. destruct Hn as [Hn|[]]. inversion Hn; subst. exact Hnew.
  - destruct (str_eqb c' c2) eqn:E.
    + apply str_eqb_spec in E; subst c2. intros c m n vs [H|H] Hn.
      * inversion H; subst. revert n vs Hn.
        apply (AllV_push (Q c) (Q' c) n' v m2); auto.
        intros n vs Hn. apply (HA c m2 n vs); [left; reflexivity | exact Hn].
      * apply Hmono. apply (HA c m n vs); [right; exact H | exact Hn].
    + intros c m n vs [H|H] Hn.
      * inversion H; subst. apply Hmono. apply (HA c m n vs); [left; reflexivity | exact Hn].
      * apply (IH (fun c0 m0 n0 vs0 H0 => HA c0 m0 n0 vs0 (or_intror H0)) c m n vs H Hn).
Qed.

Lemma nonempty_fold exs : forall p b, AllG (fun _ _ vs => vs <> []) p ->
  AllG (fun _ _ vs => vs <> []) (fst (fold_left group_step exs (p, b))).
Proof.
  induction exs as [|e exs IH]; intros p b G; cbn [fold_left]; [exact G|].
  destruct e as [c n v | v mt]; cbn [group_step fst snd]; apply IH; [|exact G].
  apply (AllG_push (fun _ _ vs => vs <> []) (fun _ _ vs => vs <> [])); auto.
  - intros vs _ H. destruct vs; discriminate.
  - discriminate.
Qed.

(* the default of cyc is never taken: no grouped list is empty *)
Lemma group_nonempty exs : AllG (fun _ _ vs => vs <> []) (fst (group exs)).
Proof. apply nonempty_fold. intros c m n vs []. Qed.

Lemma bnonempty_fold exs : forall p b, AllV (fun _ vs => vs <> []) b ->
  AllV (fun _ vs => vs <> []) (snd (fold_left group_step exs (p, b))).
Proof.
  induction exs as [|e exs IH]; intros p b G; cbn [fold_left]; [exact G|].
  destruct e as [c n v | v mt]; cbn [group_step fst snd]; apply IH; [exact G|].
  apply (AllV_push (fun _ vs => vs <> []) (fun _ vs => vs <> [])); auto.
  - intros vs _ H. destruct vs; discriminate.
  - discriminate.
Qed.

Lemma param_combo_carried c n v p i : AllG (fun _ _ vs => vs <> []) p ->
  carries (param_combo p i) (PEx c n v) -> In v (get2 c n p).
Proof.
  intros NE. cbn [carries]. intros (m & H1 & H2).
  rewrite param_combo_get in H1. destruct (assoc_get c p) as [m0|] eqn:E1; [|discriminate].
  cbn [option_map] in H1. inversion H1; subst m. clear H1.
  rewrite (assoc_get_map (fun vs0 => cyc JNull vs0 i)) in H2.
  destruct (assoc_get n m0) as [vs|] eqn:E2; [|discriminate].
  cbn [option_map] in H2. inversion H2; subst v. clear H2.
  unfold get2, getl. rewrite E1, E2.
  apply cyc_In. apply (NE c m0 n vs); apply assoc_get_In; assumption.
Qed.

(* ------------------------------------------------------------------ *)
(* body combinations                                                   *)
(* ------------------------------------------------------------------ *)
Lemma s_media_body : str_eqb s_body s_media_type = false.
Proof. reflexivity. Qed.

Lemma In_body_combos c0 b : In c0 (body_combos b) <->
  exists mt vs v, In (mt, vs) b /\ In v vs /\ c0 = [(s_media_type, KStr mt); (s_body, KVal v)].
Proof.
  unfold body_combos. rewrite in_flat_map. split.
  - intros [[mt vs] [H1 H2]]. cbn in H2. apply in_map_iff in H2. destruct H2 as [v [<- Hv]].
    exists mt, vs, v. auto.
  - intros (mt & vs & v & H1 & H2 & ->). exists (mt, vs). split; [exact H1|].
    cbn. apply in_map_iff. exists v. auto.
Qed.

Lemma body_combo_carries mt v : carries [(s_media_type, KStr mt); (s_body, KVal v)] (BEx v mt).
Proof. split; reflexivity. Qed.

Lemma getl_found {A} k (v : A) l : In v (getl k l) -> In (k, getl k l) l.
Proof.
  unfold getl. destruct (assoc_get k l) eqn:E; [|intros []]. intros _. apply assoc_get_In. exact E.
Qed.

(* every entry of the bodies dictionary is the list of body examples of its media type *)
Definition bodies_sound (exs : list example) (b : bgroups) : Prop :=
  forall mt vs v, In (mt, vs) b -> In v vs -> In (BEx v mt) exs.

Lemma bodies_sound_fold exs : forall seen p b, bodies_sound seen b ->
  bodies_sound (seen ++ exs) (snd (fold_left group_step exs (p, b))).
Proof.
  induction exs as [|e exs IH]; intros seen p b S; cbn [fold_left].
  - rewrite app_nil_r. exact S.
  - replace (seen ++ e :: exs) with ((seen ++ [e]) ++ exs) by (rewrite <- app_assoc; reflexivity).
    destruct e as [c n v | v mt]; cbn [group_step fst snd]; apply IH.
    + intros mt vs v0 H1 H2. apply in_or_app. left. eapply S; eassumption.
    + intros mt0 vs0 v0 H1 H2. revert mt0 vs0 H1 v0 H2.
      change (AllV (fun mt0 vs0 => forall v0, In v0 vs0 -> In (BEx v0 mt0) (seen ++ [BEx v mt])) (push_val mt v b)).
      apply (AllV_push (fun mt0 vs0 => forall v0, In v0 vs0 -> In (BEx v0 mt0) seen)).
      * intros mt0 vs0 H. exact (fun v0 Hv => S mt0 vs0 v0 H Hv).
      * intros mt0 vs0 H v0 Hv. apply in_or_app. left. auto.
      * intros vs0 H v0 Hv. apply in_app_iff in Hv. apply in_or_app.
        destruct Hv as [Hv|[<-|[]]]; [left; auto | right; left; reflexivity].
      * intros v0 [<-|[]]. apply in_or_app. right. left. reflexivity.
Qed.

Lemma bodies_sound_group exs : bodies_sound exs (snd (group exs)).
Proof. apply (bodies_sound_fold exs [] [] []). intros mt vs v []. Qed.

(* ------------------------------------------------------------------ *)
(* C17_every_example_used                                              *)
(* ------------------------------------------------------------------ *)
Lemma nth_In_exists {A} (x : A) l d : In x l -> exists i, i < length l /\ nth i l d = x.
Proof. apply In_nth. Qed.

Lemma container_ok_neq c : container_ok c = true -> c <> s_media_type /\ c <> s_body.
Proof.
  unfold container_ok. intros H. apply andb_true_iff in H. destruct H as [H1 H2].
  apply negb_true_iff in H1, H2. split; apply str_eqb_false; assumption.
Qed.

Lemma combine_nth pc bc i : i < Nat.max (length pc) (length bc) ->
  In (assoc_update (cyc [] bc i) (cyc [] pc i)) (combine pc bc).
Proof.
  intros H. unfold combine. apply in_map_iff. exists i. split; [reflexivity|]. apply in_seq. split; [apply Nat.le_0_l | exact H].
Qed.

Lemma every_example_used exs e : containers_ok exs = true -> In e exs ->
  exists c, In c (produce_combinations exs) /\ carries c e.
Proof.
  intros Hok Hin. unfold produce_combinations.
  pose proof (good_keys_group exs Hok) as [ND FK].
  pose proof (group_nonempty exs) as NE.
  remember (fst (group exs)) as p eqn:Hp. remember (snd (group exs)) as b eqn:Hb.
  destruct e as [c n v | v mt].
  - (* a parameter example: the combination whose index is its position in its group *)
    assert (Hv : In v (get2 c n p)) by (rewrite Hp, get2_group; apply In_pvals; exact Hin).
    destruct (nth_In_exists v _ JNull Hv) as (i & Hi & Hn).
    destruct (get2_found _ _ _ _ Hv) as (m & vs & E1 & E2 & Evs).
    assert (Hlen : i < max_len p) by (pose proof (group_len_le_max _ _ _ _ _ E1 E2); subst vs; lia).
    assert (Hcar : carries (param_combo p i) (PEx c n v)) by (apply param_combo_carries; assumption).
    assert (Hinp : In (param_combo p i) (param_combos p)).
    { unfold param_combos. apply in_map. apply in_seq. lia. }
    unfold produce_grouped. destruct b as [|b0 br] eqn:Eb.
    + destruct p as [|p0 pr] eqn:Ep; [cbn in E1; discriminate|]. exists (param_combo (p0 :: pr) i). auto.
    + destruct p as [|p0 pr] eqn:Ep; [cbn in E1; discriminate|]. rewrite <- Ep in *. rewrite <- Eb.
      exists (assoc_update (cyc [] (body_combos b) i) (cyc [] (param_combos p) i)). split.
      * apply combine_nth. rewrite length_param_combos. lia.
      * rewrite (cyc_small _ (param_combos p)) by (rewrite length_param_combos; exact Hlen).
        rewrite nth_param_combos by exact Hlen.
        destruct Hcar as (m' & H1 & H2). exists m'. split; [|exact H2].
        apply assoc_update_in; [rewrite keys_param_combo; exact ND | apply assoc_get_In; exact H1].
  - (* a body example: its position in the flattened body list *)
    assert (Hv : In v (getl mt b)) by (rewrite Hb, getl_group; apply In_bvals; exact Hin).
    assert (Hbc : In [(s_media_type, KStr mt); (s_body, KVal v)] (body_combos b)).
    { apply In_body_combos. exists mt, (getl mt b), v. split; [eapply getl_found; exact Hv | auto]. }
    unfold produce_grouped. destruct b as [|b0 br] eqn:Eb; [destruct Hv|]. rewrite <- Eb in *.
    destruct p as [|p0 pr] eqn:Ep.
    + eexists. split; [exact Hbc | apply body_combo_carries].
    + rewrite <- Ep in *.
      destruct (@nth_In_exists combo _ _ [] Hbc) as (j & Hj & Hnj).
      exists (assoc_update (cyc [] (body_combos b) j) (cyc [] (param_combos p) j)). split.
      * apply combine_nth. eapply Nat.lt_le_trans; [exact Hj | apply Nat.le_max_r].
      * rewrite (cyc_small _ (body_combos b)) by exact Hj. rewrite Hnj.
        assert (Hk : forall k, (k = s_media_type \/ k = s_body) -> ~ In k (keys (cyc [] (param_combos p) j))).
        { intros k Hk Hink.
          assert (Hkp : In k (keys p)).
          { destruct (cyc_cases [] (param_combos p) j) as [[_ H]|H].
            - rewrite H in Hink. destruct Hink.
            - remember (cyc [] (param_combos p) j) as q eqn:Eq. unfold param_combos in H. apply in_map_iff in H. destruct H as (i0 & Hq & _).
              rewrite <- Hq, keys_param_combo in Hink. exact Hink. }
          rewrite Forall_forall in FK. apply FK in Hkp. apply container_ok_neq in Hkp.
          destruct Hkp, Hk; subst; contradiction. }
        cbn [carries]. rewrite !assoc_update_other by (apply Hk; auto).
        apply body_combo_carries.
Qed.

(* ------------------------------------------------------------------ *)
(* C17_nothing_invented                                                *)
(* ------------------------------------------------------------------ *)
Lemma body_combo_inv exs c0 x : In c0 (body_combos (snd (group exs))) -> carries c0 x -> In x exs.
Proof.
  intros Hc Hx. apply In_body_combos in Hc. destruct Hc as (mt & vs & v & H1 & H2 & ->).
  destruct x as [cn n v' | v' mt'].
  - destruct Hx as (m & Hm & _). cbn in Hm.
    destruct (str_eqb cn s_media_type); [discriminate|]. destruct (str_eqb cn s_body); discriminate.
  - destruct Hx as [Hmt Hb]. cbn in Hmt, Hb.
    inversion Hmt; inversion Hb; subst. eapply bodies_sound_group; eassumption.
Qed.

Lemma assoc_update_get {A} k (u b : list (str * A)) : NoDup (keys u) ->
  assoc_get k (assoc_update b u) = match assoc_get k u with Some x => Some x | None => assoc_get k b end.
Proof.
  intros ND. destruct (assoc_get k u) as [x|] eqn:E.
  - apply assoc_update_in; [exact ND | apply assoc_get_In; exact E].
  - apply assoc_update_other. intros H. apply assoc_mem_In in H. unfold assoc_mem in H. rewrite E in H. discriminate.
Qed.

Lemma nothing_invented exs c0 x : containers_ok exs = true ->
  In c0 (produce_combinations exs) -> carries c0 x -> In x exs.
Proof.
  intros Hok Hc Hx. unfold produce_combinations in Hc.
  pose proof (good_keys_group exs Hok) as [ND FK].
  pose proof (group_nonempty exs) as NE.
  assert (Hparam : forall i cn n v, carries (param_combo (fst (group exs)) i) (PEx cn n v) -> In (PEx cn n v) exs).
  { intros i cn n v H. apply param_combo_carried in H; [|exact NE]. rewrite get2_group in H. apply In_pvals. exact H. }
  assert (Hnokey : forall i, ~ In s_media_type (keys (param_combo (fst (group exs)) i)) /\
                             ~ In s_body (keys (param_combo (fst (group exs)) i))).
  { intros i. rewrite keys_param_combo. rewrite Forall_forall in FK.
    split; intros H; apply FK in H; apply container_ok_neq in H; destruct H; contradiction. }
  assert (Hparam_body : forall i v mt, ~ carries (param_combo (fst (group exs)) i) (BEx v mt)).
  { intros i v mt [H _]. apply assoc_get_keys in H. destruct (Hnokey i) as [N _]. contradiction. }
  unfold produce_grouped in Hc.
  destruct (snd (group exs)) as [|b0 br] eqn:Eb.
  - destruct (fst (group exs)) as [|p0 pr] eqn:Ep; [destruct Hc|].
    unfold param_combos in Hc. apply in_map_iff in Hc. destruct Hc as (i & <- & _).
    destruct x as [cn n v | v mt]; [eapply Hparam; exact Hx | exfalso; eapply Hparam_body; exact Hx].
  - destruct (fst (group exs)) as [|p0 pr] eqn:Ep.
    + rewrite <- Eb in Hc. eapply body_combo_inv; eassumption.
    + rewrite <- Ep, <- Eb in *. unfold combine in Hc. apply in_map_iff in Hc. destruct Hc as (i & <- & _).
      set (p := fst (group exs)) in *. set (b := snd (group exs)) in *.
      set (pci := cyc [] (param_combos p) i) in *. set (bci := cyc [] (body_combos b) i) in *.
      assert (Hpci : pci = [] \/ exists i0, pci = param_combo p i0).
      { destruct (cyc_cases [] (param_combos p) i) as [[_ H]|H]; [left; exact H|right].
        unfold param_combos in H. apply in_map_iff in H. destruct H as (i0 & H & _). exists i0. symmetry. exact H. }
      assert (Hbci : bci = [] \/ In bci (body_combos b)).
      { destruct (cyc_cases [] (body_combos b) i) as [[_ H]|H]; [left; exact H|right; exact H]. }
      assert (NDp : NoDup (keys pci)).
      { destruct Hpci as [->|[i0 ->]]; [constructor | rewrite keys_param_combo; exact ND]. }
      destruct x as [cn n v | v mt].
      * destruct Hx as (m & H1 & H2). rewrite assoc_update_get in H1 by exact NDp.
        destruct (assoc_get cn pci) as [y|] eqn:E.
        -- inversion H1; subst y. destruct Hpci as [Hp|[i0 Hp]]; [rewrite Hp in E; discriminate|].
           apply (Hparam i0). exists m. rewrite <- Hp. auto.
        -- exfalso. destruct Hbci as [Hb|Hb]; [rewrite Hb in H1; discriminate|].
           apply In_body_combos in Hb. destruct Hb as (mt & vs & v0 & _ & _ & Hb). rewrite Hb in H1. cbn in H1.
           destruct (str_eqb cn s_media_type); [discriminate|]. destruct (str_eqb cn s_body); discriminate.
      * destruct Hx as [H1 H2].
        assert (Hk : ~ In s_media_type (keys pci) /\ ~ In s_body (keys pci)).
        { destruct Hpci as [->|[i0 ->]]; [split; intros [] | apply Hnokey]. }
        destruct Hk as [K1 K2]. rewrite assoc_update_other in H1, H2 by assumption.
        destruct Hbci as [Hb|Hb]; [rewrite Hb in H1; discriminate|].
        eapply body_combo_inv; [exact Hb | split; assumption].
Qed.

(* ------------------------------------------------------------------ *)
(* C17_count_is_max                                                    *)
(* ------------------------------------------------------------------ *)
Lemma length_body_combos_push mt v b :
  length (body_combos (push_val mt v b)) = S (length (body_combos b)).
Proof.
  unfold body_combos. induction b as [|[k2 vs] r IH]; cbn; [reflexivity|].
  destruct (str_eqb mt k2); cbn.
  - rewrite !app_length, !map_length, app_length. cbn. lia.
  - rewrite !app_length. rewrite <- Nat.add_succ_r. f_equal. exact IH.
Qed.

Lemma length_body_fold exs : forall p b,
  length (body_combos (snd (fold_left group_step exs (p, b)))) = length (body_combos b) + n_bodies exs.
Proof.
  unfold n_bodies. induction exs as [|e exs IH]; intros p b; cbn [fold_left filter]; [cbn; rewrite Nat.add_0_r; reflexivity|].
  destruct e as [c n v | v mt]; cbn [group_step fst snd is_body].
  - apply IH.
  - rewrite IH, length_body_combos_push. cbn [length]. lia.
Qed.

Lemma length_body_group exs : length (body_combos (snd (group exs))) = n_bodies exs.
Proof. unfold group. rewrite length_body_fold. reflexivity. Qed.

Lemma filter_app_length {A} (f : A -> bool) l l' :
  length (filter f (l ++ l')) = length (filter f l) + length (filter f l').
Proof. rewrite filter_app, app_length. reflexivity. Qed.

(* every grouped list is accounted for by examples of that key *)
Definition counted (seen : list example) (c n : str) (vs : list json) : Prop :=
  (exists v0, In (PEx c n v0) seen) /\ length vs <= length (filter (same_key c n) seen).

Lemma counted_fold exs : forall seen p b, AllG (counted seen) p ->
  AllG (counted (seen ++ exs)) (fst (fold_left group_step exs (p, b))).
Proof.
  induction exs as [|e exs IH]; intros seen p b G; cbn [fold_left].
  - rewrite app_nil_r. exact G.
  - replace (seen ++ e :: exs) with ((seen ++ [e]) ++ exs) by (rewrite <- app_assoc; reflexivity).
    assert (Hmono : forall c n vs, counted seen c n vs -> counted (seen ++ [e]) c n vs).
    { intros c n vs [[v0 H0] Hl]. split; [exists v0; apply in_or_app; left; exact H0|].
      rewrite filter_app_length. lia. }
    destruct e as [c' n' v | v mt]; cbn [group_step fst snd]; apply IH.
    + apply (AllG_push (counted seen) (counted (seen ++ [PEx c' n' v]))); [exact G | exact Hmono | |].
      * intros vs [_ Hl]. split; [exists v; apply in_or_app; right; left; reflexivity|].
        rewrite filter_app_length, app_length. cbn. rewrite !str_eqb_refl. cbn. lia.
      * split; [exists v; apply in_or_app; right; left; reflexivity|].
        rewrite filter_app_length. cbn. rewrite !str_eqb_refl. cbn. lia.
    + intros c m n vs H1 H2. apply Hmono. eapply G; eassumption.
Qed.

Lemma counted_group exs : AllG (counted exs) (fst (group exs)).
Proof. apply (counted_fold exs [] [] []). intros c m n vs []. Qed.

Lemma max_len_group exs : max_len (fst (group exs)) = list_max (map (n_same exs) exs).
Proof.
  apply Nat.le_antisymm.
  - unfold max_len. apply list_max_le. apply Forall_forall. intros x Hx.
    apply in_flat_map in Hx. destruct Hx as ([c m] & H1 & H2). cbn in H2.
    apply in_map_iff in H2. destruct H2 as ([n vs] & <- & H2). cbn.
    destruct (counted_group exs c m n vs H1 H2) as [[v0 H0] Hl].
    etransitivity; [exact Hl|]. apply In_le_list_max.
    apply in_map_iff. exists (PEx c n v0). split; [reflexivity | exact H0].
  - apply list_max_le. apply Forall_forall. intros x Hx. apply in_map_iff in Hx.
    destruct Hx as (e & <- & He). destruct e as [c n v | v mt]; cbn [n_same]; [|lia].
    assert (Hv : In v (get2 c n (fst (group exs)))) by (rewrite get2_group; apply In_pvals; exact He).
    destruct (get2_found _ _ _ _ Hv) as (m & vs & E1 & E2 & Evs).
    rewrite <- length_pvals, <- get2_group, <- Evs. eapply group_len_le_max; eassumption.
Qed.

Lemma length_produce_grouped p b :
  length (produce_grouped p b) = Nat.max (max_len p) (length (body_combos b)).
Proof.
  unfold produce_grouped. destruct b as [|b0 br].
  - destruct p as [|p0 pr]; [reflexivity|]. rewrite length_param_combos. cbn [body_combos flat_map length]. lia.
  - destruct p as [|p0 pr].
    + cbn [max_len flat_map list_max]. reflexivity.
    + unfold combine. rewrite map_length, seq_length, length_param_combos. reflexivity.
Qed.

Lemma count_is_max exs : length (produce_combinations exs) = expected_count exs.
Proof.
  unfold produce_combinations, expected_count.
  rewrite length_produce_grouped, max_len_group, length_body_group. reflexivity.
Qed.

(* ------------------------------------------------------------------ *)
(* C17_no_examples_no_cases                                            *)
(* ------------------------------------------------------------------ *)
Lemma no_examples_no_cases exs : produce_combinations exs = [] <-> exs = [].
Proof.
  split.
  - intros H. apply (f_equal (@length _)) in H. rewrite count_is_max in H. cbn in H.
    destruct exs as [|e exs]; [reflexivity|]. exfalso. unfold expected_count in H.
    destruct e as [c n v | v mt].
    + assert (H1 : n_same (PEx c n v :: exs) (PEx c n v)
                   <= list_max (map (n_same (PEx c n v :: exs)) (PEx c n v :: exs)))
        by (apply In_le_list_max; left; reflexivity).
      assert (H2 : 1 <= n_same (PEx c n v :: exs) (PEx c n v))
        by (cbn [n_same filter same_key]; rewrite !str_eqb_refl; cbn; lia).
      lia.
    + unfold n_bodies in H. cbn in H. lia.
  - intros ->. reflexivity.
Qed.

(* ------------------------------------------------------------------ *)
(* C17_explicit_not_overwritten                                        *)
(* ------------------------------------------------------------------ *)
Lemma keys_assoc_remove {A} k name (l : list (str * A)) :
  In k (keys (assoc_remove name l)) <-> In k (keys l) /\ k <> name.
Proof.
  unfold keys. induction l as [|[k2 v2] r IH]; cbn; [tauto|].
  destruct (str_eqb name k2) eqn:E.
  - apply str_eqb_spec in E; subst k2. rewrite IH. split.
    + intros [H N]. auto.
    + intros [[H|H] N]; [subst; contradiction | auto].
  - apply str_eqb_false in E. cbn. rewrite IH. split.
    + intros [H|[H N]]; [subst; split; [left; reflexivity | congruence] | auto].
    + intros [[H|H] N]; auto.
Qed.

Lemma In_remove_first k name l : k <> name -> In k l -> In k (remove_first name l).
Proof.
  intros N. induction l as [|x r IH]; cbn; [auto|].
  destruct (str_eqb name x) eqn:E.
  - apply str_eqb_spec in E; subst x. intros [H|H]; [congruence | exact H].
  - intros [H|H]; [left; exact H | right; auto].
Qed.

Lemma strategy_schema_props props req ex k :
  In k (keys (fst (strategy_schema props req ex))) <-> In k (keys props) /\ ~ In k ex.
Proof.
  unfold strategy_schema. revert props req.
  induction ex as [|name ex IH]; intros props req; cbn [fold_left]; [cbn; tauto|].
  unfold exclude_step at 2. cbn [fst snd]. rewrite IH, keys_assoc_remove. cbn [In]. split.
  - intros [[H N] N']. split; [exact H|]. intros [E|E]; [symmetry in E; contradiction | contradiction].
  - intros [H N]. split; [split; [exact H|] |].
    + intros ->. apply N. left. reflexivity.
    + intros E. apply N. right. exact E.
Qed.

Lemma strategy_schema_required props req ex k :
  In k req -> ~ In k ex -> In k (snd (strategy_schema props req ex)).
Proof.
  unfold strategy_schema. revert props req.
  induction ex as [|name ex IH]; intros props req H N; cbn [fold_left]; [exact H|].
  unfold exclude_step at 2. cbn [fst snd]. apply IH.
  - apply In_remove_first; [|exact H]. intros ->. apply N. left. reflexivity.
  - intros E. apply N. right. exact E.
Qed.

Section Merge.
  Variable gen : list (str * json) -> list str -> option (list (str * json)).
  Hypothesis contract : gen_contract gen.

  (* names given explicitly keep the given value; generated names are declared, not explicit *)
  Lemma explicit_not_overwritten hp props req v r :
    v <> [] -> get_parameters_value gen hp props req (Some v) = Some r ->
    (forall k x, assoc_get k v = Some x -> assoc_get k r = Some x) /\
    (forall k, assoc_mem k r = true -> assoc_mem k v = true \/ In k (keys props)).
  Proof.
    intros Hne H. unfold get_parameters_value in H. destruct v as [|kv v']; [contradiction|].
    set (v := kv :: v') in *.
    destruct (draw_location gen hp props req (keys v)) as [new|] eqn:E.
    - inversion H; subst r. clear H. unfold draw_location in E. destruct hp; [|discriminate].
      destruct (contract _ _ _ E) as [Hsub _].
      assert (Hdisj : forall k, In k (keys new) -> In k (keys props) /\ ~ In k (keys v)).
      { intros k Hk. apply Hsub in Hk. apply strategy_schema_props in Hk. exact Hk. }
      split.
      + intros k x Hx. rewrite assoc_update_other; [exact Hx|].
        intros Hk. apply Hdisj in Hk. destruct Hk as [_ N]. apply N. eapply assoc_get_keys. exact Hx.
      + intros k Hk. rewrite assoc_mem_update in Hk. apply orb_true_iff in Hk.
        destruct Hk as [Hk|Hk]; [left; exact Hk | right]. apply in_strs_In in Hk. apply Hdisj in Hk. tauto.
    - inversion H; subst r. split; [auto | intros k Hk; left; exact Hk].
  Qed.

  (* required inputs are never missing once something was generated *)
  Lemma required_filled props req v new :
    draw_location gen true props req (keys v) = Some new ->
    forall k, In k req -> In k (keys props) -> assoc_mem k (assoc_update v new) = true.
  Proof.
    intros E k Hreq Hprop. rewrite assoc_mem_update. apply orb_true_iff.
    destruct (assoc_mem k v) eqn:Ev; [left; reflexivity | right].
    assert (N : ~ In k (keys v)) by (intros H; apply assoc_mem_In in H; congruence).
    unfold draw_location in E. destruct (contract _ _ _ E) as [_ Hreqd].
    apply in_strs_In. apply Hreqd.
    - apply strategy_schema_required; assumption.
    - apply strategy_schema_props. auto.
  Qed.
End Merge.

(* ------------------------------------------------------------------ *)
(* C17_dropped_is_reported                                             *)
(* ------------------------------------------------------------------ *)
Lemma filter_short {A} (f : A -> bool) l :
  length (filter (fun x => negb (f x)) l) < length l -> existsb f l = true.
Proof.
  induction l as [|x l IH]; cbn; [lia|].
  destruct (f x); cbn; [reflexivity|]. intros H. apply IH. lia.
Qed.

Lemma dropped_is_reported_partial g : silent_exn g = false ->
  n_added (add_examples g) < intended g -> reported (add_examples g) = true.
Proof.
  destruct g as [cs | e n]; cbn.
  - intros _ H. apply filter_short in H. rewrite H. reflexivity.
  - destruct e; cbn; try discriminate; reflexivity.
Qed.

Definition g_silent : gen_outcome := GenRaises ERefResolution 1.

Lemma dropped_is_reported_refuted :
  n_added (add_examples g_silent) < intended g_silent /\ reported (add_examples g_silent) = false.
Proof. split; [cbn; lia | reflexivity]. Qed.

Lemma dropped_is_reported_refuted_invalid_schema :
  n_added (add_examples (GenRaises EInvalidSchema 1)) < intended (GenRaises EInvalidSchema 1) /\
  reported (add_examples (GenRaises EInvalidSchema 1)) = false.
Proof. split; [cbn; lia | reflexivity]. Qed.

(* nothing is dropped when nothing is wrong *)
Lemma all_added cs : existsb header_bad cs = false ->
  add_examples (GenCases cs) = Added cs [].
Proof.
  intros H. cbn. rewrite H. f_equal.
  induction cs as [|c cs IH]; [reflexivity|]. cbn in H |- *. apply orb_false_iff in H. destruct H as [H1 H2].
  rewrite H1. cbn. f_equal. apply IH. exact H2.
Qed.

(* ------------------------------------------------------------------ *)
(* non-vacuity: a non-trivial example list and its combinations         *)
(* ------------------------------------------------------------------ *)
Definition s_query : str := [113;117;101;114;121]%N.
Definition s_headers : str := [104;101;97;100;101;114;115]%N.
Definition s_json_mt : str := [97;112;112;108;105;99;97;116;105;111;110;47;106;115;111;110]%N.
Definition exs_demo : list example :=
  [ PEx s_query [113]%N (JInt 1); BEx (JStr [97]%N) s_json_mt; PEx s_query [113]%N (JInt 2);
    PEx s_headers [120]%N (JStr [104]%N); PEx s_query [113]%N (JInt 3); BEx JNull s_json_mt;
    PEx s_query [114]%N (JBool true) ].

Lemma exs_demo_ok : containers_ok exs_demo = true /\ length (produce_combinations exs_demo) = 3 /\
  forallb (fun e => existsb (fun c => carriesb c e) (produce_combinations exs_demo)) exs_demo = true.
Proof. vm_compute. auto. Qed.

(* a generator satisfying the contract, used to show the merge hypotheses are satisfiable *)
Definition gen_demo (props : list (str * json)) (req : list str) : option (list (str * json)) :=
  Some (filter (fun kv => in_strs (fst kv) req) props).

Lemma gen_demo_contract : gen_contract gen_demo.
Proof.
  intros props req new H. inversion H; subst new. clear H. split.
  - intros k Hk. unfold keys in *. apply in_map_iff in Hk. destruct Hk as ([k' x] & <- & Hk).
    apply filter_In in Hk. destruct Hk as [Hk _]. apply (in_map fst) in Hk. exact Hk.
  - intros k Hr Hp. unfold keys in *. apply in_map_iff in Hp. destruct Hp as ([k' x] & <- & Hp).
    apply in_map_iff. exists (k', x). split; [reflexivity|]. apply filter_In. split; [exact Hp|].
    apply in_strs_In. exact Hr.
Qed.

Lemma merge_demo :
  get_parameters_value gen_demo true [([113]%N, JNull); ([114]%N, JNull)] [[114]%N; [113]%N] (Some [([113]%N, JInt 7)])
  = Some [([113]%N, JInt 7); ([114]%N, JNull)].
Proof. reflexivity. Qed.

(* ------------------------------------------------------------------ *)
(* extraction on schema fragments                                      *)
(* ------------------------------------------------------------------ *)
Lemma singles_In efs subs s ef v :
  In s subs -> In ef efs -> obj_get ef s = Some v -> In v (singles efs subs).
Proof.
  intros Hs He Hv. unfold singles. apply in_flat_map. exists s. split; [exact Hs|].
  apply in_flat_map. exists ef. split; [exact He|]. rewrite Hv. left. reflexivity.
Qed.

Lemma branch_in_expand d key l b subs :
  key = s_anyOf \/ key = s_oneOf ->
  assoc_get key d = Some (JArr l) -> In b l -> expand_res (JObj d) = Ok subs -> In b subs.
Proof.
  intros Hkey Hget Hb H. unfold expand_res in H.
  unfold branch_list in H.
  destruct (assoc_get s_anyOf d) as [xa|] eqn:Ea; [destruct xa; try discriminate|];
  destruct (assoc_get s_oneOf d) as [xo|] eqn:Eo; try (destruct xo; try discriminate);
  cbn [bind] in H;
  (destruct (assoc_get s_allOf d) as [xl|] eqn:El;
   [destruct xl as [| | | |[|first rest]|]; try discriminate;
    destruct (fold_left merge_sub rest (Some first)); try discriminate |]);
  inversion H; subst subs; clear H;
  destruct Hkey as [-> | ->]; rewrite Hget in *; try discriminate;
  match goal with
  | E : Some (JArr _) = Some (JArr _) |- _ => inversion E; subst; clear E
  | _ => idtac
  end;
  cbn [In]; right; rewrite ?in_app_iff; auto.
Qed.

(* an example written on an anyOf / oneOf branch (or on the schema itself) is
   among the extracted top-level values whenever extraction does not raise *)
Lemma branch_examples_extracted d key l b ef efs esf v vs :
  key = s_anyOf \/ key = s_oneOf ->
  assoc_get key d = Some (JArr l) -> In b l -> In ef efs -> obj_get ef b = Some v ->
  top_values_res efs esf (JObj d) = Ok vs -> In v vs.
Proof.
  intros Hkey Hget Hb He Hv H. unfold top_values_res in H.
  destruct (expand_res (JObj d)) as [subs|e] eqn:Ex; [|discriminate]. cbn [bind] in H.
  destruct (fold_left (multi_step esf) subs (Ok [])) as [multi|e]; [|discriminate]. cbn [bind] in H.
  inversion H; subst vs. apply in_or_app. left.
  eapply singles_In; [|exact He|exact Hv]. eapply branch_in_expand; eassumption.
Qed.

Lemma self_example_extracted d ef efs esf v vs :
  In ef efs -> assoc_get ef d = Some v ->
  top_values_res efs esf (JObj d) = Ok vs -> In v vs.
Proof.
  intros He Hv H. unfold top_values_res in H.
  destruct (expand_res (JObj d)) as [subs|e] eqn:Ex; [|discriminate]. cbn [bind] in H.
  destruct (fold_left (multi_step esf) subs (Ok [])) as [multi|e]; [|discriminate]. cbn [bind] in H.
  inversion H; subst vs. apply in_or_app. left.
  apply (singles_In efs subs (JObj d) ef v); [|exact He|exact Hv].
  unfold expand_res in Ex.
  destruct (branch_list s_anyOf d); [|discriminate]. destruct (branch_list s_oneOf d); [|discriminate].
  cbn [bind] in Ex.
  destruct (assoc_get s_allOf d) as [xl|];
    [destruct xl as [| | | |[|first rest]|]; try discriminate;
     destruct (fold_left merge_sub rest (Some first)); try discriminate |];
  inversion Ex; left; reflexivity.
Qed.

(* witnesses of the refuted regions *)
Definition sch_allof_20 : json :=
  JObj [(s_allOf, JArr [JObj [(s_example, JInt 1)]; JObj [(s_example, JInt 2)]])].
Lemma allof_examples_20_refuted :
  top_values [s_example; s_x_example] s_x_examples sch_allof_20 = XOk [JInt 1] /\
  top_values [s_example] s_examples sch_allof_20 = XOk [JInt 1; JInt 2].
Proof. split; reflexivity. Qed.

Definition sch_allof_x : json :=
  JObj [(s_allOf, JArr [JObj [(s_x_example, JInt 1)]; JObj [(s_x_example, JInt 2)]])].
Lemma allof_x_example_refuted :
  top_values [s_example; s_x_example] s_x_examples sch_allof_x = XOk [JInt 2].
Proof. reflexivity. Qed.

Definition sch_nested : json :=
  JObj [(s_anyOf, JArr [JObj [(s_anyOf, JArr [JObj [(s_example, JInt 1)]])]])].
Lemma nested_branch_refuted : top_values [s_example] s_examples sch_nested = XOk [].
Proof. reflexivity. Qed.

Definition sch_prop_in_branch : json :=
  JObj [(s_allOf, JArr [JObj [(s_properties, JObj [([97]%N, JObj [(s_example, JInt 1)])])]])].
Lemma property_in_branch_refuted : forall fuel g,
  extract_from_schema (S fuel) g s_example s_examples sch_prop_in_branch = XOk [] /\
  top_values [s_example] s_examples sch_prop_in_branch = XOk [].
Proof. intros fuel g. split; reflexivity. Qed.

(* while a property example directly under the schema is extracted *)
Definition sch_prop : json :=
  JObj [(s_properties, JObj [([97]%N, JObj [(s_example, JInt 1)]);
                             ([98]%N, JObj [(s_anyOf, JArr [JObj [(s_example, JInt 2)]; JObj [(s_examples, JArr [JInt 3])]])])])].
Lemma property_examples_demo :
  extract_from_schema 5 JNull s_example s_examples sch_prop
  = XOk [JObj [([97]%N, JInt 1); ([98]%N, JInt 2)]; JObj [([97]%N, JInt 1); ([98]%N, JInt 3)]].
Proof. reflexivity. Qed.

Lemma branch_demo :
  top_values [s_example] s_examples
    (JObj [(s_oneOf, JArr [JObj [(s_example, JInt 1)]; JObj [(s_examples, JArr [JInt 2; JInt 3])]])])
  = XOk [JInt 1; JInt 2; JInt 3].
Proof. reflexivity. Qed.

(* ------------------------------------------------------------------ *)
(* the whole node: parameter / media type / 2.0 body parameter object   *)
(* ------------------------------------------------------------------ *)
Lemma self_in_expand d subs : expand_res (JObj d) = Ok subs -> In (JObj d) subs.
Proof.
  intros Ex. unfold expand_res in Ex.
  destruct (branch_list s_anyOf d); [|discriminate]. destruct (branch_list s_oneOf d); [|discriminate].
  cbn [bind] in Ex.
  destruct (assoc_get s_allOf d) as [xl|];
    [destruct xl as [| | | |[|first rest]|]; try discriminate;
     destruct (fold_left merge_sub rest (Some first)); try discriminate |];
  inversion Ex; left; reflexivity.
Qed.

Lemma node_values_gen_pick pick esf node unresolved vs :
  node_values_gen pick esf node unresolved = Ok vs ->
  exists defs rest, node_defs_res node = Ok defs /\ vs = pick defs ++ rest.
Proof.
  intros H. unfold node_values_gen in H.
  destruct (node_defs_res node) as [defs|e]; [|discriminate]. cbn [bind] in H.
  destruct (match obj_get esf node with Some x => inner_res x unresolved | None => Ok [] end) as [inner|e]; [|discriminate].
  cbn [bind] in H.
  destruct (match obj_get s_schema node with
            | Some sch => bind (expand_res sch) (fun subs => fold_left (multi_step esf) subs (Ok []))
            | None => Ok [] end) as [multi|e]; [|discriminate].
  cbn [bind] in H. inversion H. exists defs, (inner ++ multi). split; reflexivity.
Qed.

(* every keyword of the list that is present in a definition of the node gives
   an extracted value: the node itself ... *)
Lemma node_keyword_extracted efs esf node unresolved ef v vs :
  In ef efs -> obj_get ef node = Some v ->
  node_values_res efs esf node unresolved = Ok vs -> In v vs.
Proof.
  intros He Hv H. apply node_values_gen_pick in H. destruct H as (defs & rest & Hd & ->).
  apply in_or_app. left. apply (singles_In efs defs node ef v); [|exact He|exact Hv].
  unfold node_defs_res in Hd. destruct (obj_get s_schema node) as [sch|].
  - destruct (expand_res sch) as [subs|e]; [|discriminate]. cbn [bind] in Hd. inversion Hd. left. reflexivity.
  - inversion Hd. left. reflexivity.
Qed.

(* ... and every expanded subschema of its schema *)
Lemma node_schema_keyword_extracted efs esf node unresolved sch subs s ef v vs :
  obj_get s_schema node = Some sch -> expand_res sch = Ok subs -> In s subs ->
  In ef efs -> obj_get ef s = Some v ->
  node_values_res efs esf node unresolved = Ok vs -> In v vs.
Proof.
  intros Hs Hx Hin He Hv H. apply node_values_gen_pick in H. destruct H as (defs & rest & Hd & ->).
  apply in_or_app. left. apply (singles_In efs defs s ef v); [|exact He|exact Hv].
  unfold node_defs_res in Hd. rewrite Hs, Hx in Hd. cbn [bind] in Hd. inversion Hd. right. exact Hin.
Qed.

(* OpenAPI 2.0: a node (and the schema of a node) carrying BOTH example and
   x-example gives both values *)
Lemma both_keywords_extracted esf node unresolved v w vs :
  obj_get s_example node = Some v -> obj_get s_x_example node = Some w ->
  node_values_res [s_example; s_x_example] esf node unresolved = Ok vs -> In v vs /\ In w vs.
Proof.
  intros Hv Hw H. split.
  - eapply node_keyword_extracted; [|exact Hv|exact H]. left. reflexivity.
  - eapply node_keyword_extracted; [|exact Hw|exact H]. right. left. reflexivity.
Qed.

Lemma both_keywords_of_schema_extracted esf node unresolved d v w vs :
  obj_get s_schema node = Some (JObj d) ->
  assoc_get s_example d = Some v -> assoc_get s_x_example d = Some w ->
  node_values_res [s_example; s_x_example] esf node unresolved = Ok vs -> In v vs /\ In w vs.
Proof.
  intros Hs Hv Hw H.
  assert (Hx : exists subs, expand_res (JObj d) = Ok subs).
  { pose proof H as H'. apply node_values_gen_pick in H'. destruct H' as (defs & rest & Hd & _).
    unfold node_defs_res in Hd. rewrite Hs in Hd. destruct (expand_res (JObj d)) as [subs|e]; [|discriminate].
    exists subs. reflexivity. }
  destruct Hx as (subs & Hx). pose proof (self_in_expand d subs Hx) as Hin.
  split.
  - eapply (node_schema_keyword_extracted _ _ _ _ _ _ (JObj d) s_example); [exact Hs|exact Hx|exact Hin| |exact Hv|exact H].
    left. reflexivity.
  - eapply (node_schema_keyword_extracted _ _ _ _ _ _ (JObj d) s_x_example); [exact Hs|exact Hx|exact Hin| |exact Hw|exact H].
    right. left. reflexivity.
Qed.

(* the sentinel (first keyword present only, x-example preferred) loses the plain
   example of a 2.0 query parameter and of a 2.0 body parameter + body schema;
   the rule of the code gives every value *)
Definition s_type : str := [116;121;112;101]%N.
Definition node_both_query : json :=
  JObj [(s_name, JStr [113]%N); (s_in, JStr s_query); (s_type, JStr [115;116;114;105;110;103]%N);
        (s_x_example, JStr [120]%N); (s_example, JStr [101]%N)].
Definition node_both_body : json :=
  JObj [(s_name, JStr [98]%N); (s_in, JStr [98;111;100;121]%N);
        (s_x_example, JInt 1); (s_example, JInt 2);
        (s_schema, JObj [(s_x_example, JInt 3); (s_example, JInt 4);
                         (s_anyOf, JArr [JObj [(s_example, JInt 5); (s_x_example, JInt 6)]])])].
Lemma first_keyword_only_refuted :
  obj_get s_example node_both_query = Some (JStr [101]%N) /\ obj_get s_x_example node_both_query = Some (JStr [120]%N) /\
  node_values [s_example; s_x_example] s_x_examples node_both_query node_both_query = XOk [JStr [101]%N; JStr [120]%N] /\
  node_values_first_only [s_x_example; s_example] s_x_examples node_both_query node_both_query = XOk [JStr [120]%N] /\
  node_values [s_example; s_x_example] s_x_examples node_both_body node_both_body
    = XOk [JInt 2; JInt 1; JInt 4; JInt 3; JInt 5; JInt 6] /\
  node_values_first_only [s_x_example; s_example] s_x_examples node_both_body node_both_body
    = XOk [JInt 1; JInt 3; JInt 6].
Proof. repeat split; reflexivity. Qed.

(* non-vacuity: the hypotheses of both_keywords(_of_schema)_extracted hold on the witnesses *)
Lemma both_keywords_demo :
  obj_get s_example node_both_body = Some (JInt 2) /\ obj_get s_x_example node_both_body = Some (JInt 1) /\
  (exists d, obj_get s_schema node_both_body = Some (JObj d) /\
             assoc_get s_example d = Some (JInt 4) /\ assoc_get s_x_example d = Some (JInt 3)) /\
  exists vs, node_values_res [s_example; s_x_example] s_x_examples node_both_body node_both_body = Ok vs.
Proof.
  repeat split; try reflexivity.
  - eexists. repeat split; reflexivity.
  - eexists. reflexivity.
Qed.

(* ------------------------------------------------------------------ *)
(* the examples lookup by (name, location)                             *)
(* ------------------------------------------------------------------ *)
Lemma lookup_by_location pre p post name loc field x :
  forallb (fun q => has_name q && negb (name_is name q && in_is loc q)) pre = true ->
  name_is name p = true -> in_is loc p = true -> obj_get field p = Some x ->
  find_param_examples (pre ++ p :: post) name loc field = Ok x.
Proof.
  intros Hpre Hn Hl Hf. induction pre as [|q pre IH]; cbn [app find_param_examples].
  - assert (Hh : has_name p = true).
    { unfold name_is in Hn. unfold has_name. destruct (obj_get s_name p); [reflexivity | discriminate]. }
    rewrite Hh, Hn, Hl, Hf. reflexivity.
  - cbn [forallb] in Hpre. apply andb_true_iff in Hpre. destruct Hpre as [Hq Hpre].
    apply andb_true_iff in Hq. destruct Hq as [Hh Hm]. apply negb_true_iff in Hm.
    rewrite Hh, Hm. apply IH. exact Hpre.
Qed.

(* header id without examples listed before query id with examples *)
Definition s_id : str := [105;100]%N.
Definition s_header : str := [104;101;97;100;101;114]%N.
Definition p_header_id : json := JObj [(s_name, JStr s_id); (s_in, JStr s_header)].
Definition d_examples : json := JObj [([97]%N, JObj [(s_value, JStr [81;49]%N)])].
Definition p_query_id : json := JObj [(s_name, JStr s_id); (s_in, JStr s_query); (s_examples, d_examples)].

Lemma lookup_by_name_only_refuted :
  find_param_examples_by_name_only [p_header_id; p_query_id] s_id s_examples = Err Raised /\
  find_param_examples [p_header_id; p_query_id] s_id s_query s_examples = Ok d_examples /\
  extract_inner_examples d_examples d_examples = XOk [JStr [81;49]%N].
Proof. repeat split; reflexivity. Qed.
