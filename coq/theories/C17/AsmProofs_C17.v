(* C17, case assembly with object identity (Model_C17 section 7): proofs.
   Added after seed C17_c_explicit_container_shared_between_cases; the serializer
   half follows fix cedd1977 (only the explicit keys are serialized, into a new dict). *)
From Coq Require Import List NArith ZArith Bool PeanoNat Lia.
From Verif Require Import Common.Str Common.Json C17.Model_C17 C17.Proofs_C17.
Import ListNotations.

(* ------------------------------------------------------------------ *)
(* heap facts                                                          *)
(* ------------------------------------------------------------------ *)
Lemma hget_app_l h x a : a < length h -> hget (h ++ x) a = hget h a.
Proof. intros H. unfold hget. apply app_nth1. exact H. Qed.

Lemma hget_middle base d r : hget (base ++ d :: r) (length base) = d.
Proof. unfold hget. apply nth_middle. Qed.

Lemma hset_middle base d r d1 : hset (base ++ d :: r) (length base) d1 = base ++ d1 :: r.
Proof. induction base as [|x base IH]; cbn; [reflexivity | rewrite IH; reflexivity]. Qed.

Lemma length_snoc {A} (l : list A) x : length (l ++ [x]) = S (length l).
Proof. rewrite app_length. cbn. lia. Qed.

(* ------------------------------------------------------------------ *)
(* one case under the rule of the code                                 *)
(* ------------------------------------------------------------------ *)
Lemma gpv_copy new h a :
  gpv_ref CopyWhenDrawn (Some new) h a = (h ++ [merged (hget h a) new], Some (length h)).
Proof. unfold gpv_ref, merged. destruct (hget h a); reflexivity. Qed.

(* addresses handed out to the containers of one case: consecutive, new *)
Definition fresh_refs (n : nat) (rc : rcombo) : case_refs :=
  List.combine (map fst rc) (map Some (seq n (length rc))).

(* the merged (not yet serialized) container of the idx-th case *)
Definition mval (draw : draw_fn) (h0 : heap) (idx : nat) (ca : str * nat) : dict :=
  merged (hget h0 (snd ca)) (strip (draw idx (fst ca) (hget h0 (snd ca)))).

Lemma gen_phase draw h0 idx : forall rc ext cr0,
  forallb (fun ca => Nat.ltb (snd ca) (length h0)) rc = true ->
  forallb (fun ca => is_some (draw idx (fst ca) (hget h0 (snd ca)))) rc = true ->
  fold_left (gen_step CopyWhenDrawn draw idx) rc (h0 ++ ext, cr0) =
  ((h0 ++ ext) ++ map (mval draw h0 idx) rc, cr0 ++ fresh_refs (length (h0 ++ ext)) rc).
Proof.
  induction rc as [|[c a] rc IH]; intros ext cr0 Hwf Hdr.
  - cbn. rewrite !app_nil_r. reflexivity.
  - cbn [forallb fst snd] in Hwf, Hdr.
    apply andb_true_iff in Hwf. destruct Hwf as [Ha Hwf]. apply Nat.ltb_lt in Ha.
    apply andb_true_iff in Hdr. destruct Hdr as [Hd Hdr].
    cbn [fold_left]. unfold gen_step at 2. cbn [fst snd].
    rewrite (hget_app_l h0 ext a Ha).
    destruct (draw idx c (hget h0 a)) as [new|] eqn:E; [|discriminate Hd].
    rewrite gpv_copy. cbn [fst snd]. rewrite (hget_app_l h0 ext a Ha).
    rewrite <- app_assoc. rewrite (IH (ext ++ [merged (hget h0 a) new]) _ Hwf Hdr).
    f_equal.
    + rewrite <- !app_assoc. cbn [map app]. unfold mval at 2. cbn [fst snd]. rewrite E. reflexivity.
    + rewrite <- app_assoc. f_equal. unfold fresh_refs. cbn [map length seq List.combine app fst].
      rewrite (app_assoc h0 ext). rewrite length_snoc. reflexivity.
Qed.

(* ------------------------------------------------------------------ *)
(* the identity-level produce_combinations denotes the value-level one *)
(* ------------------------------------------------------------------ *)
Definition named_refs (n : nat) (l : list (str * dict)) : rcombo :=
  List.combine (map fst l) (seq n (length l)).

Lemma alloc_fold : forall l h rc0,
  fold_left alloc_container l (h, rc0) = (h ++ map snd l, rc0 ++ named_refs (length h) l).
Proof.
  induction l as [|[c d] l IH]; intros h rc0.
  - cbn. rewrite !app_nil_r. reflexivity.
  - cbn [fold_left]. unfold alloc_container at 2. cbn [fst snd]. rewrite IH. f_equal.
    + rewrite <- app_assoc. reflexivity.
    + rewrite <- app_assoc. f_equal. unfold named_refs. cbn [map length seq List.combine app fst].
      rewrite length_snoc. reflexivity.
Qed.

Lemma deref_named : forall l pre post,
  deref (pre ++ map snd l ++ post) (named_refs (length pre) l) = l.
Proof.
  induction l as [|[c d] l IH]; intros pre post; [reflexivity|].
  unfold named_refs, deref. cbn [map length seq List.combine fst snd app].
  rewrite hget_middle. f_equal.
  specialize (IH (pre ++ [d]) post). rewrite length_snoc, <- app_assoc in IH. exact IH.
Qed.

Fixpoint cblocks (pcs : list combo) : heap :=
  match pcs with [] => [] | c :: r => map snd (containers c) ++ cblocks r end.
Fixpoint crefs (n : nat) (pcs : list combo) : list rcombo :=
  match pcs with
  | [] => []
  | c :: r => named_refs n (containers c) :: crefs (n + length (containers c)) r
  end.

Lemma alloc_combos_fold : forall pcs h rcs0,
  fold_left alloc_step pcs (h, rcs0) = (h ++ cblocks pcs, rcs0 ++ crefs (length h) pcs).
Proof.
  induction pcs as [|c pcs IH]; intros h rcs0.
  - cbn. rewrite !app_nil_r. reflexivity.
  - cbn [fold_left]. unfold alloc_step at 2, alloc_param_combo. cbn [fst snd].
    rewrite alloc_fold. cbn [fst snd app]. rewrite IH. cbn [cblocks crefs]. f_equal.
    + rewrite <- app_assoc. reflexivity.
    + rewrite <- app_assoc. cbn [app]. rewrite app_length, map_length. reflexivity.
Qed.

Lemma deref_crefs : forall pcs pre post,
  map (deref (pre ++ cblocks pcs ++ post)) (crefs (length pre) pcs) = map containers pcs.
Proof.
  induction pcs as [|c pcs IH]; intros pre post; [reflexivity|].
  cbn [cblocks crefs map]. f_equal.
  - rewrite <- app_assoc. apply deref_named.
  - specialize (IH (pre ++ map snd (containers c)) post).
    rewrite app_length, map_length, <- !app_assoc in IH. rewrite <- app_assoc. exact IH.
Qed.

Lemma named_refs_lt n l m : n + length l <= m ->
  forallb (fun ca : str * nat => Nat.ltb (snd ca) m) (named_refs n l) = true.
Proof.
  unfold named_refs. revert n. induction l as [|x l IH]; intros n H; [reflexivity|].
  cbn [map length seq List.combine forallb snd] in *. apply andb_true_iff. split.
  - apply Nat.ltb_lt. lia.
  - apply IH. lia.
Qed.

Lemma crefs_wf : forall pcs n m, n + length (cblocks pcs) <= m ->
  forallb (fun rc => forallb (fun ca : str * nat => Nat.ltb (snd ca) m) rc) (crefs n pcs) = true.
Proof.
  induction pcs as [|c pcs IH]; intros n m H; [reflexivity|].
  cbn [cblocks crefs forallb] in *. rewrite app_length, map_length in H.
  apply andb_true_iff. split; [apply named_refs_lt; lia | apply IH; lia].
Qed.

Lemma alloc_param_combos_spec pcs :
  alloc_param_combos pcs = (cblocks pcs, crefs 0 pcs).
Proof. unfold alloc_param_combos. rewrite alloc_combos_fold. reflexivity. Qed.

Lemma alloc_deref pcs :
  map (deref (fst (alloc_param_combos pcs))) (snd (alloc_param_combos pcs)) = map containers pcs /\
  wf_refs (fst (alloc_param_combos pcs)) (snd (alloc_param_combos pcs)) = true /\
  length (snd (alloc_param_combos pcs)) = length pcs.
Proof.
  rewrite alloc_param_combos_spec. cbn [fst snd]. repeat split.
  - pose proof (deref_crefs pcs [] []) as D. rewrite app_nil_r in D. exact D.
  - unfold wf_refs. apply crefs_wf. lia.
  - generalize 0. induction pcs as [|c pcs IH]; intros n; [reflexivity|]. cbn [crefs length]. rewrite IH. reflexivity.
Qed.

Lemma cyc_map {A B} (f : A -> B) d l i : cyc (f d) (map f l) i = f (cyc d l i).
Proof. unfold cyc. rewrite map_length. apply map_nth. Qed.

Lemma assoc_set_fresh {A} k (v : A) l : ~ In k (keys l) -> assoc_set k v l = l ++ [(k, v)].
Proof.
  induction l as [|[k1 v1] l IH]; intros N; [reflexivity|].
  cbn [assoc_set]. destruct (str_eqb k k1) eqn:E.
  - apply str_eqb_spec in E. subst. exfalso. apply N. left. reflexivity.
  - cbn [app]. f_equal. apply IH. intros H. apply N. right. exact H.
Qed.

Lemma assoc_update_disjoint {A} : forall (u b : list (str * A)),
  NoDup (keys u) -> (forall k, In k (keys u) -> ~ In k (keys b)) -> assoc_update b u = b ++ u.
Proof.
  unfold assoc_update.
  induction u as [|[k v] u IH]; intros b ND Dis; [cbn; rewrite app_nil_r; reflexivity|].
  cbn [fold_left fst snd]. inversion ND as [|x l Hk ND1]; subst.
  rewrite assoc_set_fresh; [|apply Dis; left; reflexivity].
  rewrite IH; [rewrite <- app_assoc; reflexivity | exact ND1 |].
  intros k1 Hin H. unfold keys in H. rewrite map_app, in_app_iff in H. destruct H as [H|[H|[]]].
  - exact (Dis k1 (or_intror Hin) H).
  - cbn in H. subst. exact (Hk Hin).
Qed.

Lemma containers_app a b : containers (a ++ b) = containers a ++ containers b.
Proof. unfold containers. apply flat_map_app. Qed.

Lemma containers_body_combos b c : In c (body_combos b) -> containers c = [] /\ keys c = [s_media_type; s_body].
Proof.
  intros H. apply In_body_combos in H. destruct H as (mt & v & vs & _ & _ & E).
  subst. split; reflexivity.
Qed.

Lemma containers_merge p b i j : good_keys p ->
  containers (assoc_update (cyc [] (body_combos b) j) (cyc [] (param_combos p) i)) =
  containers (cyc [] (param_combos p) i).
Proof.
  intros [ND OK].
  assert (HB : containers (cyc [] (body_combos b) j) = [] /\
               (forall k, In k (keys (cyc [] (body_combos b) j)) -> k = s_media_type \/ k = s_body)).
  { destruct (cyc_cases (@nil (str * kwval)) (body_combos b) j) as [[_ E]|Hin].
    - rewrite E. split; [reflexivity | intros k []].
    - apply containers_body_combos in Hin. destruct Hin as [E1 E2]. split; [exact E1|].
      rewrite E2. intros k [H|[H|[]]]; auto. }
  destruct HB as [HB1 HB2].
  destruct (cyc_cases (@nil (str * kwval)) (param_combos p) i) as [[_ E]|Hin].
  - rewrite E. cbn. exact HB1.
  - assert (E : exists i1, param_combo p i1 = cyc [] (param_combos p) i).
    { unfold param_combos in Hin at 2. apply in_map_iff in Hin. destruct Hin as [i1 [E _]]. exists i1. exact E. }
    destruct E as [i1 E]. rewrite <- E. rewrite assoc_update_disjoint.
    + rewrite containers_app, HB1. reflexivity.
    + rewrite keys_param_combo. exact ND.
    + rewrite keys_param_combo. intros k Hk Hb. rewrite Forall_forall in OK.
      apply OK in Hk. apply container_ok_neq in Hk. destruct Hk as [N1 N2].
      destruct (HB2 k Hb); contradiction.
Qed.

Lemma ref_grouped_sound p b : good_keys p ->
  map (deref (fst (ref_grouped p b))) (snd (ref_grouped p b)) = map containers (produce_grouped p b) /\
  wf_refs (fst (ref_grouped p b)) (snd (ref_grouped p b)) = true.
Proof.
  intros G. unfold ref_grouped, produce_grouped.
  destruct b as [|b0 b1]; [destruct p as [|p0 p1]|destruct p as [|p0 p1]].
  - split; reflexivity.
  - destruct (alloc_deref (param_combos (p0 :: p1))) as (D & W & _). split; assumption.
  - cbn [fst snd]. split.
    + rewrite map_map. apply map_ext_in. intros c Hin.
      apply containers_body_combos in Hin. destruct Hin as [E _]. rewrite E. reflexivity.
    + unfold wf_refs. rewrite forallb_forall. intros rc Hin. apply in_map_iff in Hin.
      destruct Hin as [c [<- _]]. reflexivity.
  - set (p := p0 :: p1) in *. set (b := b0 :: b1) in *.
    destruct (alloc_deref (param_combos p)) as (D & W & L). cbn [fst snd].
    split.
    + unfold combine. rewrite !map_map. rewrite L. apply map_ext. intros idx.
      rewrite containers_merge by exact G.
      etransitivity;
        [symmetry; apply (cyc_map (deref (fst (alloc_param_combos (param_combos p)))) []
                                  (snd (alloc_param_combos (param_combos p))) idx)|].
      rewrite D. apply (cyc_map containers [] (param_combos p) idx).
    + unfold wf_refs in *. rewrite forallb_forall in *. intros rc Hin. apply in_map_iff in Hin.
      destruct Hin as [idx [<- _]].
      destruct (cyc_cases (@nil (str * nat)) (snd (alloc_param_combos (param_combos p))) idx) as [[_ E]|Hin].
      * rewrite E. reflexivity.
      * apply W. exact Hin.
Qed.

(* dereferencing the identity-level combinations gives the containers of
   produce_combinations; every address is allocated *)
Lemma ref_combinations_sound exs : containers_ok exs = true ->
  map (deref (fst (ref_combinations exs))) (snd (ref_combinations exs)) = map containers (produce_combinations exs) /\
  wf_refs (fst (ref_combinations exs)) (snd (ref_combinations exs)) = true.
Proof. intros H. apply ref_grouped_sound. apply good_keys_group. exact H. Qed.

(* ------------------------------------------------------------------ *)
(* serialize_components under the rule of the code (since cedd1977)    *)
(* ------------------------------------------------------------------ *)
Definition addrs_of (cr : case_refs) : list nat :=
  flat_map (fun co : str * option nat => match snd co with Some a => [a] | None => [] end) cr.

Lemma case_addrs_cons cr crs : case_addrs (cr :: crs) = addrs_of cr ++ case_addrs crs.
Proof. reflexivity. Qed.

Lemma wire_ext F Z : forall cr,
  (forall a, In a (addrs_of cr) -> a < length F) -> wire (F ++ Z) cr = wire F cr.
Proof.
  induction cr as [|[c o] cr IH]; intros H; [reflexivity|].
  unfold wire in *. cbn [map fst snd]. f_equal.
  - destruct o as [a|]; [|reflexivity]. rewrite hget_app_l; [reflexivity|].
    apply H. cbn. left. reflexivity.
  - apply IH. intros a Ha. apply H. unfold addrs_of. cbn [flat_map]. apply in_or_app. right. exact Ha.
Qed.

Lemma gen_case_spec draw h0 idx rc ext :
  forallb (fun ca => Nat.ltb (snd ca) (length h0)) rc = true ->
  forallb (fun ca => is_some (draw idx (fst ca) (hget h0 (snd ca)))) rc = true ->
  gen_case CopyWhenDrawn draw idx (h0 ++ ext) rc =
  ((h0 ++ ext) ++ map (mval draw h0 idx) rc, fresh_refs (length (h0 ++ ext)) rc).
Proof.
  intros Hwf Hdr. unfold gen_case. exact (gen_phase draw h0 idx rc ext [] Hwf Hdr).
Qed.

Definition spec_entry (smap : str -> bool) (ser : ser_fn) (h0 : heap) (D : str * nat -> dict) (ca : str * nat)
  : str * option dict :=
  (fst ca, Some (sval smap ser (fst ca) (hget h0 (snd ca)) (D ca))).

Lemma ser_phase_spec smap ser h0 (D : str * nat -> dict) : forall rc P0 Q,
  forallb (fun ca => Nat.ltb (snd ca) (length h0)) rc = true ->
  exists X cr,
    ser_phase SerExplicitOnly smap ser ((h0 ++ P0) ++ map D rc ++ Q)
              (List.combine rc (fresh_refs (length (h0 ++ P0)) rc))
      = (((h0 ++ P0) ++ map D rc ++ Q) ++ X, cr) /\
    wire (((h0 ++ P0) ++ map D rc ++ Q) ++ X) cr = map (spec_entry smap ser h0 D) rc /\
    (forall a, In a (addrs_of cr) ->
       (length (h0 ++ P0) <= a < length (h0 ++ P0) + length rc) \/
       (length ((h0 ++ P0) ++ map D rc ++ Q) <= a < length (((h0 ++ P0) ++ map D rc ++ Q) ++ X))) /\
    NoDup (addrs_of cr).
Proof.
  induction rc as [|[c a] rc IH]; intros P0 Q Hwf.
  - exists [], []. cbn. rewrite app_nil_r. repeat split; [intros a [] | constructor].
  - cbn [forallb fst snd] in Hwf. apply andb_true_iff in Hwf. destruct Hwf as [Ha Hwf]. apply Nat.ltb_lt in Ha.
    set (n := length (h0 ++ P0)).
    set (h := (h0 ++ P0) ++ map D ((c, a) :: rc) ++ Q).
    assert (Hn : hget h n = D (c, a)).
    { unfold h, n. cbn [map app]. apply hget_middle. }
    assert (Hsrc : hget h a = hget h0 a).
    { unfold h. rewrite <- app_assoc. apply hget_app_l. exact Ha. }
    assert (Hlen : n + S (length rc) <= length h).
    { unfold h, n. rewrite !app_length. cbn [map length]. rewrite map_length. lia. }
    (* the heap seen by the tail, written in the form the induction hypothesis wants *)
    assert (Hh : forall Q1, h ++ Q1 = (h0 ++ (P0 ++ [D (c, a)])) ++ map D rc ++ (Q ++ Q1)).
    { intros Q1. unfold h. cbn [map]. rewrite <- !app_assoc. cbn [app]. reflexivity. }
    assert (Hn1 : length (h0 ++ (P0 ++ [D (c, a)])) = S n).
    { unfold n. rewrite app_assoc, length_snoc. reflexivity. }
    unfold fresh_refs. cbn [map length seq List.combine fst].
    change (List.combine (map fst rc) (map Some (seq (S n) (length rc)))) with (fresh_refs (S n) rc).
    cbn [ser_phase]. fold h.
    assert (S1 : ser_one SerExplicitOnly smap ser h (c, a, (c, Some n)) =
                 if smap c then
                   if is_nil (D (c, a)) then (h, (c, Some n))
                   else (h ++ [ser_new ser c (hget h0 a) (D (c, a))], (c, Some (length h)))
                 else (h, (c, Some n))).
    { unfold ser_one. cbn [fst snd]. rewrite Hn, Hsrc. reflexivity. }
    rewrite S1. clear S1.
    destruct (smap c) eqn:Es; [destruct (is_nil (D (c, a))) eqn:En|].
    + (* a serializer, but the container is empty: continue *)
      cbn [fst snd].
      destruct (IH (P0 ++ [D (c, a)]) Q Hwf) as (X & cr & E & W & R & ND).
      rewrite Hn1 in E, R. rewrite <- (app_nil_r Q) in E, W, R. rewrite <- Hh in E, W, R. rewrite app_nil_r in E, W, R.
      exists X, ((c, Some n) :: cr). rewrite E. cbn [fst snd]. split; [reflexivity|]. split; [|split].
      * unfold wire in *. cbn [map fst snd]. rewrite W. f_equal. unfold spec_entry. cbn [fst snd].
        rewrite hget_app_l by lia. rewrite Hn. unfold sval. rewrite Es. rewrite En. reflexivity.
      * intros x Hx. cbn in Hx. destruct Hx as [<-|Hx]; [left; cbn [length]; lia|].
        apply R in Hx. cbn [length]. destruct Hx as [Hx|Hx]; [left; lia | right; exact Hx].
      * cbn. constructor; [|exact ND]. intros Hin. apply R in Hin. destruct Hin as [Hin|Hin]; lia.
    + (* a serializer and a non-empty container: a new dict *)
      cbn [fst snd].
      set (new := ser_new ser c (hget h0 a) (D (c, a))).
      destruct (IH (P0 ++ [D (c, a)]) (Q ++ [new]) Hwf) as (X & cr & E & W & R & ND).
      rewrite Hn1 in E, R. rewrite <- Hh in E, W, R.
      exists ([new] ++ X), ((c, Some (length h)) :: cr). rewrite app_assoc. rewrite E. cbn [fst snd].
      split; [reflexivity|]. split; [|split].
      * unfold wire in *. cbn [map fst snd]. rewrite W. f_equal. unfold spec_entry. cbn [fst snd].
        rewrite <- app_assoc. cbn [app]. rewrite hget_middle.
        unfold sval. rewrite Es. rewrite En. reflexivity.
      * intros x Hx. cbn in Hx. rewrite !app_length in *. cbn [length] in *.
        destruct Hx as [<-|Hx]; [right; lia|].
        apply R in Hx. rewrite ?app_length in Hx. cbn [length] in Hx.
        destruct Hx as [Hx|Hx]; [left; lia | right; lia].
      * cbn. constructor; [|exact ND]. intros Hin. apply R in Hin. rewrite ?app_length in Hin. cbn [length] in Hin.
        destruct Hin as [Hin|Hin]; lia.
    + (* no serializer for this container: untouched *)
      cbn [fst snd].
      destruct (IH (P0 ++ [D (c, a)]) Q Hwf) as (X & cr & E & W & R & ND).
      rewrite Hn1 in E, R. rewrite <- (app_nil_r Q) in E, W, R. rewrite <- Hh in E, W, R. rewrite app_nil_r in E, W, R.
      exists X, ((c, Some n) :: cr). rewrite E. cbn [fst snd]. split; [reflexivity|]. split; [|split].
      * unfold wire in *. cbn [map fst snd]. rewrite W. f_equal. unfold spec_entry. cbn [fst snd].
        rewrite hget_app_l by lia. rewrite Hn. unfold sval. rewrite Es. reflexivity.
      * intros x Hx. cbn in Hx. destruct Hx as [<-|Hx]; [left; cbn [length]; lia|].
        apply R in Hx. cbn [length]. destruct Hx as [Hx|Hx]; [left; lia | right; exact Hx].
      * cbn. constructor; [|exact ND]. intros Hin. apply R in Hin. destruct Hin as [Hin|Hin]; lia.
Qed.

(* one case: generation, then serialization *)
Lemma build_case_spec draw smap ser h0 idx rc ext :
  forallb (fun ca => Nat.ltb (snd ca) (length h0)) rc = true ->
  forallb (fun ca => is_some (draw idx (fst ca) (hget h0 (snd ca)))) rc = true ->
  exists Y cr,
    build_case CopyWhenDrawn SerExplicitOnly draw smap ser idx (h0 ++ ext) rc = ((h0 ++ ext) ++ Y, cr) /\
    wire ((h0 ++ ext) ++ Y) cr = case_value draw smap ser h0 idx rc /\
    (forall a, In a (addrs_of cr) -> length (h0 ++ ext) <= a < length ((h0 ++ ext) ++ Y)) /\
    NoDup (addrs_of cr).
Proof.
  intros Hwf Hdr. unfold build_case. cbv zeta. rewrite (gen_case_spec draw h0 idx rc ext Hwf Hdr). cbn [fst snd].
  destruct (ser_phase_spec smap ser h0 (mval draw h0 idx) rc ext [] Hwf) as (X & cr & E & W & R & ND).
  rewrite app_nil_r in E, W, R.
  exists (map (mval draw h0 idx) rc ++ X), cr. rewrite app_assoc. rewrite E. split; [reflexivity|].
  split; [|split].
  - rewrite W. unfold case_value. apply map_ext. intros ca. reflexivity.
  - intros a Ha. apply R in Ha. rewrite !app_length in *. rewrite map_length in *. destruct Ha as [Ha|Ha]; lia.
  - exact ND.
Qed.

(* ------------------------------------------------------------------ *)
(* the whole sequence of cases                                         *)
(* ------------------------------------------------------------------ *)
Lemma NoDup_app_lt (l1 l2 : list nat) m :
  NoDup l1 -> NoDup l2 -> (forall a, In a l1 -> a < m) -> (forall a, In a l2 -> m <= a) -> NoDup (l1 ++ l2).
Proof.
  induction l1 as [|x l1 IH]; intros N1 N2 H1 H2; [exact N2|].
  cbn [app]. inversion N1 as [|y l Hx N1']; subst. constructor.
  - intros Hin. apply in_app_or in Hin. destruct Hin as [Hin|Hin]; [exact (Hx Hin)|].
    specialize (H1 x (or_introl eq_refl)). specialize (H2 x Hin). lia.
  - apply IH; [exact N1' | exact N2 | intros a Ha; apply H1; right; exact Ha | exact H2].
Qed.

Lemma assemble_spec draw smap ser h0 : forall rcs idx ext,
  wf_refs h0 rcs = true -> all_drawn draw h0 idx rcs = true ->
  exists Y crs,
    assemble_from CopyWhenDrawn SerExplicitOnly draw smap ser idx (h0 ++ ext) rcs = ((h0 ++ ext) ++ Y, crs) /\
    map (wire ((h0 ++ ext) ++ Y)) crs = values_from draw smap ser h0 idx rcs /\
    (forall a, In a (case_addrs crs) -> length (h0 ++ ext) <= a < length ((h0 ++ ext) ++ Y)) /\
    NoDup (case_addrs crs).
Proof.
  induction rcs as [|rc rcs IH]; intros idx ext Hwf Hdr.
  - exists [], []. cbn. rewrite app_nil_r. split; [reflexivity|]. split; [reflexivity|]. split; [intros a [] | constructor].
  - cbn [wf_refs forallb] in Hwf. apply andb_true_iff in Hwf. destruct Hwf as [Hw1 Hwf].
    cbn [all_drawn] in Hdr. apply andb_true_iff in Hdr. destruct Hdr as [Hd1 Hdr].
    destruct (build_case_spec draw smap ser h0 idx rc ext Hw1 Hd1) as (Y1 & cr & E1 & W1 & R1 & N1).
    cbn [assemble_from]. rewrite E1. cbn [fst snd]. rewrite <- app_assoc.
    destruct (IH (S idx) (ext ++ Y1) Hwf Hdr) as (Y2 & crs & E2 & W2 & R2 & N2).
    rewrite E2. cbn [fst snd].
    exists (Y1 ++ Y2), (cr :: crs).
    assert (EH : (h0 ++ ext ++ Y1) ++ Y2 = (h0 ++ ext) ++ Y1 ++ Y2) by (rewrite <- !app_assoc; reflexivity).
    assert (EH1 : h0 ++ ext ++ Y1 = (h0 ++ ext) ++ Y1) by (rewrite <- !app_assoc; reflexivity).
    split; [rewrite EH; reflexivity|]. split; [|split].
    + cbn [map values_from]. f_equal.
      * rewrite app_assoc. rewrite wire_ext; [exact W1|]. intros a Ha. apply R1 in Ha. lia.
      * rewrite <- EH. exact W2.
    + intros a Ha. rewrite case_addrs_cons in Ha. apply in_app_or in Ha. rewrite <- EH. rewrite EH1 in R2.
      rewrite !app_length in *. destruct Ha as [Ha|Ha].
      * apply R1 in Ha. rewrite ?app_length in Ha. lia.
      * apply R2 in Ha. rewrite ?app_length in Ha. lia.
    + rewrite case_addrs_cons. apply (NoDup_app_lt _ _ (length ((h0 ++ ext) ++ Y1))); [exact N1 | exact N2 | |].
      * intros a Ha. apply R1 in Ha. lia.
      * intros a Ha. apply R2 in Ha. rewrite EH1 in Ha. lia.
Qed.

(* The stateful assembly (heap, one case after the other, the serializer building a
   new dict from the explicit keys) equals the pure per-case value; the source objects
   keep their contents; the containers of the cases are new, pairwise distinct objects. *)
Lemma cases_independent draw smap ser h0 rcs :
  wf_refs h0 rcs = true -> all_drawn draw h0 0 rcs = true ->
  wires CopyWhenDrawn SerExplicitOnly draw smap ser h0 rcs = values_from draw smap ser h0 0 rcs /\
  firstn (length h0) (fst (assemble CopyWhenDrawn SerExplicitOnly draw smap ser h0 rcs)) = h0 /\
  NoDup (case_addrs (snd (assemble CopyWhenDrawn SerExplicitOnly draw smap ser h0 rcs))) /\
  (forall a, In a (case_addrs (snd (assemble CopyWhenDrawn SerExplicitOnly draw smap ser h0 rcs))) -> length h0 <= a).
Proof.
  intros Hwf Hdr. unfold wires, assemble.
  destruct (assemble_spec draw smap ser h0 rcs 0 [] Hwf Hdr) as (Y & crs & E & W & R & ND).
  rewrite app_nil_r in E, W, R. rewrite E. cbn [fst snd]. repeat split.
  - exact W.
  - rewrite firstn_app, Nat.sub_diag, firstn_all. cbn [firstn]. apply app_nil_r.
  - exact ND.
  - intros a Ha. apply R in Ha. lia.
Qed.

(* ------------------------------------------------------------------ *)
(* every value is serialized exactly once (was: region nothing_to_fill, *)
(* finding F7 outside it; full since fix cedd1977)                      *)
(* ------------------------------------------------------------------ *)
Lemma nodup_strs_NoDup l : nodup_strs l = true -> NoDup l.
Proof.
  induction l as [|k l IH]; intros H; [constructor|].
  cbn [nodup_strs] in H. apply andb_true_iff in H. destruct H as [H1 H2]. constructor; [|apply IH; exact H2].
  intros Hin. apply in_strs_In in Hin. unfold in_strs in Hin. rewrite Hin in H1. discriminate H1.
Qed.

Lemma filter_all {A} (f : A -> bool) l : (forall x, In x l -> f x = true) -> filter f l = l.
Proof.
  induction l as [|x l IH]; intros H; [reflexivity|]. cbn [filter]. rewrite (H x (or_introl eq_refl)).
  f_equal. apply IH. intros y Hy. apply H. right. exact Hy.
Qed.
Lemma filter_none {A} (f : A -> bool) l : (forall x, In x l -> f x = false) -> filter f l = [].
Proof.
  induction l as [|x l IH]; intros H; [reflexivity|]. cbn [filter]. rewrite (H x (or_introl eq_refl)).
  apply IH. intros y Hy. apply H. right. exact Hy.
Qed.

Lemma sval_disjoint smap ser c (v new : dict) :
  draw_ok v (Some new) = true ->
  sval smap ser c v (merged v new) = assoc_update (ser1 smap ser c v) new.
Proof.
  unfold draw_ok. intros H. apply andb_true_iff in H. destruct H as [H Hdis].
  apply andb_true_iff in H. destruct H as [Hne Hnd]. apply nodup_strs_NoDup in Hnd.
  rewrite forallb_forall in Hdis.
  assert (Dis : forall k, In k (keys new) -> ~ In k (keys v)).
  { intros k Hk Hv. apply Hdis in Hk. apply assoc_mem_In in Hv. rewrite Hv in Hk. discriminate Hk. }
  assert (M : merged v new = v ++ new).
  { unfold merged. destruct v as [|x v]; [discriminate Hne|]. apply assoc_update_disjoint; assumption. }
  unfold sval, ser1. rewrite M. destruct (smap c); cbn [andb].
  - assert (NE : is_nil (v ++ new) = false) by (destruct v; [discriminate Hne | reflexivity]).
    rewrite NE. cbn [negb]. unfold ser_new, own, generated. rewrite !filter_app.
    rewrite (filter_all _ v), (filter_none _ new), (filter_none _ v), (filter_all _ new).
    + rewrite app_nil_r. reflexivity.
    + intros [k x] Hin. cbn [fst]. apply negb_true_iff. destruct (assoc_mem k v) eqn:E; [|reflexivity].
      apply assoc_mem_In in E. exfalso. apply (Dis k); [|exact E]. unfold keys. apply in_map_iff. exists (k, x). split; [reflexivity | exact Hin].
    + intros [k x] Hin. cbn [fst]. apply negb_false_iff. apply assoc_mem_In. unfold keys. apply in_map_iff. exists (k, x). split; [reflexivity | exact Hin].
    + intros [k x] Hin. cbn [fst]. destruct (assoc_mem k v) eqn:E; [|reflexivity].
      apply assoc_mem_In in E. exfalso. apply (Dis k); [|exact E]. unfold keys. apply in_map_iff. exists (k, x). split; [reflexivity | exact Hin].
    + intros [k x] Hin. cbn [fst]. apply assoc_mem_In. unfold keys. apply in_map_iff. exists (k, x). split; [reflexivity | exact Hin].
  - symmetry. destruct v as [|x v]; [discriminate Hne|]. apply assoc_update_disjoint; assumption.
Qed.

Lemma fill_ok_all_drawn draw h0 : forall rcs idx,
  fill_ok draw h0 idx rcs = true -> all_drawn draw h0 idx rcs = true.
Proof.
  induction rcs as [|rc rcs IH]; intros idx H; [reflexivity|].
  cbn [fill_ok all_drawn] in *. apply andb_true_iff in H. destruct H as [H1 H2].
  apply andb_true_iff. split; [|apply IH; exact H2].
  rewrite forallb_forall in *. intros ca Hin. specialize (H1 ca Hin).
  destruct (draw idx (fst ca) (hget h0 (snd ca))); [reflexivity | discriminate H1].
Qed.

Lemma nothing_to_fill_fill_ok draw h0 : forall rcs idx,
  nothing_to_fill draw h0 idx rcs = true -> fill_ok draw h0 idx rcs = true.
Proof.
  induction rcs as [|rc rcs IH]; intros idx H; [reflexivity|].
  cbn [nothing_to_fill fill_ok] in *. apply andb_true_iff in H. destruct H as [H1 H2].
  apply andb_true_iff. split; [|apply IH; exact H2].
  rewrite forallb_forall in *. intros ca Hin. specialize (H1 ca Hin).
  apply andb_true_iff in H1. destruct H1 as [Hne H1].
  destruct (draw idx (fst ca) (hget h0 (snd ca))) as [[|]|]; try discriminate H1.
  unfold draw_ok. rewrite Hne. reflexivity.
Qed.

Lemma values_fill_ok draw smap ser h0 : forall rcs idx,
  fill_ok draw h0 idx rcs = true ->
  values_from draw smap ser h0 idx rcs = once_from draw smap ser idx (map (deref h0) rcs).
Proof.
  induction rcs as [|rc rcs IH]; intros idx H; [reflexivity|].
  cbn [fill_ok] in H. apply andb_true_iff in H. destruct H as [H1 H2].
  cbn [values_from map once_from]. f_equal; [|apply IH; exact H2].
  unfold case_value, once_case, deref. rewrite map_map. apply map_ext_in. intros ca Hin. cbn [fst snd].
  rewrite forallb_forall in H1. specialize (H1 ca Hin).
  destruct (draw idx (fst ca) (hget h0 (snd ca))) as [new|]; [|discriminate H1].
  cbn [strip]. rewrite (sval_disjoint smap ser (fst ca) _ _ H1). reflexivity.
Qed.

(* FULL (was _partial on the region nothing_to_fill): every case carries, for every
   container, the explicit example container serialized exactly once and the fill-in
   exactly as its strategy delivered it *)
Lemma serialized_once draw smap ser h0 rcs :
  wf_refs h0 rcs = true -> fill_ok draw h0 0 rcs = true ->
  wires CopyWhenDrawn SerExplicitOnly draw smap ser h0 rcs = once_from draw smap ser 0 (map (deref h0) rcs).
Proof.
  intros Hwf Hn.
  destruct (cases_independent draw smap ser h0 rcs Hwf (fill_ok_all_drawn draw h0 rcs 0 Hn)) as [W _].
  rewrite W. apply values_fill_ok. exact Hn.
Qed.

(* the fill-in strategy of get_parameters_strategy maps the raw drawn object through the
   style serializer itself: explicit values and generated values each pass through
   the serializer once (the statement finding F7 refuted before the fix) *)
Lemma fill_in_serialized_once ser post raw smap h0 rcs :
  wf_refs h0 rcs = true -> fill_ok (draw_of_strategy ser post raw) h0 0 rcs = true ->
  wires CopyWhenDrawn SerExplicitOnly (draw_of_strategy ser post raw) smap ser h0 rcs =
  once_from (fun idx c v => match raw idx c v with Some r => Some (post c (ser c r)) | None => None end)
            smap ser 0 (map (deref h0) rcs).
Proof. intros Hwf Hn. exact (serialized_once (draw_of_strategy ser post raw) smap ser h0 rcs Hwf Hn). Qed.

(* the old statement as a corollary: nothing to fill in, a serializer everywhere *)
Lemma once_nothing_to_fill draw ser h0 : forall rcs idx,
  nothing_to_fill draw h0 idx rcs = true ->
  once_from draw smap_all ser idx (map (deref h0) rcs) = examples_serialized_once ser h0 rcs.
Proof.
  induction rcs as [|rc rcs IH]; intros idx H; [reflexivity|].
  cbn [nothing_to_fill] in H. apply andb_true_iff in H. destruct H as [H1 H2].
  unfold examples_serialized_once in *. cbn [map once_from]. f_equal; [|apply IH; exact H2].
  unfold once_case, deref. rewrite map_map. apply map_ext_in. intros ca Hin. cbn [fst snd].
  rewrite forallb_forall in H1. specialize (H1 ca Hin). apply andb_true_iff in H1. destruct H1 as [_ H1].
  destruct (draw idx (fst ca) (hget h0 (snd ca))) as [[|]|]; try discriminate H1. reflexivity.
Qed.

Lemma example_serialized_once_nothing_to_fill draw ser h0 rcs :
  wf_refs h0 rcs = true -> nothing_to_fill draw h0 0 rcs = true ->
  wires CopyWhenDrawn SerExplicitOnly draw smap_all ser h0 rcs = examples_serialized_once ser h0 rcs.
Proof.
  intros Hwf Hn. rewrite (serialized_once draw smap_all ser h0 rcs Hwf (nothing_to_fill_fill_ok draw h0 rcs 0 Hn)).
  apply once_nothing_to_fill. exact Hn.
Qed.

(* ------------------------------------------------------------------ *)
(* witnesses                                                           *)
(* ------------------------------------------------------------------ *)
Definition s_path_parameters : str := [112;97;116;104;95;112;97;114;97;109;101;116;101;114;115]%N.
Definition s_id : str := [105;100]%N.
Definition s_json_mt : str := [97;112;112;108;105;99;97;116;105;111;110;47;106;115;111;110]%N.
(* one path parameter with one example (the string 5), three body examples *)
Definition exs_shared : list example :=
  [PEx s_path_parameters s_id (JStr [53%N]);
   BEx (JInt 1) s_json_mt; BEx (JInt 2) s_json_mt; BEx (JInt 3) s_json_mt].
Definition draw_nothing : draw_fn := fun _ _ _ => Some [].

(* the one parameter combination is handed out three times: one object *)
Lemma exs_shared_refs :
  ref_combinations exs_shared =
  ([[(s_id, JStr [53%N])]], [[(s_path_parameters, 0)]; [(s_path_parameters, 0)]; [(s_path_parameters, 0)]]).
Proof. vm_compute. reflexivity. Qed.

(* SENTINEL (seed C17_c): with the share rule get_parameters_value hands the ONE
   object of the combination to all three cases.  Under the pre-fix serializer
   (in place, whole container) the three cases hold one dict serialized three times;
   the serializer of the code builds a new dict per case from the explicit keys, so
   the sharing stops at the object get_parameters_value returns (still a difference
   the correspondence observes: the generated object is a source object). *)
Lemma shared_container_refuted :
  exists exs ser draw,
    let hr := ref_combinations exs in
    wf_refs (fst hr) (snd hr) = true /\ nothing_to_fill draw (fst hr) 0 (snd hr) = true /\
    (exists a, a < length (fst hr) /\
       In a (case_addrs (gen_refs_from ShareWhenNothingNew SerExplicitOnly draw smap_all ser 0 (fst hr) (snd hr)))) /\
    (forall a, In a (case_addrs (gen_refs_from CopyWhenDrawn SerExplicitOnly draw smap_all ser 0 (fst hr) (snd hr))) ->
       length (fst hr) <= a) /\
    wires ShareWhenNothingNew SerWholeContainer draw smap_all ser (fst hr) (snd hr) <> examples_serialized_once ser (fst hr) (snd hr) /\
    wires CopyWhenDrawn SerWholeContainer draw smap_all ser (fst hr) (snd hr) = examples_serialized_once ser (fst hr) (snd hr) /\
    ~ NoDup (case_addrs (snd (assemble ShareWhenNothingNew SerWholeContainer draw smap_all ser (fst hr) (snd hr)))) /\
    wires ShareWhenNothingNew SerExplicitOnly draw smap_all ser (fst hr) (snd hr) = examples_serialized_once ser (fst hr) (snd hr) /\
    wires CopyWhenDrawn SerExplicitOnly draw smap_all ser (fst hr) (snd hr) = examples_serialized_once ser (fst hr) (snd hr).
Proof.
  exists exs_shared, ser_matrix, draw_nothing. cbv zeta.
  repeat split; try (vm_compute; reflexivity).
  - exists 0. split; vm_compute; [lia | left; reflexivity].
  - vm_compute. intros a H. repeat (destruct H as [<-|H]; [lia|]). destruct H.
  - vm_compute. intros H. discriminate H.
  - vm_compute. intros H. inversion H as [|x l Hin ND]. apply Hin. left. reflexivity.
Qed.

(* SENTINEL (finding F7, fixed by cedd1977): the fill-in strategy already applies the
   style serializer; the pre-fix serialize_components applied it again to the whole
   merged container, so the generated parameter went out serialized twice.  The rule of
   the code serializes every value once. *)
Definition s_a : str := [97]%N.
Definition s_b : str := [98]%N.
Definition raw_fill_b : draw_fn := fun _ _ _ => Some [(s_b, JStr [51%N])].
Definition post_id : ser_fn := fun _ d => d.
Lemma whole_container_serializer_refuted :
  exists ser post raw h0 rcs,
    wf_refs h0 rcs = true /\ fill_ok (draw_of_strategy ser post raw) h0 0 rcs = true /\
    wires CopyWhenDrawn SerWholeContainer (draw_of_strategy ser post raw) smap_all ser h0 rcs
      <> once_from (draw_of_strategy ser post raw) smap_all ser 0 (map (deref h0) rcs) /\
    wires CopyWhenDrawn SerExplicitOnly (draw_of_strategy ser post raw) smap_all ser h0 rcs
      = once_from (draw_of_strategy ser post raw) smap_all ser 0 (map (deref h0) rcs).
Proof.
  exists ser_matrix, post_id, raw_fill_b, [[(s_a, JStr [53%N])]], [[(s_path_parameters, 0)]].
  repeat split; try (vm_compute; reflexivity).
  vm_compute. intros H. discriminate H.
Qed.

(* what goes out for the witness: the code a = ;a=5, b = ;b=3 (each once);
   the pre-fix rule a = ;a=5 (once), b = ;b=;b=3 (twice) *)
Lemma fill_in_witness_value :
  wires CopyWhenDrawn SerExplicitOnly (draw_of_strategy ser_matrix post_id raw_fill_b) smap_all ser_matrix
        [[(s_a, JStr [53%N])]] [[(s_path_parameters, 0)]]
  = [[(s_path_parameters, Some [(s_a, JStr [59;97;61;53]%N); (s_b, JStr [59;98;61;51]%N)])]] /\
  wires CopyWhenDrawn SerWholeContainer (draw_of_strategy ser_matrix post_id raw_fill_b) smap_all ser_matrix
        [[(s_a, JStr [53%N])]] [[(s_path_parameters, 0)]]
  = [[(s_path_parameters, Some [(s_a, JStr [59;97;61;53]%N); (s_b, JStr [59;98;61;59;98;61;51]%N)])]].
Proof. split; vm_compute; reflexivity. Qed.

(* non-vacuity of the hypotheses of cases_independent / serialized_once:
   two parameter combinations cycled over three bodies, a non-trivial draw; a container
   without serializer keeps the object get_parameters_value returned *)
Definition exs_two : list example :=
  [PEx s_path_parameters s_id (JStr [53%N]); PEx s_path_parameters s_id (JStr [54%N]);
   BEx (JInt 1) s_json_mt; BEx (JInt 2) s_json_mt; BEx (JInt 3) s_json_mt].
Lemma assembly_hypotheses_satisfiable :
  let hr := ref_combinations exs_two in
  length (snd hr) = 3 /\ wf_refs (fst hr) (snd hr) = true /\
  all_drawn raw_fill_b (fst hr) 0 (snd hr) = true /\
  fill_ok (draw_of_strategy ser_matrix post_id raw_fill_b) (fst hr) 0 (snd hr) = true /\
  nothing_to_fill draw_nothing (fst hr) 0 (snd hr) = true /\
  wires CopyWhenDrawn SerExplicitOnly draw_nothing smap_all ser_matrix (fst hr) (snd hr) =
    [[(s_path_parameters, Some [(s_id, JStr [59;105;100;61;53]%N)])];
     [(s_path_parameters, Some [(s_id, JStr [59;105;100;61;54]%N)])];
     [(s_path_parameters, Some [(s_id, JStr [59;105;100;61;53]%N)])]] /\
  wires CopyWhenDrawn SerExplicitOnly (draw_of_strategy ser_matrix post_id raw_fill_b) smap_all ser_matrix (fst hr) (snd hr) =
    [[(s_path_parameters, Some [(s_id, JStr [59;105;100;61;53]%N); (s_b, JStr [59;98;61;51]%N)])];
     [(s_path_parameters, Some [(s_id, JStr [59;105;100;61;54]%N); (s_b, JStr [59;98;61;51]%N)])];
     [(s_path_parameters, Some [(s_id, JStr [59;105;100;61;53]%N); (s_b, JStr [59;98;61;51]%N)])]] /\
  snd (assemble CopyWhenDrawn SerExplicitOnly draw_nothing (smap_of []) ser_matrix (fst hr) (snd hr)) =
    gen_refs_from CopyWhenDrawn SerExplicitOnly draw_nothing (smap_of []) ser_matrix 0 (fst hr) (snd hr).
Proof. cbv zeta. repeat split; vm_compute; reflexivity. Qed.

(* the end-to-end statement on example lists: every produced case holds, for every
   container, the example container of its combination serialized exactly once and the
   fill-in as its strategy delivered it *)
Lemma examples_once_end_to_end exs draw smap ser : containers_ok exs = true ->
  fill_ok draw (fst (ref_combinations exs)) 0 (snd (ref_combinations exs)) = true ->
  wires CopyWhenDrawn SerExplicitOnly draw smap ser (fst (ref_combinations exs)) (snd (ref_combinations exs)) =
  once_from draw smap ser 0 (map containers (produce_combinations exs)).
Proof.
  intros Hc Hn. destruct (ref_combinations_sound exs Hc) as [D W].
  rewrite (serialized_once draw smap ser _ _ W Hn). rewrite D. reflexivity.
Qed.
