(* C17, case assembly with object identity (Model_C17 section 7): proofs.
   Added after seed C17_c_explicit_container_shared_between_cases. *)
From Coq Require Import List NArith ZArith Bool PeanoNat Lia.
From Verif Require Import Common.Str Common.Json C17.Model_C17 C17.Proofs_C17.
Import ListNotations.

(* ------------------------------------------------------------------ *)
(* heap facts                                                          *)
(* ------------------------------------------------------------------ *)
Lemma hget_app_l h x a : a < length h -> hget (h ++ x) a = hget h a.
Proof. intros H. unfold hget. apply app_nth1. exact H. Qed.

Lemma hget_middle base d r : hget (base ++ d :: r) (length base) = d.
Proof. unfold hget. apply nth_middle. Qed.

Lemma hset_middle base d r d1 : hset (base ++ d :: r) (length base) d1 = base ++ d1 :: r.
Proof. induction base as [|x base IH]; cbn; [reflexivity | rewrite IH; reflexivity]. Qed.

Lemma length_snoc {A} (l : list A) x : length (l ++ [x]) = S (length l).
Proof. rewrite app_length. cbn. lia. Qed.

(* ------------------------------------------------------------------ *)
(* one case under the rule of the code                                 *)
(* ------------------------------------------------------------------ *)
Lemma gpv_copy new h a :
  gpv_ref CopyWhenDrawn (Some new) h a = (h ++ [merged (hget h a) new], Some (length h)).
Proof. unfold gpv_ref, merged. destruct (hget h a); reflexivity. Qed.

(* addresses handed out to the containers of one case: consecutive, new *)
Definition fresh_refs (n : nat) (rc : rcombo) : case_refs :=
  List.combine (map fst rc) (map Some (seq n (length rc))).

(* the merged (not yet serialized) container of the idx-th case *)
Definition mval (draw : draw_fn) (h0 : heap) (idx : nat) (ca : str * nat) : dict :=
  merged (hget h0 (snd ca)) (strip (draw idx (fst ca) (hget h0 (snd ca)))).

Lemma gen_phase draw h0 idx : forall rc ext cr0,
  forallb (fun ca => Nat.ltb (snd ca) (length h0)) rc = true ->
  forallb (fun ca => is_some (draw idx (fst ca) (hget h0 (snd ca)))) rc = true ->
  fold_left (gen_step CopyWhenDrawn draw idx) rc (h0 ++ ext, cr0) =
  ((h0 ++ ext) ++ map (mval draw h0 idx) rc, cr0 ++ fresh_refs (length (h0 ++ ext)) rc).
Proof.
  induction rc as [|[c a] rc IH]; intros ext cr0 Hwf Hdr.
  - cbn. rewrite !app_nil_r. reflexivity.
  - cbn [forallb fst snd] in Hwf, Hdr.
    apply andb_true_iff in Hwf. destruct Hwf as [Ha Hwf]. apply Nat.ltb_lt in Ha.
    apply andb_true_iff in Hdr. destruct Hdr as [Hd Hdr].
    cbn [fold_left]. unfold gen_step at 2. cbn [fst snd].
    rewrite (hget_app_l h0 ext a Ha).
    destruct (draw idx c (hget h0 a)) as [new|] eqn:E; [|discriminate Hd].
    rewrite gpv_copy. cbn [fst snd]. rewrite (hget_app_l h0 ext a Ha).
    rewrite <- app_assoc. rewrite (IH (ext ++ [merged (hget h0 a) new]) _ Hwf Hdr).
    f_equal.
    + rewrite <- !app_assoc. cbn [map app]. unfold mval at 2. cbn [fst snd]. rewrite E. reflexivity.
    + rewrite <- app_assoc. f_equal. unfold fresh_refs. cbn [map length seq List.combine app fst].
      rewrite (app_assoc h0 ext). rewrite length_snoc. reflexivity.
Qed.

Lemma ser_phase ser (D : str * nat -> dict) : forall rc base,
  fold_left (ser_step ser) (fresh_refs (length base) rc) (base ++ map D rc) =
  base ++ map (fun ca => ser (fst ca) (D ca)) rc.
Proof.
  induction rc as [|[c a] rc IH]; intros base; [reflexivity|].
  unfold fresh_refs. cbn [map length seq List.combine fold_left fst].
  unfold ser_step at 2. cbn [fst snd].
  rewrite hget_middle, hset_middle.
  change (base ++ ser c (D (c, a)) :: map D rc) with (base ++ [ser c (D (c, a))] ++ map D rc).
  rewrite app_assoc.
  specialize (IH (base ++ [ser c (D (c, a))])). rewrite length_snoc in IH.
  unfold fresh_refs in IH. rewrite IH. rewrite <- app_assoc. reflexivity.
Qed.

Lemma build_case_spec draw ser h0 idx rc ext :
  forallb (fun ca => Nat.ltb (snd ca) (length h0)) rc = true ->
  forallb (fun ca => is_some (draw idx (fst ca) (hget h0 (snd ca)))) rc = true ->
  build_case CopyWhenDrawn draw ser idx (h0 ++ ext) rc =
  ((h0 ++ ext) ++ map (fun ca => ser (fst ca) (mval draw h0 idx ca)) rc,
   fresh_refs (length (h0 ++ ext)) rc).
Proof.
  intros Hwf Hdr. pose proof (gen_phase draw h0 idx rc ext [] Hwf Hdr) as G.
  unfold build_case. cbv zeta. unfold case_refs, heap, rcombo, dict in *.
  rewrite G. cbn [fst snd app]. rewrite ser_phase. reflexivity.
Qed.

(* ------------------------------------------------------------------ *)
(* the whole sequence of cases                                         *)
(* ------------------------------------------------------------------ *)
Fixpoint blocks (draw : draw_fn) (ser : ser_fn) (h0 : heap) (idx : nat) (rcs : list rcombo) : heap :=
  match rcs with
  | [] => []
  | rc :: r => map (fun ca => ser (fst ca) (mval draw h0 idx ca)) rc ++ blocks draw ser h0 (S idx) r
  end.
Fixpoint addrs (n : nat) (rcs : list rcombo) : list case_refs :=
  match rcs with
  | [] => []
  | rc :: r => fresh_refs n rc :: addrs (n + length rc) r
  end.

Lemma assemble_spec draw ser h0 : forall rcs idx ext,
  wf_refs h0 rcs = true -> all_drawn draw h0 idx rcs = true ->
  assemble_from CopyWhenDrawn draw ser idx (h0 ++ ext) rcs =
  ((h0 ++ ext) ++ blocks draw ser h0 idx rcs, addrs (length (h0 ++ ext)) rcs).
Proof.
  induction rcs as [|rc rcs IH]; intros idx ext Hwf Hdr.
  - cbn. rewrite app_nil_r. reflexivity.
  - cbn [wf_refs forallb] in Hwf. apply andb_true_iff in Hwf. destruct Hwf as [Hw1 Hwf].
    cbn [all_drawn] in Hdr. apply andb_true_iff in Hdr. destruct Hdr as [Hd1 Hdr].
    cbn [assemble_from]. rewrite (build_case_spec draw ser h0 idx rc ext Hw1 Hd1). cbn [fst snd].
    rewrite <- app_assoc.
    rewrite (IH (S idx) (ext ++ map (fun ca => ser (fst ca) (mval draw h0 idx ca)) rc) Hwf Hdr).
    cbn [fst snd blocks addrs]. f_equal.
    + rewrite <- !app_assoc. reflexivity.
    + f_equal. rewrite !app_length, map_length. rewrite Nat.add_assoc. reflexivity.
Qed.

Lemma wire_block (F : str * nat -> dict) : forall rc pre post,
  wire (pre ++ map F rc ++ post) (fresh_refs (length pre) rc) =
  map (fun ca => (fst ca, Some (F ca))) rc.
Proof.
  induction rc as [|[c a] rc IH]; intros pre post; [reflexivity|].
  unfold fresh_refs. cbn [map length seq List.combine fst app]. unfold wire. cbn [map fst snd].
  rewrite hget_middle. f_equal.
  specialize (IH (pre ++ [F (c, a)]) post). rewrite length_snoc in IH.
  rewrite <- app_assoc in IH. cbn [app] in IH. exact IH.
Qed.

Lemma wires_blocks draw ser h0 : forall rcs idx P Q,
  map (wire (P ++ blocks draw ser h0 idx rcs ++ Q)) (addrs (length P) rcs) =
  values_from draw ser h0 idx rcs.
Proof.
  induction rcs as [|rc rcs IH]; intros idx P Q; [reflexivity|].
  cbn [blocks addrs map values_from]. f_equal.
  - rewrite <- app_assoc. rewrite wire_block. reflexivity.
  - specialize (IH (S idx) (P ++ map (fun ca => ser (fst ca) (mval draw h0 idx ca)) rc) Q).
    rewrite app_length, map_length in IH. rewrite <- !app_assoc in IH. rewrite <- app_assoc. exact IH.
Qed.

Lemma flat_fresh n rc :
  flat_map (fun co : str * option nat => match snd co with Some a => [a] | None => [] end) (fresh_refs n rc)
  = seq n (length rc).
Proof.
  unfold fresh_refs. revert n. induction rc as [|ca rc IH]; intros n; [reflexivity|].
  cbn [map length seq List.combine flat_map snd app]. f_equal. apply IH.
Qed.

Lemma case_addrs_addrs : forall rcs n, case_addrs (addrs n rcs) = seq n (length (concat rcs)).
Proof.
  induction rcs as [|rc rcs IH]; intros n; [reflexivity|].
  unfold case_addrs in *. cbn [addrs flat_map concat]. rewrite flat_fresh, IH.
  rewrite app_length, seq_app. reflexivity.
Qed.

(* The stateful assembly (heap, in-place serialization, one case after the
   other) equals the pure per-case value; the source objects keep their
   contents; the containers of the cases are new, pairwise distinct objects. *)
Lemma cases_independent draw ser h0 rcs :
  wf_refs h0 rcs = true -> all_drawn draw h0 0 rcs = true ->
  wires CopyWhenDrawn draw ser h0 rcs = values_from draw ser h0 0 rcs /\
  firstn (length h0) (fst (assemble CopyWhenDrawn draw ser h0 rcs)) = h0 /\
  NoDup (case_addrs (snd (assemble CopyWhenDrawn draw ser h0 rcs))) /\
  (forall a, In a (case_addrs (snd (assemble CopyWhenDrawn draw ser h0 rcs))) -> length h0 <= a).
Proof.
  intros Hwf Hdr. unfold wires, assemble.
  pose proof (assemble_spec draw ser h0 rcs 0 [] Hwf Hdr) as E. rewrite app_nil_r in E. rewrite E.
  cbn [fst snd]. repeat split.
  - pose proof (wires_blocks draw ser h0 rcs 0 h0 []) as W. rewrite app_nil_r in W. exact W.
  - rewrite firstn_app, Nat.sub_diag, firstn_all. cbn [firstn]. apply app_nil_r.
  - rewrite case_addrs_addrs. apply seq_NoDup.
  - intros a Ha. rewrite case_addrs_addrs in Ha. apply in_seq in Ha. lia.
Qed.

(* ------------------------------------------------------------------ *)
(* nothing to fill in: every example is serialized exactly once        *)
(* ------------------------------------------------------------------ *)
Lemma nothing_to_fill_all_drawn draw h0 : forall rcs idx,
  nothing_to_fill draw h0 idx rcs = true -> all_drawn draw h0 idx rcs = true.
Proof.
  induction rcs as [|rc rcs IH]; intros idx H; [reflexivity|].
  cbn [nothing_to_fill all_drawn] in *. apply andb_true_iff in H. destruct H as [H1 H2].
  apply andb_true_iff. split; [|apply IH; exact H2].
  rewrite forallb_forall in *. intros ca Hin. specialize (H1 ca Hin).
  apply andb_true_iff in H1. destruct H1 as [_ H1].
  destruct (draw idx (fst ca) (hget h0 (snd ca))) as [[|]|]; [reflexivity | discriminate | discriminate].
Qed.

Lemma values_nothing_to_fill draw ser h0 : forall rcs idx,
  nothing_to_fill draw h0 idx rcs = true ->
  values_from draw ser h0 idx rcs = examples_serialized_once ser h0 rcs.
Proof.
  induction rcs as [|rc rcs IH]; intros idx H; [reflexivity|].
  cbn [nothing_to_fill] in H. apply andb_true_iff in H. destruct H as [H1 H2].
  unfold examples_serialized_once in *. cbn [values_from map]. f_equal; [|apply IH; exact H2].
  unfold case_value. apply map_ext_in. intros ca Hin.
  rewrite forallb_forall in H1. specialize (H1 ca Hin).
  apply andb_true_iff in H1. destruct H1 as [Hne Hd].
  destruct (draw idx (fst ca) (hget h0 (snd ca))) as [[|]|]; try discriminate Hd.
  cbn [strip]. unfold merged. destruct (hget h0 (snd ca)); [discriminate Hne | reflexivity].
Qed.

Lemma example_serialized_once_partial draw ser h0 rcs :
  wf_refs h0 rcs = true -> nothing_to_fill draw h0 0 rcs = true ->
  wires CopyWhenDrawn draw ser h0 rcs = examples_serialized_once ser h0 rcs.
Proof.
  intros Hwf Hn.
  destruct (cases_independent draw ser h0 rcs Hwf (nothing_to_fill_all_drawn draw h0 rcs 0 Hn)) as [W _].
  rewrite W. apply values_nothing_to_fill. exact Hn.
Qed.

(* ------------------------------------------------------------------ *)
(* witnesses                                                           *)
(* ------------------------------------------------------------------ *)
Definition s_path_parameters : str := [112;97;116;104;95;112;97;114;97;109;101;116;101;114;115]%N.
Definition s_id : str := [105;100]%N.
Definition s_json_mt : str := [97;112;112;108;105;99;97;116;105;111;110;47;106;115;111;110]%N.
(* one path parameter with one example (the string 5), three body examples *)
Definition exs_shared : list example :=
  [PEx s_path_parameters s_id (JStr [53%N]);
   BEx (JInt 1) s_json_mt; BEx (JInt 2) s_json_mt; BEx (JInt 3) s_json_mt].
Definition draw_nothing : draw_fn := fun _ _ _ => Some [].

(* the one parameter combination is handed out three times: one object *)
Lemma exs_shared_refs :
  ref_combinations exs_shared =
  ([[(s_id, JStr [53%N])]], [[(s_path_parameters, 0)]; [(s_path_parameters, 0)]; [(s_path_parameters, 0)]]).
Proof. vm_compute. reflexivity. Qed.

(* SENTINEL (seed C17_c): with the share rule the three cases hold ONE dict that
   was serialized three times; no case carries the example serialized once *)
Lemma shared_container_refuted :
  exists exs ser draw,
    let hr := ref_combinations exs in
    wf_refs (fst hr) (snd hr) = true /\ nothing_to_fill draw (fst hr) 0 (snd hr) = true /\
    wires ShareWhenNothingNew draw ser (fst hr) (snd hr) <> examples_serialized_once ser (fst hr) (snd hr) /\
    wires CopyWhenDrawn draw ser (fst hr) (snd hr) = examples_serialized_once ser (fst hr) (snd hr) /\
    ~ NoDup (case_addrs (snd (assemble ShareWhenNothingNew draw ser (fst hr) (snd hr)))).
Proof.
  exists exs_shared, ser_matrix, draw_nothing. cbv zeta.
  repeat split; try (vm_compute; reflexivity).
  - vm_compute. intros H. discriminate H.
  - vm_compute. intros H. inversion H as [|x l Hin ND]. apply Hin. left. reflexivity.
Qed.

(* FINDING F7 (the code itself): the fill-in strategy already applies the
   style serializer, serialize_components applies it again to the merged
   container: the generated parameter goes out serialized twice *)
Definition s_a : str := [97]%N.
Definition s_b : str := [98]%N.
Definition raw_fill_b : draw_fn := fun _ _ _ => Some [(s_b, JStr [51%N])].
Definition post_id : ser_fn := fun _ d => d.
Lemma fill_in_serialized_once_refuted :
  exists ser post raw h0 rcs,
    wf_refs h0 rcs = true /\ all_drawn (draw_of_strategy ser post raw) h0 0 rcs = true /\
    wires CopyWhenDrawn (draw_of_strategy ser post raw) ser h0 rcs <> values_from raw ser h0 0 rcs.
Proof.
  exists ser_matrix, post_id, raw_fill_b, [[(s_a, JStr [53%N])]], [[(s_path_parameters, 0)]].
  repeat split; try (vm_compute; reflexivity).
  vm_compute. intros H. discriminate H.
Qed.

(* what goes out for the witness: a = ;a=5 (once), b = ;b=;b=3 (twice) *)
Lemma fill_in_witness_value :
  wires CopyWhenDrawn (draw_of_strategy ser_matrix post_id raw_fill_b) ser_matrix [[(s_a, JStr [53%N])]] [[(s_path_parameters, 0)]]
  = [[(s_path_parameters, Some [(s_a, JStr [59;97;61;53]%N); (s_b, JStr [59;98;61;59;98;61;51]%N)])]].
Proof. vm_compute. reflexivity. Qed.

(* non-vacuity of the hypotheses of cases_independent / example_serialized_once_partial:
   two parameter combinations cycled over three bodies, a non-trivial draw *)
Definition exs_two : list example :=
  [PEx s_path_parameters s_id (JStr [53%N]); PEx s_path_parameters s_id (JStr [54%N]);
   BEx (JInt 1) s_json_mt; BEx (JInt 2) s_json_mt; BEx (JInt 3) s_json_mt].
Lemma assembly_hypotheses_satisfiable :
  let hr := ref_combinations exs_two in
  length (snd hr) = 3 /\ wf_refs (fst hr) (snd hr) = true /\
  all_drawn raw_fill_b (fst hr) 0 (snd hr) = true /\
  nothing_to_fill draw_nothing (fst hr) 0 (snd hr) = true /\
  wires CopyWhenDrawn draw_nothing ser_matrix (fst hr) (snd hr) =
    [[(s_path_parameters, Some [(s_id, JStr [59;105;100;61;53]%N)])];
     [(s_path_parameters, Some [(s_id, JStr [59;105;100;61;54]%N)])];
     [(s_path_parameters, Some [(s_id, JStr [59;105;100;61;53]%N)])]].
Proof. cbv zeta. repeat split; vm_compute; reflexivity. Qed.

(* ------------------------------------------------------------------ *)
(* the identity-level produce_combinations denotes the value-level one *)
(* ------------------------------------------------------------------ *)
Definition named_refs (n : nat) (l : list (str * dict)) : rcombo :=
  List.combine (map fst l) (seq n (length l)).

Lemma alloc_fold : forall l h rc0,
  fold_left alloc_container l (h, rc0) = (h ++ map snd l, rc0 ++ named_refs (length h) l).
Proof.
  induction l as [|[c d] l IH]; intros h rc0.
  - cbn. rewrite !app_nil_r. reflexivity.
  - cbn [fold_left]. unfold alloc_container at 2. cbn [fst snd]. rewrite IH. f_equal.
    + rewrite <- app_assoc. reflexivity.
    + rewrite <- app_assoc. f_equal. unfold named_refs. cbn [map length seq List.combine app fst].
      rewrite length_snoc. reflexivity.
Qed.

Lemma deref_named : forall l pre post,
  deref (pre ++ map snd l ++ post) (named_refs (length pre) l) = l.
Proof.
  induction l as [|[c d] l IH]; intros pre post; [reflexivity|].
  unfold named_refs, deref. cbn [map length seq List.combine fst snd app].
  rewrite hget_middle. f_equal.
  specialize (IH (pre ++ [d]) post). rewrite length_snoc, <- app_assoc in IH. exact IH.
Qed.

Fixpoint cblocks (pcs : list combo) : heap :=
  match pcs with [] => [] | c :: r => map snd (containers c) ++ cblocks r end.
Fixpoint crefs (n : nat) (pcs : list combo) : list rcombo :=
  match pcs with
  | [] => []
  | c :: r => named_refs n (containers c) :: crefs (n + length (containers c)) r
  end.

Lemma alloc_combos_fold : forall pcs h rcs0,
  fold_left alloc_step pcs (h, rcs0) = (h ++ cblocks pcs, rcs0 ++ crefs (length h) pcs).
Proof.
  induction pcs as [|c pcs IH]; intros h rcs0.
  - cbn. rewrite !app_nil_r. reflexivity.
  - cbn [fold_left]. unfold alloc_step at 2, alloc_param_combo. cbn [fst snd].
    rewrite alloc_fold. cbn [fst snd app]. rewrite IH. cbn [cblocks crefs]. f_equal.
    + rewrite <- app_assoc. reflexivity.
    + rewrite <- app_assoc. cbn [app]. rewrite app_length, map_length. reflexivity.
Qed.

Lemma deref_crefs : forall pcs pre post,
  map (deref (pre ++ cblocks pcs ++ post)) (crefs (length pre) pcs) = map containers pcs.
Proof.
  induction pcs as [|c pcs IH]; intros pre post; [reflexivity|].
  cbn [cblocks crefs map]. f_equal.
  - rewrite <- app_assoc. apply deref_named.
  - specialize (IH (pre ++ map snd (containers c)) post).
    rewrite app_length, map_length, <- !app_assoc in IH. rewrite <- app_assoc. exact IH.
Qed.

Lemma named_refs_lt n l m : n + length l <= m ->
  forallb (fun ca : str * nat => Nat.ltb (snd ca) m) (named_refs n l) = true.
Proof.
  unfold named_refs. revert n. induction l as [|x l IH]; intros n H; [reflexivity|].
  cbn [map length seq List.combine forallb snd] in *. apply andb_true_iff. split.
  - apply Nat.ltb_lt. lia.
  - apply IH. lia.
Qed.

Lemma crefs_wf : forall pcs n m, n + length (cblocks pcs) <= m ->
  forallb (fun rc => forallb (fun ca : str * nat => Nat.ltb (snd ca) m) rc) (crefs n pcs) = true.
Proof.
  induction pcs as [|c pcs IH]; intros n m H; [reflexivity|].
  cbn [cblocks crefs forallb] in *. rewrite app_length, map_length in H.
  apply andb_true_iff. split; [apply named_refs_lt; lia | apply IH; lia].
Qed.

Lemma alloc_param_combos_spec pcs :
  alloc_param_combos pcs = (cblocks pcs, crefs 0 pcs).
Proof. unfold alloc_param_combos. rewrite alloc_combos_fold. reflexivity. Qed.

Lemma alloc_deref pcs :
  map (deref (fst (alloc_param_combos pcs))) (snd (alloc_param_combos pcs)) = map containers pcs /\
  wf_refs (fst (alloc_param_combos pcs)) (snd (alloc_param_combos pcs)) = true /\
  length (snd (alloc_param_combos pcs)) = length pcs.
Proof.
  rewrite alloc_param_combos_spec. cbn [fst snd]. repeat split.
  - pose proof (deref_crefs pcs [] []) as D. rewrite app_nil_r in D. exact D.
  - unfold wf_refs. apply crefs_wf. lia.
  - generalize 0. induction pcs as [|c pcs IH]; intros n; [reflexivity|]. cbn [crefs length]. rewrite IH. reflexivity.
Qed.

Lemma cyc_map {A B} (f : A -> B) d l i : cyc (f d) (map f l) i = f (cyc d l i).
Proof. unfold cyc. rewrite map_length. apply map_nth. Qed.

Lemma assoc_set_fresh {A} k (v : A) l : ~ In k (keys l) -> assoc_set k v l = l ++ [(k, v)].
Proof.
  induction l as [|[k1 v1] l IH]; intros N; [reflexivity|].
  cbn [assoc_set]. destruct (str_eqb k k1) eqn:E.
  - apply str_eqb_spec in E. subst. exfalso. apply N. left. reflexivity.
  - cbn [app]. f_equal. apply IH. intros H. apply N. right. exact H.
Qed.

Lemma assoc_update_disjoint {A} : forall (u b : list (str * A)),
  NoDup (keys u) -> (forall k, In k (keys u) -> ~ In k (keys b)) -> assoc_update b u = b ++ u.
Proof.
  unfold assoc_update.
  induction u as [|[k v] u IH]; intros b ND Dis; [cbn; rewrite app_nil_r; reflexivity|].
  cbn [fold_left fst snd]. inversion ND as [|x l Hk ND1]; subst.
  rewrite assoc_set_fresh; [|apply Dis; left; reflexivity].
  rewrite IH; [rewrite <- app_assoc; reflexivity | exact ND1 |].
  intros k1 Hin H. unfold keys in H. rewrite map_app, in_app_iff in H. destruct H as [H|[H|[]]].
  - exact (Dis k1 (or_intror Hin) H).
  - cbn in H. subst. exact (Hk Hin).
Qed.

Lemma containers_app a b : containers (a ++ b) = containers a ++ containers b.
Proof. unfold containers. apply flat_map_app. Qed.

Lemma containers_body_combos b c : In c (body_combos b) -> containers c = [] /\ keys c = [s_media_type; s_body].
Proof.
  intros H. apply In_body_combos in H. destruct H as (mt & v & vs & _ & _ & E).
  subst. split; reflexivity.
Qed.

Lemma containers_merge p b i j : good_keys p ->
  containers (assoc_update (cyc [] (body_combos b) j) (cyc [] (param_combos p) i)) =
  containers (cyc [] (param_combos p) i).
Proof.
  intros [ND OK].
  assert (HB : containers (cyc [] (body_combos b) j) = [] /\
               (forall k, In k (keys (cyc [] (body_combos b) j)) -> k = s_media_type \/ k = s_body)).
  { destruct (cyc_cases (@nil (str * kwval)) (body_combos b) j) as [[_ E]|Hin].
    - rewrite E. split; [reflexivity | intros k []].
    - apply containers_body_combos in Hin. destruct Hin as [E1 E2]. split; [exact E1|].
      rewrite E2. intros k [H|[H|[]]]; auto. }
  destruct HB as [HB1 HB2].
  destruct (cyc_cases (@nil (str * kwval)) (param_combos p) i) as [[_ E]|Hin].
  - rewrite E. cbn. exact HB1.
  - assert (E : exists i1, param_combo p i1 = cyc [] (param_combos p) i).
    { unfold param_combos in Hin at 2. apply in_map_iff in Hin. destruct Hin as [i1 [E _]]. exists i1. exact E. }
    destruct E as [i1 E]. rewrite <- E. rewrite assoc_update_disjoint.
    + rewrite containers_app, HB1. reflexivity.
    + rewrite keys_param_combo. exact ND.
    + rewrite keys_param_combo. intros k Hk Hb. rewrite Forall_forall in OK.
      apply OK in Hk. apply container_ok_neq in Hk. destruct Hk as [N1 N2].
      destruct (HB2 k Hb); contradiction.
Qed.

Lemma ref_grouped_sound p b : good_keys p ->
  map (deref (fst (ref_grouped p b))) (snd (ref_grouped p b)) = map containers (produce_grouped p b) /\
  wf_refs (fst (ref_grouped p b)) (snd (ref_grouped p b)) = true.
Proof.
  intros G. unfold ref_grouped, produce_grouped.
  destruct b as [|b0 b1]; [destruct p as [|p0 p1]|destruct p as [|p0 p1]].
  - split; reflexivity.
  - destruct (alloc_deref (param_combos (p0 :: p1))) as (D & W & _). split; assumption.
  - cbn [fst snd]. split.
    + rewrite map_map. apply map_ext_in. intros c Hin.
      apply containers_body_combos in Hin. destruct Hin as [E _]. rewrite E. reflexivity.
    + unfold wf_refs. rewrite forallb_forall. intros rc Hin. apply in_map_iff in Hin.
      destruct Hin as [c [<- _]]. reflexivity.
  - set (p := p0 :: p1) in *. set (b := b0 :: b1) in *.
    destruct (alloc_deref (param_combos p)) as (D & W & L). cbn [fst snd].
    split.
    + unfold combine. rewrite !map_map. rewrite L. apply map_ext. intros idx.
      rewrite containers_merge by exact G.
      etransitivity;
        [symmetry; apply (cyc_map (deref (fst (alloc_param_combos (param_combos p)))) []
                                  (snd (alloc_param_combos (param_combos p))) idx)|].
      rewrite D. apply (cyc_map containers [] (param_combos p) idx).
    + unfold wf_refs in *. rewrite forallb_forall in *. intros rc Hin. apply in_map_iff in Hin.
      destruct Hin as [idx [<- _]].
      destruct (cyc_cases (@nil (str * nat)) (snd (alloc_param_combos (param_combos p))) idx) as [[_ E]|Hin].
      * rewrite E. reflexivity.
      * apply W. exact Hin.
Qed.

(* dereferencing the identity-level combinations gives the containers of
   produce_combinations; every address is allocated *)
Lemma ref_combinations_sound exs : containers_ok exs = true ->
  map (deref (fst (ref_combinations exs))) (snd (ref_combinations exs)) = map containers (produce_combinations exs) /\
  wf_refs (fst (ref_combinations exs)) (snd (ref_combinations exs)) = true.
Proof. intros H. apply ref_grouped_sound. apply good_keys_group. exact H. Qed.

(* the end-to-end statement on example lists: when nothing has to be filled
   in, every produced case holds, for every container, exactly the example
   container of its combination serialized once *)
Lemma examples_once_end_to_end exs draw ser : containers_ok exs = true ->
  nothing_to_fill draw (fst (ref_combinations exs)) 0 (snd (ref_combinations exs)) = true ->
  wires CopyWhenDrawn draw ser (fst (ref_combinations exs)) (snd (ref_combinations exs)) =
  map (fun c => map (fun cd => (fst cd, Some (ser (fst cd) (snd cd)))) (containers c)) (produce_combinations exs).
Proof.
  intros Hc Hn. destruct (ref_combinations_sound exs Hc) as [D W].
  rewrite (example_serialized_once_partial draw ser _ _ W Hn).
  unfold examples_serialized_once. rewrite <- (map_map containers), <- D, map_map.
  apply map_ext. intros rc. unfold deref. rewrite map_map. reflexivity.
Qed.
