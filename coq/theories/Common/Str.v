(* Common string library: strings are lists of Unicode code points (N).
   Executable definitions + their algebra.  Stdlib only. *)
From Coq Require Import List NArith Bool Lia Arith.
Import ListNotations.

Definition str := list N.

Fixpoint str_eqb (a b : str) : bool :=
  match a, b with
  | [], [] => true
  | x :: a', y :: b' => N.eqb x y && str_eqb a' b'
  | _, _ => false
  end.

Lemma str_eqb_spec a b : str_eqb a b = true <-> a = b.
Proof.
  revert b; induction a as [|x a IH]; intros [|y b]; cbn; try (split; congruence).
  rewrite andb_true_iff, N.eqb_eq, IH. split; [intros [-> ->]; reflexivity | intros H; inversion H; auto].
Qed.

Lemma str_eqb_refl a : str_eqb a a = true.
Proof. apply str_eqb_spec; reflexivity. Qed.

Fixpoint starts_with (p s : str) : bool :=
  match p, s with
  | [], _ => true
  | x :: p', y :: s' => N.eqb x y && starts_with p' s'
  | _ :: _, [] => false
  end.

Lemma starts_with_spec p s : starts_with p s = true <-> exists t, s = p ++ t.
Proof.
  revert s; induction p as [|x p IH]; intros s; cbn.
  - split; [eexists; reflexivity | reflexivity].
  - destruct s as [|y s]; [split; [discriminate | intros [t H]; discriminate]|].
    rewrite andb_true_iff, N.eqb_eq, IH. split.
    + intros [-> [t ->]]; eexists; reflexivity.
    + intros [t H]; inversion H; subst; split; [reflexivity | eexists; reflexivity].
Qed.

Definition ends_with (p s : str) : bool := starts_with (rev p) (rev s).

(* membership of a code point in a list *)
Definition mem (c : N) (l : list N) : bool := existsb (N.eqb c) l.

Lemma mem_spec c l : mem c l = true <-> In c l.
Proof.
  unfold mem; rewrite existsb_exists; split.
  - intros [x [Hx He]]; apply N.eqb_eq in He; subst; exact Hx.
  - intros H; exists c; split; [exact H | apply N.eqb_refl].
Qed.

(* ASCII helpers *)
Definition is_upper (c : N) : bool := (65 <=? c)%N && (c <=? 90)%N.
Definition is_lower (c : N) : bool := (97 <=? c)%N && (c <=? 122)%N.
Definition is_digit (c : N) : bool := (48 <=? c)%N && (c <=? 57)%N.
Definition lower_c (c : N) : N := if is_upper c then (c + 32)%N else c.
Definition upper_c (c : N) : N := if is_lower c then (c - 32)%N else c.
Definition lower_ascii (s : str) : str := map lower_c s.
Definition upper_ascii (s : str) : str := map upper_c s.

Lemma lower_c_idem c : lower_c (lower_c c) = lower_c c.
Proof.
  unfold lower_c, is_upper.
  destruct ((65 <=? c)%N && (c <=? 90)%N) eqn:E; [|rewrite E; reflexivity].
  apply andb_true_iff in E; destruct E as [E1 E2].
  apply N.leb_le in E1; apply N.leb_le in E2.
  destruct ((65 <=? c + 32)%N && (c + 32 <=? 90)%N) eqn:E'; [|reflexivity].
  apply andb_true_iff in E'; destruct E' as [_ E4]; apply N.leb_le in E4; lia.
Qed.

Lemma lower_ascii_idem s : lower_ascii (lower_ascii s) = lower_ascii s.
Proof. unfold lower_ascii; rewrite map_map; apply map_ext; intros; apply lower_c_idem. Qed.

(* split on a single separator code point: Python's s.split(sep) for a 1-char sep *)
Fixpoint split_on_aux (sep : N) (s : str) (cur : str) : list str :=
  match s with
  | [] => [rev cur]
  | c :: s' => if N.eqb c sep then rev cur :: split_on_aux sep s' []
               else split_on_aux sep s' (c :: cur)
  end.
Definition split_on (sep : N) (s : str) : list str := split_on_aux sep s [].

Fixpoint join (sep : str) (l : list str) : str :=
  match l with
  | [] => []
  | [x] => x
  | x :: l' => x ++ sep ++ join sep l'
  end.

Lemma split_on_aux_join sep s cur :
  join [sep] (split_on_aux sep s cur) = rev cur ++ s.
Proof.
  revert cur; induction s as [|c s IH]; intros cur; cbn [split_on_aux].
  - cbn; rewrite app_nil_r; reflexivity.
  - destruct (N.eqb c sep) eqn:E.
    + apply N.eqb_eq in E; subst c.
      specialize (IH []). cbn [rev app] in IH.
      remember (split_on_aux sep s []) as r eqn:Hr.
      destruct r as [|y r].
      * destruct s; cbn in Hr; [discriminate|destruct (N.eqb n sep); discriminate].
      * cbn [join]. cbn [join] in IH. rewrite IH. reflexivity.
    + rewrite IH. cbn [rev]. rewrite <- app_assoc. reflexivity.
Qed.

Theorem join_split_on sep s : join [sep] (split_on sep s) = s.
Proof. unfold split_on; rewrite split_on_aux_join; reflexivity. Qed.

(* replace every occurrence of a single code point by a string *)
Definition replace_char (c : N) (by_ : str) (s : str) : str :=
  flat_map (fun x => if N.eqb x c then by_ else [x]) s.

Fixpoint strip_left (ws : list N) (s : str) : str :=
  match s with
  | c :: s' => if mem c ws then strip_left ws s' else s
  | [] => []
  end.
Definition strip (ws : list N) (s : str) : str := rev (strip_left ws (rev (strip_left ws s))).

Definition all_chars (p : N -> bool) (s : str) : bool := forallb p s.
