(* JSON values without floats; objects are insertion-ordered association lists
   (Python dict order).  Stdlib only. *)
From Coq Require Import List NArith ZArith Bool.
From Verif Require Import Common.Str.
Import ListNotations.

Inductive json :=
| JNull
| JBool (b : bool)
| JInt (z : Z)
| JStr (s : str)
| JArr (l : list json)
| JObj (kvs : list (str * json)).

(* induction principle that goes through the nested lists *)
Section JsonInd.
  Variable P : json -> Prop.
  Hypothesis Hnull : P JNull.
  Hypothesis Hbool : forall b, P (JBool b).
  Hypothesis Hint : forall z, P (JInt z).
  Hypothesis Hstr : forall s, P (JStr s).
  Hypothesis Harr : forall l, Forall P l -> P (JArr l).
  Hypothesis Hobj : forall kvs, Forall (fun kv => P (snd kv)) kvs -> P (JObj kvs).

  Fixpoint json_ind' (j : json) : P j :=
    match j with
    | JNull => Hnull
    | JBool b => Hbool b
    | JInt z => Hint z
    | JStr s => Hstr s
    | JArr l => Harr l ((fix go (l : list json) : Forall P l :=
                           match l with [] => Forall_nil _ | x :: r => Forall_cons _ (json_ind' x) (go r) end) l)
    | JObj kvs => Hobj kvs ((fix go (l : list (str * json)) : Forall (fun kv => P (snd kv)) l :=
                           match l with [] => Forall_nil _ | x :: r => Forall_cons _ (json_ind' (snd x)) (go r) end) kvs)
    end.
End JsonInd.

Fixpoint json_eqb (a b : json) : bool :=
  match a, b with
  | JNull, JNull => true
  | JBool x, JBool y => Bool.eqb x y
  | JInt x, JInt y => Z.eqb x y
  | JStr x, JStr y => str_eqb x y
  | JArr x, JArr y =>
      (fix go (x y : list json) : bool :=
         match x, y with
         | [], [] => true
         | p :: x', q :: y' => json_eqb p q && go x' y'
         | _, _ => false
         end) x y
  | JObj x, JObj y =>
      (fix go (x y : list (str * json)) : bool :=
         match x, y with
         | [], [] => true
         | (k, p) :: x', (k', q) :: y' => str_eqb k k' && json_eqb p q && go x' y'
         | _, _ => false
         end) x y
  | _, _ => false
  end.

Lemma json_eqb_refl j : json_eqb j j = true.
Proof.
  induction j using json_ind'; cbn; auto using Bool.eqb_reflx, Z.eqb_refl, str_eqb_refl.
  - induction H as [|x l Hx _ IH]; [reflexivity|]. rewrite Hx, IH. reflexivity.
  - induction H as [|[k x] l Hx _ IH]; [reflexivity|]. cbn in Hx. rewrite str_eqb_refl, Hx, IH. reflexivity.
Qed.

Lemma json_eqb_eq a : forall b, json_eqb a b = true -> a = b.
Proof.
  induction a using json_ind'; intros [] E; cbn in E; try discriminate; try reflexivity.
  - apply Bool.eqb_prop in E; subst; reflexivity.
  - apply Z.eqb_eq in E; subst; reflexivity.
  - apply str_eqb_spec in E; subst; reflexivity.
  - f_equal. revert l0 E. induction H as [|x l Hx _ IH]; intros [|q y] E; try discriminate; [reflexivity|].
    apply andb_true_iff in E; destruct E as [E1 E2]. f_equal; [apply Hx; exact E1 | apply IH; exact E2].
  - f_equal. revert kvs0 E. induction H as [|[k x] l Hx _ IH]; intros [|[k' q] y] E; try discriminate; [reflexivity|].
    apply andb_true_iff in E; destruct E as [E1 E3]. apply andb_true_iff in E1; destruct E1 as [E1 E2].
    apply str_eqb_spec in E1; subst. cbn in Hx. f_equal; [f_equal; apply Hx; exact E2 | apply IH; exact E3].
Qed.

(* dict operations *)
Fixpoint assoc_get {A} (k : str) (l : list (str * A)) : option A :=
  match l with
  | [] => None
  | (k', v) :: r => if str_eqb k k' then Some v else assoc_get k r
  end.

(* d[k] = v : keeps the position of an existing key, appends a new one *)
Fixpoint assoc_set {A} (k : str) (v : A) (l : list (str * A)) : list (str * A) :=
  match l with
  | [] => [(k, v)]
  | (k', v') :: r => if str_eqb k k' then (k, v) :: r else (k', v') :: assoc_set k v r
  end.

Fixpoint assoc_remove {A} (k : str) (l : list (str * A)) : list (str * A) :=
  match l with
  | [] => []
  | (k', v') :: r => if str_eqb k k' then assoc_remove k r else (k', v') :: assoc_remove k r
  end.

Definition assoc_mem {A} (k : str) (l : list (str * A)) : bool :=
  match assoc_get k l with Some _ => true | None => false end.

Definition assoc_update {A} (base upd : list (str * A)) : list (str * A) :=
  fold_left (fun acc kv => assoc_set (fst kv) (snd kv) acc) upd base.

Lemma assoc_get_set_same {A} k (v : A) l : assoc_get k (assoc_set k v l) = Some v.
Proof.
  induction l as [|[k' v'] r IH]; cbn; [rewrite str_eqb_refl; reflexivity|].
  destruct (str_eqb k k') eqn:E; cbn; [rewrite str_eqb_refl; reflexivity | rewrite E; exact IH].
Qed.

Lemma assoc_get_set_other {A} k k' (v : A) l : str_eqb k' k = false ->
  assoc_get k' (assoc_set k v l) = assoc_get k' l.
Proof.
  intros Hne. induction l as [|[k2 v2] r IH]; cbn; [rewrite Hne; reflexivity|].
  destruct (str_eqb k k2) eqn:E; cbn.
  - apply str_eqb_spec in E; subst. rewrite Hne. reflexivity.
  - destruct (str_eqb k' k2); [reflexivity | exact IH].
Qed.
