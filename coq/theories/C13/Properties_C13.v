(* C13 property theorems only.  Each is closed by [exact] of a lemma of Proofs_C13 and followed by Print Assumptions.
   gen (Hypothesis as a function of its PRNG state) and gen_op (what is generated for one operation) are universally
   quantified; gen_sites / gen_cli_seed are generated from the source by harness/props/c13_translate.py on every run. *)
From Coq Require Import List NArith Bool Permutation.
From Verif Require Import C13.Model_C13 C13.Gen_C13 C13.Proofs_C13.
Import ListNotations.
Open Scope N_scope.

(* FULL, every plan: if every site that contributes to a request is seeded, two runs with the same seed send the same
   sequence of requests whatever the ambient entropy (process, PYTHONHASHSEED, OS randomness) is *)
Theorem C13_seeded_plan_deterministic : forall gen p seed a a',
  all_seeded p = true -> run gen p seed a = run gen p seed a'.
Proof. exact seeded_plan_deterministic. Qed.
Print Assumptions C13_seeded_plan_deterministic.

(* every plan, every context: either all contributing sites are seeded and the requests of that context are reproducible,
   or an ambient site contributes and there are a generator and two ambient states on which the runs differ *)
Theorem C13_context_dichotomy : forall sites x,
  (ctx_seeded sites x = true /\
   forall gen w seed a a', w_ctx w = x -> run_work gen sites seed a w = run_work gen sites seed a' w)
  \/ (ambient_active sites x = true /\
      exists gen seed a a', run gen (sites, [mkWork 0 x 0 1]) seed a <> run gen (sites, [mkWork 0 x 0 1]) seed a').
Proof. exact context_dichotomy. Qed.
Print Assumptions C13_context_dichotomy.

(* TODAY's source, PARTIAL: in every context in which the generated plan is seeded the run is reproducible ... *)
Theorem C13_current_plan_partial : forall gen ws seed a a',
  works_in (ctx_seeded gen_sites) ws = true -> run gen (gen_sites, ws) seed a = run gen (gen_sites, ws) seed a'.
Proof. exact current_plan_partial. Qed.
Print Assumptions C13_current_plan_partial.

(* ... and that region contains fuzzing and stateful testing, positive and negative mode, without multipart bodies
   (hypothesis.seed(config.seed) in create_test, hypothesis.seed(seed) on the state machine; no observable set iteration) *)
Theorem C13_fuzzing_stateful_partial : forall gen ws seed a a',
  works_in seeded_region_today ws = true -> run gen (gen_sites, ws) seed a = run gen (gen_sites, ws) seed a'.
Proof. exact fuzzing_stateful_deterministic. Qed.
Print Assumptions C13_fuzzing_stateful_partial.

(* TODAY's source, REFUTED (findings): the examples phase draws fill-ins through the unseeded generate_one *)
Theorem C13_examples_refuted :
  ambient_kind_active Unseeded gen_sites ex_pos = true
  /\ exists gen seed a a', run gen (gen_sites, [mkWork 0 ex_pos 0 1]) seed a <> run gen (gen_sites, [mkWork 0 ex_pos 0 1]) seed a'.
Proof. exact examples_refuted. Qed.
Print Assumptions C13_examples_refuted.

(* the coverage phase draws through cached_draw -> generate_one, positive and negative *)
Theorem C13_coverage_refuted :
  ambient_kind_active Unseeded gen_sites cov_pos = true /\ ambient_kind_active Unseeded gen_sites cov_neg = true
  /\ exists gen seed a a', run gen (gen_sites, [mkWork 0 cov_pos 0 1]) seed a <> run gen (gen_sites, [mkWork 0 cov_pos 0 1]) seed a'.
Proof. exact coverage_refuted. Qed.
Print Assumptions C13_coverage_refuted.

(* multipart bodies carry a boundary read from os.urandom, in every phase *)
Theorem C13_multipart_refuted :
  ambient_kind_active OsRandom gen_sites fuzz_mp = true
  /\ exists gen seed a a', run gen (gen_sites, [mkWork 0 fuzz_mp 0 1]) seed a <> run gen (gen_sites, [mkWork 0 fuzz_mp 0 1]) seed a'.
Proof. exact multipart_refuted. Qed.
Print Assumptions C13_multipart_refuted.

(* HashOrder (findings F4, F5 - FIXED by a5c169d7 / 353ffa52): today no iteration over a set of strings is observable ... *)
Theorem C13_hash_order_fixed : forall x, ambient_kind_active HashOrder gen_sites x = false.
Proof. exact hash_order_fixed. Qed.
Print Assumptions C13_hash_order_fixed.

(* ... the plan of the source before the fixes is kept as a labelled sentinel: it is refuted (negative fuzzing / stateful, examples) ... *)
Theorem C13_hash_order_sentinel_refuted :
  ambient_kind_active HashOrder sentinel_sites_before_hash_fixes fuzz_neg = true
  /\ ambient_kind_active HashOrder sentinel_sites_before_hash_fixes st_neg = true
  /\ ambient_kind_active HashOrder sentinel_sites_before_hash_fixes ex_pos = true
  /\ exists gen seed a a', run gen (sentinel_sites_before_hash_fixes, [mkWork 0 fuzz_neg 0 1]) seed a
                          <> run gen (sentinel_sites_before_hash_fixes, [mkWork 0 fuzz_neg 0 1]) seed a'.
Proof. exact hash_order_sentinel_refuted. Qed.
Print Assumptions C13_hash_order_sentinel_refuted.

(* ... and it differs from the plan of today (so the theorems above do distinguish the two sources) *)
Theorem C13_sentinel_differs_from_current_plan :
  ambient_table sentinel_sites_before_hash_fixes <> ambient_table gen_sites
  /\ ctx_seeded sentinel_sites_before_hash_fixes fuzz_neg = false /\ ctx_seeded gen_sites fuzz_neg = true.
Proof. exact sentinel_differs. Qed.
Print Assumptions C13_sentinel_differs_from_current_plan.

(* the complete attribution table of today (contexts in the order of all_ctxs: per phase pos/neg x plain/multipart):
   3,4 = examples fill-ins, 5 = coverage draws, 7 = multipart boundary *)
Theorem C13_current_ambient_sites :
  ambient_table gen_sites =
  [ [3; 4]; [3; 4]; [3; 4; 7]; [3; 4; 7];
    [5]; [5]; [5; 7]; [5; 7];
    []; []; [7]; [7];
    []; []; [7]; [7] ].
Proof. exact current_ambient_table. Qed.
Print Assumptions C13_current_ambient_sites.

(* the per-case id is the only non-multipart OS-random site and it is outside the compared request *)
Theorem C13_case_id_not_in_request : forall s,
  In s gen_sites -> has_kind OsRandom s = true -> s_multipart_only s = false -> s_in_request s = false.
Proof. exact case_id_not_in_request. Qed.
Print Assumptions C13_case_id_not_in_request.

(* every unit test of every operation is given exactly the configured seed *)
Theorem C13_unit_seed_is_config_seed : forall seed k,
  seeded_values gen_sites ex_pos seed k = [seed] /\ seeded_values gen_sites cov_neg seed k = [seed]
  /\ seeded_values gen_sites fuzz_pos seed k = [seed] /\ seeded_values gen_sites fuzz_neg seed k = [seed].
Proof. exact unit_seed_is_config_seed. Qed.
Print Assumptions C13_unit_seed_is_config_seed.

(* suite k of the stateful phase is given seed + k: a function of the seed, and fresh for every re-run *)
Theorem C13_stateful_seed_per_suite : forall seed k,
  seeded_values gen_sites st_pos seed k = [seed + k] /\ seeded_values gen_sites st_neg seed k = [seed + k].
Proof. exact stateful_seed_per_suite. Qed.
Print Assumptions C13_stateful_seed_per_suite.

Theorem C13_stateful_reruns_use_fresh_seeds : forall seed k k', k <> k' ->
  seeded_values gen_sites st_pos seed k <> seeded_values gen_sites st_pos seed k'.
Proof. exact stateful_reruns_use_fresh_seeds. Qed.
Print Assumptions C13_stateful_reruns_use_fresh_seeds.

(* --seed N is what the engine gets, whatever --generation-deterministic says; without it a fresh seed is drawn unless
   deterministic mode (derandomize) is on *)
Theorem C13_cli_fixed_seed_is_used : forall n d fresh, gen_cli_seed (Some n) d fresh = Some n.
Proof. exact cli_fixed_seed_is_used. Qed.
Print Assumptions C13_cli_fixed_seed_is_used.

Theorem C13_cli_no_seed : forall fresh, gen_cli_seed None false fresh = Some fresh /\ gen_cli_seed None true fresh = None.
Proof. exact cli_no_seed. Qed.
Print Assumptions C13_cli_no_seed.

(* WORKERS.  If what is generated for an operation is a function of the operation and the seed only (gen_op), then for
   every two complete schedules (any number of workers, any interleaving) each operation receives the same requests in the
   same order, and the whole traffic is a permutation of one another; the one-worker run is one such schedule. *)
Theorem C13_workers_do_not_change_multiset : forall (R : Type) (gen_op : N -> N -> list R) ops seed sched sched',
  complete sched (per_op gen_op ops seed) = true -> complete sched' (per_op gen_op ops seed) = true ->
  (forall i, proj_op i (interleave sched (per_op gen_op ops seed)) = proj_op i (interleave sched' (per_op gen_op ops seed)))
  /\ Permutation (map snd (interleave sched (per_op gen_op ops seed))) (map snd (interleave sched' (per_op gen_op ops seed))).
Proof. exact (@workers_do_not_change_multiset). Qed.
Print Assumptions C13_workers_do_not_change_multiset.

(* the part of that hypothesis that can be read off the source holds today: the generated plan has no SharedState site
   (worker_task keeps no local across operations, get_strategy_kwargs mutates only what it created, no module-level mutable
   state in the unit phase, one shared operations iterator under the lock) *)
Theorem C13_no_cross_operation_state :
  existsb (has_kind SharedState) gen_sites = false /\ forall x, ambient_kind_active SharedState gen_sites x = false.
Proof. split. exact no_cross_operation_state. exact no_cross_operation_state_ctx. Qed.
Print Assumptions C13_no_cross_operation_state.

(* REFUTED without that hypothesis (finding F6: Hypothesis keeps a process-global pool of constants harvested from the local
   modules in sys.modules; schemathesis imports modules lazily, so what one worker has imported changes what another draws) *)
Theorem C13_workers_shared_state_refuted :
  exists (gen : N -> N -> N) (sched sched' : list nat),
    Permutation sched sched'
    /\ proj_op 0 (run_shared gen sched 0) <> proj_op 0 (run_shared gen sched' 0).
Proof. exact workers_shared_state_refuted. Qed.
Print Assumptions C13_workers_shared_state_refuted.

Theorem C13_one_worker_is_a_schedule : forall (R : Type) (gen_op : N -> N -> list R) ops seed,
  complete (sequential (per_op gen_op ops seed)) (per_op gen_op ops seed) = true.
Proof. exact (@one_worker_is_a_schedule). Qed.
Print Assumptions C13_one_worker_is_a_schedule.

(* any schedule: what an operation has received so far is a prefix of its one-worker list (order preserved) *)
Theorem C13_interleaving_keeps_per_operation_order : forall (A : Type) sched (ls : list (list A)) i,
  proj_op i (interleave sched ls) ++ nth i (remaining sched ls) [] = nth i ls [].
Proof. exact (@proj_interleave). Qed.
Print Assumptions C13_interleaving_keeps_per_operation_order.

(* PROCESS-WIDE STATE.  A run changes the process (caches, memo tables) and the next run in the same process starts from what it
   left.  FULL, every plan, every list of carried sites with distinct ids, every discipline functions key / pure / wr and every
   generator: if every carried site that a work reads is a Memo (content determined by the key) or a Registry (never written by
   a run), the traffic of a run does not depend on the runs that preceded it in the process - any two histories, in particular a
   used process and a fresh one (hist = []) *)
Theorem C13_traffic_independent_of_history : forall key pure wr genp p cs hist hist' r a,
  ids_distinct cs = true -> works_carried_safe cs (snd p) = true ->
  traffic_after key pure wr genp p cs hist r a = traffic_after key pure wr genp p cs hist' r a.
Proof. exact history_independent. Qed.
Print Assumptions C13_traffic_independent_of_history.

(* ... and if moreover every contributing entropy site is seeded, the traffic is a function of (seed, schema, configuration)
   only: neither the history of the process nor the ambient entropy matters *)
Theorem C13_traffic_function_of_seed_schema_configuration : forall key pure wr genp p cs hist hist' r a a',
  ids_distinct cs = true -> works_carried_safe cs (snd p) = true -> all_seeded p = true ->
  traffic_after key pure wr genp p cs hist r a = traffic_after key pure wr genp p cs hist' r a'.
Proof. exact traffic_function_of_inputs. Qed.
Print Assumptions C13_traffic_function_of_seed_schema_configuration.

(* every list of carried sites, every context: either all the sites read there are safe and the history is irrelevant, or a
   run-written site is read and there are a history and a run whose traffic differs from the same run in a fresh process *)
Theorem C13_carried_dichotomy : forall cs x, ids_distinct cs = true ->
  (carried_safe cs x = true /\
   forall key pure wr genp sites ws hist hist' r a, works_in (fun y => carried_safe cs y) ws = true ->
     traffic_after key pure wr genp (sites, ws) cs hist r a = traffic_after key pure wr genp (sites, ws) cs hist' r a)
  \/ (carried_unsafe_active cs x = true /\
      exists key pure wr genp p hist r a,
        traffic_after key pure wr genp p cs hist r a <> traffic_after key pure wr genp p cs [] r a).
Proof. exact carried_dichotomy. Qed.
Print Assumptions C13_carried_dichotomy.

(* TODAY's source (Gen_C13.gen_carried, extracted on every run): PARTIAL, outside the coverage phase no run leaves anything behind
   that a later run could read differently ... *)
Theorem C13_current_history_partial : forall key pure wr genp ws hist hist' r a,
  works_in carried_region_today ws = true ->
  traffic_after key pure wr genp (gen_sites, ws) gen_carried hist r a = traffic_after key pure wr genp (gen_sites, ws) gen_carried hist' r a.
Proof. exact current_history_independent. Qed.
Print Assumptions C13_current_history_partial.

(* ... so in the region that is seeded today (fuzzing, stateful; no multipart) the traffic is a function of the run alone *)
Theorem C13_current_traffic_function_of_inputs_partial : forall key pure wr genp ws hist hist' r a a',
  works_in seeded_region_today ws = true ->
  traffic_after key pure wr genp (gen_sites, ws) gen_carried hist r a = traffic_after key pure wr genp (gen_sites, ws) gen_carried hist' r a'.
Proof. exact current_traffic_function_of_inputs. Qed.
Print Assumptions C13_current_traffic_function_of_inputs_partial.

(* the complete table of today: the only carried site whose content is not determined by its key is the lru_cache of the
   unseeded coverage draw (site 73, cached_draw - finding F2); an unclassified mutation of process-wide state changes it *)
Theorem C13_current_carried_sites :
  ids_distinct gen_carried = true
  /\ unsafe_table gen_carried =
     [ []; []; []; [];
       [73]; [73]; [73]; [73];
       []; []; []; [];
       []; []; []; [] ].
Proof. split. exact gen_carried_ids_distinct. exact current_unsafe_table. Qed.
Print Assumptions C13_current_carried_sites.

(* REFUTED in the coverage phase (F2 seen as carried state: whoever runs first fills the memo) *)
Theorem C13_coverage_memo_refuted :
  carried_unsafe_active gen_carried cov_pos = true /\ carried_unsafe_active gen_carried cov_neg = true
  /\ exists key pure wr genp p hist r a,
       traffic_after key pure wr genp p gen_carried hist r a <> traffic_after key pure wr genp p gen_carried [] r a.
Proof. exact coverage_memo_refuted. Qed.
Print Assumptions C13_coverage_memo_refuted.

(* SENTINEL (seeded regression C13_d): a configuration-dependent write into a process-wide object read by every later run
   (the header-value strategy assigned into the dict returned by the lru_cache-d get_default_format_strategies) is refuted in the
   phases that are reproducible today ... *)
Theorem C13_formats_leak_sentinel_refuted :
  carried_unsafe_active sentinel_carried_with_formats_leak fuzz_pos = true
  /\ carried_unsafe_active sentinel_carried_with_formats_leak st_pos = true
  /\ exists key pure wr genp hist r a,
       traffic_after key pure wr genp (unit_plan fuzz_pos) sentinel_carried_with_formats_leak hist r a
       <> traffic_after key pure wr genp (unit_plan fuzz_pos) sentinel_carried_with_formats_leak [] r a.
Proof. exact formats_leak_sentinel_refuted. Qed.
Print Assumptions C13_formats_leak_sentinel_refuted.

(* ... and is told apart from the plan of today *)
Theorem C13_formats_leak_sentinel_differs_from_current_plan :
  unsafe_table sentinel_carried_with_formats_leak <> unsafe_table gen_carried
  /\ carried_safe sentinel_carried_with_formats_leak fuzz_pos = false /\ carried_safe gen_carried fuzz_pos = true.
Proof. exact formats_leak_sentinel_differs. Qed.
Print Assumptions C13_formats_leak_sentinel_differs_from_current_plan.

(* what the runtime snapshots are checked for: in every reachable process state an entry of a Memo site survives the next run
   unchanged, and nothing is ever stored at a Registry site *)
Theorem C13_safe_entries_survive_runs : forall key pure wr cs hist r c k v,
  ids_distinct cs = true -> In c cs ->
  (c_class c = Memo -> after key pure wr cs hist (c_id c) k = Some v ->
     step_run key pure wr cs (after key pure wr cs hist) r (c_id c) k = Some v)
  /\ (c_class c = Registry -> step_run key pure wr cs (after key pure wr cs hist) r (c_id c) k = None).
Proof. exact safe_entries_survive. Qed.
Print Assumptions C13_safe_entries_survive_runs.

(* CALLER-OWNED CONFIGURATION.  Through the engine API the caller passes OBJECTS (EngineConfig / ExecutionConfig / ...) and may
   give the same objects to the next run: they are carried state.  FULL, every list of write sites, every sequence of calls on
   the same objects, whatever the writes store (wv): if no write site is executed by these calls the objects are unchanged ... *)
Theorem C13_run_leaves_caller_configuration_unchanged : forall wv ws calls c,
  no_owned_write ws calls = true -> cfg_after wv ws calls c = c.
Proof. exact owned_unchanged. Qed.
Print Assumptions C13_run_leaves_caller_configuration_unchanged.

(* ... so re-using the objects equals rebuilding them: every run gets the inputs it would get from freshly built equal objects,
   and (carried sites safe) its traffic is that of the same run in a fresh process *)
Theorem C13_reusing_configuration_objects_equals_rebuilding : forall wv ws key pure wr genp p cs calls k c a,
  no_owned_write ws calls = true ->
  (hist_reused wv ws calls c = hist_rebuilt calls c /\ rin_reused wv ws calls k c = rin_rebuilt k c)
  /\ (ids_distinct cs = true -> works_carried_safe cs (snd p) = true ->
      traffic_after key pure wr genp p cs (hist_reused wv ws calls c) (rin_reused wv ws calls k c) a
      = traffic_after key pure wr genp p cs [] (rin_rebuilt k c) a).
Proof.
  intros. split. apply reuse_equals_rebuild; assumption. intros. apply reused_traffic_is_fresh_traffic; assumption.
Qed.
Print Assumptions C13_reusing_configuration_objects_equals_rebuilding.

(* TODAY's source (Gen_C13.gen_owned_writes, extracted on every run): no code reachable from a run writes into a configuration
   object of the caller; any sequence of runs leaves the objects as they were, and (PARTIAL, outside the coverage phase - F2)
   the traffic of a run on re-used objects in a used process is the traffic of the run on rebuilt objects in a fresh process *)
Theorem C13_current_caller_configuration_unchanged_partial :
  gen_owned_writes = []
  /\ (forall wv calls c, cfg_after wv gen_owned_writes calls c = c)
  /\ (forall wv key pure wr genp ws calls k c a, works_in carried_region_today ws = true ->
        traffic_after key pure wr genp (gen_sites, ws) gen_carried (hist_reused wv gen_owned_writes calls c) (rin_reused wv gen_owned_writes calls k c) a
        = traffic_after key pure wr genp (gen_sites, ws) gen_carried [] (rin_rebuilt k c) a).
Proof. split. exact current_owned_writes. split. exact current_run_leaves_cfg. exact current_reused_traffic. Qed.
Print Assumptions C13_current_caller_configuration_unchanged_partial.

(* SENTINEL (seeded regression C13_e): the stateful executor writes the state-machine defaults into the caller's ExecutionConfig
   (`config = replace(engine.config); config.execution.hypothesis_settings = ...`).  REFUTED: the write is executed by a run that
   reaches the stateful phase (and only by such a run); afterwards the objects differ and the next run on them sends other
   traffic than the same run on rebuilt objects *)
Theorem C13_settings_write_sentinel_refuted :
  owned_writes_active sentinel_owned_writes (k_phases all_phases_call) = [90]
  /\ owned_writes_active sentinel_owned_writes (k_phases unit_phases_call) = []
  /\ exists wv key pure wr genp calls k c a,
       cfg_after wv sentinel_owned_writes calls c <> c
       /\ traffic_after key pure wr genp (unit_plan fuzz_pos) [] (hist_reused wv sentinel_owned_writes calls c) (rin_reused wv sentinel_owned_writes calls k c) a
          <> traffic_after key pure wr genp (unit_plan fuzz_pos) [] [] (rin_rebuilt k c) a.
Proof. exact settings_write_sentinel_refuted. Qed.
Print Assumptions C13_settings_write_sentinel_refuted.

Theorem C13_settings_write_sentinel_differs_from_current_plan :
  sentinel_owned_writes <> gen_owned_writes
  /\ no_owned_write sentinel_owned_writes [all_phases_call] = false /\ no_owned_write gen_owned_writes [all_phases_call] = true
  /\ no_owned_write sentinel_owned_writes [unit_phases_call] = true.
Proof. exact settings_write_sentinel_differs. Qed.
Print Assumptions C13_settings_write_sentinel_differs_from_current_plan.
