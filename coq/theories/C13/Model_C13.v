(* C13 - a fixed seed reproduces the same sequence of requests.

   Entropy-flow model.  Executable definitions only.

   A request value can only come from a draw site.  Each draw site of the source is tagged by where
   its randomness comes from:
     Seeded off step : a function of the configured seed (suite k of the stateful phase uses seed + off + step * k;
                       create_test: hypothesis.seed(config.seed) -> Seeded 0 0)
     Ambient kind    : process-global / unseeded entropy
                       Unseeded  - a @given test without hypothesis.seed (generate_one: Hypothesis falls back to its
                                   thread-local Random() seeded from the OS)
                       OsRandom  - os.urandom / an own random.Random()
                       HashOrder - iteration order of a set of strings (PYTHONHASHSEED)
                       SharedState - state a worker keeps across operations (what it holds depends on which operations the
                                   thread handled before: the schedule)
   The list of sites of the CURRENT source is not written here: it is generated on every run by
   harness/props/c13_translate.py into Gen_C13.v (gen_sites).

   The foreign generator (Hypothesis + hypothesis-jsonschema as a function of its PRNG state) is the parameter gen of run. *)
From Coq Require Import List NArith Bool.
Import ListNotations.
Open Scope N_scope.

Inductive akind := Unseeded | OsRandom | HashOrder | SharedState.
Inductive tag := Seeded (offset step : N) | Ambient (k : akind).
Inductive phase := Examples | Coverage | Fuzzing | Stateful.

Record site := mkSite {
  s_id : N;
  s_tag : tag;
  s_phases : list phase;       (* phases in which the site can be drawn from *)
  s_neg_only : bool;           (* only with the negative generation mode *)
  s_multipart_only : bool;     (* only for multipart request bodies *)
  s_in_request : bool          (* false: the value never reaches the compared part of a request (per-case id header) *)
}.

(* the context a request is generated in *)
Record ctx := mkCtx { x_phase : phase; x_negative : bool; x_multipart : bool }.

Definition phase_eqb (a b : phase) : bool :=
  match a, b with
  | Examples, Examples | Coverage, Coverage | Fuzzing, Fuzzing | Stateful, Stateful => true
  | _, _ => false
  end.

Definition akind_eqb (a b : akind) : bool :=
  match a, b with
  | Unseeded, Unseeded | OsRandom, OsRandom | HashOrder, HashOrder | SharedState, SharedState => true
  | _, _ => false
  end.

Definition in_phases (p : phase) (l : list phase) : bool := existsb (phase_eqb p) l.

Definition active (s : site) (x : ctx) : bool :=
  in_phases (x_phase x) (s_phases s)
  && (negb (s_neg_only s) || x_negative x)
  && (negb (s_multipart_only s) || x_multipart x).

(* the sites whose values make up a request of context x *)
Definition contributes (s : site) (x : ctx) : bool := active s x && s_in_request s.

Definition is_seeded (s : site) : bool := match s_tag s with Seeded _ _ => true | Ambient _ => false end.
Definition is_ambient (s : site) : bool := negb (is_seeded s).
Definition has_kind (k : akind) (s : site) : bool :=
  match s_tag s with Ambient k0 => akind_eqb k k0 | Seeded _ _ => false end.

(* one unit of work: w_count requests of operation w_op generated in context w_ctx, in suite number w_suite
   (0 except for re-runs of the state machine) *)
Record work := mkWork { w_op : N; w_ctx : ctx; w_suite : N; w_count : nat }.

Definition plan := (list site * list work)%type.
Definition request := list N.

(* ambient entropy: anything - indexed by site, operation, position *)
Definition ambient := N -> N -> N -> N.

Definition entropy (s : site) (seed : N) (a : ambient) (w : work) (i : N) : N :=
  match s_tag s with
  | Seeded off step => seed + off + step * w_suite w
  | Ambient _ => a (s_id s) (w_op w) i
  end.

Fixpoint nseq (start : N) (len : nat) : list N :=
  match len with O => [] | S n => start :: nseq (N.succ start) n end.

Section Run.
  (* site id -> entropy -> operation -> position -> value *)
  Variable gen : N -> N -> N -> N -> N.

  Definition draw (seed : N) (a : ambient) (w : work) (i : N) (s : site) : N :=
    gen (s_id s) (entropy s seed a w i) (w_op w) i.

  Definition request_of (sites : list site) (seed : N) (a : ambient) (w : work) (i : N) : request :=
    map (draw seed a w i) (filter (fun s => contributes s (w_ctx w)) sites).

  Definition run_work (sites : list site) (seed : N) (a : ambient) (w : work) : list request :=
    map (request_of sites seed a w) (nseq 0 (w_count w)).

  Definition run (p : plan) (seed : N) (a : ambient) : list request :=
    flat_map (run_work (fst p) seed a) (snd p).
End Run.

(* ---- region predicates (executable) ---- *)
Definition ctx_seeded (sites : list site) (x : ctx) : bool :=
  forallb (fun s => negb (contributes s x) || is_seeded s) sites.

Definition ambient_active (sites : list site) (x : ctx) : bool :=
  existsb (fun s => contributes s x && is_ambient s) sites.

Definition ambient_kind_active (k : akind) (sites : list site) (x : ctx) : bool :=
  existsb (fun s => contributes s x && has_kind k s) sites.

Definition all_seeded (p : plan) : bool :=
  forallb (fun w => ctx_seeded (fst p) (w_ctx w)) (snd p).

Definition works_in (region : ctx -> bool) (ws : list work) : bool := forallb (fun w => region (w_ctx w)) ws.

(* ids of the ambient sites that contribute in a context: what a divergence there is attributed to *)
Definition ambient_ids (sites : list site) (x : ctx) : list N :=
  map s_id (filter (fun s => contributes s x && is_ambient s) sites).

Definition ambient_ids_of_kind (k : akind) (sites : list site) (x : ctx) : list N :=
  map s_id (filter (fun s => contributes s x && has_kind k s) sites).

(* every context, and for each the ambient sites a divergence can be attributed to *)
Definition all_phases : list phase := [Examples; Coverage; Fuzzing; Stateful].
Definition all_ctxs : list ctx :=
  flat_map (fun p => [mkCtx p false false; mkCtx p true false; mkCtx p false true; mkCtx p true true]) all_phases.
Definition ambient_table (sites : list site) : list (list N) := map (ambient_ids sites) all_ctxs.

(* the seeds Hypothesis is given in a context: unit phases one per operation, the state machine one per suite *)
Definition seeded_values (sites : list site) (x : ctx) (seed : N) (suite : N) : list N :=
  flat_map (fun s => if active s x then match s_tag s with Seeded off step => [seed + off + step * suite] | Ambient _ => [] end else []) sites.

Definition suite_seeds (sites : list site) (x : ctx) (seed : N) (suites : nat) : list (list N) :=
  map (seeded_values sites x seed) (nseq 0 suites).

(* ---- workers: an interleaving of per-operation request lists ----
   Each operation is generated by one worker from its own list; a schedule says whose turn it is.  A turn of an
   operation with nothing left is a no-op. *)
Section Interleave.
  Context {A : Type}.

  Fixpoint take_nth (i : nat) (ls : list (list A)) : option (A * list (list A)) :=
    match ls with
    | [] => None
    | l :: rest =>
      match i with
      | O => match l with [] => None | x :: l' => Some (x, l' :: rest) end
      | S j => match take_nth j rest with Some (x, rest') => Some (x, l :: rest') | None => None end
      end
    end.

  Fixpoint interleave (sched : list nat) (ls : list (list A)) : list (nat * A) :=
    match sched with
    | [] => []
    | i :: sched' =>
      match take_nth i ls with
      | Some (x, ls') => (i, x) :: interleave sched' ls'
      | None => interleave sched' ls
      end
    end.

  Definition proj_op (i : nat) (out : list (nat * A)) : list A :=
    map snd (filter (fun p => Nat.eqb (fst p) i) out).

  Definition complete (sched : list nat) (ls : list (list A)) : bool :=
    Nat.eqb (length (interleave sched ls)) (length (concat ls)).

  (* one worker: operations one after the other *)
  Fixpoint sequential_from (i : nat) (ls : list (list A)) : list nat :=
    match ls with [] => [] | l :: rest => repeat i (length l) ++ sequential_from (S i) rest end.
  Definition sequential (ls : list (list A)) : list nat := sequential_from 0 ls.
End Interleave.

(* the same with generation that READS process-global state written by whoever ran before (here: the number of turns taken so
   far by anybody - think of sys.modules / a cache filled by other workers): the hypothesis of the workers theorem fails *)
Fixpoint run_shared (gen : N -> N -> N) (sched : list nat) (clock : N) : list (nat * N) :=
  match sched with
  | [] => []
  | i :: sched' => (i, gen (N.of_nat i) clock) :: run_shared gen sched' (N.succ clock)
  end.

(* checked against real multi-worker runs: does the observed tagged traffic equal the interleaving of the
   one-worker per-operation lists under the observed schedule *)
Definition observed_is_interleaving (per_op : list (list N)) (observed : list (nat * N)) : bool :=
  let sched := map fst observed in
  let out := interleave sched per_op in
  Nat.eqb (length out) (length (concat per_op))
  && forallb (fun pq => Nat.eqb (fst (fst pq)) (fst (snd pq)) && N.eqb (snd (fst pq)) (snd (snd pq))) (combine out observed)
  && Nat.eqb (length out) (length observed).

(* ---- process-wide state carried from one run to the next in the same process ----
   A carried site is a process-wide mutable object (module-level dict, the return value of an lru_cache-d function, a class-level
   attribute) that generation code writes and reads.  The sites of the CURRENT source are generated into Gen_C13.gen_carried by
   harness/props/c13_translate.py (process_state_scan + the lru_cache-d functions), each with its discipline:
     Memo       an entry is written only when absent and its content is a function of its key (lru_cache on a pure function, a
                cache keyed by the identity of a per-run object)
     Registry   written by the user between runs through a public registration function (part of the configuration), never by a run
     RunWritten anything else: a run writes what its own configuration says and a later run reads what was left *)
Inductive cclass := Memo | Registry | RunWritten.

Record csite := mkCSite {
  c_id : N;
  c_class : cclass;
  c_phases : list phase;      (* phases whose requests can depend on the content *)
  c_in_request : bool         (* false: the content never reaches a request (report sanitisation, hook specifications, ...) *)
}.

Definition c_safe (c : csite) : bool := match c_class c with RunWritten => false | _ => true end.
Definition c_reads (c : csite) (x : ctx) : bool := in_phases (x_phase x) (c_phases c) && c_in_request c.

(* region predicates *)
Definition carried_safe (cs : list csite) (x : ctx) : bool := forallb (fun c => negb (c_reads c x) || c_safe c) cs.
Definition carried_unsafe_active (cs : list csite) (x : ctx) : bool := existsb (fun c => c_reads c x && negb (c_safe c)) cs.
Definition unsafe_ids (cs : list csite) (x : ctx) : list N := map c_id (filter (fun c => c_reads c x && negb (c_safe c)) cs).
Definition unsafe_table (cs : list csite) : list (list N) := map (unsafe_ids cs) all_ctxs.
Definition works_carried_safe (cs : list csite) (ws : list work) : bool := forallb (fun w => carried_safe cs (w_ctx w)) ws.

Fixpoint ids_distinct_from (seen : list N) (l : list N) : bool :=
  match l with
  | [] => true
  | i :: l' => negb (existsb (N.eqb i) seen) && ids_distinct_from (i :: seen) l'
  end.
Definition ids_distinct (cs : list csite) : bool := ids_distinct_from [] (map c_id cs).

(* the inputs of a run: the property says the traffic is a function of these *)
Record rin := mkRin { r_seed : N; r_schema : N; r_cfg : N }.

(* the state of the process: carrier id -> key -> content; a fresh process has nothing *)
Definition store := N -> N -> option N.
Definition empty_store : store := fun _ _ => None.
Definition upd (st : store) (c k v : N) : store :=
  fun c' k' => if (N.eqb c c' && N.eqb k k')%bool then Some v else st c' k'.

Section Carried.
  Variable key : N -> rin -> N.          (* which entry of a carrier a run touches: any function of the run *)
  Variable pure : N -> N -> N.           (* Memo: the content of an entry is a function of its key *)
  Variable wr : N -> rin -> option N.    (* RunWritten: what this run writes, if it writes *)

  Definition step_site (r : rin) (st : store) (c : csite) : store :=
    let k := key (c_id c) r in
    match c_class c with
    | Memo => match st (c_id c) k with Some _ => st | None => upd st (c_id c) k (pure (c_id c) k) end
    | Registry => st
    | RunWritten => match wr (c_id c) r with Some v => upd st (c_id c) k v | None => st end
    end.

  (* what one run does to the process; the state after a history of runs in a fresh process *)
  Definition step_run (cs : list csite) (st : store) (r : rin) : store := fold_left (step_site r) cs st.
  Definition after (cs : list csite) (hist : list rin) : store := fold_left (step_run cs) hist empty_store.

  Definition read_site (r : rin) (st : store) (c : csite) : option N := st (c_id c) (key (c_id c) r).
  Definition reads (cs : list csite) (r : rin) (st : store) (x : ctx) : list (option N) :=
    map (read_site r st) (filter (fun c => c_reads c x) cs).

  (* schema, configuration and the contents read from the carried sites give the generator of run *)
  Variable genp : N -> N -> list (option N) -> N -> N -> N -> N -> N.

  Definition run_in (p : plan) (cs : list csite) (r : rin) (a : ambient) (st : store) : list request :=
    let st' := step_run cs st r in
    flat_map (fun w => run_work (genp (r_schema r) (r_cfg r) (reads cs r st' (w_ctx w))) (fst p) (r_seed r) a w) (snd p).

  (* the traffic of run r when the runs of hist preceded it in the same process; hist = [] is a fresh process *)
  Definition traffic_after (p : plan) (cs : list csite) (hist : list rin) (r : rin) (a : ambient) : list request :=
    run_in p cs r a (after cs hist).
End Carried.

(* checked against snapshots of the real carriers taken around real runs (site id, key token, value token): an entry that exists
   before and after a run has the same content - what step_site does for Memo and Registry sites *)
Definition entry := (N * N * N)%type.
Definition same_slot (e e' : entry) : bool := N.eqb (fst (fst e)) (fst (fst e')) && N.eqb (snd (fst e)) (snd (fst e')).
Definition entries_not_overwritten (before after_ : list entry) : bool :=
  forallb (fun e => forallb (fun e' => negb (same_slot e e') || N.eqb (snd e) (snd e')) after_) before.
Definition overwritten_sites (before after_ : list entry) : list N :=
  map (fun e => fst (fst e)) (filter (fun e => existsb (fun e' => same_slot e e' && negb (N.eqb (snd e) (snd e'))) after_) before).
(* Registry sites and module-level constants: a run changes nothing at all *)
Definition entry_eqb (e e' : entry) : bool := same_slot e e' && N.eqb (snd e) (snd e').
Definition entries_same (before after_ : list entry) : bool :=
  forallb (fun e => existsb (entry_eqb e) after_) before && forallb (fun e => existsb (entry_eqb e) before) after_.
Definition changed_sites (before after_ : list entry) : list N :=
  map (fun e => fst (fst e)) (filter (fun e => negb (existsb (entry_eqb e) after_)) before)
  ++ map (fun e => fst (fst e)) (filter (fun e => negb (existsb (entry_eqb e) before)) after_).
(* the store of the model as a list of entries, for the correspondence *)
Definition store_entries (st : store) (slots : list (N * N)) : list entry :=
  flat_map (fun ck => match st (fst ck) (snd ck) with Some v => [(fst ck, snd ck, v)] | None => [] end) slots.

(* ---- caller-owned configuration: the INPUT OBJECTS of a run ----
   Through the engine API the caller does not pass a configuration VALUE but OBJECTS (EngineConfig / ExecutionConfig / NetworkConfig /
   GenerationConfig / Override / checks config) and keeps them.  A caller that starts a second run with the same objects carries
   whatever the first run wrote into them: they belong to the state carried from run to run, like a module-level dict.
   A write site (Gen_C13.gen_owned_writes, extracted by harness/props/c13_translate.py owned_config_scan) is a place where code
   reachable from a run assigns into such an object; it is executed by the runs that execute one of its phases. *)
Record wsite := mkWSite { w_id : N; w_phases : list phase }.

Definition w_runs (phs : list phase) (w : wsite) : bool := existsb (fun p => in_phases p (w_phases w)) phs.
Definition owned_writes_active (ws : list wsite) (phs : list phase) : list N := map w_id (filter (w_runs phs) ws).

(* one call of the engine: seed, schema, the phases it executes; the configuration is the object the caller holds *)
Record call := mkCall { k_seed : N; k_schema : N; k_phases : list phase }.

Section Owned.
  Variable wv : N -> N -> N.     (* what write site i makes of the configuration value c: any function *)

  Definition write_site (phs : list phase) (c : N) (w : wsite) : N := if w_runs phs w then wv (w_id w) c else c.
  (* the value of the caller's objects after one run / after a sequence of runs that were all given these objects *)
  Definition cfg_after_run (ws : list wsite) (c : N) (k : call) : N := fold_left (write_site (k_phases k)) ws c.
  Definition cfg_after (ws : list wsite) (calls : list call) (c : N) : N := fold_left (cfg_after_run ws) calls c.

  (* the inputs the runs REALLY get when the caller reuses its objects ... *)
  Fixpoint hist_reused (ws : list wsite) (calls : list call) (c : N) : list rin :=
    match calls with
    | [] => []
    | k :: rest => mkRin (k_seed k) (k_schema k) c :: hist_reused ws rest (cfg_after_run ws c k)
    end.
  Definition rin_reused (ws : list wsite) (before : list call) (k : call) (c : N) : rin :=
    mkRin (k_seed k) (k_schema k) (cfg_after ws before c).
  (* ... and when it builds equal objects from scratch for every run (what the property means by "the same configuration") *)
  Definition rin_rebuilt (k : call) (c : N) : rin := mkRin (k_seed k) (k_schema k) c.
  Definition hist_rebuilt (calls : list call) (c : N) : list rin := map (fun k => rin_rebuilt k c) calls.

  Definition no_owned_write (ws : list wsite) (calls : list call) : bool :=
    forallb (fun k => match owned_writes_active ws (k_phases k) with [] => true | _ => false end) calls.
End Owned.

(* checked against deep field-by-field dumps of the real configuration objects taken right before and right after real runs
   (field path token, value token): the fields whose value changed, appeared or disappeared *)
Definition field_eqb (e e' : N * N) : bool := N.eqb (fst e) (fst e') && N.eqb (snd e) (snd e').
Definition changed_fields (before after_ : list (N * N)) : list N :=
  map fst (filter (fun e => negb (existsb (field_eqb e) after_)) before)
  ++ map fst (filter (fun e => negb (existsb (field_eqb e) before)) after_).
