(* C13 - proofs about the entropy-flow model, the interleaving model and the plan generated from the source. *)
From Coq Require Import List NArith Bool Arith Lia ZifyBool Permutation.
From Verif Require Import C13.Model_C13 C13.Gen_C13.
Import ListNotations.
Open Scope N_scope.

(* ------------------------------------------------------------------------------------ *)
(* 1. seeded sites do not look at the ambient entropy                                     *)
(* ------------------------------------------------------------------------------------ *)
Lemma entropy_seeded : forall s seed a a' w i, is_seeded s = true -> entropy s seed a w i = entropy s seed a' w i.
Proof.
  intros s seed a a' w i Hs. unfold entropy, is_seeded in *. destruct (s_tag s); [reflexivity | discriminate].
Qed.

Lemma request_of_seeded : forall gen sites seed a a' w i,
  ctx_seeded sites (w_ctx w) = true -> request_of gen sites seed a w i = request_of gen sites seed a' w i.
Proof.
  intros gen sites seed a a' w i Hc. unfold request_of.
  apply map_ext_in. intros s Hin. apply filter_In in Hin. destruct Hin as [Hin Hcontr].
  unfold ctx_seeded in Hc. rewrite forallb_forall in Hc. specialize (Hc s Hin).
  rewrite Hcontr in Hc. cbn [negb orb] in Hc.
  unfold draw. rewrite (entropy_seeded s seed a a' w i Hc). reflexivity.
Qed.

Lemma run_work_seeded : forall gen sites seed a a' w,
  ctx_seeded sites (w_ctx w) = true -> run_work gen sites seed a w = run_work gen sites seed a' w.
Proof.
  intros gen sites seed a a' w Hc. unfold run_work. apply map_ext. intro i. apply request_of_seeded. exact Hc.
Qed.

Lemma seeded_plan_deterministic : forall gen p seed a a',
  all_seeded p = true -> run gen p seed a = run gen p seed a'.
Proof.
  intros gen [sites ws] seed a a' H. unfold run, all_seeded in *. cbn [fst snd] in *.
  induction ws as [|w ws IH]; [reflexivity|].
  cbn [forallb] in H. apply andb_true_iff in H. destruct H as [Hw Hws].
  cbn [flat_map]. rewrite (run_work_seeded gen sites seed a a' w Hw). rewrite (IH Hws). reflexivity.
Qed.

(* non-vacuity: a plan with two seeded sites, a suite re-run and three requests *)
Example seeded_plan_example :
  all_seeded ([mkSite 1 (Seeded 0 0) [Fuzzing] false false true; mkSite 2 (Seeded 0 1) [Stateful] false false true],
              [mkWork 0 (mkCtx Fuzzing false false) 0 3; mkWork 1 (mkCtx Stateful true false) 1 2]) = true
  /\ length (run (fun sid e op i => sid + e + op + i)
                 ([mkSite 1 (Seeded 0 0) [Fuzzing] false false true; mkSite 2 (Seeded 0 1) [Stateful] false false true],
                  [mkWork 0 (mkCtx Fuzzing false false) 0 3; mkWork 1 (mkCtx Stateful true false) 1 2]) 7 (fun _ _ _ => 0)) = 5%nat.
Proof. split; vm_compute; reflexivity. Qed.

(* the partial statement: works confined to a region of contexts in which every contributing site is seeded *)
Lemma region_deterministic : forall (region : ctx -> bool) sites,
  (forall x, region x = true -> ctx_seeded sites x = true) ->
  forall gen ws seed a a', works_in region ws = true -> run gen (sites, ws) seed a = run gen (sites, ws) seed a'.
Proof.
  intros region sites Hr gen ws seed a a' Hw. apply seeded_plan_deterministic.
  unfold all_seeded, works_in in *. cbn [fst snd]. rewrite forallb_forall in *. intros w Hin. apply Hr. apply Hw. exact Hin.
Qed.

(* ------------------------------------------------------------------------------------ *)
(* 2. an ambient site that contributes makes two runs differ                              *)
(* ------------------------------------------------------------------------------------ *)
Lemma map_neq : forall (A B : Type) (f g : A -> B) (l : list A) (x : A), In x l -> f x <> g x -> map f l <> map g l.
Proof.
  intros A B f g l x Hin Hne Heq. induction l as [|y l IH]; [inversion Hin|].
  cbn [map] in Heq. injection Heq as Hhd Htl. destruct Hin as [-> | Hin]; [exact (Hne Hhd) | exact (IH Hin Htl)].
Qed.

Definition wit_gen : N -> N -> N -> N -> N := fun _ e _ _ => e.
Definition wit_a0 : ambient := fun _ _ _ => 0.
Definition wit_a1 : ambient := fun _ _ _ => 1.

Lemma ambient_diverges : forall sites x, ambient_active sites x = true ->
  run wit_gen (sites, [mkWork 0 x 0 1]) 0 wit_a0 <> run wit_gen (sites, [mkWork 0 x 0 1]) 0 wit_a1.
Proof.
  intros sites x H. unfold ambient_active in H. apply existsb_exists in H. destruct H as [s [Hin Hs]].
  apply andb_true_iff in Hs. destruct Hs as [Hc Ha].
  unfold run. cbn [fst snd flat_map]. rewrite !app_nil_r. unfold run_work. cbn [w_count nseq map].
  intro Heq. injection Heq as Heq. revert Heq. unfold request_of. cbn [w_ctx].
  apply (map_neq _ _ _ _ _ s).
  - apply filter_In. split; assumption.
  - unfold draw, wit_gen, entropy. unfold is_ambient, is_seeded in Ha. destruct (s_tag s); [discriminate|].
    unfold wit_a0, wit_a1. discriminate.
Qed.

Lemma ctx_seeded_ambient : forall sites x, ctx_seeded sites x = negb (ambient_active sites x).
Proof.
  intros sites x. unfold ctx_seeded, ambient_active, is_ambient.
  induction sites as [|s sites IH]; [reflexivity|].
  cbn [forallb existsb]. rewrite IH. destruct (contributes s x), (is_seeded s); reflexivity.
Qed.

Lemma context_dichotomy : forall sites x,
  (ctx_seeded sites x = true /\
   forall gen w seed a a', w_ctx w = x -> run_work gen sites seed a w = run_work gen sites seed a' w)
  \/ (ambient_active sites x = true /\
      exists gen seed a a', run gen (sites, [mkWork 0 x 0 1]) seed a <> run gen (sites, [mkWork 0 x 0 1]) seed a').
Proof.
  intros sites x. destruct (ambient_active sites x) eqn:Ha.
  - right. split; [reflexivity|]. exists wit_gen, 0, wit_a0, wit_a1. apply ambient_diverges. exact Ha.
  - left. assert (Hc : ctx_seeded sites x = true) by (rewrite ctx_seeded_ambient, Ha; reflexivity).
    split; [exact Hc|]. intros gen w seed a a' Hw. apply run_work_seeded. rewrite Hw. exact Hc.
Qed.

Lemma kind_active_ambient : forall k sites x, ambient_kind_active k sites x = true -> ambient_active sites x = true.
Proof.
  intros k sites x H. unfold ambient_kind_active in H. apply existsb_exists in H. destruct H as [s [Hin Hs]].
  apply andb_true_iff in Hs. destruct Hs as [Hc Hk].
  unfold ambient_active. apply existsb_exists. exists s. split; [exact Hin|].
  rewrite Hc. unfold has_kind in Hk. unfold is_ambient, is_seeded. destruct (s_tag s); [discriminate|reflexivity].
Qed.

(* ------------------------------------------------------------------------------------ *)
(* 3. the plan generated from the source today                                            *)
(* ------------------------------------------------------------------------------------ *)
Definition ex_pos := mkCtx Examples false false.
Definition cov_pos := mkCtx Coverage false false.
Definition cov_neg := mkCtx Coverage true false.
Definition fuzz_pos := mkCtx Fuzzing false false.
Definition fuzz_neg := mkCtx Fuzzing true false.
Definition fuzz_mp := mkCtx Fuzzing false true.
Definition st_pos := mkCtx Stateful false false.
Definition st_neg := mkCtx Stateful true false.

(* the region in which the current source is reproducible: fuzzing and stateful, positive and negative mode, no multipart body
   (negative mode joined it with the change_type fix, a5c169d7) *)
Definition seeded_region_today (x : ctx) : bool :=
  match x_phase x with Fuzzing | Stateful => negb (x_multipart x) | _ => false end.

Lemma seeded_region_today_ok : forall x, seeded_region_today x = true -> ctx_seeded gen_sites x = true.
Proof.
  intros [p n m] H. destruct p, n, m; try discriminate H; vm_compute; reflexivity.
Qed.

Lemma fuzzing_stateful_deterministic : forall gen ws seed a a',
  works_in seeded_region_today ws = true -> run gen (gen_sites, ws) seed a = run gen (gen_sites, ws) seed a'.
Proof. exact (region_deterministic seeded_region_today gen_sites seeded_region_today_ok). Qed.

Example seeded_region_today_nonvacuous :
  works_in seeded_region_today [mkWork 0 fuzz_pos 0 4; mkWork 1 fuzz_neg 0 4; mkWork 0 st_pos 0 9; mkWork 0 st_neg 1 9] = true
  /\ length (run wit_gen (gen_sites, [mkWork 0 fuzz_neg 0 4; mkWork 0 st_pos 1 9]) 5 wit_a0) = 13%nat.
Proof. split; vm_compute; reflexivity. Qed.

(* the generated plan for any region in which it is seeded (whatever the source becomes) *)
Lemma current_plan_partial : forall gen ws seed a a',
  works_in (ctx_seeded gen_sites) ws = true -> run gen (gen_sites, ws) seed a = run gen (gen_sites, ws) seed a'.
Proof. intros. apply (region_deterministic (ctx_seeded gen_sites) gen_sites); auto. Qed.

Lemma refuted_in : forall x, ambient_active gen_sites x = true ->
  exists gen seed a a', run gen (gen_sites, [mkWork 0 x 0 1]) seed a <> run gen (gen_sites, [mkWork 0 x 0 1]) seed a'.
Proof. intros x H. exists wit_gen, 0, wit_a0, wit_a1. apply ambient_diverges. exact H. Qed.

Lemma examples_refuted :
  ambient_kind_active Unseeded gen_sites ex_pos = true
  /\ exists gen seed a a', run gen (gen_sites, [mkWork 0 ex_pos 0 1]) seed a <> run gen (gen_sites, [mkWork 0 ex_pos 0 1]) seed a'.
Proof. split; [vm_compute; reflexivity|]. apply refuted_in. vm_compute. reflexivity. Qed.

Lemma coverage_refuted :
  ambient_kind_active Unseeded gen_sites cov_pos = true /\ ambient_kind_active Unseeded gen_sites cov_neg = true
  /\ exists gen seed a a', run gen (gen_sites, [mkWork 0 cov_pos 0 1]) seed a <> run gen (gen_sites, [mkWork 0 cov_pos 0 1]) seed a'.
Proof. split; [vm_compute; reflexivity|]. split; [vm_compute; reflexivity|]. apply refuted_in. vm_compute. reflexivity. Qed.

Lemma multipart_refuted :
  ambient_kind_active OsRandom gen_sites fuzz_mp = true
  /\ exists gen seed a a', run gen (gen_sites, [mkWork 0 fuzz_mp 0 1]) seed a <> run gen (gen_sites, [mkWork 0 fuzz_mp 0 1]) seed a'.
Proof. split; [vm_compute; reflexivity|]. apply refuted_in. vm_compute. reflexivity. Qed.

(* HashOrder.  Until a5c169d7 / 353ffa52 the source had three places where the iteration order of a set of strings was observable
   (findings F4, F5, now fixed): the plan of that source is kept as a labelled sentinel. *)
Definition legacy_hash_order_sites : list site :=
  [ mkSite 10 (Ambient HashOrder) [Examples] false false true;          (* examples.py extract_top_level: for f in {example, x-example}, parameters *)
    mkSite 11 (Ambient HashOrder) [Examples] false false true;          (* the same for request bodies *)
    mkSite 12 (Ambient HashOrder) [Fuzzing; Stateful] true false true   (* mutations.py change_type: is_enabled draws while iterating a set *)
  ].
Definition sentinel_sites_before_hash_fixes : list site := gen_sites ++ legacy_hash_order_sites.

Lemma hash_order_fixed : forall x, ambient_kind_active HashOrder gen_sites x = false.
Proof. intros [p n m]. destruct p, n, m; vm_compute; reflexivity. Qed.

Lemma hash_order_sentinel_refuted :
  ambient_kind_active HashOrder sentinel_sites_before_hash_fixes fuzz_neg = true
  /\ ambient_kind_active HashOrder sentinel_sites_before_hash_fixes st_neg = true
  /\ ambient_kind_active HashOrder sentinel_sites_before_hash_fixes ex_pos = true
  /\ exists gen seed a a', run gen (sentinel_sites_before_hash_fixes, [mkWork 0 fuzz_neg 0 1]) seed a
                          <> run gen (sentinel_sites_before_hash_fixes, [mkWork 0 fuzz_neg 0 1]) seed a'.
Proof.
  repeat (split; [vm_compute; reflexivity|]).
  exists wit_gen, 0, wit_a0, wit_a1. apply ambient_diverges. vm_compute. reflexivity.
Qed.

Lemma sentinel_differs : ambient_table sentinel_sites_before_hash_fixes <> ambient_table gen_sites
  /\ ctx_seeded sentinel_sites_before_hash_fixes fuzz_neg = false /\ ctx_seeded gen_sites fuzz_neg = true.
Proof. split; [vm_compute; discriminate|]. split; vm_compute; reflexivity. Qed.

(* the complete table of today: for each of the 16 contexts (phase x negative x multipart, in the order of all_ctxs) the ids of the
   ambient sites a divergence there can be attributed to.  A new ambient site in the source (or a removed one) changes Gen_C13.v
   and breaks this lemma: the findings have to be re-read. *)
Lemma current_ambient_table :
  ambient_table gen_sites =
  [ [3; 4]; [3; 4]; [3; 4; 7]; [3; 4; 7];
    [5]; [5]; [5; 7]; [5; 7];
    []; []; [7]; [7];
    []; []; [7]; [7] ].
Proof. vm_compute. reflexivity. Qed.

(* the hypothesis of the workers theorem, as far as the translator can see it in the source: worker_task keeps nothing across
   operations (no local bound outside the operation loop and read inside it), get_strategy_kwargs mutates only objects it created,
   no module-level mutable state, one shared operations iterator under the lock *)
Lemma no_cross_operation_state : existsb (has_kind SharedState) gen_sites = false.
Proof. vm_compute. reflexivity. Qed.

Lemma no_cross_operation_state_ctx : forall x, ambient_kind_active SharedState gen_sites x = false.
Proof.
  intros [p n m]. destruct p, n, m; vm_compute; reflexivity.
Qed.

(* the per-case id is drawn from ambient entropy but is outside the compared request *)
Lemma case_id_not_in_request : forall s, In s gen_sites -> has_kind OsRandom s = true -> s_multipart_only s = false -> s_in_request s = false.
Proof.
  assert (H : forallb (fun s => negb (has_kind OsRandom s) || s_multipart_only s || negb (s_in_request s)) gen_sites = true)
    by (vm_compute; reflexivity).
  rewrite forallb_forall in H. intros s Hin Hk Hm. specialize (H s Hin). rewrite Hk, Hm in H. cbn in H.
  destruct (s_in_request s); [discriminate|reflexivity].
Qed.

(* seeds handed to Hypothesis *)
Lemma unit_seed_is_config_seed : forall seed k,
  seeded_values gen_sites ex_pos seed k = [seed] /\ seeded_values gen_sites cov_neg seed k = [seed]
  /\ seeded_values gen_sites fuzz_pos seed k = [seed] /\ seeded_values gen_sites fuzz_neg seed k = [seed].
Proof.
  intros seed k. unfold seeded_values, gen_sites. cbn -[N.add N.mul]. repeat split; f_equal; lia.
Qed.

Lemma stateful_seed_per_suite : forall seed k,
  seeded_values gen_sites st_pos seed k = [seed + k] /\ seeded_values gen_sites st_neg seed k = [seed + k].
Proof.
  intros seed k. unfold seeded_values, gen_sites. cbn -[N.add N.mul]. split; f_equal; lia.
Qed.

Lemma suite_seeds_distinct : forall seed off step k k',
  step <> 0 -> k <> k' -> seed + off + step * k <> seed + off + step * k'.
Proof. intros seed off step k k' Hs Hk. nia. Qed.

Lemma stateful_reruns_use_fresh_seeds : forall seed k k', k <> k' ->
  seeded_values gen_sites st_pos seed k <> seeded_values gen_sites st_pos seed k'.
Proof.
  intros seed k k' Hk. destruct (stateful_seed_per_suite seed k) as [-> _]. destruct (stateful_seed_per_suite seed k') as [-> _].
  intro H. injection H as H. lia.
Qed.

(* CLI *)
Lemma cli_fixed_seed_is_used : forall n d fresh, gen_cli_seed (Some n) d fresh = Some n.
Proof. intros n d fresh. unfold gen_cli_seed. cbn. reflexivity. Qed.

Lemma cli_no_seed : forall fresh, gen_cli_seed None false fresh = Some fresh /\ gen_cli_seed None true fresh = None.
Proof. intro fresh. split; reflexivity. Qed.

(* ------------------------------------------------------------------------------------ *)
(* 4. workers: interleavings                                                              *)
(* ------------------------------------------------------------------------------------ *)
Section InterleaveProofs.
  Context {A : Type}.
  Open Scope nat_scope.

  Lemma take_nth_spec : forall i (ls ls' : list (list A)) x,
    take_nth i ls = Some (x, ls') ->
    nth i ls [] = x :: nth i ls' []
    /\ (forall j, j <> i -> nth j ls' [] = nth j ls [])
    /\ length ls' = length ls
    /\ Permutation (concat ls) (x :: concat ls').
  Proof.
    induction i as [|i IH]; intros ls ls' x H.
    - destruct ls as [|l rest]; [discriminate|]. cbn [take_nth] in H. destruct l as [|y l']; [discriminate|].
      injection H as <- <-. repeat split.
      + intros j Hj. destruct j; [contradiction|reflexivity].
      + cbn [concat app]. reflexivity.
    - destruct ls as [|l rest]; [discriminate|]. cbn [take_nth] in H.
      destruct (take_nth i rest) as [[y rest']|] eqn:Ht; [|discriminate].
      injection H as <- <-. destruct (IH rest rest' y Ht) as [Hn [Ho [Hl Hp]]]. repeat split.
      + exact Hn.
      + intros j Hj. destruct j; [reflexivity|]. cbn [nth]. apply Ho. lia.
      + cbn [length]. rewrite Hl. reflexivity.
      + cbn [concat]. rewrite Hp. apply Permutation_sym. apply Permutation_middle.
  Qed.

  Lemma take_nth_none : forall i (ls : list (list A)), take_nth i ls = None -> nth i ls [] = [].
  Proof.
    induction i as [|i IH]; intros ls H.
    - destruct ls as [|l rest]; [reflexivity|]. cbn [take_nth] in H. destruct l; [reflexivity|discriminate].
    - destruct ls as [|l rest]; [reflexivity|]. cbn [take_nth] in H. cbn [nth].
      destruct (take_nth i rest) as [[y rest']|] eqn:Ht; [discriminate|]. apply IH. exact Ht.
  Qed.

  (* what is left after a schedule *)
  Fixpoint remaining (sched : list nat) (ls : list (list A)) : list (list A) :=
    match sched with
    | [] => ls
    | i :: sched' => match take_nth i ls with Some (_, ls') => remaining sched' ls' | None => remaining sched' ls end
    end.

  Lemma proj_cons_same : forall i (x : A) out, proj_op i ((i, x) :: out) = x :: proj_op i out.
  Proof. intros. unfold proj_op. cbn [filter fst]. rewrite Nat.eqb_refl. reflexivity. Qed.

  Lemma proj_cons_other : forall i j (x : A) out, j <> i -> proj_op i ((j, x) :: out) = proj_op i out.
  Proof. intros i j x out H. unfold proj_op. cbn [filter fst]. apply Nat.eqb_neq in H. rewrite H. reflexivity. Qed.

  (* per operation: what was sent, followed by what is left, is the list of that operation - in order *)
  Lemma proj_interleave : forall sched (ls : list (list A)) i,
    proj_op i (interleave sched ls) ++ nth i (remaining sched ls) [] = nth i ls [].
  Proof.
    induction sched as [|j sched IH]; intros ls i; [reflexivity|].
    cbn [interleave remaining]. destruct (take_nth j ls) as [[x ls']|] eqn:Ht.
    - destruct (take_nth_spec j ls ls' x Ht) as [Hn [Ho [_ _]]].
      destruct (Nat.eq_dec j i) as [->|Hne].
      + rewrite proj_cons_same. cbn [app]. rewrite IH. symmetry. exact Hn.
      + rewrite proj_cons_other by exact Hne. rewrite IH. apply Ho. auto.
    - apply IH.
  Qed.

  Lemma interleave_perm : forall sched (ls : list (list A)),
    Permutation (map snd (interleave sched ls) ++ concat (remaining sched ls)) (concat ls).
  Proof.
    induction sched as [|j sched IH]; intros ls; [reflexivity|].
    cbn [interleave remaining]. destruct (take_nth j ls) as [[x ls']|] eqn:Ht.
    - destruct (take_nth_spec j ls ls' x Ht) as [_ [_ [_ Hp]]].
      cbn [map snd app]. rewrite Hp. constructor. apply IH.
    - apply IH.
  Qed.

  Lemma concat_length_zero : forall (ls : list (list A)), length (concat ls) = 0 -> forall i, nth i ls [] = [].
  Proof.
    induction ls as [|l ls IH]; intros H i; [destruct i; reflexivity|].
    cbn [concat] in H. rewrite app_length in H. destruct i.
    - cbn [nth]. destruct l; [reflexivity|cbn in H; lia].
    - cbn [nth]. apply IH. lia.
  Qed.

  Lemma complete_remaining : forall sched (ls : list (list A)),
    complete sched ls = true -> length (concat (remaining sched ls)) = 0.
  Proof.
    intros sched ls H. unfold complete in H. apply Nat.eqb_eq in H.
    pose proof (Permutation_length (interleave_perm sched ls)) as Hl.
    rewrite app_length, map_length in Hl. lia.
  Qed.

  Lemma complete_proj : forall sched (ls : list (list A)),
    complete sched ls = true -> forall i, proj_op i (interleave sched ls) = nth i ls [].
  Proof.
    intros sched ls H i. rewrite <- (proj_interleave sched ls i).
    rewrite (concat_length_zero _ (complete_remaining sched ls H) i). rewrite app_nil_r. reflexivity.
  Qed.

  Lemma complete_perm : forall sched (ls : list (list A)),
    complete sched ls = true -> Permutation (map snd (interleave sched ls)) (concat ls).
  Proof.
    intros sched ls H. pose proof (interleave_perm sched ls) as Hp.
    assert (Hz : concat (remaining sched ls) = []).
    { apply length_zero_iff_nil. apply complete_remaining. exact H. }
    rewrite Hz, app_nil_r in Hp. exact Hp.
  Qed.

  (* the one-worker schedule is complete *)
  Lemma take_nth_skip : forall (pre : list (list A)) x l rest,
    Forall (fun l0 => l0 = []) pre ->
    take_nth (length pre) (pre ++ (x :: l) :: rest) = Some (x, pre ++ l :: rest).
  Proof.
    induction pre as [|p pre IH]; intros x l rest Hf; [reflexivity|].
    cbn [length app take_nth]. inversion Hf as [|? ? Hp Hf']; subst. rewrite (IH x l rest Hf'). reflexivity.
  Qed.

  Lemma interleave_repeat : forall (pre : list (list A)) l rest sched,
    Forall (fun l0 => l0 = []) pre ->
    interleave (repeat (length pre) (length l) ++ sched) (pre ++ l :: rest)
    = map (fun x => (length pre, x)) l ++ interleave sched (pre ++ [] :: rest).
  Proof.
    intros pre l. induction l as [|x l IH]; intros rest sched Hf; [reflexivity|].
    cbn [length repeat app interleave]. rewrite (take_nth_skip pre x l rest Hf). cbn [map app]. f_equal. apply IH. exact Hf.
  Qed.

  Lemma sequential_from_length : forall (pre ls : list (list A)),
    Forall (fun l0 => l0 = []) pre ->
    length (interleave (sequential_from (length pre) ls) (pre ++ ls)) = length (concat ls).
  Proof.
    intros pre ls. revert pre. induction ls as [|l ls IH]; intros pre Hf; [reflexivity|].
    cbn [sequential_from concat]. rewrite (interleave_repeat pre l ls _ Hf).
    rewrite !app_length, map_length. f_equal.
    replace (pre ++ [] :: ls) with ((pre ++ [[]]) ++ ls) by (rewrite <- app_assoc; reflexivity).
    replace (S (length pre)) with (length (pre ++ [[]])) by (rewrite app_length; cbn; lia).
    apply IH. apply Forall_app. split; [exact Hf|]. constructor; [reflexivity|constructor].
  Qed.

  Lemma concat_all_nil : forall (pre : list (list A)), Forall (fun l0 => l0 = []) pre -> concat pre = [].
  Proof. induction pre as [|p pre IH]; intros H; [reflexivity|]. inversion H; subst. cbn. apply IH. assumption. Qed.

  Lemma sequential_complete : forall (ls : list (list A)), complete (sequential ls) ls = true.
  Proof.
    intros ls. unfold complete, sequential. apply Nat.eqb_eq.
    exact (sequential_from_length [] ls (Forall_nil _)).
  Qed.
End InterleaveProofs.

(* The number of workers does not change what is sent to an operation.
   Hypothesis of the section (the part of the property that lives in the runtime): what is generated for an operation is a
   function gen_op of the operation and the seed alone - it does not read state written while another operation is generated. *)
Section Workers.
  Context {R : Type}.
  Variable gen_op : N -> N -> list R.

  Definition per_op (ops : list N) (seed : N) : list (list R) := map (fun op => gen_op op seed) ops.

  Lemma workers_do_not_change_multiset : forall ops seed sched sched',
    complete sched (per_op ops seed) = true -> complete sched' (per_op ops seed) = true ->
    (forall i, proj_op i (interleave sched (per_op ops seed)) = proj_op i (interleave sched' (per_op ops seed)))
    /\ Permutation (map snd (interleave sched (per_op ops seed))) (map snd (interleave sched' (per_op ops seed))).
  Proof.
    intros ops seed sched sched' H H'. split.
    - intro i. rewrite (complete_proj sched _ H i), (complete_proj sched' _ H' i). reflexivity.
    - rewrite (complete_perm sched _ H). apply Permutation_sym. apply complete_perm. exact H'.
  Qed.

  Lemma one_worker_is_a_schedule : forall ops seed, complete (sequential (per_op ops seed)) (per_op ops seed) = true.
  Proof. intros. apply sequential_complete. Qed.
End Workers.

(* without the hypothesis: two schedules with the same turns per operation, different requests for operation 0 *)
Lemma workers_shared_state_refuted :
  exists (gen : N -> N -> N) (sched sched' : list nat),
    Permutation sched sched'
    /\ proj_op 0 (run_shared gen sched 0) <> proj_op 0 (run_shared gen sched' 0).
Proof.
  exists (fun _ clock => clock), [0; 1]%nat, [1; 0]%nat. split.
  - apply perm_swap.
  - vm_compute. discriminate.
Qed.

Example interleave_example :
  interleave [1; 0; 1; 2; 0; 1; 0]%nat [[10; 11]; [20; 21]; []] = [(1%nat, 20); (0%nat, 10); (1%nat, 21); (0%nat, 11)]
  /\ complete [1; 0; 1; 2; 0; 1; 0]%nat [[10; 11]; [20; 21]; []] = true
  /\ sequential [[10; 11]; [20; 21]; []] = [0; 0; 1; 1]%nat
  /\ observed_is_interleaving [[10; 11]; [20; 21]] [(1%nat, 20); (0%nat, 10); (1%nat, 21); (0%nat, 11)] = true
  /\ observed_is_interleaving [[10; 11]; [20; 21]] [(1%nat, 21); (0%nat, 10); (1%nat, 20); (0%nat, 11)] = false.
Proof. repeat split; vm_compute; reflexivity. Qed.

(* ------------------------------------------------------------------------------------ *)
(* 5. process-wide state carried from one run to the next                                 *)
(* ------------------------------------------------------------------------------------ *)
Lemma flat_map_ext_in : forall (A B : Type) (f g : A -> list B) (l : list A),
  (forall x, In x l -> f x = g x) -> flat_map f l = flat_map g l.
Proof.
  intros A B f g l H. induction l as [|x l IH]; [reflexivity|].
  cbn [flat_map]. rewrite (H x (or_introl eq_refl)). rewrite IH; [reflexivity|].
  intros y Hy. apply H. right. exact Hy.
Qed.

Lemma ids_distinct_from_spec : forall l seen,
  ids_distinct_from seen l = true -> NoDup l /\ forall i, In i l -> ~ In i seen.
Proof.
  induction l as [|i l IH]; intros seen H.
  - split; [constructor|]. intros i [].
  - cbn [ids_distinct_from] in H. apply andb_true_iff in H. destruct H as [Hi Hl].
    apply negb_true_iff in Hi. destruct (IH (i :: seen) Hl) as [Hnd Hns]. split.
    + constructor; [|exact Hnd]. intro Hin. apply (Hns i Hin). left. reflexivity.
    + intros j [<- | Hj].
      * intro Hs. assert (Hex : existsb (N.eqb i) seen = true).
        { apply existsb_exists. exists i. split; [exact Hs | apply N.eqb_refl]. }
        rewrite Hex in Hi. discriminate.
      * intro Hs. apply (Hns j Hj). right. exact Hs.
Qed.

Lemma nodup_map_inj : forall (cs : list csite), NoDup (map c_id cs) ->
  forall c c', In c cs -> In c' cs -> c_id c = c_id c' -> c = c'.
Proof.
  induction cs as [|x cs IH]; intros Hnd c c' Hc Hc' Heq; [inversion Hc|].
  cbn [map] in Hnd. inversion Hnd as [|? ? Hnot Hnd']; subst.
  destruct Hc as [<- | Hc]; destruct Hc' as [<- | Hc'].
  - reflexivity.
  - exfalso. apply Hnot. rewrite Heq. apply in_map. exact Hc'.
  - exfalso. apply Hnot. rewrite <- Heq. apply in_map. exact Hc.
  - apply IH; assumption.
Qed.

Lemma ids_distinct_inj : forall cs, ids_distinct cs = true ->
  forall c c', In c cs -> In c' cs -> c_id c = c_id c' -> c = c'.
Proof.
  intros cs H. apply nodup_map_inj. unfold ids_distinct in H. destruct (ids_distinct_from_spec _ _ H) as [Hnd _]. exact Hnd.
Qed.

Lemma upd_same : forall st c k v, upd st c k v c k = Some v.
Proof. intros. unfold upd. rewrite !N.eqb_refl. reflexivity. Qed.

Lemma upd_other_id : forall st c k v c' k', c <> c' -> upd st c k v c' k' = st c' k'.
Proof. intros st c k v c' k' H. unfold upd. apply N.eqb_neq in H. rewrite H. reflexivity. Qed.

Lemma upd_other_key : forall st c k v c' k', k <> k' -> upd st c k v c' k' = st c' k'.
Proof. intros st c k v c' k' H. unfold upd. apply N.eqb_neq in H. rewrite H. rewrite andb_false_r. reflexivity. Qed.

Section CarriedProofs.
  Variable key : N -> rin -> N.
  Variable pure : N -> N -> N.
  Variable wr : N -> rin -> option N.

  (* what a reachable process state looks like at the safe sites *)
  Definition inv (cs : list csite) (st : store) : Prop :=
    forall c, In c cs ->
      match c_class c with
      | Memo => forall k v, st (c_id c) k = Some v -> v = pure (c_id c) k
      | Registry => forall k, st (c_id c) k = None
      | RunWritten => True
      end.

  Lemma inv_empty : forall cs, inv cs empty_store.
  Proof. intros cs c _. destruct (c_class c); [intros k v H; discriminate H | reflexivity | exact I]. Qed.

  Lemma step_site_inv : forall cs r st c', ids_distinct cs = true -> In c' cs -> inv cs st -> inv cs (step_site key pure wr r st c').
  Proof.
    intros cs r st c' Hd Hc' Hinv c Hc. specialize (Hinv c Hc) as Hic.
    unfold step_site. destruct (c_class c') eqn:Hcl'.
    - (* Memo *)
      destruct (st (c_id c') (key (c_id c') r)) eqn:Hpres; [exact Hic|].
      destruct (N.eq_dec (c_id c') (c_id c)) as [Heq|Hne].
      + assert (c' = c) by (apply (ids_distinct_inj cs Hd); assumption). subst c'. rewrite Hcl' in *.
        intros k v Hk. destruct (N.eq_dec (key (c_id c) r) k) as [<-|Hk'].
        * rewrite upd_same in Hk. injection Hk as <-. reflexivity.
        * rewrite upd_other_key in Hk by exact Hk'. apply Hic. exact Hk.
      + destruct (c_class c); [| |exact I].
        * intros k v Hk. rewrite upd_other_id in Hk by exact Hne. apply Hic. exact Hk.
        * intros k. rewrite upd_other_id by exact Hne. apply Hic.
    - (* Registry *) exact Hic.
    - (* RunWritten *)
      destruct (wr (c_id c') r) as [v'|]; [|exact Hic].
      destruct (N.eq_dec (c_id c') (c_id c)) as [Heq|Hne].
      + assert (c' = c) by (apply (ids_distinct_inj cs Hd); assumption). subst c'. rewrite Hcl'. exact I.
      + destruct (c_class c); [| |exact I].
        * intros k v Hk. rewrite upd_other_id in Hk by exact Hne. apply Hic. exact Hk.
        * intros k. rewrite upd_other_id by exact Hne. apply Hic.
  Qed.

  Lemma fold_step_inv : forall cs r l st, ids_distinct cs = true -> incl l cs -> inv cs st -> inv cs (fold_left (step_site key pure wr r) l st).
  Proof.
    intros cs r l. induction l as [|c' l IH]; intros st Hd Hl Hinv; [exact Hinv|].
    cbn [fold_left]. apply IH; [exact Hd | intros y Hy; apply Hl; right; exact Hy |].
    apply step_site_inv; [exact Hd | apply Hl; left; reflexivity | exact Hinv].
  Qed.

  Lemma step_run_inv : forall cs r st, ids_distinct cs = true -> inv cs st -> inv cs (step_run key pure wr cs st r).
  Proof. intros cs r st Hd Hinv. unfold step_run. apply fold_step_inv; [exact Hd | apply incl_refl | exact Hinv]. Qed.

  Lemma after_inv : forall cs hist, ids_distinct cs = true -> inv cs (after key pure wr cs hist).
  Proof.
    intros cs hist Hd. unfold after. generalize (inv_empty cs). generalize empty_store.
    induction hist as [|r hist IH]; intros st Hinv; [exact Hinv|].
    cbn [fold_left]. apply IH. apply step_run_inv; assumption.
  Qed.

  (* an entry of a Memo site, once there, survives the steps of every site *)
  Lemma step_site_keeps_memo_entry : forall cs r st c c' k v,
    ids_distinct cs = true -> In c cs -> In c' cs -> c_class c = Memo ->
    st (c_id c) k = Some v -> step_site key pure wr r st c' (c_id c) k = Some v.
  Proof.
    intros cs r st c c' k v Hd Hc Hc' Hm Hk. unfold step_site.
    destruct (N.eq_dec (c_id c') (c_id c)) as [Heq|Hne].
    - assert (c' = c) by (apply (ids_distinct_inj cs Hd); assumption). subst c'. rewrite Hm.
      destruct (st (c_id c) (key (c_id c) r)) eqn:Hpres; [exact Hk|].
      destruct (N.eq_dec (key (c_id c) r) k) as [<-|Hk']; [rewrite Hk in Hpres; discriminate|].
      rewrite upd_other_key by exact Hk'. exact Hk.
    - destruct (c_class c').
      + destruct (st (c_id c') (key (c_id c') r)); [exact Hk|]. rewrite upd_other_id by exact Hne. exact Hk.
      + exact Hk.
      + destruct (wr (c_id c') r); [|exact Hk]. rewrite upd_other_id by exact Hne. exact Hk.
  Qed.

  Lemma step_site_writes_memo : forall r st c, c_class c = Memo ->
    exists v, step_site key pure wr r st c (c_id c) (key (c_id c) r) = Some v.
  Proof.
    intros r st c Hm. unfold step_site. rewrite Hm.
    destruct (st (c_id c) (key (c_id c) r)) eqn:Hpres; [exists n; exact Hpres|].
    eexists. apply upd_same.
  Qed.

  Lemma fold_memo_present : forall cs r l st c,
    ids_distinct cs = true -> incl l cs -> In c cs -> c_class c = Memo ->
    (In c l \/ exists v, st (c_id c) (key (c_id c) r) = Some v) ->
    exists v, fold_left (step_site key pure wr r) l st (c_id c) (key (c_id c) r) = Some v.
  Proof.
    intros cs r l. induction l as [|a l IH]; intros st c Hd Hl Hc Hm H.
    - destruct H as [[] | H]. exact H.
    - cbn [fold_left]. apply IH; [exact Hd | intros y Hy; apply Hl; right; exact Hy | exact Hc | exact Hm |].
      destruct H as [[-> | Hin] | [v Hv]].
      + right. apply step_site_writes_memo. exact Hm.
      + left. exact Hin.
      + right. exists v. apply (step_site_keeps_memo_entry cs); try assumption. apply Hl. left. reflexivity.
  Qed.

  (* an entry of a Memo site survives every later run unchanged; nothing ever appears at a Registry site: this is what the
     snapshots taken around real runs are checked for (entries_not_overwritten / entries_same) *)
  Lemma fold_keeps_memo_entry : forall cs r l st c k v,
    ids_distinct cs = true -> incl l cs -> In c cs -> c_class c = Memo ->
    st (c_id c) k = Some v -> fold_left (step_site key pure wr r) l st (c_id c) k = Some v.
  Proof.
    intros cs r l. induction l as [|a l IH]; intros st c k v Hd Hl Hc Hm Hk; [exact Hk|].
    cbn [fold_left]. apply (IH _ c k v Hd); [intros y Hy; apply Hl; right; exact Hy | exact Hc | exact Hm |].
    apply (step_site_keeps_memo_entry cs); try assumption. apply Hl. left. reflexivity.
  Qed.

  Lemma safe_entries_survive : forall cs hist r c k v,
    ids_distinct cs = true -> In c cs ->
    (c_class c = Memo -> after key pure wr cs hist (c_id c) k = Some v ->
       step_run key pure wr cs (after key pure wr cs hist) r (c_id c) k = Some v)
    /\ (c_class c = Registry -> step_run key pure wr cs (after key pure wr cs hist) r (c_id c) k = None).
  Proof.
    intros cs hist r c k v Hd Hc. split.
    - intros Hm Hk. unfold step_run. apply (fold_keeps_memo_entry cs); try assumption. apply incl_refl.
    - intros Hreg. pose proof (step_run_inv cs r _ Hd (after_inv cs hist Hd) c Hc) as H. rewrite Hreg in H. apply H.
  Qed.

  (* what a run reads from a safe site does not depend on the state it started in *)
  Definition ideal_read (r : rin) (c : csite) : option N :=
    match c_class c with Memo => Some (pure (c_id c) (key (c_id c) r)) | _ => None end.

  Lemma read_ideal : forall cs r st c,
    ids_distinct cs = true -> inv cs st -> In c cs -> c_safe c = true ->
    read_site key r (step_run key pure wr cs st r) c = ideal_read r c.
  Proof.
    intros cs r st c Hd Hinv Hc Hs. unfold read_site, ideal_read.
    pose proof (step_run_inv cs r st Hd Hinv c Hc) as Hafter.
    unfold c_safe in Hs. destruct (c_class c) eqn:Hcl; [| |discriminate].
    - destruct (fold_memo_present cs r cs st c Hd (incl_refl _) Hc Hcl (or_introl Hc)) as [v Hv].
      unfold step_run in *. rewrite Hv. f_equal. apply Hafter. exact Hv.
    - apply Hafter.
  Qed.

  Lemma reads_ideal : forall cs r st x,
    ids_distinct cs = true -> inv cs st -> carried_safe cs x = true ->
    reads key cs r (step_run key pure wr cs st r) x = map (ideal_read r) (filter (fun c => c_reads c x) cs).
  Proof.
    intros cs r st x Hd Hinv Hs. unfold reads. apply map_ext_in. intros c Hin.
    apply filter_In in Hin. destruct Hin as [Hin Hr].
    apply read_ideal; try assumption.
    unfold carried_safe in Hs. rewrite forallb_forall in Hs. specialize (Hs c Hin). rewrite Hr in Hs. exact Hs.
  Qed.

  Variable genp : N -> N -> list (option N) -> N -> N -> N -> N -> N.

  (* the traffic of a run in terms of its own inputs only *)
  Definition ideal_traffic (p : plan) (cs : list csite) (r : rin) (a : ambient) : list request :=
    flat_map (fun w => run_work (genp (r_schema r) (r_cfg r) (map (ideal_read r) (filter (fun c => c_reads c (w_ctx w)) cs)))
                                (fst p) (r_seed r) a w) (snd p).

  Lemma traffic_is_ideal : forall p cs hist r a,
    ids_distinct cs = true -> works_carried_safe cs (snd p) = true ->
    traffic_after key pure wr genp p cs hist r a = ideal_traffic p cs r a.
  Proof.
    intros p cs hist r a Hd Hs. unfold traffic_after, run_in, ideal_traffic.
    apply flat_map_ext_in. intros w Hw.
    unfold works_carried_safe in Hs. rewrite forallb_forall in Hs.
    rewrite (reads_ideal cs r (after key pure wr cs hist) (w_ctx w) Hd (after_inv cs hist Hd) (Hs w Hw)). reflexivity.
  Qed.

  Lemma history_independent : forall p cs hist hist' r a,
    ids_distinct cs = true -> works_carried_safe cs (snd p) = true ->
    traffic_after key pure wr genp p cs hist r a = traffic_after key pure wr genp p cs hist' r a.
  Proof. intros. rewrite !traffic_is_ideal by assumption. reflexivity. Qed.

  (* together with the seeds: the traffic is a function of (seed, schema, configuration) *)
  Lemma traffic_function_of_inputs : forall p cs hist hist' r a a',
    ids_distinct cs = true -> works_carried_safe cs (snd p) = true -> all_seeded p = true ->
    traffic_after key pure wr genp p cs hist r a = traffic_after key pure wr genp p cs hist' r a'.
  Proof.
    intros p cs hist hist' r a a' Hd Hs Hseed. rewrite !traffic_is_ideal by assumption.
    unfold ideal_traffic. apply flat_map_ext_in. intros w Hw. apply run_work_seeded.
    unfold all_seeded in Hseed. rewrite forallb_forall in Hseed. apply Hseed. exact Hw.
  Qed.
End CarriedProofs.

(* an unsafe site that is read makes the same run differ between a used and a fresh process *)
Fixpoint reads_eqb (l l' : list (option N)) : bool :=
  match l, l' with
  | [], [] => true
  | Some v :: t, Some v' :: t' => N.eqb v v' && reads_eqb t t'
  | None :: t, None :: t' => reads_eqb t t'
  | _, _ => false
  end.

Lemma reads_eqb_refl : forall l, reads_eqb l l = true.
Proof. induction l as [|[v|] l IH]; cbn [reads_eqb]; [reflexivity | rewrite N.eqb_refl; exact IH | exact IH]. Qed.

Lemma reads_eqb_eq : forall l l', reads_eqb l l' = true -> l = l'.
Proof.
  induction l as [|[v|] l IH]; intros [|[v'|] l'] H; cbn [reads_eqb] in H; try discriminate H; try reflexivity.
  - apply andb_true_iff in H. destruct H as [Hv Ht]. apply N.eqb_eq in Hv. subst. f_equal. apply IH. exact Ht.
  - f_equal. apply IH. exact H.
Qed.

Definition leak_key : N -> rin -> N := fun _ _ => 0.
Definition leak_pure : N -> N -> N := fun _ _ => 0.
(* a run with a non-default configuration writes it; the default configuration writes nothing *)
Definition leak_wr : N -> rin -> option N := fun _ r => if N.eqb (r_cfg r) 0 then None else Some (r_cfg r).
Definition leak_genp (expected : list (option N)) : N -> N -> list (option N) -> N -> N -> N -> N -> N :=
  fun _ _ rd _ _ _ _ => if reads_eqb rd expected then 0 else 1.
Definition run_default := mkRin 0 0 0.
Definition run_other := mkRin 0 0 1.
Definition unit_plan (x : ctx) : plan := ([mkSite 1 (Seeded 0 0) [x_phase x] false false true], [mkWork 0 x 0 1]).

Lemma fold_keeps_slot : forall r l st i k v,
  (forall c, In c l -> c_id c <> i \/ (c_class c = RunWritten /\ leak_wr (c_id c) r = None)) ->
  st i k = v -> fold_left (step_site leak_key leak_pure leak_wr r) l st i k = v.
Proof.
  intros r l. induction l as [|c l IH]; intros st i k v H Hst; [exact Hst|].
  cbn [fold_left]. apply IH; [intros c' Hc'; apply H; right; exact Hc'|].
  destruct (H c (or_introl eq_refl)) as [Hne | [Hcl Hw]].
  - unfold step_site. destruct (c_class c).
    + destruct (st (c_id c) (leak_key (c_id c) r)); [exact Hst|]. rewrite upd_other_id by exact Hne. exact Hst.
    + exact Hst.
    + destruct (leak_wr (c_id c) r); [|exact Hst]. rewrite upd_other_id by exact Hne. exact Hst.
  - unfold step_site. rewrite Hcl, Hw. exact Hst.
Qed.

Lemma others_differ : forall cs c l1 l2, ids_distinct cs = true -> cs = l1 ++ c :: l2 ->
  forall c', In c' (l1 ++ l2) -> c_id c' <> c_id c.
Proof.
  intros cs c l1 l2 Hd Hcs c' Hin Heq.
  assert (Hnd : NoDup (map c_id cs)).
  { unfold ids_distinct in Hd. destruct (ids_distinct_from_spec _ _ Hd) as [Hnd _]. exact Hnd. }
  rewrite Hcs, map_app in Hnd. cbn [map] in Hnd. apply NoDup_remove_2 in Hnd. apply Hnd.
  rewrite <- Heq. rewrite <- map_app. apply in_map. exact Hin.
Qed.

Lemma carried_unsafe_diverges : forall cs x,
  ids_distinct cs = true -> carried_unsafe_active cs x = true ->
  exists expected,
    traffic_after leak_key leak_pure leak_wr (leak_genp expected) (unit_plan x) cs [run_other] run_default wit_a0
    <> traffic_after leak_key leak_pure leak_wr (leak_genp expected) (unit_plan x) cs [] run_default wit_a0.
Proof.
  intros cs x Hd Hu. unfold carried_unsafe_active in Hu. apply existsb_exists in Hu. destruct Hu as [c [Hc Hcu]].
  apply andb_true_iff in Hcu. destruct Hcu as [Hr Hns]. apply negb_true_iff in Hns.
  assert (Hcl : c_class c = RunWritten) by (unfold c_safe in Hns; destruct (c_class c); try discriminate; reflexivity).
  destruct (in_split c cs Hc) as [l1 [l2 Hcs]].
  pose proof (others_differ cs c l1 l2 Hd Hcs) as Hoth.
  (* the default run leaves the slot of c alone *)
  assert (Hkeep : forall st v, st (c_id c) 0 = v -> step_run leak_key leak_pure leak_wr cs st run_default (c_id c) 0 = v).
  { intros st v Hst. unfold step_run. apply fold_keeps_slot; [|exact Hst].
    intros c' Hc'. rewrite Hcs in Hc'. apply in_app_or in Hc'. destruct Hc' as [Hc' | [<- | Hc']].
    - left. apply Hoth. apply in_or_app. left. exact Hc'.
    - right. split; [exact Hcl | reflexivity].
    - left. apply Hoth. apply in_or_app. right. exact Hc'. }
  (* the other run writes its configuration there *)
  assert (Hwrite : step_run leak_key leak_pure leak_wr cs empty_store run_other (c_id c) 0 = Some 1).
  { unfold step_run. rewrite Hcs, fold_left_app. cbn [fold_left].
    apply fold_keeps_slot.
    - intros c' Hc'. left. apply Hoth. apply in_or_app. right. exact Hc'.
    - unfold step_site at 1. rewrite Hcl. cbn. unfold leak_key. apply upd_same. }
  set (fresh := reads leak_key cs run_default (step_run leak_key leak_pure leak_wr cs empty_store run_default) x).
  exists fresh.
  unfold traffic_after, run_in, unit_plan. cbn [fst snd flat_map after fold_left w_ctx r_schema r_cfg r_seed].
  rewrite !app_nil_r. unfold run_work. cbn [w_count nseq map]. unfold request_of. cbn [w_ctx].
  assert (Hcontr : contributes (mkSite 1 (Seeded 0 0) [x_phase x] false false true) x = true).
  { unfold contributes, active, in_phases. cbn. destruct (x_phase x); reflexivity. }
  cbn [filter]. rewrite Hcontr. cbn [map]. unfold draw, leak_genp.
  fold fresh. rewrite reads_eqb_refl.
  destruct (reads_eqb _ fresh) eqn:Heq; [|discriminate].
  exfalso. apply reads_eqb_eq in Heq. revert Heq. unfold fresh, reads.
  apply (map_neq _ _ _ _ _ c).
  - apply filter_In. split; assumption.
  - unfold read_site. change (leak_key (c_id c) run_default) with 0.
    rewrite (Hkeep _ (Some 1) Hwrite). rewrite (Hkeep empty_store None eq_refl). discriminate.
Qed.

Lemma carried_safe_unsafe : forall cs x, carried_safe cs x = negb (carried_unsafe_active cs x).
Proof.
  intros cs x. unfold carried_safe, carried_unsafe_active. induction cs as [|c cs IH]; [reflexivity|].
  cbn [forallb existsb]. rewrite IH. destruct (c_reads c x), (c_safe c); reflexivity.
Qed.

Lemma carried_dichotomy : forall cs x, ids_distinct cs = true ->
  (carried_safe cs x = true /\
   forall key pure wr genp sites ws hist hist' r a, works_in (fun y => carried_safe cs y) ws = true ->
     traffic_after key pure wr genp (sites, ws) cs hist r a = traffic_after key pure wr genp (sites, ws) cs hist' r a)
  \/ (carried_unsafe_active cs x = true /\
      exists key pure wr genp p hist r a,
        traffic_after key pure wr genp p cs hist r a <> traffic_after key pure wr genp p cs [] r a).
Proof.
  intros cs x Hd. destruct (carried_unsafe_active cs x) eqn:Hu.
  - right. split; [reflexivity|]. destruct (carried_unsafe_diverges cs x Hd Hu) as [expected H].
    exists leak_key, leak_pure, leak_wr, (leak_genp expected), (unit_plan x), [run_other], run_default, wit_a0. exact H.
  - left. split; [rewrite carried_safe_unsafe, Hu; reflexivity|].
    intros key pure wr genp sites ws hist hist' r a Hw. apply history_independent; [exact Hd|exact Hw].
Qed.

(* ---- the carried sites of the source today (Gen_C13.gen_carried) ---- *)
Lemma gen_carried_ids_distinct : ids_distinct gen_carried = true.
Proof. vm_compute. reflexivity. Qed.

(* the only carried site whose content is not determined by its key is the memo of the unseeded coverage draw (cached_draw, F2);
   contexts in the order of all_ctxs.  A mutation of process-wide state that the translator cannot classify as Memo / Registry
   enters gen_carried as RunWritten in every phase and breaks this lemma. *)
Lemma current_unsafe_table :
  unsafe_table gen_carried =
  [ []; []; []; [];
    [73]; [73]; [73]; [73];
    []; []; []; [];
    []; []; []; [] ].
Proof. vm_compute. reflexivity. Qed.

Definition carried_region_today (x : ctx) : bool := match x_phase x with Coverage => false | _ => true end.

Lemma carried_region_today_ok : forall x, carried_region_today x = true -> carried_safe gen_carried x = true.
Proof. intros [p n m] H. destruct p, n, m; try discriminate H; vm_compute; reflexivity. Qed.

Lemma works_region_carried : forall (region : ctx -> bool) cs ws,
  (forall x, region x = true -> carried_safe cs x = true) -> works_in region ws = true -> works_carried_safe cs ws = true.
Proof.
  intros region cs ws Hr Hw. unfold works_in, works_carried_safe in *. rewrite forallb_forall in *.
  intros w Hin. apply Hr. apply Hw. exact Hin.
Qed.

Lemma current_history_independent : forall key pure wr genp ws hist hist' r a,
  works_in carried_region_today ws = true ->
  traffic_after key pure wr genp (gen_sites, ws) gen_carried hist r a = traffic_after key pure wr genp (gen_sites, ws) gen_carried hist' r a.
Proof.
  intros. apply history_independent; [exact gen_carried_ids_distinct|].
  cbn [snd]. apply (works_region_carried carried_region_today); [exact carried_region_today_ok | assumption].
Qed.

Lemma seeded_region_in_carried_region : forall x, seeded_region_today x = true -> carried_region_today x = true.
Proof. intros [p n m] H. destruct p; try discriminate H; reflexivity. Qed.

Lemma current_traffic_function_of_inputs : forall key pure wr genp ws hist hist' r a a',
  works_in seeded_region_today ws = true ->
  traffic_after key pure wr genp (gen_sites, ws) gen_carried hist r a = traffic_after key pure wr genp (gen_sites, ws) gen_carried hist' r a'.
Proof.
  intros key pure wr genp ws hist hist' r a a' Hw. apply traffic_function_of_inputs.
  - exact gen_carried_ids_distinct.
  - cbn [snd]. apply (works_region_carried seeded_region_today); [|exact Hw].
    intros x Hx. apply carried_region_today_ok. apply seeded_region_in_carried_region. exact Hx.
  - unfold all_seeded. cbn [fst snd]. unfold works_in in Hw. rewrite forallb_forall in *.
    intros w Hin. apply seeded_region_today_ok. apply Hw. exact Hin.
Qed.

Lemma coverage_memo_refuted :
  carried_unsafe_active gen_carried cov_pos = true /\ carried_unsafe_active gen_carried cov_neg = true
  /\ exists key pure wr genp p hist r a,
       traffic_after key pure wr genp p gen_carried hist r a <> traffic_after key pure wr genp p gen_carried [] r a.
Proof.
  split; [vm_compute; reflexivity|]. split; [vm_compute; reflexivity|].
  destruct (carried_unsafe_diverges gen_carried cov_pos gen_carried_ids_distinct) as [expected H]; [vm_compute; reflexivity|].
  exists leak_key, leak_pure, leak_wr, (leak_genp expected), (unit_plan cov_pos), [run_other], run_default, wit_a0. exact H.
Qed.

(* Sentinel: the plan of a source in which a run writes a configuration-dependent entry into a process-wide object that every
   later run reads (seeded regression C13_d: _build_custom_formats assigning HEADER_FORMAT into the dict returned by the
   lru_cache-d get_default_format_strategies). *)
Definition formats_leak_site : csite := mkCSite 90 RunWritten [Examples; Coverage; Fuzzing; Stateful] true.
Definition sentinel_carried_with_formats_leak : list csite := gen_carried ++ [formats_leak_site].

Lemma sentinel_carried_ids_distinct : ids_distinct sentinel_carried_with_formats_leak = true.
Proof. vm_compute. reflexivity. Qed.

Lemma formats_leak_sentinel_refuted :
  carried_unsafe_active sentinel_carried_with_formats_leak fuzz_pos = true
  /\ carried_unsafe_active sentinel_carried_with_formats_leak st_pos = true
  /\ exists key pure wr genp hist r a,
       traffic_after key pure wr genp (unit_plan fuzz_pos) sentinel_carried_with_formats_leak hist r a
       <> traffic_after key pure wr genp (unit_plan fuzz_pos) sentinel_carried_with_formats_leak [] r a.
Proof.
  split; [vm_compute; reflexivity|]. split; [vm_compute; reflexivity|].
  destruct (carried_unsafe_diverges sentinel_carried_with_formats_leak fuzz_pos sentinel_carried_ids_distinct) as [expected H];
    [vm_compute; reflexivity|].
  exists leak_key, leak_pure, leak_wr, (leak_genp expected), [run_other], run_default, wit_a0. exact H.
Qed.

Lemma formats_leak_sentinel_differs :
  unsafe_table sentinel_carried_with_formats_leak <> unsafe_table gen_carried
  /\ carried_safe sentinel_carried_with_formats_leak fuzz_pos = false /\ carried_safe gen_carried fuzz_pos = true.
Proof. split; [vm_compute; discriminate|]. split; vm_compute; reflexivity. Qed.

(* non-vacuity: two Memo sites, a Registry and (outside the fuzzing phase) a RunWritten one; three earlier runs with other schemas
   and configurations fill the process (4 entries) and the run sends what it sends in a fresh process *)
Definition ex_carried : list csite :=
  [mkCSite 40 Memo [Fuzzing; Stateful] true; mkCSite 41 Registry [Fuzzing] true; mkCSite 42 Memo [Fuzzing] true; mkCSite 43 RunWritten [Coverage] true].
Definition ex_key : N -> rin -> N := fun c r => c + r_schema r.
Definition ex_pure : N -> N -> N := fun c k => 2 * k + c.
Definition ex_genp : N -> N -> list (option N) -> N -> N -> N -> N -> N :=
  fun sch cfg rd sid e op i => sch + cfg + e + i + fold_right (fun o acc => match o with Some v => v + acc | None => acc end) 0 rd.

Example carried_example :
  works_carried_safe ex_carried [mkWork 0 fuzz_pos 0 2] = true /\ ids_distinct ex_carried = true
  /\ length (store_entries (after ex_key ex_pure leak_wr ex_carried [mkRin 1 5 1; mkRin 2 6 0; mkRin 3 5 2])
                           [(40, 45); (40, 46); (42, 47); (42, 48); (43, 48); (43, 49)]) = 5%nat
  /\ traffic_after ex_key ex_pure leak_wr ex_genp (gen_sites, [mkWork 0 fuzz_pos 0 2]) ex_carried [mkRin 1 5 1; mkRin 2 6 0; mkRin 3 5 2] (mkRin 9 5 0) wit_a0
     = [[280]; [281]]
  /\ traffic_after ex_key ex_pure leak_wr ex_genp (gen_sites, [mkWork 0 fuzz_pos 0 2]) ex_carried [] (mkRin 9 5 0) wit_a0 = [[280]; [281]].
Proof. repeat split; vm_compute; reflexivity. Qed.

(* the snapshot comparison used by the correspondence is what step_site guarantees for Memo and Registry sites *)
Example entries_example :
  entries_not_overwritten [(44, 1, 7); (82, 0, 3)] [(44, 1, 7); (44, 2, 9); (82, 0, 3)] = true
  /\ entries_not_overwritten [(44, 1, 7); (82, 0, 3)] [(44, 1, 7); (82, 0, 4)] = false
  /\ overwritten_sites [(44, 1, 7); (82, 0, 3)] [(44, 1, 7); (82, 0, 4)] = [82].
Proof. repeat split; vm_compute; reflexivity. Qed.

(* ---- caller-owned configuration (the input objects of a run) ---- *)
Lemma no_owned_write_cons : forall ws k calls,
  no_owned_write ws (k :: calls) = true -> owned_writes_active ws (k_phases k) = [] /\ no_owned_write ws calls = true.
Proof.
  intros ws k calls H. unfold no_owned_write in *. simpl in H. apply andb_true_iff in H. destruct H as [H1 H2].
  split; [|exact H2]. destruct (owned_writes_active ws (k_phases k)); [reflexivity|discriminate].
Qed.

Lemma inactive_writes_keep : forall wv phs ws c, owned_writes_active ws phs = [] -> fold_left (write_site wv phs) ws c = c.
Proof.
  intros wv phs ws. induction ws as [|w ws IH]; intros c H; [reflexivity|].
  unfold owned_writes_active in H. simpl in H. simpl. unfold write_site at 2.
  destruct (w_runs phs w); [discriminate|]. apply IH. exact H.
Qed.

Lemma run_leaves_cfg : forall wv ws c k, owned_writes_active ws (k_phases k) = [] -> cfg_after_run wv ws c k = c.
Proof. intros. unfold cfg_after_run. apply inactive_writes_keep. assumption. Qed.

Lemma owned_unchanged : forall wv ws calls c, no_owned_write ws calls = true -> cfg_after wv ws calls c = c.
Proof.
  intros wv ws calls. induction calls as [|k calls IH]; intros c H; [reflexivity|].
  apply no_owned_write_cons in H. destruct H as [H1 H2]. unfold cfg_after in *. simpl.
  rewrite (run_leaves_cfg wv ws c k H1). apply IH. exact H2.
Qed.

Lemma hist_reused_rebuilt : forall wv ws calls c, no_owned_write ws calls = true -> hist_reused wv ws calls c = hist_rebuilt calls c.
Proof.
  intros wv ws calls. induction calls as [|k calls IH]; intros c H; [reflexivity|].
  apply no_owned_write_cons in H. destruct H as [H1 H2]. simpl.
  rewrite (run_leaves_cfg wv ws c k H1). rewrite (IH c H2). reflexivity.
Qed.

Lemma reuse_equals_rebuild : forall wv ws calls k c, no_owned_write ws calls = true ->
  hist_reused wv ws calls c = hist_rebuilt calls c /\ rin_reused wv ws calls k c = rin_rebuilt k c.
Proof.
  intros. split; [apply hist_reused_rebuilt; assumption|]. unfold rin_reused, rin_rebuilt. rewrite owned_unchanged; [reflexivity|assumption].
Qed.

Lemma reused_traffic_is_fresh_traffic : forall wv ws key pure wr genp p cs calls k c a,
  no_owned_write ws calls = true -> ids_distinct cs = true -> works_carried_safe cs (snd p) = true ->
  traffic_after key pure wr genp p cs (hist_reused wv ws calls c) (rin_reused wv ws calls k c) a
  = traffic_after key pure wr genp p cs [] (rin_rebuilt k c) a.
Proof.
  intros wv ws key pure wr genp p cs calls k c a Hw Hd Hs.
  destruct (reuse_equals_rebuild wv ws calls k c Hw) as [_ Hr]. rewrite Hr.
  apply history_independent; assumption.
Qed.

Lemma no_write_sites_no_write : forall calls, no_owned_write [] calls = true.
Proof. induction calls as [|k calls IH]; [reflexivity|]. unfold no_owned_write in *. simpl. exact IH. Qed.

Lemma current_owned_writes : gen_owned_writes = [].
Proof. reflexivity. Qed.

Lemma current_run_leaves_cfg : forall wv calls c, cfg_after wv gen_owned_writes calls c = c.
Proof. intros. rewrite current_owned_writes. apply owned_unchanged. apply no_write_sites_no_write. Qed.

Lemma current_reused_traffic : forall wv key pure wr genp ws calls k c a,
  works_in carried_region_today ws = true ->
  traffic_after key pure wr genp (gen_sites, ws) gen_carried (hist_reused wv gen_owned_writes calls c) (rin_reused wv gen_owned_writes calls k c) a
  = traffic_after key pure wr genp (gen_sites, ws) gen_carried [] (rin_rebuilt k c) a.
Proof.
  intros. destruct (reuse_equals_rebuild wv gen_owned_writes calls k c) as [_ Hr].
  { rewrite current_owned_writes. apply no_write_sites_no_write. }
  rewrite Hr. apply current_history_independent. assumption.
Qed.

(* SENTINEL (seeded regression C13_e): the stateful executor assigns the state-machine defaults into the ExecutionConfig of the caller
   (one level below a shallow replace()) *)
Definition settings_write_site : wsite := mkWSite 90 [Stateful].
Definition sentinel_owned_writes : list wsite := gen_owned_writes ++ [settings_write_site].
Definition all_phases_call : call := mkCall 0 0 [Examples; Coverage; Fuzzing; Stateful].
Definition unit_phases_call : call := mkCall 0 0 [Examples; Coverage; Fuzzing].
Definition cfg_genp : N -> N -> list (option N) -> N -> N -> N -> N -> N := fun _ cfg _ _ _ _ _ => cfg.
Definition settings_wv : N -> N -> N := fun _ c => c + 1.

Lemma settings_write_sentinel_refuted :
  owned_writes_active sentinel_owned_writes (k_phases all_phases_call) = [90]
  /\ owned_writes_active sentinel_owned_writes (k_phases unit_phases_call) = []
  /\ exists wv key pure wr genp calls k c a,
       cfg_after wv sentinel_owned_writes calls c <> c
       /\ traffic_after key pure wr genp (unit_plan fuzz_pos) [] (hist_reused wv sentinel_owned_writes calls c) (rin_reused wv sentinel_owned_writes calls k c) a
          <> traffic_after key pure wr genp (unit_plan fuzz_pos) [] [] (rin_rebuilt k c) a.
Proof.
  split; [reflexivity|]. split; [reflexivity|].
  exists settings_wv, leak_key, leak_pure, leak_wr, cfg_genp, [all_phases_call], all_phases_call, 0, wit_a0.
  split; vm_compute; discriminate.
Qed.

Lemma settings_write_sentinel_differs :
  sentinel_owned_writes <> gen_owned_writes
  /\ no_owned_write sentinel_owned_writes [all_phases_call] = false /\ no_owned_write gen_owned_writes [all_phases_call] = true
  /\ no_owned_write sentinel_owned_writes [unit_phases_call] = true.
Proof. split; [discriminate|]. split; [reflexivity|]. split; reflexivity. Qed.

(* non-vacuity: two write sites that do not run in the unit phases; three unit-phase runs on the same objects leave them alone *)
Example owned_example :
  cfg_after settings_wv [mkWSite 90 [Stateful]; mkWSite 91 [Stateful]] [unit_phases_call; unit_phases_call; unit_phases_call] 5 = 5
  /\ cfg_after settings_wv [mkWSite 90 [Stateful]; mkWSite 91 [Stateful]] [unit_phases_call; all_phases_call] 5 = 7
  /\ changed_fields [(1, 10); (2, 20); (3, 30)] [(1, 10); (2, 21); (4, 40)] = [2; 3; 2; 4]
  /\ changed_fields [(1, 10); (2, 20)] [(2, 20); (1, 10)] = [].
Proof. repeat split; reflexivity. Qed.
