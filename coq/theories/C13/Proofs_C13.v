(* C13 - proofs about the entropy-flow model, the interleaving model and the plan generated from the source. *)
From Coq Require Import List NArith Bool Arith Lia ZifyBool Permutation.
From Verif Require Import C13.Model_C13 C13.Gen_C13.
Import ListNotations.
Open Scope N_scope.

(* ------------------------------------------------------------------------------------ *)
(* 1. seeded sites do not look at the ambient entropy                                     *)
(* ------------------------------------------------------------------------------------ *)
Lemma entropy_seeded : forall s seed a a' w i, is_seeded s = true -> entropy s seed a w i = entropy s seed a' w i.
Proof.
  intros s seed a a' w i Hs. unfold entropy, is_seeded in *. destruct (s_tag s); [reflexivity | discriminate].
Qed.

Lemma request_of_seeded : forall gen sites seed a a' w i,
  ctx_seeded sites (w_ctx w) = true -> request_of gen sites seed a w i = request_of gen sites seed a' w i.
Proof.
  intros gen sites seed a a' w i Hc. unfold request_of.
  apply map_ext_in. intros s Hin. apply filter_In in Hin. destruct Hin as [Hin Hcontr].
  unfold ctx_seeded in Hc. rewrite forallb_forall in Hc. specialize (Hc s Hin).
  rewrite Hcontr in Hc. cbn [negb orb] in Hc.
  unfold draw. rewrite (entropy_seeded s seed a a' w i Hc). reflexivity.
Qed.

Lemma run_work_seeded : forall gen sites seed a a' w,
  ctx_seeded sites (w_ctx w) = true -> run_work gen sites seed a w = run_work gen sites seed a' w.
Proof.
  intros gen sites seed a a' w Hc. unfold run_work. apply map_ext. intro i. apply request_of_seeded. exact Hc.
Qed.

Lemma seeded_plan_deterministic : forall gen p seed a a',
  all_seeded p = true -> run gen p seed a = run gen p seed a'.
Proof.
  intros gen [sites ws] seed a a' H. unfold run, all_seeded in *. cbn [fst snd] in *.
  induction ws as [|w ws IH]; [reflexivity|].
  cbn [forallb] in H. apply andb_true_iff in H. destruct H as [Hw Hws].
  cbn [flat_map]. rewrite (run_work_seeded gen sites seed a a' w Hw). rewrite (IH Hws). reflexivity.
Qed.

(* non-vacuity: a plan with two seeded sites, a suite re-run and three requests *)
Example seeded_plan_example :
  all_seeded ([mkSite 1 (Seeded 0 0) [Fuzzing] false false true; mkSite 2 (Seeded 0 1) [Stateful] false false true],
              [mkWork 0 (mkCtx Fuzzing false false) 0 3; mkWork 1 (mkCtx Stateful true false) 1 2]) = true
  /\ length (run (fun sid e op i => sid + e + op + i)
                 ([mkSite 1 (Seeded 0 0) [Fuzzing] false false true; mkSite 2 (Seeded 0 1) [Stateful] false false true],
                  [mkWork 0 (mkCtx Fuzzing false false) 0 3; mkWork 1 (mkCtx Stateful true false) 1 2]) 7 (fun _ _ _ => 0)) = 5%nat.
Proof. split; vm_compute; reflexivity. Qed.

(* the partial statement: works confined to a region of contexts in which every contributing site is seeded *)
Lemma region_deterministic : forall (region : ctx -> bool) sites,
  (forall x, region x = true -> ctx_seeded sites x = true) ->
  forall gen ws seed a a', works_in region ws = true -> run gen (sites, ws) seed a = run gen (sites, ws) seed a'.
Proof.
  intros region sites Hr gen ws seed a a' Hw. apply seeded_plan_deterministic.
  unfold all_seeded, works_in in *. cbn [fst snd]. rewrite forallb_forall in *. intros w Hin. apply Hr. apply Hw. exact Hin.
Qed.

(* ------------------------------------------------------------------------------------ *)
(* 2. an ambient site that contributes makes two runs differ                              *)
(* ------------------------------------------------------------------------------------ *)
Lemma map_neq : forall (A B : Type) (f g : A -> B) (l : list A) (x : A), In x l -> f x <> g x -> map f l <> map g l.
Proof.
  intros A B f g l x Hin Hne Heq. induction l as [|y l IH]; [inversion Hin|].
  cbn [map] in Heq. injection Heq as Hhd Htl. destruct Hin as [-> | Hin]; [exact (Hne Hhd) | exact (IH Hin Htl)].
Qed.

Definition wit_gen : N -> N -> N -> N -> N := fun _ e _ _ => e.
Definition wit_a0 : ambient := fun _ _ _ => 0.
Definition wit_a1 : ambient := fun _ _ _ => 1.

Lemma ambient_diverges : forall sites x, ambient_active sites x = true ->
  run wit_gen (sites, [mkWork 0 x 0 1]) 0 wit_a0 <> run wit_gen (sites, [mkWork 0 x 0 1]) 0 wit_a1.
Proof.
  intros sites x H. unfold ambient_active in H. apply existsb_exists in H. destruct H as [s [Hin Hs]].
  apply andb_true_iff in Hs. destruct Hs as [Hc Ha].
  unfold run. cbn [fst snd flat_map]. rewrite !app_nil_r. unfold run_work. cbn [w_count nseq map].
  intro Heq. injection Heq as Heq. revert Heq. unfold request_of. cbn [w_ctx].
  apply (map_neq _ _ _ _ _ s).
  - apply filter_In. split; assumption.
  - unfold draw, wit_gen, entropy. unfold is_ambient, is_seeded in Ha. destruct (s_tag s); [discriminate|].
    unfold wit_a0, wit_a1. discriminate.
Qed.

Lemma ctx_seeded_ambient : forall sites x, ctx_seeded sites x = negb (ambient_active sites x).
Proof.
  intros sites x. unfold ctx_seeded, ambient_active, is_ambient.
  induction sites as [|s sites IH]; [reflexivity|].
  cbn [forallb existsb]. rewrite IH. destruct (contributes s x), (is_seeded s); reflexivity.
Qed.

Lemma context_dichotomy : forall sites x,
  (ctx_seeded sites x = true /\
   forall gen w seed a a', w_ctx w = x -> run_work gen sites seed a w = run_work gen sites seed a' w)
  \/ (ambient_active sites x = true /\
      exists gen seed a a', run gen (sites, [mkWork 0 x 0 1]) seed a <> run gen (sites, [mkWork 0 x 0 1]) seed a').
Proof.
  intros sites x. destruct (ambient_active sites x) eqn:Ha.
  - right. split; [reflexivity|]. exists wit_gen, 0, wit_a0, wit_a1. apply ambient_diverges. exact Ha.
  - left. assert (Hc : ctx_seeded sites x = true) by (rewrite ctx_seeded_ambient, Ha; reflexivity).
    split; [exact Hc|]. intros gen w seed a a' Hw. apply run_work_seeded. rewrite Hw. exact Hc.
Qed.

Lemma kind_active_ambient : forall k sites x, ambient_kind_active k sites x = true -> ambient_active sites x = true.
Proof.
  intros k sites x H. unfold ambient_kind_active in H. apply existsb_exists in H. destruct H as [s [Hin Hs]].
  apply andb_true_iff in Hs. destruct Hs as [Hc Hk].
  unfold ambient_active. apply existsb_exists. exists s. split; [exact Hin|].
  rewrite Hc. unfold has_kind in Hk. unfold is_ambient, is_seeded. destruct (s_tag s); [discriminate|reflexivity].
Qed.

(* ------------------------------------------------------------------------------------ *)
(* 3. the plan generated from the source today                                            *)
(* ------------------------------------------------------------------------------------ *)
Definition ex_pos := mkCtx Examples false false.
Definition cov_pos := mkCtx Coverage false false.
Definition cov_neg := mkCtx Coverage true false.
Definition fuzz_pos := mkCtx Fuzzing false false.
Definition fuzz_neg := mkCtx Fuzzing true false.
Definition fuzz_mp := mkCtx Fuzzing false true.
Definition st_pos := mkCtx Stateful false false.
Definition st_neg := mkCtx Stateful true false.

(* the region in which the current source is reproducible: fuzzing and stateful, positive and negative mode, no multipart body
   (negative mode joined it with the change_type fix, a5c169d7) *)
Definition seeded_region_today (x : ctx) : bool :=
  match x_phase x with Fuzzing | Stateful => negb (x_multipart x) | _ => false end.

Lemma seeded_region_today_ok : forall x, seeded_region_today x = true -> ctx_seeded gen_sites x = true.
Proof.
  intros [p n m] H. destruct p, n, m; try discriminate H; vm_compute; reflexivity.
Qed.

Lemma fuzzing_stateful_deterministic : forall gen ws seed a a',
  works_in seeded_region_today ws = true -> run gen (gen_sites, ws) seed a = run gen (gen_sites, ws) seed a'.
Proof. exact (region_deterministic seeded_region_today gen_sites seeded_region_today_ok). Qed.

Example seeded_region_today_nonvacuous :
  works_in seeded_region_today [mkWork 0 fuzz_pos 0 4; mkWork 1 fuzz_neg 0 4; mkWork 0 st_pos 0 9; mkWork 0 st_neg 1 9] = true
  /\ length (run wit_gen (gen_sites, [mkWork 0 fuzz_neg 0 4; mkWork 0 st_pos 1 9]) 5 wit_a0) = 13%nat.
Proof. split; vm_compute; reflexivity. Qed.

(* the generated plan for any region in which it is seeded (whatever the source becomes) *)
Lemma current_plan_partial : forall gen ws seed a a',
  works_in (ctx_seeded gen_sites) ws = true -> run gen (gen_sites, ws) seed a = run gen (gen_sites, ws) seed a'.
Proof. intros. apply (region_deterministic (ctx_seeded gen_sites) gen_sites); auto. Qed.

Lemma refuted_in : forall x, ambient_active gen_sites x = true ->
  exists gen seed a a', run gen (gen_sites, [mkWork 0 x 0 1]) seed a <> run gen (gen_sites, [mkWork 0 x 0 1]) seed a'.
Proof. intros x H. exists wit_gen, 0, wit_a0, wit_a1. apply ambient_diverges. exact H. Qed.

Lemma examples_refuted :
  ambient_kind_active Unseeded gen_sites ex_pos = true
  /\ exists gen seed a a', run gen (gen_sites, [mkWork 0 ex_pos 0 1]) seed a <> run gen (gen_sites, [mkWork 0 ex_pos 0 1]) seed a'.
Proof. split; [vm_compute; reflexivity|]. apply refuted_in. vm_compute. reflexivity. Qed.

Lemma coverage_refuted :
  ambient_kind_active Unseeded gen_sites cov_pos = true /\ ambient_kind_active Unseeded gen_sites cov_neg = true
  /\ exists gen seed a a', run gen (gen_sites, [mkWork 0 cov_pos 0 1]) seed a <> run gen (gen_sites, [mkWork 0 cov_pos 0 1]) seed a'.
Proof. split; [vm_compute; reflexivity|]. split; [vm_compute; reflexivity|]. apply refuted_in. vm_compute. reflexivity. Qed.

Lemma multipart_refuted :
  ambient_kind_active OsRandom gen_sites fuzz_mp = true
  /\ exists gen seed a a', run gen (gen_sites, [mkWork 0 fuzz_mp 0 1]) seed a <> run gen (gen_sites, [mkWork 0 fuzz_mp 0 1]) seed a'.
Proof. split; [vm_compute; reflexivity|]. apply refuted_in. vm_compute. reflexivity. Qed.

(* HashOrder.  Until a5c169d7 / 353ffa52 the source had three places where the iteration order of a set of strings was observable
   (findings F4, F5, now fixed): the plan of that source is kept as a labelled sentinel. *)
Definition legacy_hash_order_sites : list site :=
  [ mkSite 10 (Ambient HashOrder) [Examples] false false true;          (* examples.py extract_top_level: for f in {example, x-example}, parameters *)
    mkSite 11 (Ambient HashOrder) [Examples] false false true;          (* the same for request bodies *)
    mkSite 12 (Ambient HashOrder) [Fuzzing; Stateful] true false true   (* mutations.py change_type: is_enabled draws while iterating a set *)
  ].
Definition sentinel_sites_before_hash_fixes : list site := gen_sites ++ legacy_hash_order_sites.

Lemma hash_order_fixed : forall x, ambient_kind_active HashOrder gen_sites x = false.
Proof. intros [p n m]. destruct p, n, m; vm_compute; reflexivity. Qed.

Lemma hash_order_sentinel_refuted :
  ambient_kind_active HashOrder sentinel_sites_before_hash_fixes fuzz_neg = true
  /\ ambient_kind_active HashOrder sentinel_sites_before_hash_fixes st_neg = true
  /\ ambient_kind_active HashOrder sentinel_sites_before_hash_fixes ex_pos = true
  /\ exists gen seed a a', run gen (sentinel_sites_before_hash_fixes, [mkWork 0 fuzz_neg 0 1]) seed a
                          <> run gen (sentinel_sites_before_hash_fixes, [mkWork 0 fuzz_neg 0 1]) seed a'.
Proof.
  repeat (split; [vm_compute; reflexivity|]).
  exists wit_gen, 0, wit_a0, wit_a1. apply ambient_diverges. vm_compute. reflexivity.
Qed.

Lemma sentinel_differs : ambient_table sentinel_sites_before_hash_fixes <> ambient_table gen_sites
  /\ ctx_seeded sentinel_sites_before_hash_fixes fuzz_neg = false /\ ctx_seeded gen_sites fuzz_neg = true.
Proof. split; [vm_compute; discriminate|]. split; vm_compute; reflexivity. Qed.

(* the complete table of today: for each of the 16 contexts (phase x negative x multipart, in the order of all_ctxs) the ids of the
   ambient sites a divergence there can be attributed to.  A new ambient site in the source (or a removed one) changes Gen_C13.v
   and breaks this lemma: the findings have to be re-read. *)
Lemma current_ambient_table :
  ambient_table gen_sites =
  [ [3; 4]; [3; 4]; [3; 4; 7]; [3; 4; 7];
    [5]; [5]; [5; 7]; [5; 7];
    []; []; [7]; [7];
    []; []; [7]; [7] ].
Proof. vm_compute. reflexivity. Qed.

(* the hypothesis of the workers theorem, as far as the translator can see it in the source: worker_task keeps nothing across
   operations (no local bound outside the operation loop and read inside it), get_strategy_kwargs mutates only objects it created,
   no module-level mutable state, one shared operations iterator under the lock *)
Lemma no_cross_operation_state : existsb (has_kind SharedState) gen_sites = false.
Proof. vm_compute. reflexivity. Qed.

Lemma no_cross_operation_state_ctx : forall x, ambient_kind_active SharedState gen_sites x = false.
Proof.
  intros [p n m]. destruct p, n, m; vm_compute; reflexivity.
Qed.

(* the per-case id is drawn from ambient entropy but is outside the compared request *)
Lemma case_id_not_in_request : forall s, In s gen_sites -> has_kind OsRandom s = true -> s_multipart_only s = false -> s_in_request s = false.
Proof.
  assert (H : forallb (fun s => negb (has_kind OsRandom s) || s_multipart_only s || negb (s_in_request s)) gen_sites = true)
    by (vm_compute; reflexivity).
  rewrite forallb_forall in H. intros s Hin Hk Hm. specialize (H s Hin). rewrite Hk, Hm in H. cbn in H.
  destruct (s_in_request s); [discriminate|reflexivity].
Qed.

(* seeds handed to Hypothesis *)
Lemma unit_seed_is_config_seed : forall seed k,
  seeded_values gen_sites ex_pos seed k = [seed] /\ seeded_values gen_sites cov_neg seed k = [seed]
  /\ seeded_values gen_sites fuzz_pos seed k = [seed] /\ seeded_values gen_sites fuzz_neg seed k = [seed].
Proof.
  intros seed k. unfold seeded_values, gen_sites. cbn -[N.add N.mul]. repeat split; f_equal; lia.
Qed.

Lemma stateful_seed_per_suite : forall seed k,
  seeded_values gen_sites st_pos seed k = [seed + k] /\ seeded_values gen_sites st_neg seed k = [seed + k].
Proof.
  intros seed k. unfold seeded_values, gen_sites. cbn -[N.add N.mul]. split; f_equal; lia.
Qed.

Lemma suite_seeds_distinct : forall seed off step k k',
  step <> 0 -> k <> k' -> seed + off + step * k <> seed + off + step * k'.
Proof. intros seed off step k k' Hs Hk. nia. Qed.

Lemma stateful_reruns_use_fresh_seeds : forall seed k k', k <> k' ->
  seeded_values gen_sites st_pos seed k <> seeded_values gen_sites st_pos seed k'.
Proof.
  intros seed k k' Hk. destruct (stateful_seed_per_suite seed k) as [-> _]. destruct (stateful_seed_per_suite seed k') as [-> _].
  intro H. injection H as H. lia.
Qed.

(* CLI *)
Lemma cli_fixed_seed_is_used : forall n d fresh, gen_cli_seed (Some n) d fresh = Some n.
Proof. intros n d fresh. unfold gen_cli_seed. cbn. reflexivity. Qed.

Lemma cli_no_seed : forall fresh, gen_cli_seed None false fresh = Some fresh /\ gen_cli_seed None true fresh = None.
Proof. intro fresh. split; reflexivity. Qed.

(* ------------------------------------------------------------------------------------ *)
(* 4. workers: interleavings                                                              *)
(* ------------------------------------------------------------------------------------ *)
Section InterleaveProofs.
  Context {A : Type}.
  Open Scope nat_scope.

  Lemma take_nth_spec : forall i (ls ls' : list (list A)) x,
    take_nth i ls = Some (x, ls') ->
    nth i ls [] = x :: nth i ls' []
    /\ (forall j, j <> i -> nth j ls' [] = nth j ls [])
    /\ length ls' = length ls
    /\ Permutation (concat ls) (x :: concat ls').
  Proof.
    induction i as [|i IH]; intros ls ls' x H.
    - destruct ls as [|l rest]; [discriminate|]. cbn [take_nth] in H. destruct l as [|y l']; [discriminate|].
      injection H as <- <-. repeat split.
      + intros j Hj. destruct j; [contradiction|reflexivity].
      + cbn [concat app]. reflexivity.
    - destruct ls as [|l rest]; [discriminate|]. cbn [take_nth] in H.
      destruct (take_nth i rest) as [[y rest']|] eqn:Ht; [|discriminate].
      injection H as <- <-. destruct (IH rest rest' y Ht) as [Hn [Ho [Hl Hp]]]. repeat split.
      + exact Hn.
      + intros j Hj. destruct j; [reflexivity|]. cbn [nth]. apply Ho. lia.
      + cbn [length]. rewrite Hl. reflexivity.
      + cbn [concat]. rewrite Hp. apply Permutation_sym. apply Permutation_middle.
  Qed.

  Lemma take_nth_none : forall i (ls : list (list A)), take_nth i ls = None -> nth i ls [] = [].
  Proof.
    induction i as [|i IH]; intros ls H.
    - destruct ls as [|l rest]; [reflexivity|]. cbn [take_nth] in H. destruct l; [reflexivity|discriminate].
    - destruct ls as [|l rest]; [reflexivity|]. cbn [take_nth] in H. cbn [nth].
      destruct (take_nth i rest) as [[y rest']|] eqn:Ht; [discriminate|]. apply IH. exact Ht.
  Qed.

  (* what is left after a schedule *)
  Fixpoint remaining (sched : list nat) (ls : list (list A)) : list (list A) :=
    match sched with
    | [] => ls
    | i :: sched' => match take_nth i ls with Some (_, ls') => remaining sched' ls' | None => remaining sched' ls end
    end.

  Lemma proj_cons_same : forall i (x : A) out, proj_op i ((i, x) :: out) = x :: proj_op i out.
  Proof. intros. unfold proj_op. cbn [filter fst]. rewrite Nat.eqb_refl. reflexivity. Qed.

  Lemma proj_cons_other : forall i j (x : A) out, j <> i -> proj_op i ((j, x) :: out) = proj_op i out.
  Proof. intros i j x out H. unfold proj_op. cbn [filter fst]. apply Nat.eqb_neq in H. rewrite H. reflexivity. Qed.

  (* per operation: what was sent, followed by what is left, is the list of that operation - in order *)
  Lemma proj_interleave : forall sched (ls : list (list A)) i,
    proj_op i (interleave sched ls) ++ nth i (remaining sched ls) [] = nth i ls [].
  Proof.
    induction sched as [|j sched IH]; intros ls i; [reflexivity|].
    cbn [interleave remaining]. destruct (take_nth j ls) as [[x ls']|] eqn:Ht.
    - destruct (take_nth_spec j ls ls' x Ht) as [Hn [Ho [_ _]]].
      destruct (Nat.eq_dec j i) as [->|Hne].
      + rewrite proj_cons_same. cbn [app]. rewrite IH. symmetry. exact Hn.
      + rewrite proj_cons_other by exact Hne. rewrite IH. apply Ho. auto.
    - apply IH.
  Qed.

  Lemma interleave_perm : forall sched (ls : list (list A)),
    Permutation (map snd (interleave sched ls) ++ concat (remaining sched ls)) (concat ls).
  Proof.
    induction sched as [|j sched IH]; intros ls; [reflexivity|].
    cbn [interleave remaining]. destruct (take_nth j ls) as [[x ls']|] eqn:Ht.
    - destruct (take_nth_spec j ls ls' x Ht) as [_ [_ [_ Hp]]].
      cbn [map snd app]. rewrite Hp. constructor. apply IH.
    - apply IH.
  Qed.

  Lemma concat_length_zero : forall (ls : list (list A)), length (concat ls) = 0 -> forall i, nth i ls [] = [].
  Proof.
    induction ls as [|l ls IH]; intros H i; [destruct i; reflexivity|].
    cbn [concat] in H. rewrite app_length in H. destruct i.
    - cbn [nth]. destruct l; [reflexivity|cbn in H; lia].
    - cbn [nth]. apply IH. lia.
  Qed.

  Lemma complete_remaining : forall sched (ls : list (list A)),
    complete sched ls = true -> length (concat (remaining sched ls)) = 0.
  Proof.
    intros sched ls H. unfold complete in H. apply Nat.eqb_eq in H.
    pose proof (Permutation_length (interleave_perm sched ls)) as Hl.
    rewrite app_length, map_length in Hl. lia.
  Qed.

  Lemma complete_proj : forall sched (ls : list (list A)),
    complete sched ls = true -> forall i, proj_op i (interleave sched ls) = nth i ls [].
  Proof.
    intros sched ls H i. rewrite <- (proj_interleave sched ls i).
    rewrite (concat_length_zero _ (complete_remaining sched ls H) i). rewrite app_nil_r. reflexivity.
  Qed.

  Lemma complete_perm : forall sched (ls : list (list A)),
    complete sched ls = true -> Permutation (map snd (interleave sched ls)) (concat ls).
  Proof.
    intros sched ls H. pose proof (interleave_perm sched ls) as Hp.
    assert (Hz : concat (remaining sched ls) = []).
    { apply length_zero_iff_nil. apply complete_remaining. exact H. }
    rewrite Hz, app_nil_r in Hp. exact Hp.
  Qed.

  (* the one-worker schedule is complete *)
  Lemma take_nth_skip : forall (pre : list (list A)) x l rest,
    Forall (fun l0 => l0 = []) pre ->
    take_nth (length pre) (pre ++ (x :: l) :: rest) = Some (x, pre ++ l :: rest).
  Proof.
    induction pre as [|p pre IH]; intros x l rest Hf; [reflexivity|].
    cbn [length app take_nth]. inversion Hf as [|? ? Hp Hf']; subst. rewrite (IH x l rest Hf'). reflexivity.
  Qed.

  Lemma interleave_repeat : forall (pre : list (list A)) l rest sched,
    Forall (fun l0 => l0 = []) pre ->
    interleave (repeat (length pre) (length l) ++ sched) (pre ++ l :: rest)
    = map (fun x => (length pre, x)) l ++ interleave sched (pre ++ [] :: rest).
  Proof.
    intros pre l. induction l as [|x l IH]; intros rest sched Hf; [reflexivity|].
    cbn [length repeat app interleave]. rewrite (take_nth_skip pre x l rest Hf). cbn [map app]. f_equal. apply IH. exact Hf.
  Qed.

  Lemma sequential_from_length : forall (pre ls : list (list A)),
    Forall (fun l0 => l0 = []) pre ->
    length (interleave (sequential_from (length pre) ls) (pre ++ ls)) = length (concat ls).
  Proof.
    intros pre ls. revert pre. induction ls as [|l ls IH]; intros pre Hf; [reflexivity|].
    cbn [sequential_from concat]. rewrite (interleave_repeat pre l ls _ Hf).
    rewrite !app_length, map_length. f_equal.
    replace (pre ++ [] :: ls) with ((pre ++ [[]]) ++ ls) by (rewrite <- app_assoc; reflexivity).
    replace (S (length pre)) with (length (pre ++ [[]])) by (rewrite app_length; cbn; lia).
    apply IH. apply Forall_app. split; [exact Hf|]. constructor; [reflexivity|constructor].
  Qed.

  Lemma concat_all_nil : forall (pre : list (list A)), Forall (fun l0 => l0 = []) pre -> concat pre = [].
  Proof. induction pre as [|p pre IH]; intros H; [reflexivity|]. inversion H; subst. cbn. apply IH. assumption. Qed.

  Lemma sequential_complete : forall (ls : list (list A)), complete (sequential ls) ls = true.
  Proof.
    intros ls. unfold complete, sequential. apply Nat.eqb_eq.
    exact (sequential_from_length [] ls (Forall_nil _)).
  Qed.
End InterleaveProofs.

(* The number of workers does not change what is sent to an operation.
   Hypothesis of the section (the part of the property that lives in the runtime): what is generated for an operation is a
   function gen_op of the operation and the seed alone - it does not read state written while another operation is generated. *)
Section Workers.
  Context {R : Type}.
  Variable gen_op : N -> N -> list R.

  Definition per_op (ops : list N) (seed : N) : list (list R) := map (fun op => gen_op op seed) ops.

  Lemma workers_do_not_change_multiset : forall ops seed sched sched',
    complete sched (per_op ops seed) = true -> complete sched' (per_op ops seed) = true ->
    (forall i, proj_op i (interleave sched (per_op ops seed)) = proj_op i (interleave sched' (per_op ops seed)))
    /\ Permutation (map snd (interleave sched (per_op ops seed))) (map snd (interleave sched' (per_op ops seed))).
  Proof.
    intros ops seed sched sched' H H'. split.
    - intro i. rewrite (complete_proj sched _ H i), (complete_proj sched' _ H' i). reflexivity.
    - rewrite (complete_perm sched _ H). apply Permutation_sym. apply complete_perm. exact H'.
  Qed.

  Lemma one_worker_is_a_schedule : forall ops seed, complete (sequential (per_op ops seed)) (per_op ops seed) = true.
  Proof. intros. apply sequential_complete. Qed.
End Workers.

(* without the hypothesis: two schedules with the same turns per operation, different requests for operation 0 *)
Lemma workers_shared_state_refuted :
  exists (gen : N -> N -> N) (sched sched' : list nat),
    Permutation sched sched'
    /\ proj_op 0 (run_shared gen sched 0) <> proj_op 0 (run_shared gen sched' 0).
Proof.
  exists (fun _ clock => clock), [0; 1]%nat, [1; 0]%nat. split.
  - apply perm_swap.
  - vm_compute. discriminate.
Qed.

Example interleave_example :
  interleave [1; 0; 1; 2; 0; 1; 0]%nat [[10; 11]; [20; 21]; []] = [(1%nat, 20); (0%nat, 10); (1%nat, 21); (0%nat, 11)]
  /\ complete [1; 0; 1; 2; 0; 1; 0]%nat [[10; 11]; [20; 21]; []] = true
  /\ sequential [[10; 11]; [20; 21]; []] = [0; 0; 1; 1]%nat
  /\ observed_is_interleaving [[10; 11]; [20; 21]] [(1%nat, 20); (0%nat, 10); (1%nat, 21); (0%nat, 11)] = true
  /\ observed_is_interleaving [[10; 11]; [20; 21]] [(1%nat, 21); (0%nat, 10); (1%nat, 20); (0%nat, 11)] = false.
Proof. repeat split; vm_compute; reflexivity. Qed.
