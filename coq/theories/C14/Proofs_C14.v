(* C14 proofs.  Part B first (the LTS of CachingAuthProvider.get), then Part A. *)
From Coq Require Import List NArith Bool Arith Lia ZifyBool.
From Verif Require Import Common.Str Common.Json C14.Model_C14.
Import ListNotations.
Open Scope N_scope.

(* ====================================================================================== *)
(* Part B                                                                                  *)
(* ====================================================================================== *)

Lemma nth_upd A (l : list A) i j x p :
  nth_error (upd i x l) j = Some p -> (j = i /\ p = x) \/ (j <> i /\ nth_error l j = Some p).
Proof.
  revert i j; induction l as [|y l IH]; intros i j H.
  - destruct i, j; cbn in H; discriminate.
  - destruct i as [|i], j as [|j]; cbn in H.
    + inversion H; auto.
    + right; split; [discriminate | exact H].
    + right; split; [discriminate | exact H].
    + apply IH in H. destruct H as [[-> ->] | [Hne H]]; [left; auto | right; split; [congruence | exact H]].
Qed.

Lemma nth_upd_same A (l : list A) i x q : nth_error l i = Some q -> nth_error (upd i x l) i = Some x.
Proof.
  revert i; induction l as [|y l IH]; intros [|i] H; cbn in *; try discriminate; auto.
Qed.

Lemma nget_nset_same A k (v : A) l : nget k (nset k v l) = Some v.
Proof.
  induction l as [|[k' v'] r IH]; cbn; [rewrite N.eqb_refl; reflexivity|].
  destruct (N.eqb k k') eqn:E; cbn; [rewrite N.eqb_refl; reflexivity | rewrite E; exact IH].
Qed.
Lemma nget_nset_other A k k' (v : A) l : k' <> k -> nget k' (nset k v l) = nget k' l.
Proof.
  intros Hne. induction l as [|[k2 v2] r IH]; cbn.
  - destruct (N.eqb k' k) eqn:E; [apply N.eqb_eq in E; contradiction | reflexivity].
  - destruct (N.eqb k k2) eqn:E; cbn.
    + apply N.eqb_eq in E; subst. destruct (N.eqb k' k2) eqn:E2; [apply N.eqb_eq in E2; contradiction | reflexivity].
    + destruct (N.eqb k' k2); [reflexivity | exact IH].
Qed.

Definition fkey (f : N * N * N) : N := fst (fst f).
Definition ftime (f : N * N * N) : N := snd (fst f).

Definition critical (p : pc) : bool :=
  match p with
  | PReRead _ | PCheck2 _ _ _ | PHit _ _ _ _ | PFetch _ | PTime _ _ | PSet _ _ _ | PRel _ _ => true
  | _ => false
  end.

Definition fetched (fs : list (N * N * N)) (k d : N) : Prop := exists tm, In (k, tm, d) fs.
Definition covered (iv : N) (ch : list (N * (N * N))) (f : N * N * N) : Prop :=
  exists d e, nget (fkey f) ch = Some (d, e) /\ ftime f + iv <= e.

Fixpoint Sep (iv : N) (l : list (N * N * N)) : Prop :=
  match l with
  | [] => True
  | f :: r => (forall g, In g r -> fkey g = fkey f -> ftime g + iv <= ftime f) /\ Sep iv r
  end.

(* what a caller at program point p knows; depends on the shared variables only *)
Definition pc_inv (iv ck : N) (ch : list (N * (N * N))) (lk : option nat) (fs : list (N * N * N))
  (t : nat) (p : pc) : Prop :=
  (critical p = true -> lk = Some t) /\
  match p with
  | PCheck1 k d e => fetched fs k d
  | PReRead k => Forall (covered iv ch) fs
  | PCheck2 k d e => nget k ch = Some (d, e) /\ fetched fs k d /\ Forall (covered iv ch) fs
  | PHit k d e now => now < e /\ fetched fs k d /\ Forall (covered iv ch) fs
  | PFetch k => (forall f, In f fs -> fkey f = k -> ftime f + iv <= ck) /\ Forall (covered iv ch) fs
  | PTime k d => exists tm rest, fs = (k, tm, d) :: rest /\ Forall (covered iv ch) rest
  | PSet k d now => exists tm rest, fs = (k, tm, d) :: rest /\ Forall (covered iv ch) rest /\
                                    (forall f, In f fs -> ftime f <= now)
  | PRel k d => fetched fs k d /\ Forall (covered iv ch) fs
  | _ => True
  end.

Definition ret_ok (fs : list (N * N * N)) (r : nat * N * N * rkind) : Prop :=
  match r with
  | (_, k, d, RFast e now) => now < e /\ fetched fs k d
  | (_, k, d, RHit e now) => now < e /\ fetched fs k d
  | (_, k, d, RFresh) => fetched fs k d
  end.

Record Inv (iv : N) (s : st) : Prop := {
  I_pc : forall t p, nth_error (pcs s) t = Some p -> pc_inv iv (clock s) (cache s) (lock s) (fetches s) t p;
  I_time : forall f, In f (fetches s) -> ftime f <= clock s;
  I_sep : Sep iv (fetches s);
  I_free : lock s = None -> Forall (covered iv (cache s)) (fetches s);
  I_cache : forall k d e, nget k (cache s) = Some (d, e) -> fetched (fetches s) k d;
  I_rets : forall r, In r (rets s) -> ret_ok (fetches s) r
}.

Lemma init_inv iv n : Inv iv (init n).
Proof.
  constructor; cbn; try (intros; contradiction); auto; try discriminate.
  intros t p H. assert (p = Idle) as ->.
  { apply nth_error_In in H. apply repeat_spec in H. exact H. }
  split; [discriminate | exact I].
Qed.

(* a thread that is not in the critical section keeps what it knows when the log only grows *)
Lemma frame iv ck ch lk fs ck' ch' lk' fs' j q :
  pc_inv iv ck ch lk fs j q -> critical q = false ->
  (forall k d, fetched fs k d -> fetched fs' k d) ->
  pc_inv iv ck' ch' lk' fs' j q.
Proof.
  intros [_ H] Hc Hm. split; [rewrite Hc; discriminate|].
  destruct q; cbn in *; try discriminate; auto.
Qed.

Lemma fetched_cons fs f k d : fetched fs k d -> fetched (f :: fs) k d.
Proof. intros [tm H]; exists tm; right; exact H. Qed.

Lemma ret_ok_mono fs f r : ret_ok fs r -> ret_ok (f :: fs) r.
Proof. destruct r as [[[t k] d] [e now|e now|]]; cbn; intuition auto using fetched_cons. Qed.

Lemma others_noncritical iv s t j q p :
  Inv iv s -> nth_error (pcs s) t = Some p -> critical p = true ->
  nth_error (pcs s) j = Some q -> j <> t -> critical q = false.
Proof.
  intros HI Hp Hc Hq Hne. destruct (critical q) eqn:E; [|reflexivity].
  destruct (I_pc _ _ HI _ _ Hp) as [H1 _]. destruct (I_pc _ _ HI _ _ Hq) as [H2 _].
  rewrite (H1 Hc) in H2. specialize (H2 E). inversion H2. congruence.
Qed.

Lemma free_noncritical iv s j q :
  Inv iv s -> lock s = None -> nth_error (pcs s) j = Some q -> critical q = false.
Proof.
  intros HI Hl Hq. destruct (critical q) eqn:E; [|reflexivity].
  destruct (I_pc _ _ HI _ _ Hq) as [H2 _]. rewrite Hl in H2. specialize (H2 E). discriminate.
Qed.

Lemma covered_nset iv ch k d now f :
  covered iv ch f -> ftime f <= now -> covered iv (nset k (d, now + iv) ch) f.
Proof.
  intros [d' [e' [Hg Hle]]] Hn. unfold covered.
  destruct (N.eq_dec (fkey f) k) as [->|Hne].
  - exists d, (now + iv). rewrite nget_nset_same. split; [reflexivity | lia].
  - exists d', e'. rewrite nget_nset_other by exact Hne. auto.
Qed.

Ltac inv_pc H := let H1 := fresh "Hcrit" in let H2 := fresh "Hk" in destruct H as [H1 H2]; cbn in H1, H2.

Lemma step_inv iv s l : Inv iv s -> Inv iv (step true iv s l).
Proof.
  intros HI. destruct l as [dt | t k | t]; cbn [step].
  - (* Tick *)
    constructor; cbn.
    + intros t p Hp. pose proof (I_pc _ _ HI _ _ Hp) as [Hc Hk]. split; [exact Hc|].
      destruct p; auto. destruct Hk as [Hk1 Hk2]. split; [|exact Hk2].
      intros f Hf He. specialize (Hk1 f Hf He). lia.
    + intros f Hf. pose proof (I_time _ _ HI f Hf). lia.
    + exact (I_sep _ _ HI).
    + exact (I_free _ _ HI).
    + exact (I_cache _ _ HI).
    + exact (I_rets _ _ HI).
  - (* Call *)
    destruct (nth_error (pcs s) t) as [p|] eqn:Hp; [|exact HI].
    destruct p; try exact HI.
    constructor; cbn; try apply HI.
    intros j q Hq. apply nth_upd in Hq. destruct Hq as [[-> ->] | [Hne Hq]].
    + split; [discriminate | exact I].
    + exact (I_pc _ _ HI _ _ Hq).
  - (* Th *)
    destruct (nth_error (pcs s) t) as [p|] eqn:Hp; [|exact HI].
    pose proof (I_pc _ _ HI _ _ Hp) as Hpi.
    destruct p; cbn [thread_step].
    + (* Idle *) exact HI.
    + (* PRead *)
      destruct (nget k (cache s)) as [[d e]|] eqn:Hg.
      * constructor; cbn; try apply HI.
        intros j q Hq. apply nth_upd in Hq. destruct Hq as [[-> ->] | [Hne Hq]]; [|exact (I_pc _ _ HI _ _ Hq)].
        split; [discriminate|]. exact (I_cache _ _ HI _ _ _ Hg).
      * constructor; cbn; try apply HI.
        intros j q Hq. apply nth_upd in Hq. destruct Hq as [[-> ->] | [Hne Hq]]; [|exact (I_pc _ _ HI _ _ Hq)].
        split; [discriminate | exact I].
    + (* PCheck1 *)
      inv_pc Hpi.
      destruct (e <=? clock s) eqn:Hle.
      * constructor; cbn; try apply HI.
        intros j q Hq. apply nth_upd in Hq. destruct Hq as [[-> ->] | [Hne Hq]]; [|exact (I_pc _ _ HI _ _ Hq)].
        split; [discriminate | exact I].
      * constructor; cbn; try apply HI.
        -- intros j q Hq. apply nth_upd in Hq. destruct Hq as [[-> ->] | [Hne Hq]]; [|exact (I_pc _ _ HI _ _ Hq)].
           split; [discriminate | exact I].
        -- intros r [<-|Hr]; [|exact (I_rets _ _ HI r Hr)]. cbn. split; [lia | exact Hk].
    + (* PAcq *)
      destruct (lock s) as [h|] eqn:Hl; [exact HI|].
      constructor; cbn; try apply HI.
      * intros j q Hq. apply nth_upd in Hq. destruct Hq as [[-> ->] | [Hne Hq]].
        -- split; [reflexivity|]. exact (I_free _ _ HI Hl).
        -- pose proof (free_noncritical _ _ _ _ HI Hl Hq) as Hnc.
           eapply frame; [exact (I_pc _ _ HI _ _ Hq) | exact Hnc | auto].
      * discriminate.
    + (* PReRead *)
      inv_pc Hpi.
      destruct (nget k (cache s)) as [[d e]|] eqn:Hg.
      * constructor; cbn; try apply HI.
        intros j q Hq. apply nth_upd in Hq. destruct Hq as [[-> ->] | [Hne Hq]]; [|exact (I_pc _ _ HI _ _ Hq)].
        split; [exact Hcrit|]. split; [exact Hg|]. split; [exact (I_cache _ _ HI _ _ _ Hg) | exact Hk].
      * constructor; cbn; try apply HI.
        intros j q Hq. apply nth_upd in Hq. destruct Hq as [[-> ->] | [Hne Hq]]; [|exact (I_pc _ _ HI _ _ Hq)].
        split; [exact Hcrit|]. split; [|exact Hk].
        intros f Hf He. rewrite Forall_forall in Hk. destruct (Hk f Hf) as [d' [e' [Hg' _]]].
        rewrite He in Hg'. congruence.
    + (* PCheck2 *)
      inv_pc Hpi. destruct Hk as [Hg [Hfd Hcov]].
      destruct (e <=? clock s) eqn:Hle.
      * constructor; cbn; try apply HI.
        intros j q Hq. apply nth_upd in Hq. destruct Hq as [[-> ->] | [Hne Hq]]; [|exact (I_pc _ _ HI _ _ Hq)].
        split; [exact Hcrit|]. split; [|exact Hcov].
        intros f Hf He. rewrite Forall_forall in Hcov. destruct (Hcov f Hf) as [d' [e' [Hg' Hle']]].
        rewrite He in Hg'. rewrite Hg in Hg'. inversion Hg'; subst. lia.
      * constructor; cbn; try apply HI.
        intros j q Hq. apply nth_upd in Hq. destruct Hq as [[-> ->] | [Hne Hq]]; [|exact (I_pc _ _ HI _ _ Hq)].
        split; [exact Hcrit|]. split; [lia|]. split; [exact Hfd | exact Hcov].
    + (* PHit *)
      inv_pc Hpi. destruct Hk as [Hlt [Hfd Hcov]].
      constructor; cbn; try apply HI.
      * intros j q Hq. apply nth_upd in Hq. destruct Hq as [[-> ->] | [Hne Hq]]; [split; [discriminate | exact I]|].
        pose proof (others_noncritical _ _ _ _ _ _ HI Hp eq_refl Hq Hne) as Hnc.
        eapply frame; [exact (I_pc _ _ HI _ _ Hq) | exact Hnc | auto].
      * intros _. exact Hcov.
      * intros r [<-|Hr]; [|exact (I_rets _ _ HI r Hr)]. cbn. split; [exact Hlt | exact Hfd].
    + (* PFetch *)
      inv_pc Hpi. destruct Hk as [Hsep Hcov].
      set (d := N.of_nat (length (fetches s)) + 1).
      constructor; cbn.
      * intros j q Hq. apply nth_upd in Hq. destruct Hq as [[-> ->] | [Hne Hq]].
        -- split; [exact Hcrit|]. exists (clock s), (fetches s). split; [reflexivity | exact Hcov].
        -- pose proof (others_noncritical _ _ _ _ _ _ HI Hp eq_refl Hq Hne) as Hnc.
           eapply frame; [exact (I_pc _ _ HI _ _ Hq) | exact Hnc | intros; apply fetched_cons; assumption].
      * intros f [<-|Hf]; [cbn; lia | exact (I_time _ _ HI f Hf)].
      * split; [|exact (I_sep _ _ HI)]. intros g Hg He. cbn. apply Hsep; assumption.
      * intros Hl. rewrite (Hcrit eq_refl) in Hl. discriminate.
      * intros k' d' e' Hg. apply fetched_cons. exact (I_cache _ _ HI _ _ _ Hg).
      * intros r Hr. apply ret_ok_mono. exact (I_rets _ _ HI r Hr).
    + (* PTime *)
      inv_pc Hpi. destruct Hk as [tm [rest [Hfs Hcov]]].
      constructor; cbn; try apply HI.
      intros j q Hq. apply nth_upd in Hq. destruct Hq as [[-> ->] | [Hne Hq]]; [|exact (I_pc _ _ HI _ _ Hq)].
      split; [exact Hcrit|]. exists tm, rest. split; [exact Hfs|]. split; [exact Hcov|].
      exact (I_time _ _ HI).
    + (* PSet *)
      inv_pc Hpi. destruct Hk as [tm [rest [Hfs [Hcov Hnow]]]].
      assert (Hall : Forall (covered iv (nset k (d, now + iv) (cache s))) (fetches s)).
      { rewrite Hfs. constructor.
        - exists d, (now + iv). cbn. rewrite nget_nset_same. split; [reflexivity|].
          assert (ftime (k, tm, d) <= now) by (apply Hnow; rewrite Hfs; left; reflexivity). cbn in H. lia.
        - rewrite Forall_forall in *. intros f Hf. apply covered_nset; [apply Hcov; exact Hf|].
          apply Hnow. rewrite Hfs. right. exact Hf. }
      constructor; cbn.
      * intros j q Hq. apply nth_upd in Hq. destruct Hq as [[-> ->] | [Hne Hq]].
        -- split; [exact Hcrit|]. split; [exists tm; rewrite Hfs; left; reflexivity | exact Hall].
        -- pose proof (others_noncritical _ _ _ _ _ _ HI Hp eq_refl Hq Hne) as Hnc.
           eapply frame; [exact (I_pc _ _ HI _ _ Hq) | exact Hnc | auto].
      * exact (I_time _ _ HI).
      * exact (I_sep _ _ HI).
      * intros Hl. rewrite (Hcrit eq_refl) in Hl. discriminate.
      * intros k' d' e' Hg. destruct (N.eq_dec k' k) as [->|Hne].
        -- rewrite nget_nset_same in Hg. inversion Hg; subst. exists tm. rewrite Hfs. left. reflexivity.
        -- rewrite nget_nset_other in Hg by exact Hne. exact (I_cache _ _ HI _ _ _ Hg).
      * exact (I_rets _ _ HI).
    + (* PRel *)
      inv_pc Hpi. destruct Hk as [Hfd Hcov].
      constructor; cbn; try apply HI.
      * intros j q Hq. apply nth_upd in Hq. destruct Hq as [[-> ->] | [Hne Hq]]; [split; [discriminate | exact I]|].
        pose proof (others_noncritical _ _ _ _ _ _ HI Hp eq_refl Hq Hne) as Hnc.
        eapply frame; [exact (I_pc _ _ HI _ _ Hq) | exact Hnc | auto].
      * intros _. exact Hcov.
      * intros r [<-|Hr]; [|exact (I_rets _ _ HI r Hr)]. cbn. exact Hfd.
Qed.

Lemma run_inv iv sched : forall s, Inv iv s -> Inv iv (run true iv sched s).
Proof.
  unfold run. induction sched as [|l r IH]; intros s HI; cbn; [exact HI|]. apply IH. apply step_inv. exact HI.
Qed.

Lemma Sep_app iv x f y :
  Sep iv (x ++ f :: y) -> forall g, In g y -> fkey g = fkey f -> ftime g + iv <= ftime f.
Proof.
  induction x as [|a x IH]; cbn; intros [H1 H2]; [exact H1 | exact (IH H2)].
Qed.

(* two provider fetches for one key are at least one refresh interval apart: every number
   of callers, every interleaving, every clock advance *)
Lemma fetch_once iv n sched k t1 t2 d1 d2 l1 l2 l3 :
  fetch_log (run true iv sched (init n)) = l1 ++ (k, t1, d1) :: l2 ++ (k, t2, d2) :: l3 -> t1 + iv <= t2.
Proof.
  intros H. pose proof (I_sep _ _ (run_inv iv sched _ (init_inv iv n))) as HS.
  unfold fetch_log in H. apply (f_equal (@rev _)) in H. rewrite rev_involutive in H.
  rewrite rev_app_distr in H. cbn [rev] in H. rewrite rev_app_distr in H. cbn [rev] in H.
  rewrite <- !app_assoc in H. cbn [app] in H.
  rewrite H in HS.
  apply (Sep_app iv (rev l3) (k, t2, d2) (rev l2 ++ (k, t1, d1) :: rev l1) HS (k, t1, d1)).
  - apply in_or_app. right. left. reflexivity.
  - reflexivity.
Qed.

Lemma returns_ok iv n sched r :
  In r (rets (run true iv sched (init n))) -> ret_ok (fetches (run true iv sched (init n))) r.
Proof. apply (I_rets _ _ (run_inv iv sched _ (init_inv iv n))). Qed.

(* the pre-lock fast path never returns an expired entry, and what it returns was fetched for that key *)
Lemma fast_path_fresh iv n sched t k d e now :
  In (t, k, d, RFast e now) (rets (run true iv sched (init n))) ->
  now < e /\ exists tm, In (k, tm, d) (fetches (run true iv sched (init n))).
Proof. intros H. exact (returns_ok iv n sched _ H). Qed.

Lemma every_return_was_fetched iv n sched t k d how :
  In (t, k, d, how) (rets (run true iv sched (init n))) ->
  exists tm, In (k, tm, d) (fetches (run true iv sched (init n))).
Proof. intros H. pose proof (returns_ok iv n sched _ H) as R. destruct how; cbn in R; tauto. Qed.

Lemma mutual_exclusion iv n sched t1 t2 p1 p2 :
  nth_error (pcs (run true iv sched (init n))) t1 = Some p1 -> critical p1 = true ->
  nth_error (pcs (run true iv sched (init n))) t2 = Some p2 -> critical p2 = true -> t1 = t2.
Proof.
  intros H1 C1 H2 C2. pose proof (run_inv iv sched _ (init_inv iv n)) as HI.
  destruct (I_pc _ _ HI _ _ H1) as [A _]. destruct (I_pc _ _ HI _ _ H2) as [B _].
  rewrite (A C1) in B. specialize (B C2). inversion B. reflexivity.
Qed.

(* the entry in the cache is never older than the newest completed fetch of its key *)
Lemma lock_free_all_covered iv n sched f :
  lock (run true iv sched (init n)) = None -> In f (fetches (run true iv sched (init n))) ->
  exists d e, nget (fkey f) (cache (run true iv sched (init n))) = Some (d, e) /\ ftime f + iv <= e.
Proof.
  intros Hl Hf. pose proof (I_free _ _ (run_inv iv sched _ (init_inv iv n)) Hl) as H.
  rewrite Forall_forall in H. exact (H f Hf).
Qed.

(* ---- regression witness: without the re-check under the lock two callers both fetch ---- *)
Definition sched_race : list label :=
  [Call 0 7; Call 1 7; Th 0; Th 1;         (* both read an empty cache *)
   Th 0; Th 0; Th 0; Th 0; Th 0;          (* caller 0: acquire, fetch, timer, store, release *)
   Th 1; Th 1].                           (* caller 1: acquire, fetch again *)

Lemma no_recheck_refuted :
  fetch_log (run false 300 sched_race (init 2)) = [] ++ (7, 0, 1) :: [] ++ (7, 0, 2) :: [] /\ ~ (0 + 300 <= 0).
Proof. split; [vm_compute; reflexivity | lia]. Qed.

(* the same schedule on the code as it is: one fetch, the second caller is served from the cache *)
Lemma recheck_same_schedule :
  fetch_log (run true 300 (sched_race ++ [Th 0; Th 1; Th 1; Th 1; Th 1]) (init 2)) = [(7, 0, 1)] /\
  map ret_obs (rev (rets (run true 300 (sched_race ++ [Th 0; Th 1; Th 1; Th 1; Th 1]) (init 2)))) = [(0%nat, 7, 1, 2); (1%nat, 7, 1, 1)].
Proof. split; vm_compute; reflexivity. Qed.

(* non-vacuity: a run with a refresh after the interval, a fast-path return and two keys *)
Definition sched_demo : list label :=
  [Call 0 1; Th 0; Th 0; Th 0; Th 0; Th 0; Th 0; Th 0;   (* fetch key 1 at 0 *)
   Tick 10; Call 1 1; Th 1; Th 1;                  (* fast path at 10 *)
   Call 0 2; Th 0; Th 0; Th 0; Th 0; Th 0; Th 0; Th 0;   (* key 2 fetched at 10 *)
   Tick 290; Call 1 1; Th 1; Th 1; Th 1; Th 1; Th 1; Th 1; Th 1; Th 1; Th 1].  (* key 1 expired at 300: refetch *)
Lemma demo_run :
  fetch_log (run true 300 sched_demo (init 2)) = [(1, 0, 1); (2, 10, 2); (1, 300, 3)] /\
  map ret_obs (rev (rets (run true 300 sched_demo (init 2)))) =
    [(0%nat, 1, 1, 2); (1%nat, 1, 1, 0); (0%nat, 2, 2, 2); (1%nat, 1, 3, 2)] /\
  sep_ok 300 (fetches (run true 300 sched_demo (init 2))) = true /\
  sep_ok 300 (fetches (run false 300 sched_race (init 2))) = false.
Proof. repeat split; vm_compute; reflexivity. Qed.

(* ====================================================================================== *)
(* Part A                                                                                  *)
(* ====================================================================================== *)

Lemma leq_iff a b : leq a b = true <-> lower_ascii a = lower_ascii b.
Proof. unfold leq. apply str_eqb_spec. Qed.
Lemma leq_false a b : leq a b = false <-> lower_ascii a <> lower_ascii b.
Proof.
  split; intros H.
  - intros E. apply leq_iff in E. congruence.
  - destruct (leq a b) eqn:E; [apply leq_iff in E; contradiction | reflexivity].
Qed.
Lemma leq_refl a : leq a a = true.
Proof. apply leq_iff; reflexivity. Qed.

Lemma ci_get_ci_set k n v d : ci_get n (ci_set k v d) = if leq n k then Some v else ci_get n d.
Proof.
  induction d as [|[k' v'] r IH]; cbn; [reflexivity|].
  destruct (leq k k') eqn:E; cbn.
  - destruct (leq n k) eqn:E1; [reflexivity|].
    destruct (leq n k') eqn:E2; [|reflexivity].
    apply leq_iff in E, E2. apply leq_false in E1. congruence.
  - destruct (leq n k') eqn:E2.
    + destruct (leq n k) eqn:E1; [|reflexivity].
      apply leq_iff in E1, E2. apply leq_false in E. congruence.
    + exact IH.
Qed.

Definition lastf (n : str) (items : dict) (acc : option str) : option str :=
  fold_left (fun acc kv => if leq n (fst kv) then Some (snd kv) else acc) items acc.

Lemma ci_get_ci_update n items : forall base,
  ci_get n (ci_update base items) = lastf n items (ci_get n base).
Proof.
  unfold ci_update, lastf. induction items as [|[k v] r IH]; intros base; cbn; [reflexivity|].
  rewrite IH, ci_get_ci_set. reflexivity.
Qed.

Definition allv (n v : str) (d : dict) : Prop := forall k x, In (k, x) d -> leq n k = true -> x = v.
Definition hasn (n : str) (d : dict) : Prop := exists k x, In (k, x) d /\ leq n k = true.
Definition nomatch (n : str) (d : dict) : Prop := forall k x, In (k, x) d -> leq n k = false.

Lemma lastf_some n v items : forall acc, allv n v items -> (hasn n items \/ acc = Some v) -> lastf n items acc = Some v.
Proof.
  unfold lastf. induction items as [|[k x] r IH]; intros acc Ha Hh; cbn.
  - destruct Hh as [[k [x [[] _]]] | ->]. reflexivity.
  - apply IH.
    + intros k' x' Hin. apply Ha. right. exact Hin.
    + cbn. destruct (leq n k) eqn:E.
      * right. f_equal. apply (Ha k x); [left; reflexivity | exact E].
      * destruct Hh as [[k' [x' [[Heq|Hin] Hm]]] | ->]; [inversion Heq; subst; congruence | left; exists k', x'; auto | right; reflexivity].
Qed.

Lemma lastf_nomatch n items : forall acc, nomatch n items -> lastf n items acc = acc.
Proof.
  unfold lastf. induction items as [|[k x] r IH]; intros acc Hn; cbn; [reflexivity|].
  rewrite (Hn k x (or_introl eq_refl)). apply IH. intros k' x' Hin. apply (Hn k' x'). right. exact Hin.
Qed.

Lemma ci_get_none_nomatch n d : ci_get n d = None -> nomatch n d.
Proof.
  induction d as [|[k v] r IH]; cbn; intros H k' x' Hin; [contradiction|].
  destruct (leq n k) eqn:E; [discriminate|].
  destruct Hin as [Heq|Hin]; [inversion Heq; subst; exact E | exact (IH H k' x' Hin)].
Qed.

Lemma ci_user_spec n d v : ci_user n d = Some v -> allv n v d /\ hasn n d.
Proof.
  unfold ci_user. intros H.
  destruct (filter (fun kv => leq n (fst kv)) d) as [|[k0 v0] r] eqn:F; [discriminate|].
  destruct (forallb (fun kv => str_eqb (snd kv) v0) r) eqn:A; [|discriminate]. inversion H; subst v0; clear H.
  assert (Hin0 : In (k0, v) (filter (fun kv => leq n (fst kv)) d)) by (rewrite F; left; reflexivity).
  apply filter_In in Hin0. cbn in Hin0.
  split.
  - intros k x Hin Hm.
    assert (Hf : In (k, x) (filter (fun kv => leq n (fst kv)) d)) by (apply filter_In; split; [exact Hin | exact Hm]).
    rewrite F in Hf. destruct Hf as [Heq|Hf]; [inversion Heq; reflexivity|].
    rewrite forallb_forall in A. specialize (A _ Hf). cbn in A. apply str_eqb_spec in A. exact A.
  - exists k0, v. exact Hin0.
Qed.

(* well-formed CaseInsensitiveDict: one entry per lower-cased key *)
Definition lkeys (d : dict) : list str := map (fun kv => lower_ascii (fst kv)) d.
Definition ci_wf (d : dict) : Prop := NoDup (lkeys d).

Lemma lkeys_ci_set k v d y : In y (lkeys (ci_set k v d)) -> y = lower_ascii k \/ In y (lkeys d).
Proof.
  induction d as [|[k' v'] r IH]; cbn.
  - intros [<-|[]]; left; reflexivity.
  - destruct (leq k k') eqn:E; cbn.
    + apply leq_iff in E. intros [<-|H]; [right; left; symmetry; exact E | right; right; exact H].
    + intros [<-|H]; [right; left; reflexivity|]. destruct (IH H) as [->|H']; [left; reflexivity | right; right; exact H'].
Qed.

Lemma wf_ci_set k v d : ci_wf d -> ci_wf (ci_set k v d).
Proof.
  unfold ci_wf. induction d as [|[k' v'] r IH]; cbn; intros H.
  - constructor; [intros [] | constructor].
  - inversion H as [|? ? Hnin Hnd]; subst. destruct (leq k k') eqn:E; cbn.
    + apply leq_iff in E. unfold lower_ascii in E. rewrite E. constructor; assumption.
    + constructor; [|apply IH; exact Hnd].
      intros Hin. apply lkeys_ci_set in Hin. destruct Hin as [Heq|Hin]; [|contradiction].
      apply leq_false in E. unfold lower_ascii in *. congruence.
Qed.

Lemma wf_ci_update items : forall base, ci_wf base -> ci_wf (ci_update base items).
Proof.
  unfold ci_update. induction items as [|[k v] r IH]; intros base H; cbn; [exact H|]. apply IH. apply wf_ci_set. exact H.
Qed.
Lemma wf_nil : ci_wf [].
Proof. constructor. Qed.
Lemma wf_ci_of_items items : ci_wf (ci_of_items items).
Proof. apply wf_ci_update. exact wf_nil. Qed.
Lemma wf_ci_setdefault k v d : ci_wf d -> ci_wf (ci_setdefault k v d).
Proof. unfold ci_setdefault. intros H. destruct (ci_get k d); [exact H | apply wf_ci_set; exact H]. Qed.

Lemma wf_get_allv n v d : ci_wf d -> ci_get n d = Some v -> allv n v d /\ hasn n d.
Proof.
  unfold ci_wf. induction d as [|[k' v'] r IH]; cbn; intros Hwf Hg; [discriminate|].
  inversion Hwf as [|? ? Hnin Hnd]; subst.
  destruct (leq n k') eqn:E.
  - inversion Hg; subst v'. split.
    + intros k x [Heq|Hin] Hm; [inversion Heq; reflexivity|].
      exfalso. apply Hnin. apply leq_iff in E, Hm. unfold lower_ascii in E, Hm. rewrite <- E, Hm.
      apply (in_map (fun kv => lower_ascii (fst kv)) r (k, x)). exact Hin.
    + exists k', v. split; [left; reflexivity | exact E].
  - destruct (IH Hnd Hg) as [Ha [k [x [Hin Hm]]]]. split.
    + intros k0 x0 [Heq|Hin0] Hm0; [inversion Heq; subst; congruence | exact (Ha k0 x0 Hin0 Hm0)].
    + exists k, x. split; [right; exact Hin | exact Hm].
Qed.

Lemma ci_get_leq n k d : leq n k = true -> ci_get n d = ci_get k d.
Proof.
  intros H. apply leq_iff in H. induction d as [|[k' v'] r IH]; cbn; [reflexivity|].
  unfold leq. rewrite H. destruct (str_eqb (lower_ascii k) (lower_ascii k')); [reflexivity | exact IH].
Qed.

Lemma ci_get_setdefault n v k x d : ci_get n d = Some v -> ci_get n (ci_setdefault k x d) = Some v.
Proof.
  unfold ci_setdefault. intros H. destruct (ci_get k d) eqn:G; [exact H|].
  rewrite ci_get_ci_set. destruct (leq n k) eqn:E; [|exact H].
  rewrite (ci_get_leq _ _ _ E) in H. congruence.
Qed.

(* plain dict facts *)
Lemma in_assoc_set A k (v : A) d e : In e (assoc_set k v d) -> e = (k, v) \/ In e d.
Proof.
  induction d as [|[k' v'] r IH]; cbn; [intros [<-|[]]; left; reflexivity|].
  destruct (str_eqb k k'); cbn.
  - intros [<-|H]; [left; reflexivity | right; right; exact H].
  - intros [<-|H]; [right; left; reflexivity|]. destruct (IH H) as [->|H']; [left; reflexivity | right; right; exact H'].
Qed.
Lemma in_assoc_update A (u : list (str * A)) : forall d e, In e (assoc_update d u) -> In e d \/ In e u.
Proof.
  unfold assoc_update. induction u as [|[k v] r IH]; intros d e H; cbn in *; [left; exact H|].
  destruct (IH _ _ H) as [H1|H1]; [|right; right; exact H1].
  apply in_assoc_set in H1. destruct H1 as [->|H1]; [right; left; reflexivity | left; exact H1].
Qed.
Lemma key_kept_assoc_set A k (v : A) d k0 x0 : In (k0, x0) d -> exists x1, In (k0, x1) (assoc_set k v d).
Proof.
  induction d as [|[k' v'] r IH]; cbn; [intros []|].
  intros [Heq|Hin].
  - inversion Heq; subst. destruct (str_eqb k k0) eqn:E; cbn.
    + apply str_eqb_spec in E; subst. exists v. left. reflexivity.
    + exists x0. left. reflexivity.
  - destruct (str_eqb k k') eqn:E; cbn.
    + exists x0. right. exact Hin.
    + destruct (IH Hin) as [x1 H1]. exists x1. right. exact H1.
Qed.
Lemma key_kept_assoc_update A (u : list (str * A)) : forall d k0 x0, In (k0, x0) d -> exists x1, In (k0, x1) (assoc_update d u).
Proof.
  unfold assoc_update. induction u as [|[k v] r IH]; intros d k0 x0 H; cbn; [exists x0; exact H|].
  destruct (key_kept_assoc_set _ k v d k0 x0 H) as [x1 H1]. exact (IH _ _ _ H1).
Qed.
Lemma key_of_update_in A (u : list (str * A)) : forall d k0 x0, In (k0, x0) u -> exists x1, In (k0, x1) (assoc_update d u).
Proof.
  unfold assoc_update. induction u as [|[k v] r IH]; intros d k0 x0 H; cbn; [contradiction|].
  destruct H as [Heq|Hin]; [|exact (IH _ _ _ Hin)].
  inversion Heq; subst.
  assert (Hs : In (k0, x0) (assoc_set k0 x0 d)).
  { clear. induction d as [|[k' v'] r IH]; cbn; [left; reflexivity|]. destruct (str_eqb k0 k'); [left; reflexivity | right; exact IH]. }
  exact (key_kept_assoc_update _ r _ _ _ Hs).
Qed.

Lemma allv_update n v d u : allv n v d -> allv n v u -> allv n v (assoc_update d u).
Proof. intros Hd Hu k x Hin. destruct (in_assoc_update _ _ _ _ Hin); eauto. Qed.
Lemma hasn_update_r n d u : hasn n u -> hasn n (assoc_update d u).
Proof. intros [k [x [Hin Hm]]]. destruct (key_of_update_in _ u d k x Hin) as [x1 H1]. exists k, x1. auto. Qed.
Lemma hasn_update_l n d u : hasn n d -> hasn n (assoc_update d u).
Proof. intros [k [x [Hin Hm]]]. destruct (key_kept_assoc_update _ u d k x Hin) as [x1 H1]. exists k, x1. auto. Qed.
Lemma allv_nomatch n v d : nomatch n d -> allv n v d.
Proof. intros H k x Hin Hm. rewrite (H k x Hin) in Hm. discriminate. Qed.

Lemma p_setdefault_in k v d e : In e (p_setdefault k v d) -> e = (k, v) \/ In e d.
Proof. unfold p_setdefault. destruct (assoc_get k d); [right; assumption | apply in_assoc_set]. Qed.
Lemma p_setdefault_keeps k v d e : In e d -> In e (p_setdefault k v d).
Proof.
  unfold p_setdefault. destruct (assoc_get k d) eqn:G; [auto|]. intros H.
  induction d as [|[k' v'] r IH]; cbn in *; [contradiction|].
  destruct (str_eqb k k') eqn:E; [discriminate|]. destruct H as [<-|H]; [left; reflexivity | right; exact (IH G H)].
Qed.

(* ---- headers: from the case to the wire ---- *)
Definition h_ok (n v : str) (h : hdrs) : Prop :=
  match h with HNone => True | HCI d => ci_wf d | HPlain d => allv n v d /\ outside_F3 n = true end.
Definition h_has (n v : str) (h : hdrs) : Prop :=
  match h with
  | HNone => False
  | HCI d => ci_wf d /\ ci_get n d = Some v
  | HPlain d => allv n v d /\ hasn n d /\ outside_F3 n = true
  end.

Lemma F3_ua n : outside_F3 n = true -> leq n USER_AGENT_NAME = false /\ leq n TESTCASE_NAME = false.
Proof. unfold outside_F3. intros H. apply andb_true_iff in H. destruct H as [A B]. apply negb_true_iff in A, B. auto. Qed.

Lemma has_setdefault n v k x h :
  h_has n v h -> (k = USER_AGENT_NAME \/ k = TESTCASE_NAME) -> h_has n v (h_setdefault k x h).
Proof.
  destruct h as [|d|d]; cbn; [tauto| |].
  - intros [Ha [Hh HF]] Hk. split; [|split; [|exact HF]].
    + intros k' x' Hin Hm. apply p_setdefault_in in Hin. destruct Hin as [Heq|Hin]; [|exact (Ha _ _ Hin Hm)].
      inversion Heq; subst k' x'. destruct (F3_ua _ HF) as [A B]. destruct Hk as [->| ->]; congruence.
    + destruct Hh as [k' [x' [Hin Hm]]]. exists k', x'. split; [apply p_setdefault_keeps; exact Hin | exact Hm].
  - intros [Hw Hg] _. split; [apply wf_ci_setdefault; exact Hw | apply ci_get_setdefault; exact Hg].
Qed.

Lemma wire_of_has defaults net0 final a n v :
  h_has n v final -> (a = None \/ leq n AUTHORIZATION = false) ->
  ci_get n (wire_headers defaults net0 final a) = Some v.
Proof.
  intros Hh Ha. unfold wire_headers.
  assert (G : ci_get n (ci_update (session_headers defaults net0) (h_items final)) = Some v).
  { rewrite ci_get_ci_update. destruct final as [|d|d]; cbn in Hh |- *; [contradiction| |].
    - destruct Hh as [A [B _]]. apply lastf_some; auto.
    - destruct Hh as [Hw Hg]. destruct (wf_get_allv _ _ _ Hw Hg) as [A B]. apply lastf_some; auto. }
  unfold apply_auth. destruct a as [x|]; [|exact G].
  destruct Ha as [Ha|Ha]; [discriminate|]. rewrite ci_get_ci_set, Ha. exact G.
Qed.

Lemma prepare_has h netd ua cid n v :
  h_has n v (if is_empty netd then (match h with HNone => HCI [] | x => x end)
             else h_update (match h with HNone => HCI [] | x => x end) netd) ->
  h_has n v (prepare_headers h netd ua cid).
Proof. intros H. unfold prepare_headers. apply has_setdefault; [apply has_setdefault; [exact H | auto] | auto]. Qed.

(* a configured network header wins, whatever the case carries *)
Lemma wire_net h netd ua cid defaults a n v :
  h_ok n v h -> ci_user n netd = Some v -> (a = None \/ leq n AUTHORIZATION = false) ->
  ci_get n (wire_headers defaults netd (prepare_headers h netd ua cid) a) = Some v.
Proof.
  intros Hok Hu Ha. destruct (ci_user_spec _ _ _ Hu) as [Hall Hhas].
  apply wire_of_has; [|exact Ha]. apply prepare_has.
  assert (Hne : is_empty netd = false).
  { destruct netd; [|reflexivity]. destruct Hhas as [k [x [[] _]]]. }
  rewrite Hne.
  destruct h as [|d|d]; cbn in *.
  - split; [apply wf_ci_update; exact wf_nil|]. rewrite ci_get_ci_update. apply lastf_some; auto.
  - destruct Hok as [A HF]. split; [apply allv_update; assumption|]. split; [apply hasn_update_r; exact Hhas | exact HF].
  - split; [apply wf_ci_update; exact Hok|]. rewrite ci_get_ci_update. apply lastf_some; auto.
Qed.

(* a value carried by the case survives when the network headers do not name it *)
Lemma wire_keep h netd ua cid defaults a n v :
  h_has n v h -> nomatch n netd -> (a = None \/ leq n AUTHORIZATION = false) ->
  ci_get n (wire_headers defaults netd (prepare_headers h netd ua cid) a) = Some v.
Proof.
  intros Hh Hn Ha. apply wire_of_has; [|exact Ha]. apply prepare_has.
  destruct h as [|d|d]; cbn in Hh; [contradiction| |]; destruct (is_empty netd); cbn; try exact Hh.
  - destruct Hh as [A [B C]]. split; [apply allv_update; [exact A | apply allv_nomatch; exact Hn]|].
    split; [apply hasn_update_l; exact B | exact C].
  - destruct Hh as [A B]. split; [apply wf_ci_update; exact A|]. rewrite ci_get_ci_update, lastf_nomatch; assumption.
Qed.

Lemma tch_ok n v x : h_ok n v (to_case_headers x).
Proof. destruct x; cbn; [apply wf_ci_of_items | exact I]. Qed.

Lemma filter_sub A (p : A -> bool) l x : In x (filter p l) -> In x l.
Proof. intros H. apply filter_In in H. tauto. Qed.

Lemma nokey_nomatch n g : no_ci_key n (Some g) = true -> nomatch n g.
Proof. cbn. destruct (ci_get n g) eqn:G; [discriminate|]. intros _. apply ci_get_none_nomatch. exact G. Qed.

Lemma case_headers_ok ph c o ex gen n v :
  ci_user n (net c) = Some v ->
  ((ph = Coverage \/ ph = Stateful) -> outside_F3 n = true) ->
  ((ph = Coverage \/ ph = Stateful) -> no_ci_key n (Some (entry c o LHeaders)) = true) ->
  h_ok n v (case_headers ph c o ex gen).
Proof.
  intros Hu HF Hs. destruct (ci_user_spec _ _ _ Hu) as [Hall Hhas].
  unfold case_headers. destruct ph; cbn [case_headers_with]; try apply tch_ok.
  - (* Coverage *)
    assert (Hnm : nomatch n (entry c o LHeaders)) by (apply nokey_nomatch; apply Hs; left; reflexivity).
    unfold strategy_kwarg. destruct (is_empty (net c)) eqn:En.
    { destruct (net c); [|discriminate]. destruct Hhas as [k [x [[] _]]]. }
    set (e' := match from_override c o LHeaders with Some e => e | None => [] end).
    assert (He' : nomatch n e').
    { unfold e', from_override. destruct (has_override c); [|intros ? ? []].
      destruct (is_empty (entry c o LHeaders)); [intros ? ? [] | exact Hnm]. }
    destruct gen as [g|]; cbn [cov_apply_h to_case_headers h_update h_ok].
    + apply wf_ci_update. apply wf_ci_of_items.
    + split; [|apply HF; left; reflexivity].
      apply allv_update; [intros k x Hin; apply Hall; eapply filter_sub; exact Hin | apply allv_nomatch; exact He'].
  - (* Stateful *)
    unfold sf_apply_h. destruct (has_override c && negb (is_empty (entry c o LHeaders))); [|apply tch_ok].
    assert (Hnm : nomatch n (entry c o LHeaders)).
    { apply nokey_nomatch. apply Hs. right. reflexivity. }
    assert (HP : h_ok n v (HPlain (assoc_update [] (entry c o LHeaders)))).
    { cbn. split; [|apply HF; right; reflexivity]. apply allv_update; [intros ? ? [] | apply allv_nomatch; exact Hnm]. }
    destruct gen as [g|]; cbn; [|exact HP].
    destruct (ci_of_items g) eqn:Eg; [exact HP|]. cbn. rewrite <- Eg. apply wf_ci_update. apply wf_ci_of_items.
Qed.

(* C14_user_value_wins, network headers: every phase, case-insensitively *)
Lemma net_header_wins ph c o ex gen ua cid defaults n v :
  ci_user n (net c) = Some v ->
  (auth c = None \/ leq n AUTHORIZATION = false) ->
  ((ph = Coverage \/ ph = Stateful) -> outside_F3 n = true) ->
  ((ph = Coverage \/ ph = Stateful) -> no_ci_key n (Some (entry c o LHeaders)) = true) ->
  ci_get n (wire ph c o ex gen ua cid defaults) = Some v.
Proof.
  intros Hu Ha HF Hs. unfold wire, final_headers. apply wire_net; [|exact Hu | exact Ha].
  apply case_headers_ok; assumption.
Qed.

(* the transport merge itself: no region needed when the case carries a CaseInsensitiveDict or nothing *)
Lemma transport_merge_wins d netd ua cid defaults a n v :
  ci_wf d -> ci_user n netd = Some v -> (a = None \/ leq n AUTHORIZATION = false) ->
  ci_get n (wire_headers defaults netd (prepare_headers (HCI d) netd ua cid) a) = Some v /\
  ci_get n (wire_headers defaults netd (prepare_headers HNone netd ua cid) a) = Some v.
Proof. intros Hw Hu Ha. split; apply wire_net; cbn; auto. Qed.

(* F3: on a plain dict the default User-Agent is added case-sensitively and wins on the wire *)
Definition c_F3 : cfg :=
  {| net := [(user_agent_lower, [109;105;110;101])]; auth := None; has_override := false;
     ov_query := []; ov_headers := []; ov_cookies := []; ov_path := []; unique_inputs := false; sanitize := true |}.
Definition o_none : oper := {| d_query := []; d_headers := []; d_cookies := []; d_path := [] |}.
Lemma F3_witness :
  ci_user user_agent_lower (net c_F3) = Some [109;105;110;101] /\
  ci_get user_agent_lower (wire Coverage c_F3 o_none None None [115;116] [49] []) = Some [115;116] /\
  ci_get user_agent_lower (wire Fuzzing c_F3 o_none None None [115;116] [49] []) = Some [109;105;110;101].
Proof. repeat split; vm_compute; reflexivity. Qed.

(* ---- header overrides ---- *)
Lemma entry_nonempty n c o l : hasn n (entry c o l) -> is_empty (entry c o l) = false.
Proof. intros [k [x [Hin _]]]. destruct (entry c o l); [contradiction | reflexivity]. Qed.

Lemma has_of_items n v X : allv n v X -> hasn n X -> h_has n v (HCI (ci_of_items X)).
Proof.
  intros A B. cbn. split; [apply wf_ci_of_items|]. unfold ci_of_items. rewrite ci_get_ci_update. apply lastf_some; auto.
Qed.

Lemma gen_value_nonempty K gen : is_empty K = false ->
  gen_value (Some K) gen = Some (match gen with Some g => assoc_update K g | None => K end).
Proof. destruct K; [discriminate|]. intros _. destruct gen; reflexivity. Qed.

Lemma hasn_nonempty n K : hasn n K -> is_empty K = false.
Proof. intros [k [x [Hin _]]]. destruct K; [contradiction | reflexivity]. Qed.

Lemma override_header_case ph c o ex gen n v :
  has_override c = true ->
  ci_user n (entry c o LHeaders) = Some v ->
  outside_F4 c n = true ->
  ((ph = Fuzzing \/ ph = Examples) -> no_ci_key n gen = true) ->
  ((ph = Coverage \/ ph = Stateful) -> outside_F3 n = true) ->
  h_has n v (case_headers ph c o ex gen).
Proof.
  intros Hov Hu H4 Hg HF. destruct (ci_user_spec _ _ _ Hu) as [Hall Hhas].
  pose proof (entry_nonempty _ _ _ _ Hhas) as Hne.
  assert (Hnn : nomatch n (net c)) by (apply nokey_nomatch; exact H4).
  assert (Hkw : exists K, strategy_kwarg c o LHeaders = Some K /\ allv n v K /\ hasn n K).
  { unfold strategy_kwarg, from_override. rewrite Hov, Hne. destruct (is_empty (net c)).
    - exists (entry c o LHeaders). auto.
    - eexists. split; [reflexivity|]. split.
      + apply allv_update; [|exact Hall]. apply allv_nomatch. intros k x Hin. apply (Hnn k x). eapply filter_sub. exact Hin.
      + apply hasn_update_r. exact Hhas. }
  destruct Hkw as [K [HK [KA KH]]]. pose proof (hasn_nonempty _ _ KH) as KNE.
  unfold case_headers. destruct ph; cbn [case_headers_with].
  - (* Examples *)
    rewrite HK. cbn [example_explicit]. rewrite gen_value_nonempty by exact KNE. cbn [to_case_headers].
    destruct gen as [g|].
    + apply has_of_items; [apply allv_update; [exact KA | apply allv_nomatch; apply nokey_nomatch; apply Hg; auto] | apply hasn_update_l; exact KH].
    + apply has_of_items; assumption.
  - (* Coverage *)
    rewrite HK. destruct gen as [g|]; cbn [cov_apply_h to_case_headers h_update h_has].
    + split; [apply wf_ci_update; apply wf_ci_of_items|]. rewrite ci_get_ci_update. apply lastf_some; auto.
    + split; [exact KA|]. split; [exact KH | apply HF; auto].
  - (* Fuzzing *)
    rewrite HK. rewrite gen_value_nonempty by exact KNE. cbn [to_case_headers].
    destruct gen as [g|].
    + apply has_of_items; [apply allv_update; [exact KA | apply allv_nomatch; apply nokey_nomatch; apply Hg; auto] | apply hasn_update_l; exact KH].
    + apply has_of_items; assumption.
  - (* Stateful *)
    unfold sf_apply_h. rewrite Hov, Hne. cbn [andb negb].
    assert (HP : h_has n v (HPlain (assoc_update [] (entry c o LHeaders)))).
    { cbn [h_has]. split; [apply allv_update; [intros ? ? [] | exact Hall]|]. split; [apply hasn_update_r; exact Hhas | apply HF; auto]. }
    destruct gen as [g|]; cbn [to_case_headers]; [|exact HP].
    destruct (ci_of_items g) eqn:Eg; [exact HP|]. cbn [h_update]. rewrite <- Eg.
    cbn [h_has]. split; [apply wf_ci_update; apply wf_ci_of_items|]. rewrite ci_get_ci_update. apply lastf_some; auto.
Qed.

(* header overrides win in ALL four phases, also when --header is configured (commit 9a3b607c),
   as long as --header does not name the same header (F4) *)
Lemma override_header_wins ph c o ex gen ua cid defaults n v :
  has_override c = true ->
  ci_user n (entry c o LHeaders) = Some v ->
  outside_F4 c n = true ->
  ((ph = Fuzzing \/ ph = Examples) -> no_ci_key n gen = true) ->
  ((ph = Coverage \/ ph = Stateful) -> outside_F3 n = true) ->
  (auth c = None \/ leq n AUTHORIZATION = false) ->
  ci_get n (wire ph c o ex gen ua cid defaults) = Some v.
Proof.
  intros Hov Hu H4 Hg HF Ha. unfold wire, final_headers. apply wire_keep; [| | exact Ha].
  - apply override_header_case; assumption.
  - apply nokey_nomatch. exact H4.
Qed.

(* F1 (fixed by 9a3b607c): regression witness on the old get_strategy_kwargs; the same
   configuration on the code as it is now delivers the override in all four phases *)
Definition s_xover : str := [88;45;79;118;101;114].
Definition s_xg : str := [88;45;71].
Definition c_F1 : cfg :=
  {| net := [([88;45;67], [49])]; auth := None; has_override := true;
     ov_query := []; ov_headers := [(s_xover, [79;86])]; ov_cookies := []; ov_path := [];
     unique_inputs := false; sanitize := true |}.
Definition o_F1 : oper := {| d_query := []; d_headers := [s_xover]; d_cookies := []; d_path := [] |}.
Lemma F1_regression :
  has_override c_F1 = true /\ ci_user s_xover (entry c_F1 o_F1 LHeaders) = Some [79;86] /\
  outside_F4 c_F1 s_xover = true /\ outside_F3 s_xover = true /\ auth c_F1 = None /\
  ci_get s_xover (wire_prefix Fuzzing c_F1 o_F1 None (Some [(s_xover, [71])]) [115;116] [49] []) = Some [71] /\
  ci_get s_xover (wire_prefix Coverage c_F1 o_F1 None (Some [(s_xover, [71])]) [115;116] [49] []) = Some [71] /\
  [71] <> [79;86] /\
  ci_get s_xover (wire Fuzzing c_F1 o_F1 None (Some [(s_xg, [71])]) [115;116] [49] []) = Some [79;86] /\
  ci_get s_xover (wire Examples c_F1 o_F1 (Some [(s_xover, [71])]) (Some [(s_xg, [71])]) [115;116] [49] []) = Some [79;86] /\
  ci_get s_xover (wire Coverage c_F1 o_F1 None (Some [(s_xover, [71])]) [115;116] [49] []) = Some [79;86] /\
  ci_get s_xover (wire Stateful c_F1 o_F1 None (Some [(s_xover, [71])]) [115;116] [49] []) = Some [79;86].
Proof. repeat split; try (vm_compute; reflexivity); discriminate. Qed.

(* F4: the same header configured by --header and --set-header: the --header value is sent *)
Definition c_F4 : cfg :=
  {| net := [(s_xover, [78;69;84])]; auth := None; has_override := true;
     ov_query := []; ov_headers := [(s_xover, [79;86])]; ov_cookies := []; ov_path := [];
     unique_inputs := false; sanitize := true |}.
Lemma F4_refuted :
  has_override c_F4 = true /\ ci_user s_xover (entry c_F4 o_F1 LHeaders) = Some [79;86] /\
  outside_F3 s_xover = true /\ auth c_F4 = None /\ no_ci_key s_xover (Some [(s_xg, [71])]) = true /\
  [78;69;84] <> [79;86] /\
  ci_get s_xover (wire Examples c_F4 o_F1 None (Some [(s_xg, [71])]) [115;116] [49] []) = Some [78;69;84] /\
  ci_get s_xover (wire Coverage c_F4 o_F1 None (Some [(s_xg, [71])]) [115;116] [49] []) = Some [78;69;84] /\
  ci_get s_xover (wire Fuzzing c_F4 o_F1 None (Some [(s_xg, [71])]) [115;116] [49] []) = Some [78;69;84] /\
  ci_get s_xover (wire Stateful c_F4 o_F1 None (Some [(s_xg, [71])]) [115;116] [49] []) = Some [78;69;84].
Proof. repeat split; try (vm_compute; reflexivity); discriminate. Qed.

(* ... except on the plain-dict path of the coverage phase when the two spellings differ: there the
   override is the last spelling in the dict and requests lets it win (an inconsistency, recorded) *)
Definition c_F4b : cfg :=
  {| net := [([120;45;111;118;101;114], [78;69;84])]; auth := None; has_override := true;
     ov_query := []; ov_headers := [(s_xover, [79;86])]; ov_cookies := []; ov_path := [];
     unique_inputs := false; sanitize := true |}.
Lemma F4_plain_dict_inconsistency :
  ci_get s_xover (wire Coverage c_F4b o_F1 None None [115;116] [49] []) = Some [79;86] /\
  ci_get s_xover (wire Coverage c_F4b o_F1 None (Some [(s_xg, [71])]) [115;116] [49] []) = Some [78;69;84] /\
  ci_get s_xover (wire Fuzzing c_F4b o_F1 None None [115;116] [49] []) = Some [78;69;84].
Proof. repeat split; vm_compute; reflexivity. Qed.

(* ---- query / cookies / path parameters (plain dicts, exact names) ---- *)
Lemma assoc_get_assoc_set A n k (v : A) d : assoc_get n (assoc_set k v d) = if str_eqb n k then Some v else assoc_get n d.
Proof.
  destruct (str_eqb n k) eqn:E.
  - apply str_eqb_spec in E; subst. apply assoc_get_set_same.
  - apply assoc_get_set_other. exact E.
Qed.

Definition plastf (n : str) (items : dict) (acc : option str) : option str :=
  fold_left (fun acc kv => if str_eqb n (fst kv) then Some (snd kv) else acc) items acc.

Lemma assoc_get_update n u : forall d, assoc_get n (assoc_update d u) = plastf n u (assoc_get n d).
Proof.
  unfold assoc_update, plastf. induction u as [|[k v] r IH]; intros d; cbn; [reflexivity|].
  rewrite IH, assoc_get_assoc_set. reflexivity.
Qed.

Definition pallv (n v : str) (d : dict) : Prop := forall x, In (n, x) d -> x = v.

Lemma plastf_some n v u : forall acc, pallv n v u -> ((exists x, In (n, x) u) \/ acc = Some v) -> plastf n u acc = Some v.
Proof.
  unfold plastf. induction u as [|[k x] r IH]; intros acc Ha Hh; cbn.
  - destruct Hh as [[x []] | ->]. reflexivity.
  - apply IH; [intros y Hy; apply Ha; right; exact Hy|].
    cbn. destruct (str_eqb n k) eqn:E.
    + apply str_eqb_spec in E; subst k. right. f_equal. apply Ha. left. reflexivity.
    + destruct Hh as [[y [Heq|Hin]] | ->]; [inversion Heq; subst; rewrite str_eqb_refl in E; discriminate | left; exists y; exact Hin | right; reflexivity].
Qed.
Lemma plastf_none n u : forall acc, (forall x, ~ In (n, x) u) -> plastf n u acc = acc.
Proof.
  unfold plastf. induction u as [|[k x] r IH]; intros acc Hn; cbn; [reflexivity|].
  destruct (str_eqb n k) eqn:E.
  - apply str_eqb_spec in E; subst. exfalso. apply (Hn x). left. reflexivity.
  - apply IH. intros y Hy. apply (Hn y). right. exact Hy.
Qed.

Lemma assoc_get_in n v (d : dict) : assoc_get n d = Some v -> In (n, v) d.
Proof.
  induction d as [|[k x] r IH]; cbn; [discriminate|].
  destruct (str_eqb n k) eqn:E; [apply str_eqb_spec in E; subst; intros H; inversion H; left; reflexivity | intros H; right; exact (IH H)].
Qed.
Lemma assoc_get_none_notin n (d : dict) : assoc_get n d = None -> forall x, ~ In (n, x) d.
Proof.
  induction d as [|[k y] r IH]; cbn; intros H x; [tauto|].
  destruct (str_eqb n k) eqn:E; [discriminate|].
  intros [Heq|Hin]; [inversion Heq; subst; rewrite str_eqb_refl in E; discriminate | exact (IH H x Hin)].
Qed.

Lemma in_for_parameters ov decl k x : In (k, x) (for_parameters ov decl) -> assoc_get k ov = Some x /\ In k decl.
Proof.
  unfold for_parameters.
  assert (G : forall out, In (k, x) (fold_left (fun out n => match assoc_get n ov with Some v => assoc_set n v out | None => out end) decl out) ->
                          In (k, x) out \/ (assoc_get k ov = Some x /\ In k decl)).
  { induction decl as [|a r IH]; intros out H; cbn in H; [left; exact H|].
    destruct (IH _ H) as [H1|[H1 H2]]; [|right; split; [exact H1 | right; exact H2]].
    destruct (assoc_get a ov) as [v0|] eqn:Ga; [|left; exact H1].
    apply in_assoc_set in H1. destruct H1 as [Heq|H1]; [inversion Heq; subst; right; split; [exact Ga | left; reflexivity] | left; exact H1]. }
  intros H. destruct (G [] H) as [[]|R]. exact R.
Qed.

Lemma fp_get n (ov : dict) decl : forall out : dict,
  assoc_get n (fold_left (fun out a => match assoc_get a ov with Some v => assoc_set a v out | None => out end) decl out) =
  if existsb (str_eqb n) decl then match assoc_get n ov with Some v => Some v | None => assoc_get n out end else assoc_get n out.
Proof.
  induction decl as [|a r IH]; intros out; cbn [fold_left existsb]; [reflexivity|].
  rewrite IH. destruct (str_eqb n a) eqn:E.
  - apply str_eqb_spec in E; subst a. cbn [orb].
    destruct (assoc_get n ov) eqn:G; [rewrite assoc_get_set_same|]; destruct (existsb (str_eqb n) r); reflexivity.
  - cbn [orb]. destruct (assoc_get a ov) eqn:G; [rewrite assoc_get_set_other by exact E|]; reflexivity.
Qed.

(* overrides apply by exact declared name *)
Lemma entry_exact c o l n v :
  assoc_get n (entry c o l) = Some v <-> (In n (declared o l) /\ assoc_get n (ov_of c l) = Some v).
Proof.
  unfold entry, for_parameters. rewrite fp_get. cbn [assoc_get]. split.
  - destruct (existsb (str_eqb n) (declared o l)) eqn:E; [|discriminate].
    apply existsb_exists in E. destruct E as [a [Ha Hs]]. apply str_eqb_spec in Hs; subst a.
    destruct (assoc_get n (ov_of c l)); [intros H; inversion H; auto | discriminate].
  - intros [Hin Hg]. rewrite Hg.
    assert (E : existsb (str_eqb n) (declared o l) = true) by (apply existsb_exists; exists n; split; [exact Hin | apply str_eqb_refl]).
    rewrite E. reflexivity.
Qed.

Lemma entry_pallv c o l n v : assoc_get n (entry c o l) = Some v -> pallv n v (entry c o l).
Proof.
  intros H x Hin. apply entry_exact in H. destruct H as [_ H].
  apply in_for_parameters in Hin. destruct Hin as [Hx _]. congruence.
Qed.

Lemma sanitize_get n d : assoc_get n (sanitize_dict d) = if sensitive n then option_map (fun _ => FILTERED) (assoc_get n d) else assoc_get n d.
Proof.
  induction d as [|[k x] r IH]; cbn; [destruct (sensitive n); reflexivity|].
  destruct (str_eqb n k) eqn:E.
  - apply str_eqb_spec in E; subst k. destruct (sensitive n) eqn:S; cbn; rewrite str_eqb_refl; reflexivity.
  - destruct (sensitive k); cbn; rewrite E; exact IH.
Qed.

Lemma pre_send_keeps c l n x : outside_F2 c l n = true -> oget n (pre_send_loc c l x) = oget n x.
Proof.
  unfold outside_F2, pre_send_loc, pre_send. intros H. apply negb_true_iff in H.
  destruct (sanitized_loc l); [|reflexivity]. destruct (unique_inputs c); [|reflexivity].
  destruct (sanitize c); [|reflexivity]. cbn in H.
  destruct x as [d|]; [|reflexivity]. cbn. rewrite sanitize_get, H. reflexivity.
Qed.

Lemma override_wins ph c o l ex gen n v :
  l <> LHeaders -> has_override c = true -> assoc_get n (entry c o l) = Some v ->
  ((ph = Fuzzing \/ ph = Examples) -> excl_ok (Some (entry c o l)) gen = true) ->
  (ph = Stateful \/ outside_F2 c l n = true) ->
  oget n (final_container ph c o l ex gen) = Some v.
Proof.
  intros Hl Hov Hg Hex HF2.
  pose proof (entry_pallv _ _ _ _ _ Hg) as Hall. pose proof (assoc_get_in _ _ _ Hg) as Hin.
  assert (Hne : is_empty (entry c o l) = false) by (destruct (entry c o l); [contradiction | reflexivity]).
  assert (Hkw : strategy_kwarg c o l = Some (entry c o l)).
  { unfold strategy_kwarg, from_override. rewrite Hov, Hne. destruct l; try reflexivity. contradiction. }
  assert (Hgv : (ph = Fuzzing \/ ph = Examples) -> oget n (gen_value (Some (entry c o l)) gen) = Some v).
  { intros Hp. specialize (Hex Hp). unfold gen_value. destruct (entry c o l) as [|p r] eqn:Ee; [discriminate|]. rewrite <- Ee in *.
    destruct gen as [g|]; cbn [oget]; [|exact Hg].
    rewrite assoc_get_update, Hg. rewrite plastf_none; [reflexivity|].
    cbn in Hex. unfold keys_disjoint in Hex. rewrite forallb_forall in Hex. specialize (Hex _ Hin). cbn in Hex.
    apply negb_true_iff in Hex. unfold assoc_mem in Hex. destruct (assoc_get n g) eqn:Gg; [discriminate|].
    apply assoc_get_none_notin. exact Gg. }
  destruct ph; cbn [final_container].
  - (* Examples *) rewrite Hkw. cbn [example_explicit].
    destruct HF2 as [?|HF2]; [discriminate|]. rewrite pre_send_keeps by exact HF2. apply Hgv. auto.
  - (* Coverage *) rewrite Hkw. destruct HF2 as [?|HF2]; [discriminate|]. rewrite pre_send_keeps by exact HF2.
    destruct gen as [g|]; cbn [cov_apply oget]; [|exact Hg].
    rewrite assoc_get_update. apply plastf_some; [exact Hall | left; exists v; exact Hin].
  - (* Fuzzing *) rewrite Hkw. destruct HF2 as [?|HF2]; [discriminate|]. rewrite pre_send_keeps by exact HF2. apply Hgv. auto.
  - (* Stateful *) unfold sf_apply. rewrite Hov, Hne. cbn [andb negb].
    destruct (pre_send_loc c l gen) as [[|p r]|]; cbn [oget]; rewrite assoc_get_update; apply plastf_some; auto; left; exists v; exact Hin.
Qed.

(* F2: unique_inputs hashes the case, the hash sanitizes case.query / case.cookies in place *)
Definition s_api_key : str := [97;112;105;95;107;101;121].
Definition c_F2 : cfg :=
  {| net := []; auth := None; has_override := true;
     ov_query := [(s_api_key, [83])]; ov_headers := []; ov_cookies := [(s_api_key, [83])]; ov_path := [];
     unique_inputs := true; sanitize := true |}.
Definition o_F2 : oper := {| d_query := [s_api_key]; d_headers := []; d_cookies := [s_api_key]; d_path := [] |}.
Lemma F2_witness :
  assoc_get s_api_key (entry c_F2 o_F2 LQuery) = Some [83] /\
  oget s_api_key (final_container Fuzzing c_F2 o_F2 LQuery None (Some [])) = Some FILTERED /\
  oget s_api_key (final_container Examples c_F2 o_F2 LQuery None (Some [])) = Some FILTERED /\
  oget s_api_key (final_container Coverage c_F2 o_F2 LCookies None (Some [(s_api_key, [71])])) = Some FILTERED /\
  oget s_api_key (final_container Stateful c_F2 o_F2 LQuery None (Some [(s_api_key, [71])])) = Some [83].
Proof. repeat split; vm_compute; reflexivity. Qed.

(* non-vacuity of the hypotheses of override_wins / net_header_wins *)
Definition c_ok : cfg :=
  {| net := [([88;45;67], [49])]; auth := Some [66]; has_override := true;
     ov_query := [([113], [81;86])]; ov_headers := []; ov_cookies := []; ov_path := [([105;100], [52;50])];
     unique_inputs := true; sanitize := true |}.
Definition o_ok : oper := {| d_query := [[113]; [114]]; d_headers := [[88;45;71]]; d_cookies := []; d_path := [[105;100]] |}.
Lemma ok_example :
  assoc_get [113] (entry c_ok o_ok LQuery) = Some [81;86] /\
  excl_ok (Some (entry c_ok o_ok LQuery)) (Some [([114], [51])]) = true /\ outside_F2 c_ok LQuery [113] = true /\
  final_container Fuzzing c_ok o_ok LQuery None (Some [([114], [51])]) = Some [([113], [81;86]); ([114], [51])] /\
  ci_user [120;45;99] (net c_ok) = Some [49] /\ outside_F3 [120;45;99] = true /\
  ci_get [120;45;99] (wire Coverage c_ok o_ok None (Some [([88;45;71], [103]); ([88;45;67], [103])]) [115;116] [49] []) = Some [49].
Proof. repeat split; vm_compute; reflexivity. Qed.

(* ---- the ignored_auth probe is the only path that deletes, and it deletes security parameters only ---- *)
Lemma assoc_get_remove n k (d : dict) : assoc_get n (assoc_remove k d) = if str_eqb n k then None else assoc_get n d.
Proof.
  induction d as [|[k' x] r IH]; cbn; [destruct (str_eqb n k); reflexivity|].
  destruct (str_eqb k k') eqn:E.
  - apply str_eqb_spec in E; subst k'. rewrite IH. destruct (str_eqb n k); reflexivity.
  - cbn. destruct (str_eqb n k') eqn:E2; [|exact IH].
    apply str_eqb_spec in E2; subst k'. destruct (str_eqb n k) eqn:E3; [|reflexivity].
    apply str_eqb_spec in E3; subst k. rewrite str_eqb_refl in E. discriminate.
Qed.
Lemma pop_all_get n names : forall d, assoc_get n (pop_all names d) = if existsb (str_eqb n) names then None else assoc_get n d.
Proof.
  unfold pop_all. induction names as [|a r IH]; intros d; cbn [fold_left existsb]; [reflexivity|].
  rewrite IH, assoc_get_remove. destruct (str_eqb n a); cbn [orb]; [destruct (existsb (str_eqb n) r); reflexivity | reflexivity].
Qed.
Lemma ci_get_remove n k d : ci_get n (ci_remove k d) = if leq n k then None else ci_get n d.
Proof.
  induction d as [|[k' x] r IH]; cbn; [destruct (leq n k); reflexivity|].
  destruct (leq k k') eqn:E.
  - rewrite IH. destruct (leq n k) eqn:E1; [reflexivity|].
    destruct (leq n k') eqn:E2; [|reflexivity]. apply leq_iff in E, E2. apply leq_false in E1. congruence.
  - cbn. destruct (leq n k') eqn:E2; [|exact IH].
    destruct (leq n k) eqn:E3; [|reflexivity]. apply leq_iff in E2, E3. apply leq_false in E. congruence.
Qed.
Lemma ci_pop_all_get n names : forall d, ci_get n (ci_pop_all names d) = if existsb (leq n) names then None else ci_get n d.
Proof.
  unfold ci_pop_all. induction names as [|a r IH]; intros d; cbn [fold_left existsb]; [reflexivity|].
  rewrite IH, ci_get_remove. destruct (leq n a); cbn [orb]; [destruct (existsb (leq n) r); reflexivity | reflexivity].
Qed.

Lemma probe_dict_spec names x n :
  oget n (probe_dict names x) = if existsb (str_eqb n) names then None else oget n x.
Proof.
  destruct x as [[|p r]|]; cbn [probe_dict oget]; try (destruct (existsb (str_eqb n) names); reflexivity).
  apply pop_all_get.
Qed.
Lemma probe_headers_spec names h n :
  hget n (probe_headers names h) =
  match h with
  | HCI _ => if existsb (leq n) names then None else hget n h
  | _ => if existsb (str_eqb n) names then None else hget n h
  end.
Proof.
  destruct h as [|[|p r]|[|p r]]; cbn [probe_headers hget]; try (destruct (existsb _ names); reflexivity).
  - apply pop_all_get.
  - apply ci_pop_all_get.
Qed.

(* ---- AuthStorage.set: the first provider that matches and has data ---- *)
Lemma storage_set_spec ps i d :
  storage_set ps = Some (i, d) <->
  exists pre p post, ps = pre ++ p :: post /\ Forall (fun q => sel_get q = None) pre /\ sel_get p = Some d /\ p_id p = i.
Proof.
  split.
  - induction ps as [|p r IH]; cbn; [discriminate|].
    destruct (sel_get p) as [d0|] eqn:G.
    + intros H; inversion H; subst. exists [], p, r. auto.
    + intros H. destruct (IH H) as [pre [p' [post [-> [Hf [Hs Hi]]]]]].
      exists (p :: pre), p', post. split; [reflexivity|]. split; [constructor; assumption | auto].
  - intros [pre [p [post [-> [Hf [Hs Hi]]]]]]. induction pre as [|q pre IH]; cbn.
    + rewrite Hs, Hi. reflexivity.
    + inversion Hf; subst. rewrite H1. apply IH. assumption.
Qed.

Lemma scope_order test schema global :
  (forall ps, test = Some ps -> set_on_case test schema global = storage_res ps) /\
  (test = None -> schema <> [] -> set_on_case test schema global = storage_res schema) /\
  (test = None -> schema = [] -> global <> [] -> set_on_case test schema global = storage_res global) /\
  (test = None -> schema = [] -> global = [] -> set_on_case test schema global = AuthNone).
Proof.
  repeat split.
  - intros ps ->. reflexivity.
  - intros -> H. destruct schema; [contradiction | reflexivity].
  - intros -> -> H. destruct global; [contradiction | reflexivity].
  - intros -> -> ->. reflexivity.
Qed.

(* the refutation witnesses in the shape used by Properties_C14 *)
Lemma F2_refuted :
  LQuery <> LHeaders /\ has_override c_F2 = true /\ assoc_get s_api_key (entry c_F2 o_F2 LQuery) = Some [83] /\
  excl_ok (Some (entry c_F2 o_F2 LQuery)) (Some []) = true /\
  oget s_api_key (final_container Fuzzing c_F2 o_F2 LQuery None (Some [])) = Some FILTERED /\ FILTERED <> [83].
Proof. repeat split; try (vm_compute; reflexivity); discriminate. Qed.

Lemma F3_refuted :
  ci_user user_agent_lower (net c_F3) = Some [109;105;110;101] /\ auth c_F3 = None /\
  ci_get user_agent_lower (wire Coverage c_F3 o_none None None [115;116] [49] []) = Some [115;116] /\
  [115;116] <> [109;105;110;101] /\
  ci_get user_agent_lower (wire Fuzzing c_F3 o_none None None [115;116] [49] []) = Some [109;105;110;101].
Proof. repeat split; try (vm_compute; reflexivity); discriminate. Qed.

(* ====================================================================================== *)
(* Part C: EngineContext.session                                                           *)
(* ====================================================================================== *)

Lemma nth_upd_other A (l : list A) i j x : j <> i -> nth_error (upd i x l) j = nth_error l j.
Proof.
  revert i j; induction l as [|y l IH]; intros [|i] [|j] H; cbn; try reflexivity; try congruence.
  apply IH; congruence.
Qed.

Lemma nth_upd_inv A (l : list A) i j x p : nth_error (upd i x l) j = Some p -> j <> i -> nth_error l j = Some p.
Proof. intros H Hne. rewrite nth_upd_other in H by exact Hne. exact H. Qed.

Lemma nth_some_lt A (l : list A) i x : nth_error l i = Some x -> (i < length l)%nat.
Proof. intros H. apply nth_error_Some. congruence. Qed.

Lemma nth_app_old A (l : list A) y i x : nth_error l i = Some x -> nth_error (l ++ [y]) i = Some x.
Proof. intros H. rewrite nth_error_app1 by (eapply nth_some_lt; eauto). exact H. Qed.

Lemma nth_app_new A (l : list A) y : nth_error (l ++ [y]) (length l) = Some y.
Proof. rewrite nth_error_app2 by lia. rewrite Nat.sub_diag. reflexivity. Qed.

Lemma todo_cons c : exists r, todo c = FVerify :: r.
Proof. unfold todo. eexists. reflexivity. Qed.

Section SessionInit.
Variables (c : ncfg) (dflt : dict) (ex : option sess).

Definition fin : sess := match ex with Some x => x | None => configured c dflt end.

Definition pub_ok (h : list sess) (ps : list spc) (o : nat) : Prop :=
  nth_error h o = Some fin /\ forall t r, nth_error ps t <> Some (SConf o r).

Definition spc_ok (h : list sess) (ps : list spc) (a : option nat) (t : nat) (p : spc) : Prop :=
  match p with
  | SIdle | SLook | SGet | SExpl => True
  | SRetE => a <> None
  | SNew => ex = None
  | SConf o r => r <> [] /\ (exists x, nth_error h o = Some x /\ apply_fields c r x = fin) /\
                 (forall t' r', t' <> t -> nth_error ps t' <> Some (SConf o r'))
  | SPub o => pub_ok h ps o
  | SPubA _ | SConfA _ | SRetA => False
  end.

Definition Core (h : list sess) (ps : list spc) (a : option nat) : Prop :=
  (a = None -> ex = None) /\ (forall o, a = Some o -> pub_ok h ps o) /\
  (forall t p, nth_error ps t = Some p -> spc_ok h ps a t p).

Definition not_conf (p : spc) : Prop := forall o r, p <> SConf o r.

(* thread t moves to a pc that is not a configuration step; the heap is untouched *)
Lemma pub_move h ps t p' o : not_conf p' -> pub_ok h ps o -> pub_ok h (upd t p' ps) o.
Proof.
  intros Hn [Hh Hc]. split; [exact Hh|]. intros t' r H. apply nth_upd in H. destruct H as [[-> Heq] | [Hne H]].
  - exact (Hn _ _ (eq_sym Heq)).
  - exact (Hc _ _ H).
Qed.

Lemma core_move h ps a t p' :
  Core h ps a -> not_conf p' -> spc_ok h ps a t p' -> Core h (upd t p' ps) a.
Proof.
  intros (Ha & Hp & Hpc) Hn Hnew. split; [exact Ha|]. split.
  - intros o Ho. apply pub_move; auto.
  - intros j q Hq. apply nth_upd in Hq. destruct Hq as [[-> ->] | [Hne Hq]].
    + destruct p'; cbn in *; auto.
      * exfalso. exact (Hn _ _ eq_refl).
      * apply pub_move; auto.
    + specialize (Hpc _ _ Hq). destruct q; cbn in *; auto.
      * destruct Hpc as (Hr & Hx & Hu). split; [exact Hr|]. split; [exact Hx|]. intros t' r' Hne' H. apply nth_upd in H. destruct H as [[-> Heq] | [Hne2 H]].
        -- exact (Hn _ _ (eq_sym Heq)).
        -- exact (Hu _ _ Hne' H).
      * apply pub_move; auto.
Qed.


Lemma pub_alloc h ps t r0 o :
  pub_ok h ps o -> pub_ok (h ++ [bare dflt]) (upd t (SConf (length h) r0) ps) o.
Proof.
  intros [Hh Hc]. split; [apply nth_app_old; exact Hh|]. intros t' r H. apply nth_upd in H. destruct H as [[-> Heq] | [Hne H]].
  - injection Heq as -> _. apply nth_some_lt in Hh. lia.
  - exact (Hc _ _ H).
Qed.

Lemma core_alloc h ps a t r0 :
  Core h ps a -> r0 <> [] -> apply_fields c r0 (bare dflt) = fin ->
  Core (h ++ [bare dflt]) (upd t (SConf (length h) r0) ps) a.
Proof.
  intros (Ha & Hp & Hpc) Hr0 Hfin. split; [exact Ha|]. split.
  - intros o Ho. apply pub_alloc; auto.
  - intros j q Hq. apply nth_upd in Hq. destruct Hq as [[-> ->] | [Hne Hq]].
    + cbn. split; [exact Hr0|]. split.
      * exists (bare dflt). split; [apply nth_app_new | exact Hfin].
      * intros t' r' Hne H. apply nth_upd_inv in H; [|exact Hne]. specialize (Hpc _ _ H). cbn in Hpc.
        destruct Hpc as (_ & (x & Hx & _) & _). apply nth_some_lt in Hx. lia.
    + specialize (Hpc _ _ Hq). destruct q; cbn in *; auto.
      * destruct Hpc as (Hr & (x & Hx & Hf) & Hu). split; [exact Hr|]. split.
        -- exists x. split; [apply nth_app_old; exact Hx | exact Hf].
        -- intros t' r' Hne' H. apply nth_upd in H. destruct H as [[-> Heq] | [Hne2 H]].
           ++ injection Heq as -> _. apply nth_some_lt in Hx. lia.
           ++ exact (Hu _ _ Hne' H).
      * apply pub_alloc; auto.
Qed.

Lemma after_conf_not o o' r r' : after_conf o r = SConf o' r' -> o' = o /\ r' = r /\ r <> [].
Proof. destruct r; cbn; intros H; [discriminate|]. injection H as <- <-. repeat split. discriminate. Qed.

Lemma pub_conf h ps t o f r y o' :
  nth_error ps t = Some (SConf o (f :: r)) ->
  pub_ok h ps o' -> pub_ok (upd o y h) (upd t (after_conf o r) ps) o'.
Proof.
  intros Ht [Hh Hc].
  assert (Hne : o' <> o) by (intros ->; exact (Hc _ _ Ht)).
  split; [rewrite nth_upd_other by exact Hne; exact Hh|].
  intros t' r' H. apply nth_upd in H. destruct H as [[-> Heq] | [Hne' H]].
  - symmetry in Heq. apply after_conf_not in Heq. destruct Heq as (He & _). congruence.
  - exact (Hc _ _ H).
Qed.

Lemma core_conf h ps a t o f r x :
  Core h ps a -> nth_error ps t = Some (SConf o (f :: r)) -> nth_error h o = Some x ->
  Core (upd o (set_field c f x) h) (upd t (after_conf o r) ps) a.
Proof.
  intros (Ha & Hp & Hpc) Ht Hx. split; [exact Ha|]. split.
  - intros o' Ho. eapply pub_conf; eauto.
  - pose proof (Hpc _ _ Ht) as Hme. cbn in Hme. destruct Hme as (_ & (x0 & Hx0 & Hf0) & Hu0).
    rewrite Hx in Hx0. injection Hx0 as <-.
    intros j q Hq. apply nth_upd in Hq. destruct Hq as [[-> ->] | [Hne Hq]].
    + destruct r as [|f2 r2]; cbn [after_conf spc_ok].
      * split.
        -- erewrite nth_upd_same by exact Hx. cbn in Hf0. rewrite Hf0. reflexivity.
        -- intros t' r' H. apply nth_upd in H. destruct H as [[-> Heq] | [Hne' H]]; [discriminate|].
           exact (Hu0 _ _ Hne' H).
      * split; [discriminate|]. split.
        -- exists (set_field c f x). split; [eapply nth_upd_same; exact Hx | exact Hf0].
        -- intros t' r' Hne' H. apply nth_upd_inv in H; [|exact Hne']. exact (Hu0 _ _ Hne' H).
    + specialize (Hpc _ _ Hq). destruct q; cbn [spc_ok] in *; auto.
      * destruct Hpc as (Hr & (y & Hy & Hf) & Hu).
        assert (Hoo : o0 <> o) by (intros ->; exact (Hu t _ (not_eq_sym Hne) Ht)).
        split; [exact Hr|]. split.
        -- exists y. split; [rewrite nth_upd_other by exact Hoo; exact Hy | exact Hf].
        -- intros t' r' Hne' H. apply nth_upd in H. destruct H as [[-> Heq] | [Hne2 H]].
           ++ symmetry in Heq. apply after_conf_not in Heq. destruct Heq as (He & _). congruence.
           ++ exact (Hu _ _ Hne' H).
      * eapply pub_conf; eauto.
Qed.

Record SInv (s : sst) : Prop := {
  SI_core : Core (heap s) (spcs s) (sattr s);
  SI_cached : forall o, cached s = Some o -> pub_ok (heap s) (spcs s) o;
  SI_gots : forall t o x, In (t, o, x) (gots s) -> x = fin /\ pub_ok (heap s) (spcs s) o;
  SI_sends : forall t o x, In (t, o, x) (sends s) -> x = fin
}.

Lemma sinv_mono s h' ps' :
  SInv s -> Core h' ps' (sattr s) -> (forall o, pub_ok (heap s) (spcs s) o -> pub_ok h' ps' o) ->
  SInv {| heap := h'; cached := cached s; sattr := sattr s; spcs := ps'; gots := gots s; sends := sends s |}.
Proof.
  intros [Hc Hca Hg Hs] Hc' Hm. split; cbn.
  - exact Hc'.
  - intros o Ho. apply Hm. exact (Hca _ Ho).
  - intros t o x Hi. destruct (Hg _ _ _ Hi) as [-> Hp]. split; [reflexivity | apply Hm; exact Hp].
  - exact Hs.
Qed.

Lemma sinv_move s t p' :
  SInv s -> not_conf p' -> spc_ok (heap s) (spcs s) (sattr s) t p' -> SInv (set_spc s t p').
Proof.
  intros HI Hn Hok. unfold set_spc. apply sinv_mono; [exact HI | | ].
  - apply core_move; [exact (SI_core _ HI) | exact Hn | exact Hok].
  - intros o Ho. apply pub_move; auto.
Qed.

Lemma sinv_give s t o : SInv s -> pub_ok (heap s) (spcs s) o -> SInv (give s t o).
Proof.
  intros HI Hp. unfold give. destruct Hp as [Hh Hc]. rewrite Hh.
  assert (Hn : not_conf SIdle) by (intros ? ? ?; discriminate).
  destruct HI as [Hco Hca Hg Hs]. split; cbn.
  - apply core_move; [exact Hco | exact Hn | exact I].
  - intros o' Ho'. apply pub_move; auto.
  - intros t' o' x [Heq | Hi].
    + injection Heq as <- <- <-. split; [reflexivity|]. apply pub_move; [exact Hn|]. split; assumption.
    + destruct (Hg _ _ _ Hi) as [-> Hp]. split; [reflexivity | apply pub_move; auto].
  - exact Hs.
Qed.

Lemma sinv_cached s o : SInv s -> pub_ok (heap s) (spcs s) o -> SInv (with_cached s (Some o)).
Proof.
  intros [Hco Hca Hg Hs] Hp. split; cbn; auto. intros o' Heq. injection Heq as <-. exact Hp.
Qed.

Lemma s_step_inv s l : SInv s -> SInv (s_step true c dflt s l).
Proof.
  intros HI. pose proof (SI_core _ HI) as (Ha & Hp & Hpc).
  destruct l as [t | t | t]; cbn [s_step].
  - destruct (nth_error (spcs s) t) as [[]|] eqn:Ht; try exact HI.
    apply sinv_move; [exact HI | intros ? ? ?; discriminate | exact I].
  - destruct (nth_error (spcs s) t) as [p|] eqn:Ht; [|exact HI].
    pose proof (Hpc _ _ Ht) as Hok.
    destruct p; cbn [s_thread_step].
    + exact HI.
    + destruct (cached s) as [o|] eqn:Hc.
      * apply sinv_give; [exact HI | exact (SI_cached _ HI _ Hc)].
      * apply sinv_move; [exact HI | intros ? ? ?; discriminate | exact I].
    + destruct (cached s) as [o|] eqn:Hc.
      * apply sinv_give; [exact HI | exact (SI_cached _ HI _ Hc)].
      * apply sinv_move; [exact HI | intros ? ? ?; discriminate | exact I].
    + destruct (sattr s) as [o|] eqn:Hat.
      * apply sinv_move; [exact HI | intros ? ? ?; discriminate | rewrite Hat; cbn; discriminate].
      * apply sinv_move; [exact HI | intros ? ? ?; discriminate | cbn; exact (Ha eq_refl)].
    + destruct (sattr s) as [o|] eqn:Hat.
      * apply sinv_move; [exact HI | intros ? ? ?; discriminate | cbn; exact (Hp _ eq_refl)].
      * apply sinv_move; [exact HI | intros ? ? ?; discriminate | exact I].
    + cbn in Hok. destruct (todo_cons c) as [r0 Hr0]. rewrite Hr0. cbn [after_conf]. rewrite <- Hr0.
      unfold set_spc, with_heap; cbn. apply sinv_mono; [exact HI | |].
      * apply core_alloc; [exact (SI_core _ HI) | rewrite Hr0; discriminate | unfold fin; rewrite Hok; reflexivity].
      * intros o' Ho'. apply pub_alloc; exact Ho'.
    + cbn in Hok. destruct Hok as (Hr & (x & Hx & Hf) & Hu). destruct r as [|f r']; [congruence|].
      unfold hmod. rewrite Hx. unfold set_spc, with_heap; cbn. apply sinv_mono; [exact HI | |].
      * eapply core_conf; [exact (SI_core _ HI) | exact Ht | exact Hx].
      * intros o' Ho'. eapply pub_conf; [exact Ht | exact Ho'].
    + cbn in Hok. apply sinv_give; [apply sinv_cached; assumption | exact Hok].
    + destruct Hok.
    + destruct Hok.
    + destruct Hok.
  - destruct (last_got t (gots s)) as [o|] eqn:Hl; [|exact HI].
    unfold last_got in Hl. destruct (find _ (gots s)) as [e|] eqn:Hf; [|discriminate]. injection Hl as <-.
    apply find_some in Hf. destruct Hf as [Hin _]. destruct e as [[t' o] x]. cbn.
    destruct (SI_gots _ HI _ _ _ Hin) as [-> [Hh Hc]]. rewrite Hh.
    destruct HI as [Hco Hca Hg Hs]. split; cbn; auto.
    intros t2 o2 x2 [Heq | Hi]; [injection Heq as <- <- <-; reflexivity | exact (Hs _ _ _ Hi)].
Qed.

Lemma s_run_inv sched : forall s, SInv s -> SInv (s_run true c dflt sched s).
Proof. induction sched as [|l r IH]; intros s HI; [exact HI|]. cbn. apply IH. apply s_step_inv. exact HI. Qed.

Lemma s_init_inv n : SInv (s_init n ex).
Proof.
  assert (Hidle : forall t p, nth_error (repeat SIdle n) t = Some p -> p = SIdle).
  { intros t p H. apply nth_error_In in H. apply repeat_spec in H. exact H. }
  split; cbn.
  - split; [|split].
    + destruct ex; [discriminate | reflexivity].
    + intros o Ho. unfold pub_ok, fin. destruct ex as [x|]; [|discriminate]. injection Ho as <-. split; [reflexivity|].
      intros t r H. apply Hidle in H. discriminate.
    + intros t p H. apply Hidle in H. subst p. exact I.
  - discriminate.
  - intros ? ? ? [].
  - intros ? ? ? [].
Qed.

End SessionInit.

Lemma configured_spec c dflt :
  configured c dflt =
  {| s_verify := n_verify c; s_auth := n_auth c; s_headers := session_headers dflt (n_headers c); s_cert := n_cert c;
     s_proxies := match n_proxy c with Some p => [(K_ALL, p)] | None => [] end |}.
Proof.
  destruct c as [v a hs ce px]. unfold configured, todo, bare, session_headers. cbn [n_verify n_auth n_headers n_cert n_proxy].
  destruct a, hs, ce, px; reflexivity.
Qed.

Definition s_log (s : sst) (e : nat * nat * sess) : Prop := In e (gots s) \/ In e (sends s).

Lemma session_configured c dflt n sched t o x :
  s_log (s_run true c dflt sched (s_init n None)) (t, o, x) -> x = configured c dflt.
Proof.
  pose proof (s_run_inv c dflt None sched _ (s_init_inv c dflt None n)) as HI.
  intros [H | H].
  - exact (proj1 (SI_gots _ _ _ _ HI _ _ _ H)).
  - exact (SI_sends _ _ _ _ HI _ _ _ H).
Qed.

Lemma session_configured_fields c dflt n sched t o x :
  s_log (s_run true c dflt sched (s_init n None)) (t, o, x) ->
  s_verify x = n_verify c /\ s_auth x = n_auth c /\ s_headers x = session_headers dflt (n_headers c) /\
  s_cert x = n_cert c /\ s_proxies x = match n_proxy c with Some p => [(K_ALL, p)] | None => [] end.
Proof. intros H. apply session_configured in H. rewrite configured_spec in H. subst x. cbn. repeat split. Qed.

Lemma session_requests_carry_auth c dflt n sched t o x a final :
  s_log (s_run true c dflt sched (s_init n None)) (t, o, x) -> n_auth c = Some a ->
  request_headers x final = wire_headers dflt (n_headers c) final (Some a) /\
  ci_get AUTHORIZATION (request_headers x final) = Some a.
Proof.
  intros H Ha. apply session_configured in H. rewrite configured_spec in H. subst x.
  unfold request_headers, wire_headers. cbn [s_auth s_headers]. rewrite Ha. split; [reflexivity|].
  cbn [apply_auth]. rewrite ci_get_ci_set. rewrite leq_refl. reflexivity.
Qed.

Lemma session_published_complete c dflt n sched o :
  cached (s_run true c dflt sched (s_init n None)) = Some o ->
  nth_error (heap (s_run true c dflt sched (s_init n None))) o = Some (configured c dflt).
Proof.
  pose proof (s_run_inv c dflt None sched _ (s_init_inv c dflt None n)) as HI.
  intros H. exact (proj1 (SI_cached _ _ _ _ HI _ H)).
Qed.

Lemma session_explicit_unchanged c dflt n x0 sched t o x :
  s_log (s_run true c dflt sched (s_init n (Some x0))) (t, o, x) -> x = x0.
Proof.
  pose proof (s_run_inv c dflt (Some x0) sched _ (s_init_inv c dflt (Some x0) n)) as HI.
  intros [H | H].
  - exact (proj1 (SI_gots _ _ _ _ HI _ _ _ H)).
  - exact (SI_sends _ _ _ _ HI _ _ _ H).
Qed.

(* witnesses *)
Definition c_sess : ncfg :=
  {| n_verify := V_TRUE; n_auth := Some [66;97;115;105;99;32;100;88;65;61]; n_headers := [([88;45;67], [49])];
     n_cert := None; n_proxy := None |}.
Definition d_sess : dict := [(USER_AGENT_NAME, [114]); ([65;99;99;101;112;116], [42;47;42])].

(* reader 0 creates and publishes the object, reader 1 asks for the session before reader 0 has set auth on it *)
Definition sched_publish_first : list slabel :=
  [SCall 0; SCall 1; STh 0; STh 0; STh 0; STh 1; STh 1; SUse 1; STh 0; STh 0; STh 0; STh 0].

Lemma publish_first_refuted :
  In (1%nat, 0%nat, bare d_sess) (sends (s_run false c_sess d_sess sched_publish_first (s_init 2 None))) /\
  n_auth c_sess = Some [66;97;115;105;99;32;100;88;65;61] /\ s_auth (bare d_sess) = None /\
  ci_get AUTHORIZATION (request_headers (bare d_sess) HNone) = None.
Proof. vm_compute. repeat split; auto. Qed.

(* both readers miss the cache, both build a session, the later publication wins; every reader
   got a complete one; a later read returns the published object *)
Definition sched_two_builders : list slabel :=
  [SCall 0; SCall 1; STh 0; STh 0; STh 0; STh 0; STh 1; STh 1; STh 1; STh 1; STh 0; STh 0; STh 0; STh 0; SUse 0;
   STh 1; STh 1; STh 1; STh 1; SCall 0; STh 0; SUse 0; SUse 1].

Lemma two_builders_run :
  map (fun e => (fst (fst e), snd (fst e))) (rev (gots (s_run true c_sess d_sess sched_two_builders (s_init 2 None))))
    = [(0, 0); (1, 1); (0, 1)]%nat /\
  map (fun e => (fst (fst e), snd (fst e))) (rev (sends (s_run true c_sess d_sess sched_two_builders (s_init 2 None))))
    = [(0, 0); (0, 1); (1, 1)]%nat /\
  cached (s_run true c_sess d_sess sched_two_builders (s_init 2 None)) = Some 1%nat /\
  forallb (auth_ok c_sess) (sends (s_run true c_sess d_sess sched_two_builders (s_init 2 None))) = true /\
  forallb (auth_ok c_sess) (sends (s_run true c_sess d_sess sched_publish_first (s_init 2 None))) = true /\
  forallb (auth_ok c_sess) (sends (s_run false c_sess d_sess sched_publish_first (s_init 2 None))) = false.
Proof. vm_compute. repeat split. Qed.
