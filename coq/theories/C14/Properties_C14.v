(* C14 property theorems only.  Each is closed by [exact] of a lemma of Proofs_C14 and
   followed by Print Assumptions. *)
From Coq Require Import List NArith Bool.
From Verif Require Import Common.Str Common.Json C14.Model_C14 C14.Proofs_C14.
Import ListNotations.
Open Scope N_scope.

(* ---------------------------------------------------------------------------------------
   Part A: the user's value wins
   --------------------------------------------------------------------------------------- *)

(* Overrides (--set-query/-header/-cookie/-path) apply by EXACT declared name: the value
   handed to an operation is the configured one iff the operation declares that name. *)
Theorem C14_override_applies_by_exact_name : forall c o l n v,
  assoc_get n (entry c o l) = Some v <-> (In n (declared o l) /\ assoc_get n (ov_of c l) = Some v).
Proof. exact entry_exact. Qed.
Print Assumptions C14_override_applies_by_exact_name.

(* query / cookies / path parameters, every phase pipeline: the override is what the request
   carries, provided the generator honoured exclude= (fuzzing, examples) and outside the
   in-place sanitization region F2 (not needed for the stateful pipeline). *)
Theorem C14_user_value_wins_partial : forall ph c o l ex gen n v,
  l <> LHeaders -> has_override c = true -> assoc_get n (entry c o l) = Some v ->
  ((ph = Fuzzing \/ ph = Examples) -> excl_ok (Some (entry c o l)) gen = true) ->
  (ph = Stateful \/ outside_F2 c l n = true) ->
  oget n (final_container ph c o l ex gen) = Some v.
Proof. exact override_wins. Qed.
Print Assumptions C14_user_value_wins_partial.

(* F2: the unrestricted statement is false: with unique_inputs and sanitization a
   sensitive-named query / cookie override is sent as the sanitization marker *)
Theorem C14_user_value_wins_refuted_sanitized : exists ph c o l ex gen n v,
  l <> LHeaders /\ has_override c = true /\ assoc_get n (entry c o l) = Some v /\
  excl_ok (Some (entry c o l)) gen = true /\
  oget n (final_container ph c o l ex gen) = Some FILTERED /\ FILTERED <> v.
Proof.
  exists Fuzzing, c_F2, o_F2, LQuery, None, (Some []), s_api_key, [83]. exact F2_refuted.
Qed.
Print Assumptions C14_user_value_wins_refuted_sanitized.

(* network headers (--header), every phase pipeline, CASE-INSENSITIVELY on the wire:
   the transport merge is the last writer.  Region F3 (names equal to User-Agent or the
   test-case-id header modulo case) is needed only where Case.headers can be a plain dict. *)
Theorem C14_header_wins_partial : forall ph c o ex gen ua cid defaults n v,
  ci_user n (net c) = Some v ->
  (auth c = None \/ leq n AUTHORIZATION = false) ->
  ((ph = Coverage \/ ph = Stateful) -> outside_F3 n = true) ->
  ((ph = Coverage \/ ph = Stateful) -> no_ci_key n (Some (entry c o LHeaders)) = true) ->
  ci_get n (wire ph c o ex gen ua cid defaults) = Some v.
Proof. exact net_header_wins. Qed.
Print Assumptions C14_header_wins_partial.

(* the merge in prepare_headers + requests, on any well-formed CaseInsensitiveDict or None: no region *)
Theorem C14_transport_merge_user_header_wins : forall d netd ua cid defaults a n v,
  ci_wf d -> ci_user n netd = Some v -> (a = None \/ leq n AUTHORIZATION = false) ->
  ci_get n (wire_headers defaults netd (prepare_headers (HCI d) netd ua cid) a) = Some v /\
  ci_get n (wire_headers defaults netd (prepare_headers HNone netd ua cid) a) = Some v.
Proof. exact transport_merge_wins. Qed.
Print Assumptions C14_transport_merge_user_header_wins.

(* F3 *)
Theorem C14_header_wins_refuted_user_agent : exists c o ua cid defaults n v,
  ci_user n (net c) = Some v /\ auth c = None /\
  ci_get n (wire Coverage c o None None ua cid defaults) = Some ua /\ ua <> v /\
  ci_get n (wire Fuzzing c o None None ua cid defaults) = Some v.
Proof.
  exists c_F3, o_none, [115;116], [49], [], user_agent_lower, [109;105;110;101]. exact F3_refuted.
Qed.
Print Assumptions C14_header_wins_refuted_user_agent.

(* header overrides (--set-header): exact declared name, read case-insensitively on the wire,
   in ALL FOUR phases also when --header is configured (repo commit 9a3b607c).  Remaining
   regions: F4 (--header names the same header modulo case), F3 where Case.headers can be a
   plain dict, and the generator's exclude= contract. *)
Theorem C14_override_header_wins_partial : forall ph c o ex gen ua cid defaults n v,
  has_override c = true ->
  ci_user n (entry c o LHeaders) = Some v ->
  outside_F4 c n = true ->
  ((ph = Fuzzing \/ ph = Examples) -> no_ci_key n gen = true) ->
  ((ph = Coverage \/ ph = Stateful) -> outside_F3 n = true) ->
  (auth c = None \/ leq n AUTHORIZATION = false) ->
  ci_get n (wire ph c o ex gen ua cid defaults) = Some v.
Proof. exact override_header_wins. Qed.
Print Assumptions C14_override_header_wins_partial.

(* F4: the same header name configured by --header and --set-header: the transport merge is
   the last writer and the --header value is sent in every phase, not the override *)
Theorem C14_override_header_wins_refuted_same_name : exists c o gen ua cid defaults n v w,
  has_override c = true /\ ci_user n (entry c o LHeaders) = Some v /\
  outside_F3 n = true /\ auth c = None /\ no_ci_key n gen = true /\ w <> v /\
  ci_get n (wire Examples c o None gen ua cid defaults) = Some w /\
  ci_get n (wire Coverage c o None gen ua cid defaults) = Some w /\
  ci_get n (wire Fuzzing c o None gen ua cid defaults) = Some w /\
  ci_get n (wire Stateful c o None gen ua cid defaults) = Some w.
Proof.
  exists c_F4, o_F1, (Some [(s_xg, [71])]), [115;116], [49], [], s_xover, [79;86], [78;69;84]. exact F4_refuted.
Qed.
Print Assumptions C14_override_header_wins_refuted_same_name.

(* F1 (FIXED in the repo): regression witness.  On get_strategy_kwargs_prefix - the function as it
   was before commit 9a3b607c, which overwrote the header overrides with the network headers - the
   unit phases send the generated value; on the function as it is now all four phases send the override *)
Theorem C14_override_header_wins_refuted_prefix : exists c o ua cid defaults n v g,
  has_override c = true /\ ci_user n (entry c o LHeaders) = Some v /\
  outside_F4 c n = true /\ outside_F3 n = true /\ auth c = None /\
  ci_get n (wire_prefix Fuzzing c o None (Some [(n, g)]) ua cid defaults) = Some g /\
  ci_get n (wire_prefix Coverage c o None (Some [(n, g)]) ua cid defaults) = Some g /\ g <> v /\
  ci_get n (wire Fuzzing c o None (Some [(s_xg, g)]) ua cid defaults) = Some v /\
  ci_get n (wire Examples c o (Some [(n, g)]) (Some [(s_xg, g)]) ua cid defaults) = Some v /\
  ci_get n (wire Coverage c o None (Some [(n, g)]) ua cid defaults) = Some v /\
  ci_get n (wire Stateful c o None (Some [(n, g)]) ua cid defaults) = Some v.
Proof. exists c_F1, o_F1, [115;116], [49], [], s_xover, [79;86], [71]. exact F1_regression. Qed.
Print Assumptions C14_override_header_wins_refuted_prefix.

(* the ignored_auth probe: removes exactly the security parameters (exact name in plain
   dicts, case-insensitive in a CaseInsensitiveDict) and nothing else *)
Theorem C14_only_probe_strips : forall names x h n,
  oget n (probe_dict names x) = (if existsb (str_eqb n) names then None else oget n x) /\
  hget n (probe_headers names h) =
    match h with
    | HCI _ => if existsb (leq n) names then None else hget n h
    | _ => if existsb (str_eqb n) names then None else hget n h
    end.
Proof. intros names x h n. split; [exact (probe_dict_spec names x n) | exact (probe_headers_spec names h n)]. Qed.
Print Assumptions C14_only_probe_strips.

(* AuthStorage.set applies the first provider whose filters match and that has data;
   set_on_case consults exactly one scope: test, else schema if defined, else global *)
Theorem C14_auth_first_matching_provider : forall ps i d,
  storage_set ps = Some (i, d) <->
  exists pre p post, ps = pre ++ p :: post /\ Forall (fun q => sel_get q = None) pre /\ sel_get p = Some d /\ p_id p = i.
Proof. exact storage_set_spec. Qed.
Print Assumptions C14_auth_first_matching_provider.

Theorem C14_auth_scope_order : forall test schema global,
  (forall ps, test = Some ps -> set_on_case test schema global = storage_res ps) /\
  (test = None -> schema <> [] -> set_on_case test schema global = storage_res schema) /\
  (test = None -> schema = [] -> global <> [] -> set_on_case test schema global = storage_res global) /\
  (test = None -> schema = [] -> global = [] -> set_on_case test schema global = AuthNone).
Proof. exact scope_order. Qed.
Print Assumptions C14_auth_scope_order.

Theorem C14_hypotheses_satisfiable :
  assoc_get [113] (entry c_ok o_ok LQuery) = Some [81;86] /\
  excl_ok (Some (entry c_ok o_ok LQuery)) (Some [([114], [51])]) = true /\ outside_F2 c_ok LQuery [113] = true /\
  final_container Fuzzing c_ok o_ok LQuery None (Some [([114], [51])]) = Some [([113], [81;86]); ([114], [51])] /\
  ci_user [120;45;99] (net c_ok) = Some [49] /\ outside_F3 [120;45;99] = true /\
  ci_get [120;45;99] (wire Coverage c_ok o_ok None (Some [([88;45;71], [103]); ([88;45;67], [103])]) [115;116] [49] []) = Some [49].
Proof. exact ok_example. Qed.
Print Assumptions C14_hypotheses_satisfiable.

(* ---------------------------------------------------------------------------------------
   Part B: CachingAuthProvider.get / KeyedCachingAuthProvider under concurrency
   --------------------------------------------------------------------------------------- *)

(* for every refresh interval, every number n of callers, every schedule (interleaving of
   thread steps, new calls with any key, and clock advances of any size): two provider
   fetches for one key are at least one refresh interval apart *)
Theorem C14_fetch_at_most_once_per_interval : forall iv n sched k t1 t2 d1 d2 l1 l2 l3,
  fetch_log (run true iv sched (init n)) = l1 ++ (k, t1, d1) :: l2 ++ (k, t2, d2) :: l3 -> t1 + iv <= t2.
Proof. exact fetch_once. Qed.
Print Assumptions C14_fetch_at_most_once_per_interval.

(* the pre-lock fast path never returns an expired entry, and the token was fetched for that key *)
Theorem C14_fast_path_never_expired : forall iv n sched t k d e now,
  In (t, k, d, RFast e now) (rets (run true iv sched (init n))) ->
  now < e /\ exists tm, In (k, tm, d) (fetches (run true iv sched (init n))).
Proof. exact fast_path_fresh. Qed.
Print Assumptions C14_fast_path_never_expired.

Theorem C14_every_returned_token_was_fetched_for_its_key : forall iv n sched t k d how,
  In (t, k, d, how) (rets (run true iv sched (init n))) ->
  exists tm, In (k, tm, d) (fetches (run true iv sched (init n))).
Proof. exact every_return_was_fetched. Qed.
Print Assumptions C14_every_returned_token_was_fetched_for_its_key.

Theorem C14_refresh_is_mutually_exclusive : forall iv n sched t1 t2 p1 p2,
  nth_error (pcs (run true iv sched (init n))) t1 = Some p1 -> critical p1 = true ->
  nth_error (pcs (run true iv sched (init n))) t2 = Some p2 -> critical p2 = true -> t1 = t2.
Proof. exact mutual_exclusion. Qed.
Print Assumptions C14_refresh_is_mutually_exclusive.

(* regression witness: the variant WITHOUT the re-check under the lock fetches twice at the same instant *)
Theorem C14_fetch_at_most_once_per_interval_refuted_without_recheck : exists iv n sched k t1 t2 d1 d2 l1 l2 l3,
  fetch_log (run false iv sched (init n)) = l1 ++ (k, t1, d1) :: l2 ++ (k, t2, d2) :: l3 /\ ~ (t1 + iv <= t2).
Proof. exists 300, 2%nat, sched_race, 7, 0, 0, 1, 2, [], [], []. exact no_recheck_refuted. Qed.
Print Assumptions C14_fetch_at_most_once_per_interval_refuted_without_recheck.

(* non-vacuity: a schedule with a refresh after the interval, a fast-path hit and two keys *)
Theorem C14_schedule_example :
  fetch_log (run true 300 sched_demo (init 2)) = [(1, 0, 1); (2, 10, 2); (1, 300, 3)] /\
  map ret_obs (rev (rets (run true 300 sched_demo (init 2)))) =
    [(0%nat, 1, 1, 2); (1%nat, 1, 1, 0); (0%nat, 2, 2, 2); (1%nat, 1, 3, 2)] /\
  sep_ok 300 (fetches (run true 300 sched_demo (init 2))) = true /\
  sep_ok 300 (fetches (run false 300 sched_race (init 2))) = false.
Proof. exact demo_run. Qed.
Print Assumptions C14_schedule_example.

(* ---------------------------------------------------------------------------------------
   Part C: EngineContext.session - the lazily created requests.Session shared by the workers
   --------------------------------------------------------------------------------------- *)

(* for every network configuration, every number n of readers (worker threads asking for
   ctx.session / ctx.transport_kwargs) and EVERY schedule of their steps (test of the cache,
   construction, each attribute assignment, publication), with no session passed explicitly:
   every session a reader is handed, and every session a request is later sent through, carries
   the configured verify / auth / headers / cert / proxies *)
Theorem C14_shared_session_is_configured_for_every_reader : forall c dflt n sched t o x,
  In (t, o, x) (gots (s_run true c dflt sched (s_init n None))) \/
  In (t, o, x) (sends (s_run true c dflt sched (s_init n None))) ->
  s_verify x = n_verify c /\ s_auth x = n_auth c /\ s_headers x = session_headers dflt (n_headers c) /\
  s_cert x = n_cert c /\ s_proxies x = match n_proxy c with Some p => [(K_ALL, p)] | None => [] end.
Proof. exact session_configured_fields. Qed.
Print Assumptions C14_shared_session_is_configured_for_every_reader.

(* hence every request prepared through such a session is the one Part A reasons about
   (wire_headers) and carries the configured Authorization *)
Theorem C14_shared_session_requests_carry_auth : forall c dflt n sched t o x a final,
  In (t, o, x) (gots (s_run true c dflt sched (s_init n None))) \/
  In (t, o, x) (sends (s_run true c dflt sched (s_init n None))) ->
  n_auth c = Some a ->
  request_headers x final = wire_headers dflt (n_headers c) final (Some a) /\
  ci_get AUTHORIZATION (request_headers x final) = Some a.
Proof. exact session_requests_carry_auth. Qed.
Print Assumptions C14_shared_session_requests_carry_auth.

(* the published object is complete at every moment of every schedule *)
Theorem C14_published_session_is_complete : forall c dflt n sched o,
  cached (s_run true c dflt sched (s_init n None)) = Some o ->
  nth_error (heap (s_run true c dflt sched (s_init n None))) o = Some (configured c dflt).
Proof. exact session_published_complete. Qed.
Print Assumptions C14_published_session_is_complete.

(* a session passed to EngineContext(session=...) is handed out as it is, never reconfigured *)
Theorem C14_explicit_session_is_handed_out_unchanged : forall c dflt n x0 sched t o x,
  In (t, o, x) (gots (s_run true c dflt sched (s_init n (Some x0)))) \/
  In (t, o, x) (sends (s_run true c dflt sched (s_init n (Some x0)))) -> x = x0.
Proof. exact session_explicit_unchanged. Qed.
Print Assumptions C14_explicit_session_is_handed_out_unchanged.

(* regression witness: in the sentinel order (assign the new object to ctx._session first,
   configure it in place) a second reader obtains the bare object and sends a request without
   the configured Authorization *)
Theorem C14_shared_session_is_configured_refuted_publish_first : exists c dflt n sched t o x a,
  In (t, o, x) (sends (s_run false c dflt sched (s_init n None))) /\
  n_auth c = Some a /\ s_auth x = None /\ ci_get AUTHORIZATION (request_headers x HNone) = None.
Proof.
  exists c_sess, d_sess, 2%nat, sched_publish_first, 1%nat, 0%nat, (bare d_sess), [66;97;115;105;99;32;100;88;65;61].
  exact publish_first_refuted.
Qed.
Print Assumptions C14_shared_session_is_configured_refuted_publish_first.

(* non-vacuity: two readers both miss the cache and both build a session, the later publication
   wins, a third read returns the published object; requests go through all of them *)
Theorem C14_session_schedule_example :
  map (fun e => (fst (fst e), snd (fst e))) (rev (gots (s_run true c_sess d_sess sched_two_builders (s_init 2 None))))
    = [(0, 0); (1, 1); (0, 1)]%nat /\
  map (fun e => (fst (fst e), snd (fst e))) (rev (sends (s_run true c_sess d_sess sched_two_builders (s_init 2 None))))
    = [(0, 0); (0, 1); (1, 1)]%nat /\
  cached (s_run true c_sess d_sess sched_two_builders (s_init 2 None)) = Some 1%nat /\
  forallb (auth_ok c_sess) (sends (s_run true c_sess d_sess sched_two_builders (s_init 2 None))) = true /\
  forallb (auth_ok c_sess) (sends (s_run true c_sess d_sess sched_publish_first (s_init 2 None))) = true /\
  forallb (auth_ok c_sess) (sends (s_run false c_sess d_sess sched_publish_first (s_init 2 None))) = false.
Proof. exact two_builders_run. Qed.
Print Assumptions C14_session_schedule_example.
