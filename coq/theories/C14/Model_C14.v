(* C14 model.  Executable definitions only.

   Part A: precedence of user-configured values as map algebra
     transport/prepare.py prepare_headers, engine/context.py session / transport_kwargs,
     engine/phases/unit/__init__.py get_strategy_kwargs, specs/openapi/_hypothesis.py
     get_parameters_value (explicit containers), specs/openapi/examples.py (kwargs replace
     the example container), generation/overrides.py _for_parameters / for_operation,
     generation/hypothesis/builder.py add_coverage (container update), engine/phases/
     stateful/_executor.py before_call, auths.py AuthStorage.set / set_on_case /
     SelectiveAuthProvider, specs/openapi/checks.py remove_auth, and the in-place
     sanitization reached through Case.__hash__ (unique_inputs).
   Part B: CachingAuthProvider.get / KeyedCachingAuthProvider (auths.py) as a labelled
     transition system over n callers with a monotone clock.
   Part C: EngineContext.session (engine/context.py), the lazily created requests.Session shared
     by all workers, with functools.cached_property, as a labelled transition system over n
     readers; the sentinel order (publish first, configure in place) as a regression model. *)
From Coq Require Import List NArith Bool Arith.
From Verif Require Import Common.Str Common.Json.
Import ListNotations.
Open Scope N_scope.

(* ====================================================================================== *)
(* Part A                                                                                  *)
(* ====================================================================================== *)

Definition dict := list (str * str).     (* insertion ordered; plain dict = exact keys *)

Definition is_empty {A} (l : list A) : bool := match l with [] => true | _ => false end.

(* ---- requests.structures.CaseInsensitiveDict: same carrier, keys compared lower-cased;
        the entry keeps the casing of the last key that was set ---- *)
Definition leq (a b : str) : bool := str_eqb (lower_ascii a) (lower_ascii b).

Fixpoint ci_get (k : str) (d : dict) : option str :=
  match d with
  | [] => None
  | (k', v) :: r => if leq k k' then Some v else ci_get k r
  end.

Fixpoint ci_set (k v : str) (d : dict) : dict :=
  match d with
  | [] => [(k, v)]
  | (k', v') :: r => if leq k k' then (k, v) :: r else (k', v') :: ci_set k v r
  end.

Fixpoint ci_remove (k : str) (d : dict) : dict :=
  match d with
  | [] => []
  | (k', v') :: r => if leq k k' then ci_remove k r else (k', v') :: ci_remove k r
  end.

Definition ci_update (base upd : dict) : dict :=
  fold_left (fun acc kv => ci_set (fst kv) (snd kv) acc) upd base.
Definition ci_setdefault (k v : str) (d : dict) : dict :=
  match ci_get k d with Some _ => d | None => ci_set k v d end.
Definition ci_of_items (items : dict) : dict := ci_update [] items.   (* CaseInsensitiveDict(items) *)

Definition p_setdefault (k v : str) (d : dict) : dict :=
  match assoc_get k d with Some _ => d | None => assoc_set k v d end.

(* Case.headers is None, a plain dict (assigned by add_coverage / before_call) or a
   CaseInsensitiveDict (make_case) *)
Inductive hdrs := HNone | HPlain (d : dict) | HCI (d : dict).

Definition USER_AGENT_NAME : str := [85;115;101;114;45;65;103;101;110;116].
Definition user_agent_lower : str := [117;115;101;114;45;97;103;101;110;116].
Definition TESTCASE_NAME : str :=
  [88;45;83;99;104;101;109;97;116;104;101;115;105;115;45;84;101;115;116;67;97;115;101;73;100].
Definition AUTHORIZATION : str := [65;117;116;104;111;114;105;122;97;116;105;111;110].
Definition FILTERED : str := [91;70;105;108;116;101;114;101;100;93].

Definition h_update (h : hdrs) (upd : dict) : hdrs :=
  match h with
  | HNone => HNone
  | HPlain d => HPlain (assoc_update d upd)
  | HCI d => HCI (ci_update d upd)
  end.
Definition h_setdefault (k v : str) (h : hdrs) : hdrs :=
  match h with
  | HNone => HNone
  | HPlain d => HPlain (p_setdefault k v d)
  | HCI d => HCI (ci_setdefault k v d)
  end.
Definition h_items (h : hdrs) : dict := match h with HNone => [] | HPlain d => d | HCI d => d end.

(* transport/prepare.py:18 prepare_headers(case, headers) ; ua = USER_AGENT, cid = case.id *)
Definition prepare_headers (h : hdrs) (net : dict) (ua cid : str) : hdrs :=
  let final := match h with HNone => HCI [] | x => x end in
  let final := if is_empty net then final else h_update final net in
  h_setdefault TESTCASE_NAME cid (h_setdefault USER_AGENT_NAME ua final).

(* requests: Session.prepare_request merges session.headers with the request headers into a
   CaseInsensitiveDict (request wins), then prepare_auth writes Authorization.
   session.headers = library defaults updated with config.network.headers (context.py:89) *)
Definition session_headers (defaults net : dict) : dict := ci_update (ci_of_items defaults) net.
Definition apply_auth (a : option str) (d : dict) : dict :=
  match a with Some v => ci_set AUTHORIZATION v d | None => d end.
Definition wire_headers (defaults net : dict) (final : hdrs) (a : option str) : dict :=
  apply_auth a (ci_update (session_headers defaults net) (h_items final)).

(* ---- overrides.py:44 _for_parameters ---- *)
Definition for_parameters (overridden : dict) (declared : list str) : dict :=
  fold_left (fun out n => match assoc_get n overridden with Some v => assoc_set n v out | None => out end)
            declared [].

Record cfg := {
  net : dict;                 (* config.network.headers (--header) *)
  auth : option str;          (* Authorization value produced from config.network.auth (--auth) *)
  has_override : bool;        (* config.override is not None *)
  ov_query : dict; ov_headers : dict; ov_cookies : dict; ov_path : dict;
  unique_inputs : bool;
  sanitize : bool             (* schema.output_config.sanitize *)
}.
Record oper := { d_query : list str; d_headers : list str; d_cookies : list str; d_path : list str }.

Inductive loc := LQuery | LHeaders | LCookies | LPath.
Definition ov_of (c : cfg) (l : loc) : dict :=
  match l with LQuery => ov_query c | LHeaders => ov_headers c | LCookies => ov_cookies c | LPath => ov_path c end.
Definition declared (o : oper) (l : loc) : list str :=
  match l with LQuery => d_query o | LHeaders => d_headers o | LCookies => d_cookies o | LPath => d_path o end.

(* Override.for_operation, one location *)
Definition entry (c : cfg) (o : oper) (l : loc) : dict := for_parameters (ov_of c l) (declared o l).

(* unit/__init__.py:222 get_strategy_kwargs: None = key absent from kwargs.
   Code as it is now (repo commit 9a3b607c): with network headers the headers kwarg is the
   network headers minus user-agent, UPDATED with the header overrides of the operation. *)
Definition not_user_agent (kv : str * str) : bool := negb (str_eqb (lower_ascii (fst kv)) user_agent_lower).
Definition from_override (c : cfg) (o : oper) (l : loc) : option dict :=
  if has_override c then (if is_empty (entry c o l) then None else Some (entry c o l)) else None.
Definition strategy_kwarg (c : cfg) (o : oper) (l : loc) : option dict :=
  match l with
  | LHeaders =>
      if is_empty (net c) then from_override c o l
      else Some (assoc_update (filter not_user_agent (net c))
                              (match from_override c o l with Some e => e | None => [] end))
  | _ => from_override c o l
  end.
(* REGRESSION MODEL, not the code: get_strategy_kwargs before commit 9a3b607c, where the
   headers key was OVERWRITTEN by the network headers (finding C14-F1, fixed) *)
Definition get_strategy_kwargs_prefix (c : cfg) (o : oper) (l : loc) : option dict :=
  match l with
  | LHeaders => if is_empty (net c) then from_override c o l else Some (filter not_user_agent (net c))
  | _ => from_override c o l
  end.

(* _hypothesis.py:213 get_parameters_value: gen is what draw(strategy) returned (None when
   the location has no parameters), already restricted by exclude=explicit.keys() *)
Definition gen_value (explicit gen : option dict) : option dict :=
  match explicit with
  | None => gen
  | Some [] => gen
  | Some v => match gen with Some new => Some (assoc_update v new) | None => Some v end
  end.

(* examples.py:71  {**parameters, **kwargs}: the kwarg replaces the example container *)
Definition example_explicit (kw ex : option dict) : option dict :=
  match kw with Some d => Some d | None => ex end.

(* make_case: CaseInsensitiveDict(headers) if headers is not None *)
Definition to_case_headers (v : option dict) : hdrs :=
  match v with None => HNone | Some d => HCI (ci_of_items d) end.

(* builder.py:247 add_coverage: container None -> setattr(value) else container.update(value) *)
Definition cov_apply (c : option dict) (kw : option dict) : option dict :=
  match kw with
  | None => c
  | Some v => match c with None => Some v | Some d => Some (assoc_update d v) end
  end.
Definition cov_apply_h (h : hdrs) (kw : option dict) : hdrs :=
  match kw with
  | None => h
  | Some v => match h with HNone => HPlain v | _ => h_update h v end
  end.

(* stateful/_executor.py:91 before_call: container = getattr(case, location) or {} *)
Definition sf_apply (c : cfg) (e : dict) (x : option dict) : option dict :=
  if has_override c && negb (is_empty e) then
    match x with
    | None => Some (assoc_update [] e)
    | Some [] => Some (assoc_update [] e)
    | Some d => Some (assoc_update d e)
    end
  else x.
Definition sf_apply_h (c : cfg) (e : dict) (h : hdrs) : hdrs :=
  if has_override c && negb (is_empty e) then
    match h with
    | HNone => HPlain (assoc_update [] e)
    | HPlain [] => HPlain (assoc_update [] e)
    | HCI [] => HPlain (assoc_update [] e)
    | _ => h_update h e
    end
  else h.

(* ---- sanitization.py sanitize_value on a flat string dict; reached IN PLACE on
        case.query / case.cookies through Case.__hash__ -> as_curl_command ->
        prepare_request when unique_inputs is on (unit/_executor.py:247) ---- *)
Fixpoint contains (m s : str) : bool :=
  match s with
  | [] => is_empty m
  | _ :: s' => starts_with m s || contains m s'
  end.
Definition MARKERS : list str :=
  [ [97;117;116;104]; [99;114;101;100;101;110;116;105;97;108]; [107;101;121]; [112;97;115;115;119;100];
    [112;97;115;115;119;111;114;100]; [115;101;99;114;101;116]; [115;101;115;115;105;111;110]; [116;111;107;101;110] ].
(* the DEFAULT_KEYS_TO_SANITIZE that contain no marker (the others are subsumed) *)
Definition EXACT_KEYS : list str :=
  [ [95;99;115;114;102]; [95;120;115;114;102]; [99;111;110;110;101;99;116;46;115;105;100]; [99;111;111;107;105;101];
    [99;115;114;102]; [105;112;95;97;100;100;114;101;115;115]; [109;121;115;113;108;95;112;119;100];
    [112;104;112;115;101;115;115;105;100]; [114;101;109;111;116;101;45;97;100;100;114]; [114;101;109;111;116;101;95;97;100;100;114];
    [115;101;116;45;99;111;111;107;105;101]; [115;101;116;95;99;111;111;107;105;101];
    [120;45;102;111;114;119;97;114;100;101;100;45;102;111;114]; [120;45;114;101;97;108;45;105;112];
    [120;95;102;111;114;119;97;114;100;101;100;95;102;111;114]; [120;95;114;101;97;108;95;105;112] ].
Definition sensitive (k : str) : bool :=
  let lk := lower_ascii k in
  existsb (str_eqb lk) EXACT_KEYS || existsb (fun m => contains m lk) MARKERS.
Definition sanitize_dict (d : dict) : dict :=
  map (fun kv => if sensitive (fst kv) then (fst kv, FILTERED) else kv) d.
Definition pre_send (c : cfg) (x : option dict) : option dict :=
  if unique_inputs c && sanitize c then option_map sanitize_dict x else x.

(* ---- the four pipelines, query / cookies / path_parameters (plain dicts).
        gen = what the generator produced for the location, ex = example container ---- *)
Inductive phase := Examples | Coverage | Fuzzing | Stateful.

Definition sanitized_loc (l : loc) : bool := match l with LQuery | LCookies => true | _ => false end.
Definition pre_send_loc (c : cfg) (l : loc) (x : option dict) : option dict :=
  if sanitized_loc l then pre_send c x else x.

Definition final_container (ph : phase) (c : cfg) (o : oper) (l : loc) (ex gen : option dict) : option dict :=
  match ph with
  | Fuzzing => pre_send_loc c l (gen_value (strategy_kwarg c o l) gen)
  | Examples => pre_send_loc c l (gen_value (example_explicit (strategy_kwarg c o l) ex) gen)
  | Coverage => pre_send_loc c l (cov_apply gen (strategy_kwarg c o l))
  | Stateful => sf_apply c (entry c o l) (pre_send_loc c l gen)     (* the step is hashed before before_call *)
  end.

(* headers of the case handed to the transport; kw = the headers kwarg of get_strategy_kwargs *)
Definition case_headers_with (kw : option dict) (ph : phase) (c : cfg) (o : oper) (ex gen : option dict) : hdrs :=
  match ph with
  | Fuzzing => to_case_headers (gen_value kw gen)
  | Examples => to_case_headers (gen_value (example_explicit kw ex) gen)
  | Coverage => cov_apply_h (to_case_headers gen) kw
  | Stateful => sf_apply_h c (entry c o LHeaders) (to_case_headers gen)
  end.
Definition case_headers (ph : phase) (c : cfg) (o : oper) (ex gen : option dict) : hdrs :=
  case_headers_with (strategy_kwarg c o LHeaders) ph c o ex gen.

Definition final_headers (ph : phase) (c : cfg) (o : oper) (ex gen : option dict) (ua cid : str) : hdrs :=
  prepare_headers (case_headers ph c o ex gen) (net c) ua cid.

Definition wire (ph : phase) (c : cfg) (o : oper) (ex gen : option dict) (ua cid : str) (defaults : dict) : dict :=
  wire_headers defaults (net c) (final_headers ph c o ex gen ua cid) (auth c).
(* the same pipeline over the regression model of get_strategy_kwargs *)
Definition wire_prefix (ph : phase) (c : cfg) (o : oper) (ex gen : option dict) (ua cid : str) (defaults : dict) : dict :=
  wire_headers defaults (net c)
    (prepare_headers (case_headers_with (get_strategy_kwargs_prefix c o LHeaders) ph c o ex gen) (net c) ua cid) (auth c).

(* ---- region predicates ---- *)
Definition keys_disjoint (a b : dict) : bool := forallb (fun kv => negb (assoc_mem (fst kv) b)) a.
(* the generator respected exclude=explicit.keys() *)
Definition excl_ok (explicit gen : option dict) : bool :=
  match explicit, gen with Some e, Some g => keys_disjoint e g | _, _ => true end.
(* F2: unique_inputs + sanitization rewrite sensitive-named query / cookie values in place *)
Definition outside_F2 (c : cfg) (l : loc) (n : str) : bool :=
  negb (sanitized_loc l && unique_inputs c && sanitize c && sensitive n).
(* F3: on a plain-dict Case.headers the defaults are added case-sensitively *)
Definition outside_F3 (n : str) : bool :=
  negb (leq n USER_AGENT_NAME) && negb (leq n TESTCASE_NAME).
Definition lower_nodup (d : dict) : bool :=
  (fix go (l : dict) : bool :=
     match l with
     | [] => true
     | (k, _) :: r => negb (existsb (fun kv => leq k (fst kv)) r) && go r
     end) d.
Definition no_ci_key (n : str) (d : option dict) : bool :=
  match d with Some g => match ci_get n g with None => true | Some _ => false end | None => true end.
(* F4: the same header name (modulo case) configured by --header and by --set-header: the
   transport merge is the last writer, so the --header value is what is sent *)
Definition outside_F4 (c : cfg) (n : str) : bool := no_ci_key n (Some (net c)).

(* the value the user configured for header n, read case-insensitively; None when absent or
   when two spellings of the name carry different values *)
Definition ci_user (n : str) (d : dict) : option str :=
  match filter (fun kv => leq n (fst kv)) d with
  | [] => None
  | (_, v) :: r => if forallb (fun kv => str_eqb (snd kv) v) r then Some v else None
  end.
Definition oget (n : str) (x : option dict) : option str :=
  match x with Some d => assoc_get n d | None => None end.
Definition hget (n : str) (h : hdrs) : option str :=
  match h with HNone => None | HPlain d => assoc_get n d | HCI d => ci_get n d end.

(* ---- the ignored_auth probe (checks.py:587 remove_auth, :617 explicit headers) ---- *)
Inductive sloc := SHeader | SQuery | SCookie.
Definition sloc_eqb (a b : sloc) : bool :=
  match a, b with SHeader, SHeader | SQuery, SQuery | SCookie, SCookie => true | _, _ => false end.
Definition sec_names (sec : list (sloc * str)) (l : sloc) : list str :=
  map snd (filter (fun p => sloc_eqb (fst p) l) sec).
Definition pop_all (names : list str) (d : dict) : dict := fold_left (fun acc n => assoc_remove n acc) names d.
Definition ci_pop_all (names : list str) (d : dict) : dict := fold_left (fun acc n => ci_remove n acc) names d.
(* `x.copy() if x else None` then pops *)
Definition probe_dict (names : list str) (x : option dict) : option dict :=
  match x with None => None | Some [] => None | Some d => Some (pop_all names d) end.
Definition probe_headers (names : list str) (h : hdrs) : hdrs :=
  match h with
  | HNone => HNone
  | HPlain [] => HNone | HCI [] => HNone
  | HPlain d => HPlain (pop_all names d)                 (* Case(...) is rebuilt without make_case: stays plain *)
  | HCI d => HCI (ci_pop_all names d)
  end.
(* _remove_auth_from_explicit_headers: kwargs headers is a plain dict copy, popped by exact name *)
Definition probe_explicit (names : list str) (net_h : dict) : dict := pop_all names net_h.

(* ---- auths.py: SelectiveAuthProvider.get, AuthStorage.set, set_on_case ---- *)
Record provider := { p_id : N; p_matches : bool; p_data : option N }.
Definition sel_get (p : provider) : option N := if p_matches p then p_data p else None.
Fixpoint storage_set (ps : list provider) : option (N * N) :=
  match ps with
  | [] => None
  | p :: r => match sel_get p with Some d => Some (p_id p, d) | None => storage_set r end
  end.
Inductive auth_res := AuthRaises | AuthNone | AuthSet (pid data : N).
Definition storage_res (ps : list provider) : auth_res :=
  match ps with
  | [] => AuthRaises
  | _ => match storage_set ps with Some (i, d) => AuthSet i d | None => AuthNone end
  end.
(* test-level storage if given, else the schema storage if it is defined, else the global one *)
Definition set_on_case (test : option (list provider)) (schema global : list provider) : auth_res :=
  match test with
  | Some ps => storage_res ps
  | None => if negb (is_empty schema) then storage_res schema
            else if negb (is_empty global) then storage_res global else AuthNone
  end.

(* ====================================================================================== *)
(* Part B: CachingAuthProvider.get as an LTS                                               *)
(* ====================================================================================== *)

(* program counter of one caller; the line numbers are those of auths.py *)
Inductive pc :=
| Idle
| PRead (k : N)               (* 105: about to read the cache entry *)
| PCheck1 (k d e : N)         (* 106: entry (d, e) in hand, about to call timer() *)
| PAcq (k : N)                (* 107: about to acquire _refresh_lock *)
| PReRead (k : N)             (* 108: lock held, about to re-read the entry *)
| PCheck2 (k d e : N)         (* 109: about to call timer() under the lock *)
| PHit (k d e now : N)        (* 111: another thread refreshed; about to leave the with block *)
| PFetch (k : N)              (* 113: about to call provider.get *)
| PTime (k d : N)             (* 122/148: about to call timer() for the new entry *)
| PSet (k d now : N)          (* 122/148: about to store CacheEntry(d, now + interval) *)
| PRel (k d : N).             (* 115: about to leave the with block and return d *)

Inductive rkind := RFast (e now : N) | RHit (e now : N) | RFresh.

Record st := {
  clock : N;
  cache : list (N * (N * N));          (* key -> (data, expires) *)
  lock : option nat;                   (* holder *)
  pcs : list pc;
  fetches : list (N * N * N);          (* provider calls, newest first: (key, time, token) *)
  rets : list (nat * N * N * rkind)    (* returns, newest first: (thread, key, token, how) *)
}.

Inductive label := Tick (d : N) | Call (t : nat) (k : N) | Th (t : nat).

Fixpoint nget {A} (k : N) (l : list (N * A)) : option A :=
  match l with [] => None | (k', v) :: r => if N.eqb k k' then Some v else nget k r end.
Fixpoint nset {A} (k : N) (v : A) (l : list (N * A)) : list (N * A) :=
  match l with
  | [] => [(k, v)]
  | (k', v') :: r => if N.eqb k k' then (k, v) :: r else (k', v') :: nset k v r
  end.
Fixpoint upd {A} (i : nat) (x : A) (l : list A) : list A :=
  match l, i with
  | [], _ => []
  | _ :: r, O => x :: r
  | y :: r, S i' => y :: upd i' x r
  end.

Definition set_pc (s : st) (t : nat) (p : pc) : st :=
  {| clock := clock s; cache := cache s; lock := lock s; pcs := upd t p (pcs s);
     fetches := fetches s; rets := rets s |}.
Definition set_lock (s : st) (l : option nat) : st :=
  {| clock := clock s; cache := cache s; lock := l; pcs := pcs s; fetches := fetches s; rets := rets s |}.
Definition add_ret (s : st) (r : nat * N * N * rkind) : st :=
  {| clock := clock s; cache := cache s; lock := lock s; pcs := pcs s; fetches := fetches s; rets := r :: rets s |}.

(* recheck = true is the code as it is; recheck = false is the variant without the second
   look at the cache under the lock (regression model).  iv = refresh_interval. *)
Definition thread_step (recheck : bool) (iv : N) (s : st) (t : nat) (p : pc) : st :=
  match p with
  | Idle => s
  | PRead k =>
      match nget k (cache s) with
      | None => set_pc s t (PAcq k)                      (* `cache_entry is None or ...` short-circuits *)
      | Some (d, e) => set_pc s t (PCheck1 k d e)
      end
  | PCheck1 k d e =>
      if e <=? clock s then set_pc s t (PAcq k)
      else set_pc (add_ret s (t, k, d, RFast e (clock s))) t Idle
  | PAcq k =>
      match lock s with
      | Some _ => s                                        (* blocked *)
      | None => set_pc (set_lock s (Some t)) t (if recheck then PReRead k else PFetch k)
      end
  | PReRead k =>
      match nget k (cache s) with
      | None => set_pc s t (PFetch k)
      | Some (d, e) => set_pc s t (PCheck2 k d e)
      end
  | PCheck2 k d e =>
      if e <=? clock s then set_pc s t (PFetch k) else set_pc s t (PHit k d e (clock s))
  | PHit k d e now => set_pc (add_ret (set_lock s None) (t, k, d, RHit e now)) t Idle
  | PFetch k =>
      let d := N.of_nat (length (fetches s)) + 1 in
      set_pc {| clock := clock s; cache := cache s; lock := lock s; pcs := pcs s;
                fetches := (k, clock s, d) :: fetches s; rets := rets s |} t (PTime k d)
  | PTime k d => set_pc s t (PSet k d (clock s))
  | PSet k d now =>
      set_pc {| clock := clock s; cache := nset k (d, now + iv) (cache s); lock := lock s; pcs := pcs s;
                fetches := fetches s; rets := rets s |} t (PRel k d)
  | PRel k d => set_pc (add_ret (set_lock s None) (t, k, d, RFresh)) t Idle
  end.

Definition step (recheck : bool) (iv : N) (s : st) (l : label) : st :=
  match l with
  | Tick d => {| clock := clock s + d; cache := cache s; lock := lock s; pcs := pcs s;
                 fetches := fetches s; rets := rets s |}
  | Call t k => match nth_error (pcs s) t with Some Idle => set_pc s t (PRead k) | _ => s end
  | Th t => match nth_error (pcs s) t with Some p => thread_step recheck iv s t p | None => s end
  end.

Definition init (n : nat) : st :=
  {| clock := 0; cache := []; lock := None; pcs := repeat Idle n; fetches := []; rets := [] |}.

Definition run (recheck : bool) (iv : N) (sched : list label) (s : st) : st := fold_left (step recheck iv) sched s.

Definition fetch_log (s : st) : list (N * N * N) := rev (fetches s).       (* chronological *)

(* executable form of the separation property, on the newest-first log *)
Fixpoint sep_ok (iv : N) (l : list (N * N * N)) : bool :=
  match l with
  | [] => true
  | (k, tm, _) :: r =>
      forallb (fun f => match f with (k', tm', _) => negb (N.eqb k' k) || (tm' + iv <=? tm) end) r && sep_ok iv r
  end.

(* what the harness compares after every label *)
Definition pc_tag (p : pc) : N :=
  match p with
  | Idle => 0 | PRead _ => 1 | PCheck1 _ _ _ => 2 | PAcq _ => 3 | PReRead _ => 4 | PCheck2 _ _ _ => 5
  | PHit _ _ _ _ => 6 | PFetch _ => 7 | PTime _ _ => 8 | PSet _ _ _ => 9 | PRel _ _ => 10
  end.
Definition ret_obs (r : nat * N * N * rkind) : nat * N * N * N :=
  match r with (t, k, d, how) => (t, k, d, match how with RFast _ _ => 0 | RHit _ _ => 1 | RFresh => 2 end) end.
Definition observe (s : st) :=
  (clock s, cache s, lock s, map pc_tag (pcs s), rev (fetches s), map ret_obs (rev (rets s))).
Fixpoint trace (recheck : bool) (iv : N) (sched : list label) (s : st) :=
  match sched with
  | [] => []
  | l :: r => let s' := step recheck iv s l in observe s' :: trace recheck iv r s'
  end.

(* ====================================================================================== *)
(* Part C: EngineContext.session (engine/context.py:77-94): lazy initialisation of the     *)
(* requests.Session that all workers share, as an LTS over any number of readers           *)
(* ====================================================================================== *)

(* config.network, values opaque (tls_verify / cert travel as tagged text, auth as the
   Authorization value requests derives from the tuple) *)
Record ncfg := { n_verify : str; n_auth : option str; n_headers : dict; n_cert : option str; n_proxy : option str }.
(* the attributes of a requests.Session the code assigns *)
Record sess := { s_verify : str; s_auth : option str; s_headers : dict; s_cert : option str; s_proxies : dict }.

Definition V_TRUE : str := [1;116;114;117;101].        (* tagged text of True *)
Definition K_ALL : str := [97;108;108].
(* requests.Session(): library defaults *)
Definition bare (dflt : dict) : sess :=
  {| s_verify := V_TRUE; s_auth := None; s_headers := ci_of_items dflt; s_cert := None; s_proxies := [] |}.

Inductive fld := FVerify | FAuth | FHeaders | FCert | FProxies.
(* one assignment of context.py:85-94 *)
Definition set_field (c : ncfg) (f : fld) (x : sess) : sess :=
  match f with
  | FVerify => {| s_verify := n_verify c; s_auth := s_auth x; s_headers := s_headers x; s_cert := s_cert x; s_proxies := s_proxies x |}
  | FAuth => {| s_verify := s_verify x; s_auth := n_auth c; s_headers := s_headers x; s_cert := s_cert x; s_proxies := s_proxies x |}
  | FHeaders => {| s_verify := s_verify x; s_auth := s_auth x; s_headers := ci_update (s_headers x) (n_headers c);
                   s_cert := s_cert x; s_proxies := s_proxies x |}
  | FCert => {| s_verify := s_verify x; s_auth := s_auth x; s_headers := s_headers x; s_cert := n_cert c; s_proxies := s_proxies x |}
  | FProxies => {| s_verify := s_verify x; s_auth := s_auth x; s_headers := s_headers x; s_cert := s_cert x;
                   s_proxies := match n_proxy c with Some p => assoc_set K_ALL p (s_proxies x) | None => s_proxies x end |}
  end.
(* the assignments the code performs, in its order: verify always, the others under their `if` *)
Definition todo (c : ncfg) : list fld :=
  FVerify :: (match n_auth c with Some _ => [FAuth] | None => [] end)
          ++ (if is_empty (n_headers c) then [] else [FHeaders])
          ++ (match n_cert c with Some _ => [FCert] | None => [] end)
          ++ (match n_proxy c with Some _ => [FProxies] | None => [] end).
Definition apply_fields (c : ncfg) (r : list fld) (x : sess) : sess := fold_left (fun acc f => set_field c f acc) r x.
Definition configured (c : ncfg) (dflt : dict) : sess := apply_fields c (todo c) (bare dflt).
(* what a request prepared through session x carries (Session.prepare_request: merge, then auth) *)
Definition request_headers (x : sess) (final : hdrs) : dict := apply_auth (s_auth x) (ci_update (s_headers x) (h_items final)).

(* program counter of one reader of ctx.session *)
Inductive spc :=
| SIdle
| SLook                            (* about to evaluate ctx.session: is the value in the instance dict *)
| SGet                             (* cached_property.__get__: cache.get(attrname) *)
| SExpl                            (* 79: if self._session is not None *)
| SRetE                            (* 80: return self._session *)
| SNew                             (* 83: requests.Session() *)
| SConf (o : nat) (r : list fld)   (* 85-94: about to perform the first assignment of r on the LOCAL object o *)
| SPub (o : nat)                   (* cached_property.__get__: cache[attrname] = val; return val *)
(* reached in the sentinel order only (regression model) *)
| SPubA (o : nat)                  (* self._session = <the new object> *)
| SConfA (r : list fld)            (* self._session.<field> = ... on whatever the attribute holds *)
| SRetA.                           (* return self._session *)

Record sst := {
  heap : list sess;                  (* every Session constructed, by identity (index) *)
  cached : option nat;               (* ctx.__dict__[session], the cached_property slot *)
  sattr : option nat;                (* ctx._session *)
  spcs : list spc;
  gots : list (nat * nat * sess);    (* newest first: reader, object, its attributes at the moment it was handed out *)
  sends : list (nat * nat * sess)    (* newest first: reader, object, its attributes when a request went through it *)
}.

Inductive slabel := SCall (t : nat) | STh (t : nat) | SUse (t : nat).

Definition set_spc (s : sst) (t : nat) (p : spc) : sst :=
  {| heap := heap s; cached := cached s; sattr := sattr s; spcs := upd t p (spcs s); gots := gots s; sends := sends s |}.
Definition with_heap (s : sst) (h : list sess) : sst :=
  {| heap := h; cached := cached s; sattr := sattr s; spcs := spcs s; gots := gots s; sends := sends s |}.
Definition with_cached (s : sst) (o : option nat) : sst :=
  {| heap := heap s; cached := o; sattr := sattr s; spcs := spcs s; gots := gots s; sends := sends s |}.
Definition with_sattr (s : sst) (o : option nat) : sst :=
  {| heap := heap s; cached := cached s; sattr := o; spcs := spcs s; gots := gots s; sends := sends s |}.
Definition hmod (o : nat) (g : sess -> sess) (h : list sess) : list sess :=
  match nth_error h o with Some x => upd o (g x) h | None => h end.
(* the reader receives object o *)
Definition give (s : sst) (t o : nat) : sst :=
  match nth_error (heap s) o with
  | Some x => set_spc {| heap := heap s; cached := cached s; sattr := sattr s; spcs := spcs s;
                         gots := (t, o, x) :: gots s; sends := sends s |} t SIdle
  | None => set_spc s t SIdle
  end.
Definition after_conf (o : nat) (r : list fld) : spc := match r with [] => SPub o | _ => SConf o r end.
Definition after_confA (r : list fld) : spc := match r with [] => SRetA | _ => SConfA r end.

(* local_first = true is the code as it is: a cached_property that configures a local object
   and lets functools publish the finished value; local_first = false is the sentinel order
   (regression model): a plain property that tests ctx._session, assigns the new object to it
   and configures it in place *)
Definition s_thread_step (local_first : bool) (c : ncfg) (dflt : dict) (s : sst) (t : nat) (p : spc) : sst :=
  match p with
  | SIdle => s
  | SLook =>
      if local_first then match cached s with Some o => give s t o | None => set_spc s t SGet end
      else match sattr s with Some _ => set_spc s t SRetA | None => set_spc s t SNew end
  | SGet => match cached s with Some o => give s t o | None => set_spc s t SExpl end
  | SExpl => match sattr s with Some _ => set_spc s t SRetE | None => set_spc s t SNew end
  | SRetE => match sattr s with Some o => set_spc s t (SPub o) | None => set_spc s t SIdle end
  | SNew =>
      let o := length (heap s) in
      set_spc (with_heap s (heap s ++ [bare dflt])) t (if local_first then after_conf o (todo c) else SPubA o)
  | SConf o r =>
      match r with
      | [] => set_spc s t (SPub o)
      | f :: r' => set_spc (with_heap s (hmod o (set_field c f) (heap s))) t (after_conf o r')
      end
  | SPub o => give (with_cached s (Some o)) t o
  | SPubA o => set_spc (with_sattr s (Some o)) t (after_confA (todo c))
  | SConfA r =>
      match r with
      | [] => set_spc s t SRetA
      | f :: r' =>
          set_spc (match sattr s with Some o => with_heap s (hmod o (set_field c f) (heap s)) | None => s end) t (after_confA r')
      end
  | SRetA => match sattr s with Some o => give s t o | None => set_spc s t SIdle end
  end.

Definition last_got (t : nat) (g : list (nat * nat * sess)) : option nat :=
  match find (fun e => Nat.eqb (fst (fst e)) t) g with Some e => Some (snd (fst e)) | None => None end.

Definition s_step (local_first : bool) (c : ncfg) (dflt : dict) (s : sst) (l : slabel) : sst :=
  match l with
  | SCall t => match nth_error (spcs s) t with Some SIdle => set_spc s t SLook | _ => s end
  | STh t => match nth_error (spcs s) t with Some p => s_thread_step local_first c dflt s t p | None => s end
  | SUse t =>   (* reader t sends a request through the session it obtained last *)
      match last_got t (gots s) with
      | Some o => match nth_error (heap s) o with
                  | Some x => {| heap := heap s; cached := cached s; sattr := sattr s; spcs := spcs s; gots := gots s;
                                 sends := (t, o, x) :: sends s |}
                  | None => s
                  end
      | None => s
      end
  end.

(* n readers; ex = the session passed to EngineContext(session=...) if any *)
Definition s_init (n : nat) (ex : option sess) : sst :=
  {| heap := match ex with Some x => [x] | None => [] end;
     cached := None; sattr := match ex with Some _ => Some 0%nat | None => None end;
     spcs := repeat SIdle n; gots := []; sends := [] |}.

Definition s_run (local_first : bool) (c : ncfg) (dflt : dict) (sched : list slabel) (s : sst) : sst :=
  fold_left (s_step local_first c dflt) sched s.

(* executable form of the property on one log entry: the session carries the configured values *)
Definition opt_str_eqb (a b : option str) : bool :=
  match a, b with Some x, Some y => str_eqb x y | None, None => true | _, _ => false end.
Definition auth_ok (c : ncfg) (e : nat * nat * sess) : bool := opt_str_eqb (s_auth (snd e)) (n_auth c).

(* what the harness compares after every label *)
Definition spc_tag (p : spc) : N :=
  match p with
  | SIdle => 0 | SLook => 1 | SGet => 2 | SExpl => 3 | SRetE => 4 | SNew => 5
  | SConf _ (FVerify :: _) => 6 | SConf _ (FAuth :: _) => 7 | SConf _ (FHeaders :: _) => 8
  | SConf _ (FCert :: _) => 9 | SConf _ (FProxies :: _) => 10 | SConf _ [] => 11
  | SPub _ => 12 | SPubA _ => 13 | SConfA _ => 14 | SRetA => 15
  end.
Definition sess_obs (x : sess) := (s_verify x, s_auth x, s_headers x, s_cert x, s_proxies x).
Definition log_obs (e : nat * nat * sess) := (fst (fst e), snd (fst e), sess_obs (snd e)).
Definition s_observe (s : sst) :=
  (map sess_obs (heap s), cached s, sattr s, map spc_tag (spcs s), map log_obs (rev (gots s)), map log_obs (rev (sends s))).
Fixpoint s_trace (local_first : bool) (c : ncfg) (dflt : dict) (sched : list slabel) (s : sst) :=
  match sched with
  | [] => []
  | l :: r => let s' := s_step local_first c dflt s l in s_observe s' :: s_trace local_first c dflt r s'
  end.

(* the same comparison, as the CHANGE made by each label (keeps the printed trace small): heap entries
   that are new or differ from the state before, the slots, the pcs, and the log entries added *)
Fixpoint dict_eqb (a b : dict) : bool :=
  match a, b with
  | [], [] => true
  | (k, v) :: r, (k', v') :: r' => str_eqb k k' && str_eqb v v' && dict_eqb r r'
  | _, _ => false
  end.
Definition sess_eqb (x y : sess) : bool :=
  str_eqb (s_verify x) (s_verify y) && opt_str_eqb (s_auth x) (s_auth y) && dict_eqb (s_headers x) (s_headers y)
  && opt_str_eqb (s_cert x) (s_cert y) && dict_eqb (s_proxies x) (s_proxies y).
Fixpoint heap_delta (i : nat) (h h' : list sess) :=
  match h, h' with
  | x :: r, x' :: r' => (if sess_eqb x x' then [] else [(i, sess_obs x')]) ++ heap_delta (S i) r r'
  | [], x' :: r' => (i, sess_obs x') :: heap_delta (S i) [] r'
  | _, [] => []
  end.
Definition added {A} (old new : list A) : list A := rev (firstn (length new - length old) new).
Definition s_delta (s s' : sst) :=
  (heap_delta 0 (heap s) (heap s'), cached s', sattr s', map spc_tag (spcs s'),
   map log_obs (added (gots s) (gots s')), map log_obs (added (sends s) (sends s'))).
Fixpoint s_trace_delta (local_first : bool) (c : ncfg) (dflt : dict) (sched : list slabel) (s : sst) :=
  match sched with
  | [] => []
  | l :: r => let s' := s_step local_first c dflt s l in s_delta s s' :: s_trace_delta local_first c dflt r s'
  end.
