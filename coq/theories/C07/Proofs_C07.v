(* C07 - lemmas, witnesses and non-vacuity examples for Model_C07. *)
From Coq Require Import List NArith ZArith Bool Lia Arith Permutation.
From Verif Require Import Common.Str Common.Json C07.Model_C07.
Import ListNotations.

(* ------------------------------------------------------------------------------------------------ *)
(* FilterSet.match                                                                                   *)
Definition filter_matches (f : flt) (c : ctx) : Prop := forall m, In m f -> matcher_match m c = true.

Lemma filter_match_spec f c : filter_match f c = true <-> filter_matches f c.
Proof. unfold filter_match, filter_matches. rewrite forallb_forall. reflexivity. Qed.

Lemma match_spec fs c :
  fs_match fs c = true <->
  (fs_includes fs = [] \/ exists f, In f (fs_includes fs) /\ filter_matches f c) /\
  (forall f, In f (fs_excludes fs) -> ~ filter_matches f c).
Proof.
  unfold fs_match.
  destruct (existsb (fun f => filter_match f c) (fs_excludes fs)) eqn:Ex.
  - split; [discriminate|]. intros [_ Hno]. exfalso.
    apply existsb_exists in Ex. destruct Ex as [f [Hin Hm]].
    apply (Hno f Hin). apply filter_match_spec. exact Hm.
  - assert (Hno : forall f, In f (fs_excludes fs) -> ~ filter_matches f c).
    { intros f Hin Hm. apply filter_match_spec in Hm.
      assert (existsb (fun f => filter_match f c) (fs_excludes fs) = true) as E
        by (apply existsb_exists; exists f; split; assumption).
      rewrite E in Ex. discriminate. }
    destruct (fs_includes fs) as [|i is_] eqn:Ei.
    + split; [intros _; split; [left; reflexivity | exact Hno] | reflexivity].
    + rewrite existsb_exists. split.
      * intros [f [Hin Hm]]. split; [right; exists f; split; [exact Hin | apply filter_match_spec; exact Hm] | exact Hno].
      * intros [[Hnil | [f [Hin Hm]]] _]; [discriminate|].
        exists f. split; [exact Hin | apply filter_match_spec; exact Hm].
Qed.

(* the verdict does not depend on the (unspecified) iteration order of the two Python sets *)
Lemma existsb_perm {A} (p : A -> bool) l l' : Permutation l l' -> existsb p l = existsb p l'.
Proof.
  induction 1; cbn; try congruence.
  - destruct (p x), (p y); reflexivity.
Qed.

Lemma match_perm i i' e e' c :
  Permutation i i' -> Permutation e e' ->
  fs_match {| fs_includes := i; fs_excludes := e |} c = fs_match {| fs_includes := i'; fs_excludes := e' |} c.
Proof.
  intros Hi He. unfold fs_match; cbn [fs_includes fs_excludes].
  rewrite (existsb_perm _ _ _ He), (existsb_perm _ _ _ Hi).
  destruct i, i'; try reflexivity.
  - apply Permutation_nil in Hi. discriminate.
  - apply Permutation_sym, Permutation_nil in Hi. discriminate.
Qed.

(* an empty filter set selects everything: the shortcut in _should_skip is sound *)
Lemma empty_matches fs c : fs_is_empty fs = true -> fs_match fs c = true.
Proof.
  unfold fs_is_empty, fs_match. destruct (fs_includes fs), (fs_excludes fs); try discriminate. reflexivity.
Qed.

Lemma should_skip_spec fs p m d :
  should_skip fs p m d = negb (is_http_method m && fs_match fs (mk_ctx p m d)).
Proof.
  unfold should_skip. destruct (is_http_method m); cbn [negb andb]; [|reflexivity].
  destruct (fs_is_empty fs) eqn:E; [|reflexivity].
  rewrite (empty_matches _ _ E). reflexivity.
Qed.

(* what the single matcher kinds mean on the plain attributes *)
Lemma value_matcher_path e c : matcher_match (MValue APath e) c = true <-> c_path c = e.
Proof. cbn. apply str_eqb_spec. Qed.

Lemma upper_c_idem x : upper_c (upper_c x) = upper_c x.
Proof.
  unfold upper_c, is_lower.
  destruct ((97 <=? x)%N && (x <=? 122)%N) eqn:E; [|rewrite E; reflexivity].
  apply andb_true_iff in E; destruct E as [E1 E2]. apply N.leb_le in E1; apply N.leb_le in E2.
  destruct ((97 <=? x - 32)%N && (x - 32 <=? 122)%N) eqn:E'; [|reflexivity].
  apply andb_true_iff in E'; destruct E' as [E3 _]. apply N.leb_le in E3. lia.
Qed.
Lemma upper_ascii_idem s : upper_ascii (upper_ascii s) = upper_ascii s.
Proof. unfold upper_ascii. rewrite map_map. apply map_ext. intros; apply upper_c_idem. Qed.

(* method filters by value are case-insensitive on both sides (ASCII) *)
Lemma method_value_case_insensitive e p m d :
  attr_matchers AMethod {| aa_expected := Some (FStr e); aa_regex := None |} = Some [MValue AMethod (upper_ascii e)] /\
  (matcher_match (MValue AMethod (upper_ascii e)) (mk_ctx p m d) = true <-> upper_ascii m = upper_ascii e).
Proof. split; [reflexivity|]. cbn. apply str_eqb_spec. Qed.

(* ------------------------------------------------------------------------------------------------ *)
(* iteration                                                                                         *)
Definition entries (d : doc) : list (str * str * opdef) :=
  flat_map (fun pi : str * path_item => map (fun kd : str * opdef => (fst pi, fst kd, snd kd)) (snd pi)) d.

(* the decision the property text asks for, on the resolved definition *)
Definition selectedb (fs : filter_set) (e : str * str * opdef) : bool :=
  let '(p, m, od) := e in is_http_method m && fs_match fs (mk_ctx p m (od_resolved od)).
Definition op_of (e : str * str * opdef) : op :=
  let '(p, m, od) := e in {| o_path := p; o_method := m; o_def := od |}.

Lemma flat_map_filter_map {A B} (f : A -> B) (p : A -> bool) (l : list A) :
  flat_map (fun x => if p x then [f x] else []) l = map f (filter p l).
Proof. induction l as [|x l IH]; cbn; [reflexivity|]. destruct (p x); cbn; rewrite IH; reflexivity. Qed.

Lemma item_operations_eq fs p item :
  item_operations fs p item = map op_of (filter (selectedb fs) (map (fun kd : str * opdef => (p, fst kd, snd kd)) item)).
Proof.
  unfold item_operations. induction item as [|[m od] item IH]; cbn [flat_map map filter]; [reflexivity|].
  rewrite IH. cbn [fst snd selectedb]. rewrite should_skip_spec.
  destruct (is_http_method m); cbn [negb andb]; [|reflexivity].
  destruct (fs_match fs (mk_ctx p m (od_resolved od))); reflexivity.
Qed.

(* get_all_operations = the selected entries, once each, in document order *)
Lemma offered_eq_filter fs d : get_all_operations fs d = map op_of (filter (selectedb fs) (entries d)).
Proof.
  unfold get_all_operations, entries. induction d as [|[p item] d IH]; cbn [flat_map]; [reflexivity|].
  rewrite filter_app, map_app, <- IH. cbn [fst snd]. rewrite item_operations_eq. reflexivity.
Qed.

Lemma op_of_inj e e' : op_of e = op_of e' -> e = e'.
Proof. destruct e as [[p m] od], e' as [[p' m'] od']. cbn. intros H; inversion H; reflexivity. Qed.

Lemma in_entries d p m od :
  In (p, m, od) (entries d) <-> exists item, In (p, item) d /\ In (m, od) item.
Proof.
  unfold entries. rewrite in_flat_map. split.
  - intros [[p' item] [Hin Hm]]. cbn [fst snd] in Hm. apply in_map_iff in Hm. destruct Hm as [[m' od'] [E Hk]].
    cbn in E. inversion E; subst. exists item. split; assumption.
  - intros [item [Hin Hk]]. exists (p, item). split; [exact Hin|]. cbn [fst snd].
    apply in_map_iff. exists (m, od). split; [reflexivity | exact Hk].
Qed.

Lemma offered_iff_selected fs d p m od :
  In {| o_path := p; o_method := m; o_def := od |} (get_all_operations fs d) <->
  (exists item, In (p, item) d /\ In (m, od) item) /\
  is_http_method m = true /\ fs_match fs (mk_ctx p m (od_resolved od)) = true.
Proof.
  rewrite offered_eq_filter, in_map_iff. split.
  - intros [[[p' m'] od'] [E Hin]]. cbn in E. inversion E; subst.
    apply filter_In in Hin. destruct Hin as [Hin Hs]. unfold selectedb in Hs. apply andb_true_iff in Hs.
    split; [apply in_entries; exact Hin | exact Hs].
  - intros [Hin [Hh Hm]]. exists (p, m, od). split; [reflexivity|].
    apply filter_In. split; [apply in_entries; exact Hin | unfold selectedb; rewrite Hh, Hm; reflexivity].
Qed.

(* a key that is not one of the eight lower-case method names is never an operation, whatever the filters *)
Lemma non_method_key_never_offered fs d o :
  In o (get_all_operations fs d) -> is_http_method (o_method o) = true.
Proof.
  destruct o as [p m od]. intros H. apply offered_iff_selected in H. cbn. tauto.
Qed.

Example upper_case_key_is_not_a_method : is_http_method [71;69;84]%N = false /\ is_http_method [103;101;116]%N = true.
Proof. split; reflexivity. Qed.

(* ------------------------------------------------------------------------------------------------ *)
(* statistics: operation counts                                                                      *)
Lemma http_entries_eq d : http_entries d = filter (fun e : str * str * opdef => is_http_method (snd (fst e))) (entries d).
Proof.
  unfold http_entries, entries. induction d as [|[p item] d IH]; cbn [flat_map]; [reflexivity|].
  rewrite filter_app, <- IH. f_equal. cbn [fst snd].
  induction item as [|[m od] item IHi]; cbn [flat_map map filter fst snd]; [reflexivity|].
  rewrite IHi. destruct (is_http_method m); reflexivity.
Qed.

Lemma filter_filter {A} (p q : A -> bool) l : filter p (filter q l) = filter (fun x => q x && p x) l.
Proof. induction l as [|x l IH]; cbn; [reflexivity|]. destruct (q x); cbn; [destruct (p x)|]; rewrite IH; reflexivity. Qed.

Lemma filter_ext_in {A} (p q : A -> bool) l : (forall x, In x l -> p x = q x) -> filter p l = filter q l.
Proof.
  induction l as [|x l IH]; intros H; cbn; [reflexivity|].
  rewrite (H x (or_introl eq_refl)), IH; [reflexivity|]. intros y Hy. apply H. right; exact Hy.
Qed.

Lemma raw_selected_spec fs p m od :
  raw_selected fs (p, m, od) = is_http_method m && fs_match fs (mk_ctx p m (od_raw od)).
Proof. cbn. rewrite should_skip_spec, negb_involutive. reflexivity. Qed.

Lemma statistic_total fs d :
  st_ops_total (measure_statistic fs d) = length (filter (fun e : str * str * opdef => is_http_method (snd (fst e))) (entries d)).
Proof. cbn. rewrite http_entries_eq. reflexivity. Qed.

Lemma independent_pointwise fs d p m od :
  resolution_independent fs d = true -> In (p, m, od) (entries d) -> is_http_method m = true ->
  fs_match fs (mk_ctx p m (od_raw od)) = fs_match fs (mk_ctx p m (od_resolved od)).
Proof.
  unfold resolution_independent. rewrite forallb_forall. intros H Hin Hh.
  specialize (H (p, m, od)). cbn in H. apply eqb_prop. apply H.
  rewrite http_entries_eq. apply filter_In. split; [exact Hin | exact Hh].
Qed.

Lemma selected_raw_eq fs d :
  resolution_independent fs d = true ->
  filter (raw_selected fs) (http_entries d) = filter (selectedb fs) (entries d).
Proof.
  intros H. rewrite http_entries_eq, filter_filter. apply filter_ext_in.
  intros [[p m] od] Hin. rewrite raw_selected_spec. cbn [fst snd selectedb].
  destruct (is_http_method m) eqn:Hh; cbn [andb]; [|reflexivity].
  rewrite (independent_pointwise fs d p m od H Hin Hh). reflexivity.
Qed.

Lemma statistic_eq_offered fs d :
  resolution_independent fs d = true ->
  st_ops_selected (measure_statistic fs d) = length (get_all_operations fs d).
Proof.
  intros H. cbn [measure_statistic st_ops_selected]. rewrite offered_eq_filter, map_length, (selected_raw_eq _ _ H). reflexivity.
Qed.

Lemma no_references_independent fs d : no_references d = true -> resolution_independent fs d = true.
Proof.
  unfold no_references, resolution_independent. rewrite !forallb_forall. intros H [[p m] od] Hin.
  specialize (H _ Hin). cbn in H. apply json_eqb_eq in H. rewrite H. apply eqb_reflx.
Qed.

(* _operation_iter counts the same operations as the statistic (both on raw definitions) *)
Lemma operation_iter_length fs d : length (operation_iter fs d) = st_ops_selected (measure_statistic fs d).
Proof.
  cbn [measure_statistic st_ops_selected]. unfold operation_iter, http_entries.
  induction d as [|[p item] d IH]; cbn [flat_map]; [reflexivity|].
  rewrite filter_app, !app_length, IH. f_equal. cbn [fst snd].
  induction item as [|[m od] item IHi]; cbn [flat_map filter fst snd]; [reflexivity|].
  rewrite app_length, IHi. unfold should_skip at 1.
  destruct (is_http_method m) eqn:Hh; cbn [negb]; [|reflexivity].
  cbn [app filter raw_selected]. unfold should_skip. rewrite Hh. cbn [negb].
  destruct (fs_is_empty fs); cbn [negb length]; [reflexivity|].
  destruct (fs_match fs (mk_ctx p m (od_raw od))); reflexivity.
Qed.
(* ------------------------------------------------------------------------------------------------ *)
(* canonical witnesses of the findings (generated from known_findings.jsonl by the harness encoders)   *)
Definition w_doc_F1 : doc :=
  [([47;97]%N, [([103;101;116]%N, {| od_raw := (JObj [([112;97;114;97;109;101;116;101;114;115]%N, (JArr [(JObj [([36;114;101;102]%N, (JStr [35;47;99;111;109;112;111;110;101;110;116;115;47;112;97;114;97;109;101;116;101;114;115;47;73;100]%N))])])); ([114;101;115;112;111;110;115;101;115]%N, (JObj [([50;48;48]%N, (JObj [([100;101;115;99;114;105;112;116;105;111;110]%N, (JStr [111;107]%N))]))]))]); od_resolved := (JObj [([112;97;114;97;109;101;116;101;114;115]%N, (JArr [(JObj [([110;97;109;101]%N, (JStr [105;100]%N)); ([105;110]%N, (JStr [113;117;101;114;121]%N)); ([115;99;104;101;109;97]%N, (JObj [([116;121;112;101]%N, (JStr [115;116;114;105;110;103]%N))]))])])); ([114;101;115;112;111;110;115;101;115]%N, (JObj [([50;48;48]%N, (JObj [([100;101;115;99;114;105;112;116;105;111;110]%N, (JStr [111;107]%N))]))]))]) |})]); ([47;98]%N, [([103;101;116]%N, {| od_raw := (JObj [([112;97;114;97;109;101;116;101;114;115]%N, (JArr [(JObj [([110;97;109;101]%N, (JStr [105;100]%N)); ([105;110]%N, (JStr [113;117;101;114;121]%N)); ([115;99;104;101;109;97]%N, (JObj [([116;121;112;101]%N, (JStr [115;116;114;105;110;103]%N))]))])])); ([114;101;115;112;111;110;115;101;115]%N, (JObj [([50;48;48]%N, (JObj [([100;101;115;99;114;105;112;116;105;111;110]%N, (JStr [111;107]%N))]))]))]); od_resolved := (JObj [([112;97;114;97;109;101;116;101;114;115]%N, (JArr [(JObj [([110;97;109;101]%N, (JStr [105;100]%N)); ([105;110]%N, (JStr [113;117;101;114;121]%N)); ([115;99;104;101;109;97]%N, (JObj [([116;121;112;101]%N, (JStr [115;116;114;105;110;103]%N))]))])])); ([114;101;115;112;111;110;115;101;115]%N, (JObj [([50;48;48]%N, (JObj [([100;101;115;99;114;105;112;116;105;111;110]%N, (JStr [111;107]%N))]))]))]) |})])].
Definition w_calls_F1 : list call :=
  [(CInclude {| a_func := Some (1%N, (expr_filter [47;112;97;114;97;109;101;116;101;114;115;47;48;47;110;97;109;101]%N true (JStr [105;100]%N))); a_name := {| aa_expected := (@None fvalue); aa_regex := (@None rx_arg) |}; a_method := {| aa_expected := (@None fvalue); aa_regex := (@None rx_arg) |}; a_path := {| aa_expected := (@None fvalue); aa_regex := (@None rx_arg) |}; a_tag := {| aa_expected := (@None fvalue); aa_regex := (@None rx_arg) |}; a_operation_id := {| aa_expected := (@None fvalue); aa_regex := (@None rx_arg) |} |})].
Definition w_doc_F2 : doc :=
  [([47;115;114;99]%N, [([112;111;115;116]%N, {| od_raw := (JObj [([111;112;101;114;97;116;105;111;110;73;100]%N, (JStr [109;107]%N)); ([114;101;115;112;111;110;115;101;115]%N, (JObj [([50;48;49]%N, (JObj [([100;101;115;99;114;105;112;116;105;111;110]%N, (JStr [99]%N)); ([108;105;110;107;115]%N, (JObj [([76]%N, (JObj [([111;112;101;114;97;116;105;111;110;73;100]%N, (JStr [103;101;116;88]%N))]))]))]))]))]); od_resolved := (JObj [([111;112;101;114;97;116;105;111;110;73;100]%N, (JStr [109;107]%N)); ([114;101;115;112;111;110;115;101;115]%N, (JObj [([50;48;49]%N, (JObj [([100;101;115;99;114;105;112;116;105;111;110]%N, (JStr [99]%N)); ([108;105;110;107;115]%N, (JObj [([76]%N, (JObj [([111;112;101;114;97;116;105;111;110;73;100]%N, (JStr [103;101;116;88]%N))]))]))]))]))]) |})]); ([47;97]%N, [([103;101;116]%N, {| od_raw := (JObj [([111;112;101;114;97;116;105;111;110;73;100]%N, (JStr [103;101;116;88]%N)); ([114;101;115;112;111;110;115;101;115]%N, (JObj [([50;48;48]%N, (JObj [([100;101;115;99;114;105;112;116;105;111;110]%N, (JStr [111;107]%N))]))]))]); od_resolved := (JObj [([111;112;101;114;97;116;105;111;110;73;100]%N, (JStr [103;101;116;88]%N)); ([114;101;115;112;111;110;115;101;115]%N, (JObj [([50;48;48]%N, (JObj [([100;101;115;99;114;105;112;116;105;111;110]%N, (JStr [111;107]%N))]))]))]) |})]); ([47;98]%N, [([103;101;116]%N, {| od_raw := (JObj [([111;112;101;114;97;116;105;111;110;73;100]%N, (JStr [103;101;116;88]%N)); ([114;101;115;112;111;110;115;101;115]%N, (JObj [([50;48;48]%N, (JObj [([100;101;115;99;114;105;112;116;105;111;110]%N, (JStr [111;107]%N))]))]))]); od_resolved := (JObj [([111;112;101;114;97;116;105;111;110;73;100]%N, (JStr [103;101;116;88]%N)); ([114;101;115;112;111;110;115;101;115]%N, (JObj [([50;48;48]%N, (JObj [([100;101;115;99;114;105;112;116;105;111;110]%N, (JStr [111;107]%N))]))]))]) |})])].
Definition w_calls_F2 : list call :=
  [(CExclude {| a_func := None; a_name := {| aa_expected := (@None fvalue); aa_regex := (@None rx_arg) |}; a_method := {| aa_expected := (@None fvalue); aa_regex := (@None rx_arg) |}; a_path := {| aa_expected := (Some (FStr [47;98]%N)); aa_regex := (@None rx_arg) |}; a_tag := {| aa_expected := (@None fvalue); aa_regex := (@None rx_arg) |}; a_operation_id := {| aa_expected := (@None fvalue); aa_regex := (@None rx_arg) |} |} false)].
Definition w_doc_F3 : doc :=
  [([47;97]%N, [([103;101;116]%N, {| od_raw := (JObj [([114;101;115;112;111;110;115;101;115]%N, (JObj [([50;48;48]%N, (JObj [([100;101;115;99;114;105;112;116;105;111;110]%N, (JStr [111;107]%N))]))]))]); od_resolved := (JObj [([114;101;115;112;111;110;115;101;115]%N, (JObj [([50;48;48]%N, (JObj [([100;101;115;99;114;105;112;116;105;111;110]%N, (JStr [111;107]%N))]))]))]) |}); ([100;101;108;101;116;101]%N, {| od_raw := (JObj [([114;101;115;112;111;110;115;101;115]%N, (JObj [([50;48;48]%N, (JObj [([100;101;115;99;114;105;112;116;105;111;110]%N, (JStr [111;107]%N))]))]))]); od_resolved := (JObj [([114;101;115;112;111;110;115;101;115]%N, (JObj [([50;48;48]%N, (JObj [([100;101;115;99;114;105;112;116;105;111;110]%N, (JStr [111;107]%N))]))]))]) |})])].
Definition w_fixture_calls_F3 : list call :=
  [(CExclude {| a_func := None; a_name := {| aa_expected := (@None fvalue); aa_regex := (@None rx_arg) |}; a_method := {| aa_expected := (Some (FStr [68;69;76;69;84;69]%N)); aa_regex := (@None rx_arg) |}; a_path := {| aa_expected := (@None fvalue); aa_regex := (@None rx_arg) |}; a_tag := {| aa_expected := (@None fvalue); aa_regex := (@None rx_arg) |}; a_operation_id := {| aa_expected := (@None fvalue); aa_regex := (@None rx_arg) |} |} false)].
Definition w_lazy_calls_F3 : list call :=
  (@nil call).

Definition fs_of (cs : list call) : filter_set :=
  match apply_calls cs fs_empty 0 with inl fs => fs | inr _ => fs_empty end.

(* F1: statistics look at the raw definition *)
Lemma statistic_eq_offered_refuted :
  resolution_independent (fs_of w_calls_F1) w_doc_F1 = false /\
  st_ops_selected (measure_statistic (fs_of w_calls_F1) w_doc_F1) = 1 /\
  length (get_all_operations (fs_of w_calls_F1) w_doc_F1) = 2.
Proof. vm_compute. repeat split. Qed.

(* non-vacuity of the partial theorem: a filter set that does look at parameters, on a document without references *)
Example statistic_partial_nonvacuous :
  exists d, resolution_independent (fs_of w_calls_F1) d = true /\ no_references d = true /\
            st_ops_selected (measure_statistic (fs_of w_calls_F1) d) = 1 /\ st_ops_total (measure_statistic (fs_of w_calls_F1) d) = 2.
Proof. exists (skipn 1 w_doc_F1 ++ firstn 1 w_doc_F2). vm_compute. repeat split. Qed.

(* ------------------------------------------------------------------------------------------------ *)
(* _add_filter                                                                                       *)
Lemma attr_eqb_refl a : attr_eqb a a = true.
Proof. destruct a; reflexivity. Qed.
Lemma strs_eqb_refl l : strs_eqb l l = true.
Proof. induction l as [|x l IH]; cbn; [reflexivity|]. rewrite str_eqb_refl, IH. reflexivity. Qed.
Lemma matcher_same_refl m : matcher_same m m = true.
Proof.
  destruct m as [a e|a es|a s p|i f]; cbn;
    rewrite ?attr_eqb_refl, ?str_eqb_refl, ?strs_eqb_refl, ?N.eqb_refl; reflexivity.
Qed.
Lemma filter_same_refl f : filter_same f f = true.
Proof. induction f as [|m f IH]; cbn; [reflexivity|]. rewrite matcher_same_refl, IH. reflexivity. Qed.

Definition matchers_of (a : add_args) : option (list matcher) :=
  match collect_matchers (attr_args a) with
  | None => None
  | Some ms => Some (match a_func a with Some (i, f) => MFunc i f :: ms | None => ms end)
  end.

Lemma add_filter_spec inc a fs fs' :
  add_filter inc a fs = Added fs' ->
  exists ms, matchers_of a = Some ms /\ ms <> [] /\
    existsb (filter_same ms) (fs_includes fs) = false /\ existsb (filter_same ms) (fs_excludes fs) = false /\
    fs' = if inc then {| fs_includes := fs_includes fs ++ [ms]; fs_excludes := fs_excludes fs |}
          else {| fs_includes := fs_includes fs; fs_excludes := fs_excludes fs ++ [ms] |}.
Proof.
  unfold add_filter, matchers_of. destruct (collect_matchers (attr_args a)) as [ms0|]; [|discriminate].
  remember (match a_func a with Some (i, f) => MFunc i f :: ms0 | None => ms0 end) as ms eqn:Hms.
  destruct ms as [|m ms]; [discriminate|].
  destruct (existsb (filter_same (m :: ms)) (fs_includes fs)) eqn:E1; [discriminate|].
  destruct (existsb (filter_same (m :: ms)) (fs_excludes fs)) eqn:E2; [discriminate|].
  cbn [orb]. intros H. exists (m :: ms). repeat split; try assumption; try discriminate.
  destruct inc; inversion H; reflexivity.
Qed.

(* adding the very same filter again - as an include or as an exclude - is rejected *)
Lemma add_twice_rejected inc inc' a fs fs' :
  add_filter inc a fs = Added fs' -> add_filter inc' a fs' = Rejected ErrExists.
Proof.
  intros H. destruct (add_filter_spec _ _ _ _ H) as [ms [Hm [Hne [_ [_ Hfs]]]]].
  unfold add_filter. unfold matchers_of in Hm.
  destruct (collect_matchers (attr_args a)) as [ms0|]; [|discriminate]. inversion Hm as [Hm']. rewrite Hm'.
  destruct ms as [|m ms]; [congruence|].
  assert (E : existsb (filter_same (m :: ms)) (fs_includes fs') || existsb (filter_same (m :: ms)) (fs_excludes fs') = true).
  { subst fs'. destruct inc; cbn [fs_includes fs_excludes]; rewrite existsb_app; cbn [existsb];
      rewrite filter_same_refl; cbn [orb]; rewrite ?orb_true_r; reflexivity. }
  rewrite E. reflexivity.
Qed.

(* what one more exclude / include filter does to the verdict *)
Lemma exclude_effect a fs fs' c :
  add_filter false a fs = Added fs' ->
  exists ms, matchers_of a = Some ms /\ fs_match fs' c = fs_match fs c && negb (filter_match ms c).
Proof.
  intros H. destruct (add_filter_spec _ _ _ _ H) as [ms [Hm [_ [_ [_ Hfs]]]]]. exists ms. split; [exact Hm|].
  subst fs'. unfold fs_match. cbn [fs_includes fs_excludes]. rewrite existsb_app. cbn [existsb]. rewrite orb_false_r.
  destruct (existsb (fun f => filter_match f c) (fs_excludes fs)); cbn [orb andb]; [reflexivity|].
  destruct (filter_match ms c); cbn [negb]; [rewrite andb_false_r | rewrite andb_true_r]; reflexivity.
Qed.

Lemma include_effect a fs fs' c :
  add_filter true a fs = Added fs' ->
  exists ms, matchers_of a = Some ms /\
    fs_match fs' c = negb (existsb (fun f => filter_match f c) (fs_excludes fs)) &&
                     (existsb (fun f => filter_match f c) (fs_includes fs) || filter_match ms c).
Proof.
  intros H. destruct (add_filter_spec _ _ _ _ H) as [ms [Hm [_ [_ [_ Hfs]]]]]. exists ms. split; [exact Hm|].
  subst fs'. unfold fs_match. cbn [fs_includes fs_excludes].
  destruct (existsb (fun f => filter_match f c) (fs_excludes fs)); cbn [negb andb]; [reflexivity|].
  rewrite existsb_app. cbn [existsb]. rewrite orb_false_r.
  destruct (fs_includes fs); reflexivity.
Qed.

(* an operation excluded once stays excluded whatever is added later *)
Lemma excluded_stays fs c a inc fs' :
  existsb (fun f => filter_match f c) (fs_excludes fs) = true -> add_filter inc a fs = Added fs' -> fs_match fs' c = false.
Proof.
  intros E H. destruct (add_filter_spec _ _ _ _ H) as [ms [_ [_ [_ [_ Hfs]]]]]. subst fs'.
  unfold fs_match. destruct inc; cbn [fs_includes fs_excludes]; [rewrite E; reflexivity|].
  rewrite existsb_app, E. reflexivity.
Qed.

(* ------------------------------------------------------------------------------------------------ *)
(* state machine transitions                                                                         *)
Lemma existsb_str_in x l : existsb (str_eqb x) l = true <-> In x l.
Proof.
  rewrite existsb_exists. split.
  - intros [y [Hin E]]. apply str_eqb_spec in E. subst. exact Hin.
  - intros Hin. exists x. split; [exact Hin | apply str_eqb_refl].
Qed.

Definition link_kept (d : doc) (labels : list str) (l : link) : bool :=
  match resolve_target d (l_target l) with
  | Some (p, m) => existsb (str_eqb (label_of m p)) labels
  | None => false
  end.

Lemma op_transitions_spec d labels src ls : forall ts,
  op_transitions d labels src ls = Some ts ->
  length ts = length (filter (link_kept d labels) ls) /\
  (forall t, In t ts -> t_source t = src /\ In (t_target t) labels).
Proof.
  induction ls as [|l r IH]; intros ts H; cbn [op_transitions] in H.
  - inversion H. split; [reflexivity | intros t []].
  - cbn [filter]. unfold link_kept at 1.
    destruct (resolve_target d (l_target l)) as [[p m]|]; [|discriminate].
    destruct (op_transitions d labels src r) as [rest|]; [|discriminate].
    destruct (IH rest eq_refl) as [IHl IHt].
    destruct (existsb (str_eqb (label_of m p)) labels) eqn:E; inversion H; subst; clear H.
    + split; [cbn [length]; rewrite IHl; reflexivity|].
      intros t [Ht|Ht]; [subst t; cbn; split; [reflexivity | apply existsb_str_in; exact E] | apply IHt; exact Ht].
    + split; [exact IHl | exact IHt].
Qed.

Definition op_links (o : op) : list link := links_or_nil (od_raw (o_def o)).

Lemma transitions_of_spec d labels ops : forall ts,
  transitions_of d labels ops = Some ts ->
  length ts = length (filter (link_kept d labels) (flat_map op_links ops)) /\
  (forall t, In t ts -> In (t_source t) (map op_label ops) /\ In (t_target t) labels).
Proof.
  induction ops as [|o r IH]; intros ts H; cbn [transitions_of] in H.
  - inversion H. split; [reflexivity | intros t []].
  - cbn [flat_map map]. unfold op_links at 1. unfold links_or_nil.
    destruct (links_of_raw (od_raw (o_def o))) as [ls|]; [|discriminate].
    destruct (op_transitions d labels (op_label o) ls) as [a|] eqn:Ea; [|discriminate].
    destruct (transitions_of d labels r) as [b|]; [|discriminate].
    inversion H; subst; clear H.
    destruct (op_transitions_spec _ _ _ _ _ Ea) as [La Ta]. destruct (IH b eq_refl) as [Lb Tb].
    split; [rewrite filter_app, !app_length, La, Lb; reflexivity|].
    intros t Ht. apply in_app_or in Ht. destruct Ht as [Ht|Ht].
    + destruct (Ta t Ht) as [Hs Hl]. split; [left; symmetry; exact Hs | exact Hl].
    + destruct (Tb t Ht) as [Hs Hl]. split; [right; exact Hs | exact Hl].
Qed.

(* every transition of the state machine starts at and leads to (the label of) an offered operation *)
Lemma no_transition_to_unselected fs d ts t :
  collect_transitions fs d = Some ts -> In t ts ->
  In (t_source t) (map op_label (get_all_operations fs d)) /\ In (t_target t) (map op_label (get_all_operations fs d)).
Proof.
  unfold collect_transitions. intros H Ht. destruct (transitions_of_spec _ _ _ _ H) as [_ Hall]. exact (Hall t Ht).
Qed.

(* ... and the label of an offered operation is the label of a selected entry of the document *)
Lemma offered_label_selected fs d l :
  In l (map op_label (get_all_operations fs d)) ->
  exists p m od, l = label_of m p /\ (exists item, In (p, item) d /\ In (m, od) item) /\
                 is_http_method m = true /\ fs_match fs (mk_ctx p m (od_resolved od)) = true.
Proof.
  intros H. apply in_map_iff in H. destruct H as [[p m od] [El Hin]].
  apply offered_iff_selected in Hin. exists p, m, od. split; [symmetry; exact El | exact Hin].
Qed.

Lemma transition_target_selected fs d ts t :
  collect_transitions fs d = Some ts -> In t ts ->
  exists p m od, t_target t = label_of m p /\ (exists item, In (p, item) d /\ In (m, od) item) /\
                 is_http_method m = true /\ fs_match fs (mk_ctx p m (od_resolved od)) = true.
Proof.
  intros H Ht. apply offered_label_selected. exact (proj2 (no_transition_to_unselected _ _ _ _ H Ht)).
Qed.

(* F2: the link statistic with a duplicated operationId *)
Lemma links_selected_eq_transitions_refuted :
  resolution_independent (fs_of w_calls_F2) w_doc_F2 = true /\ unique_labels w_doc_F2 = true /\
  refs_name_methods w_doc_F2 = true /\ unique_operation_ids w_doc_F2 = false /\
  st_links_selected (measure_statistic (fs_of w_calls_F2) w_doc_F2) = 1 /\
  collect_transitions (fs_of w_calls_F2) w_doc_F2 = Some [].
Proof. vm_compute. repeat split. Qed.

(* ------------------------------------------------------------------------------------------------ *)
(* the link statistic equals the number of transitions (partial)                                     *)
Definition lbl (e : str * str * opdef) : str := label_of (snd (fst e)) (fst (fst e)).

Lemma nodup_strs_NoDup l : nodup_strs l = true -> NoDup l.
Proof.
  induction l as [|x l IH]; cbn; intros H; [constructor|].
  apply andb_true_iff in H. destruct H as [H1 H2]. constructor; [|apply IH; exact H2].
  intros Hin. apply existsb_str_in in Hin. rewrite Hin in H1. discriminate.
Qed.

Lemma NoDup_map_inj {A B} (f : A -> B) l x y :
  NoDup (map f l) -> In x l -> In y l -> f x = f y -> x = y.
Proof.
  induction l as [|a l IH]; cbn; intros Hnd Hx Hy E; [contradiction|].
  inversion Hnd as [|? ? Hnot Hnd']; subst.
  destruct Hx as [Hx|Hx], Hy as [Hy|Hy]; subst.
  - reflexivity.
  - exfalso. apply Hnot. rewrite E. apply in_map. exact Hy.
  - exfalso. apply Hnot. rewrite <- E. apply in_map. exact Hx.
  - apply IH; assumption.
Qed.

Lemma assoc_get_in {A} k (l : list (str * A)) v : assoc_get k l = Some v -> In (k, v) l.
Proof.
  induction l as [|[k' v'] r IH]; cbn; [discriminate|].
  destruct (str_eqb k k') eqn:E.
  - intros H. inversion H; subst. apply str_eqb_spec in E. subst. left; reflexivity.
  - intros H. right. apply IH. exact H.
Qed.

Lemma assoc_get_none {A} k (l : list (str * A)) : assoc_get k l = None -> ~ In k (map fst l).
Proof.
  induction l as [|[k' v'] r IH]; cbn; [tauto|].
  destruct (str_eqb k k') eqn:E; [discriminate|].
  intros H [Hk|Hin]; [subst; rewrite str_eqb_refl in E; discriminate | exact (IH H Hin)].
Qed.

Definition entry_ids (e : str * str * opdef) : list (str * (str * str)) :=
  match jget s_operationId (od_raw (snd e)) with Some (JStr i) => [(i, (fst (fst e), snd (fst e)))] | _ => [] end.

Lemma doc_ids_eq d : doc_ids d = flat_map entry_ids (http_entries d).
Proof.
  unfold doc_ids, http_entries. induction d as [|[p item] d IH]; cbn [flat_map]; [reflexivity|].
  rewrite flat_map_app, <- IH. f_equal. cbn [fst snd]. unfold item_ids.
  induction item as [|[m od] item IHi]; cbn [flat_map fst snd]; [reflexivity|].
  rewrite flat_map_app, <- IHi. f_equal.
  destruct (is_http_method m); [|reflexivity]. cbn [flat_map]. unfold entry_ids. cbn [fst snd]. rewrite app_nil_r. reflexivity.
Qed.

Lemma in_doc_ids d i p m :
  In (i, (p, m)) (doc_ids d) <->
  exists od, In (p, m, od) (http_entries d) /\ jget s_operationId (od_raw od) = Some (JStr i).
Proof.
  rewrite doc_ids_eq, in_flat_map. split.
  - intros [[[p' m'] od] [Hin Hid]]. unfold entry_ids in Hid. cbn [fst snd] in Hid.
    destruct (jget s_operationId (od_raw od)) as [[| | |s| |]|] eqn:E; try contradiction.
    destruct Hid as [Hid|[]]. inversion Hid; subst. exists od. split; [exact Hin | exact E].
  - intros [od [Hin E]]. exists (p, m, od). split; [exact Hin|]. unfold entry_ids. cbn [fst snd]. rewrite E. left; reflexivity.
Qed.

Lemma in_selected_ids fs d i :
  In i (selected_ids fs d) <->
  exists e, In e (filter (raw_selected fs) (http_entries d)) /\ jget s_operationId (od_raw (snd e)) = Some (JStr i).
Proof.
  unfold selected_ids. rewrite in_flat_map. split.
  - intros [e [Hin Hid]]. exists e. split; [exact Hin|].
    destruct (jget s_operationId (od_raw (snd e))) as [[| | |s| |]|]; try contradiction.
    destruct Hid as [Hid|[]]. subst. reflexivity.
  - intros [e [Hin E]]. exists e. split; [exact Hin|]. rewrite E. left; reflexivity.
Qed.

Lemma find_by_id_in d i p m : find_by_id d i = Some (p, m) -> In (i, (p, m)) (doc_ids d).
Proof. unfold find_by_id. intros H. apply assoc_get_in in H. apply in_rev. exact H. Qed.

Lemma find_by_id_none d i : find_by_id d i = None -> ~ In i (map fst (doc_ids d)).
Proof.
  unfold find_by_id. intros H Hin. apply assoc_get_none in H. apply H.
  rewrite map_rev. apply in_rev. rewrite rev_involutive. exact Hin.
Qed.

Lemma find_by_ref_in d r p m : find_by_ref d r = Some (p, m) -> exists od, In (p, m, od) (entries d).
Proof.
  unfold find_by_ref. destruct (parse_ref r) as [[p' m']|]; [|discriminate].
  destruct (assoc_get p' d) as [item|] eqn:E1; [|discriminate].
  destruct (assoc_get m' item) as [od|] eqn:E2; [|discriminate].
  intros H. inversion H; subst. exists od. apply in_entries. exists item.
  split; [apply assoc_get_in; exact E1 | apply assoc_get_in; exact E2].
Qed.

Lemma in_http_entries d p m od : In (p, m, od) (http_entries d) <-> In (p, m, od) (entries d) /\ is_http_method m = true.
Proof. rewrite http_entries_eq, filter_In. cbn [fst snd]. reflexivity. Qed.

Lemma selected_in_http fs d e : In e (filter (selectedb fs) (entries d)) -> In e (http_entries d).
Proof.
  destruct e as [[p m] od]. intros H. apply filter_In in H. destruct H as [Hin Hs].
  unfold selectedb in Hs. apply andb_true_iff in Hs. apply in_http_entries. split; [exact Hin | exact (proj1 Hs)].
Qed.

Lemma flat_map_map {A B C} (f : B -> list C) (g : A -> B) l : flat_map f (map g l) = flat_map (fun x => f (g x)) l.
Proof. induction l as [|x l IH]; cbn; [reflexivity|]. rewrite IH. reflexivity. Qed.

Lemma op_label_op_of e : op_label (op_of e) = lbl e.
Proof. destruct e as [[p m] od]. reflexivity. Qed.

Section LinkCount.
  Variables (fs : filter_set) (d : doc).
  Hypothesis Hind : resolution_independent fs d = true.
  Hypothesis Hids : unique_operation_ids d = true.
  Hypothesis Hlbl : unique_labels d = true.

  Let S := filter (selectedb fs) (entries d).
  Let labels := map lbl S.

  Lemma same_label_same_entry e e' : In e (http_entries d) -> In e' (http_entries d) -> lbl e = lbl e' -> e = e'.
  Proof.
    intros H1 H2 E. apply (NoDup_map_inj lbl (http_entries d)); try assumption.
    apply nodup_strs_NoDup. exact Hlbl.
  Qed.

  Lemma id_link_agrees i p m :
    find_by_id d i = Some (p, m) ->
    existsb (str_eqb i) (selected_ids fs d) = existsb (str_eqb (label_of m p)) labels.
  Proof.
    intros Hf. apply find_by_id_in in Hf. apply eq_true_iff_eq. rewrite !existsb_str_in. split.
    - intros Hi. apply in_selected_ids in Hi. destruct Hi as [[[p' m'] od'] [Hin Hid]].
      rewrite (selected_raw_eq _ _ Hind) in Hin. fold S in Hin.
      assert (Hd : In (i, (p', m')) (doc_ids d)).
      { apply in_doc_ids. exists od'. split; [apply (selected_in_http fs); exact Hin | exact Hid]. }
      assert (E : (i, (p', m')) = (i, (p, m))).
      { apply (NoDup_map_inj fst (doc_ids d)); try assumption; [|reflexivity].
        apply nodup_strs_NoDup. exact Hids. }
      inversion E; subst. unfold labels. apply in_map_iff. exists (p, m, od'). split; [reflexivity | exact Hin].
    - intros Hl. unfold labels in Hl. apply in_map_iff in Hl. destruct Hl as [e' [El Hin']].
      apply in_doc_ids in Hf. destruct Hf as [od [Hin Hid]].
      assert (E : e' = (p, m, od)).
      { apply same_label_same_entry; [apply (selected_in_http fs); exact Hin' | exact Hin | exact El]. }
      subst e'. apply in_selected_ids. exists (p, m, od). split; [|exact Hid].
      rewrite (selected_raw_eq _ _ Hind). exact Hin'.
  Qed.

  Lemma ref_link_agrees r p m :
    find_by_ref d r = Some (p, m) -> is_http_method m = true ->
    existsb (fun mp : str * str => str_eqb (fst mp) m && str_eqb (snd mp) p) (selected_by_path fs d) =
    existsb (str_eqb (label_of m p)) labels.
  Proof.
    intros Hf Hm. apply find_by_ref_in in Hf. destruct Hf as [od Hin].
    apply eq_true_iff_eq. rewrite existsb_str_in, existsb_exists. split.
    - intros [[m' p'] [Hsel E]]. cbn [fst snd] in E. apply andb_true_iff in E. destruct E as [E1 E2].
      apply str_eqb_spec in E1. apply str_eqb_spec in E2. subst.
      unfold selected_by_path in Hsel. apply in_map_iff in Hsel. destruct Hsel as [[[p' m'] od'] [E Hin']].
      cbn [fst snd] in E. inversion E; subst. rewrite (selected_raw_eq _ _ Hind) in Hin'.
      unfold labels. apply in_map_iff. exists (p, m, od'). split; [reflexivity | exact Hin'].
    - intros Hl. unfold labels in Hl. apply in_map_iff in Hl. destruct Hl as [e' [El Hin']].
      assert (E : e' = (p, m, od)).
      { apply same_label_same_entry; [apply (selected_in_http fs); exact Hin' | apply in_http_entries; split; assumption | exact El]. }
      subst e'. exists (m, p). split; [|cbn [fst snd]; rewrite !str_eqb_refl; reflexivity].
      unfold selected_by_path. apply in_map_iff. exists (p, m, od). split; [reflexivity|].
      rewrite (selected_raw_eq _ _ Hind). exact Hin'.
  Qed.

  Lemma link_selected_eq_kept l :
    ref_names_method d l = true -> is_link_selected fs d l = link_kept d labels l.
  Proof.
    unfold ref_names_method, is_link_selected, link_kept, resolve_target. destruct (l_target l) as [i|r|].
    - intros _. destruct (find_by_id d i) as [[p m]|] eqn:Hf; [apply id_link_agrees; exact Hf|].
      destruct (existsb (str_eqb i) (selected_ids fs d)) eqn:E; [|reflexivity]. exfalso.
      apply existsb_str_in, in_selected_ids in E. destruct E as [[[p m] od] [Hin Hid]].
      apply filter_In in Hin. destruct Hin as [Hin _].
      apply (find_by_id_none _ _ Hf). apply in_map_iff. exists (i, (p, m)). split; [reflexivity|].
      apply in_doc_ids. exists od. split; assumption.
    - destruct (find_by_ref d r) as [[p m]|] eqn:Hf; [|reflexivity]. intros Hm. apply (ref_link_agrees r); assumption.
    - reflexivity.
  Qed.

  Lemma links_selected_eq_transitions ts :
    refs_name_methods d = true -> collect_transitions fs d = Some ts ->
    st_links_selected (measure_statistic fs d) = length ts.
  Proof.
    intros Hrefs H. unfold collect_transitions in H. rewrite offered_eq_filter in H. fold S in H.
    destruct (transitions_of_spec _ _ _ _ H) as [Hlen _]. rewrite Hlen.
    cbn [measure_statistic st_links_selected]. rewrite (selected_raw_eq _ _ Hind). fold S.
    rewrite map_map, flat_map_map.
    rewrite (map_ext (fun x => op_label (op_of x)) lbl op_label_op_of). fold labels.
    f_equal.
    assert (Hfm : flat_map (fun x => op_links (op_of x)) S = flat_map (fun e : str * str * opdef => links_or_nil (od_raw (snd e))) S).
    { apply flat_map_ext. intros [[p m] od]. reflexivity. }
    rewrite Hfm. apply filter_ext_in. intros l Hl. apply link_selected_eq_kept.
    apply in_flat_map in Hl. destruct Hl as [e [He Hl]].
    unfold refs_name_methods in Hrefs. rewrite forallb_forall in Hrefs.
    specialize (Hrefs e (selected_in_http fs d e He)). rewrite forallb_forall in Hrefs. exact (Hrefs l Hl).
  Qed.
End LinkCount.

Definition w_doc_F4 : doc :=
  [([47;98]%N, [([112;111;115;116]%N, {| od_raw := (JObj [([114;101;115;112;111;110;115;101;115]%N, (JObj [([50;48;48]%N, (JObj [([100;101;115;99;114;105;112;116;105;111;110]%N, (JStr [111;107]%N)); ([108;105;110;107;115]%N, (JObj [([78]%N, (JObj [([111;112;101;114;97;116;105;111;110;82;101;102]%N, (JStr [35;47;112;97;116;104;115;47;126;49;98;47;80;111;115;116]%N))]))]))]))]))]); od_resolved := (JObj [([114;101;115;112;111;110;115;101;115]%N, (JObj [([50;48;48]%N, (JObj [([100;101;115;99;114;105;112;116;105;111;110]%N, (JStr [111;107]%N)); ([108;105;110;107;115]%N, (JObj [([78]%N, (JObj [([111;112;101;114;97;116;105;111;110;82;101;102]%N, (JStr [35;47;112;97;116;104;115;47;126;49;98;47;80;111;115;116]%N))]))]))]))]))]) |}); ([80;111;115;116]%N, {| od_raw := (JObj [([114;101;115;112;111;110;115;101;115]%N, (JObj [([50;48;48]%N, (JObj [([100;101;115;99;114;105;112;116;105;111;110]%N, (JStr [111;107]%N))]))]))]); od_resolved := (JObj [([114;101;115;112;111;110;115;101;115]%N, (JObj [([50;48;48]%N, (JObj [([100;101;115;99;114;105;112;116;105;111;110]%N, (JStr [111;107]%N))]))]))]) |})])].

(* F4: a reference to a key that is not a method (Post next to post) *)
Lemma links_selected_eq_transitions_refuted_ref_key :
  resolution_independent fs_empty w_doc_F4 = true /\ unique_labels w_doc_F4 = true /\
  unique_operation_ids w_doc_F4 = true /\ refs_name_methods w_doc_F4 = false /\
  st_links_selected (measure_statistic fs_empty w_doc_F4) = 0 /\
  option_map (@length transition) (collect_transitions fs_empty w_doc_F4) = Some 1.
Proof. vm_compute. repeat split. Qed.

(* non-vacuity: a document with links by id and by reference, a filter that drops one target *)
Example links_partial_nonvacuous :
  exists d fs ts,
    resolution_independent fs d = true /\ unique_operation_ids d = true /\ unique_labels d = true /\
    refs_name_methods d = true /\ collect_transitions fs d = Some ts /\ length ts = 1 /\
    st_links_total (measure_statistic fs d) = 1 /\ st_ops_selected (measure_statistic fs d) = 2.
Proof. exists (firstn 2 w_doc_F2), (fs_of w_calls_F2). eexists. vm_compute. repeat split. Qed.

(* ------------------------------------------------------------------------------------------------ *)
(* lazy fixtures                                                                                     *)
Definition fs_union (a b : filter_set) : filter_set :=
  {| fs_includes := fs_includes a ++ fs_includes b; fs_excludes := fs_excludes a ++ fs_excludes b |}.

Lemma lazy_offered_partial fixture_fs lazy_fs d :
  fixture_unfiltered fixture_fs = true ->
  lazy_operations fixture_fs lazy_fs d = get_all_operations (fs_union fixture_fs lazy_fs) d.
Proof.
  unfold fixture_unfiltered, fs_is_empty, lazy_operations, lazy_filter_set, fs_union.
  destruct fixture_fs as [[|] [|]]; try discriminate. intros _. destruct lazy_fs; reflexivity.
Qed.

(* F3: DELETE is excluded by the fixture, and tested through the lazy schema *)
Lemma lazy_offered_refuted :
  exists o, In o (lazy_operations (fs_of w_fixture_calls_F3) (fs_of w_lazy_calls_F3) w_doc_F3) /\
            fs_match (fs_of w_fixture_calls_F3) (mk_ctx (o_path o) (o_method o) (od_resolved (o_def o))) = false /\
            ~ In o (get_all_operations (fs_union (fs_of w_fixture_calls_F3) (fs_of w_lazy_calls_F3)) w_doc_F3).
Proof.
  exists (nth 1 (lazy_operations (fs_of w_fixture_calls_F3) (fs_of w_lazy_calls_F3) w_doc_F3)
              {| o_path := []; o_method := []; o_def := {| od_raw := JNull; od_resolved := JNull |} |}).
  split; [vm_compute; right; left; reflexivity|]. split; [vm_compute; reflexivity|].
  vm_compute. intros [H|[]]. discriminate H.
Qed.

(* ------------------------------------------------------------------------------------------------ *)
(* keys that are not methods: iteration, statistics and _operation_iter all ignore them             *)
Definition strip_non_methods (d : doc) : doc :=
  map (fun pi : str * path_item => (fst pi, filter (fun kd : str * opdef => is_http_method (fst kd)) (snd pi))) d.

Lemma entries_strip d : http_entries (strip_non_methods d) = http_entries d.
Proof.
  unfold http_entries, strip_non_methods. induction d as [|[p item] d IH]; cbn [map flat_map]; [reflexivity|].
  rewrite IH. f_equal. cbn [fst snd].
  induction item as [|[m od] item IHi]; cbn [filter flat_map fst snd]; [reflexivity|].
  destruct (is_http_method m) eqn:E; cbn [flat_map fst snd]; rewrite ?E, IHi; reflexivity.
Qed.

Lemma selected_entries_http fs d :
  filter (selectedb fs) (entries d) = filter (selectedb fs) (http_entries d).
Proof.
  rewrite http_entries_eq, filter_filter. apply filter_ext_in. intros [[p m] od] _. cbn [fst snd selectedb].
  destruct (is_http_method m); reflexivity.
Qed.

Lemma method_keys_agree fs d :
  get_all_operations fs (strip_non_methods d) = get_all_operations fs d /\
  st_ops_total (measure_statistic fs (strip_non_methods d)) = st_ops_total (measure_statistic fs d) /\
  st_ops_selected (measure_statistic fs (strip_non_methods d)) = st_ops_selected (measure_statistic fs d) /\
  length (operation_iter fs (strip_non_methods d)) = length (operation_iter fs d).
Proof.
  rewrite !operation_iter_length. cbn [measure_statistic st_ops_total st_ops_selected].
  rewrite !offered_eq_filter, !selected_entries_http, !entries_strip. repeat split; reflexivity.
Qed.

(* ------------------------------------------------------------------------------------------------ *)
(* FilterArguments.into: the filter set is exactly the filters of the calls, in order                *)
Fixpoint calls_filters (inc : bool) (cs : list (bool * add_args)) : list flt :=
  match cs with
  | [] => []
  | (i, a) :: r =>
      (if Bool.eqb i inc then match matchers_of a with Some ms => [ms] | None => [] end else []) ++ calls_filters inc r
  end.

Lemma add_all_spec cs : forall fs fs',
  add_all cs fs = Added fs' ->
  fs_includes fs' = fs_includes fs ++ calls_filters true cs /\
  fs_excludes fs' = fs_excludes fs ++ calls_filters false cs.
Proof.
  induction cs as [|[inc a] r IH]; intros fs fs' H; cbn [add_all] in H.
  - inversion H. cbn. rewrite !app_nil_r. split; reflexivity.
  - destruct (add_filter inc a fs) as [fs1|] eqn:E; [|discriminate].
    destruct (add_filter_spec _ _ _ _ E) as [ms [Hm [_ [_ [_ Hfs]]]]].
    destruct (IH _ _ H) as [Hi He]. cbn [calls_filters]. rewrite Hm, Hi, He. subst fs1.
    destruct inc; cbn [fs_includes fs_excludes Bool.eqb app]; rewrite <- ?app_assoc; split; reflexivity.
Qed.

Lemma cli_into_spec a fs c :
  cli_into a = CliOk fs ->
  (fs_match fs c = true <->
   (calls_filters true (cli_calls a) = [] \/ exists f, In f (calls_filters true (cli_calls a)) /\ filter_matches f c) /\
   (forall f, In f (calls_filters false (cli_calls a)) -> ~ filter_matches f c)).
Proof.
  unfold cli_into. destruct (forallb nodup_strs _); [|discriminate].
  destruct (add_all (cli_calls a) fs_empty) as [fs1|] eqn:E; [|discriminate].
  intros H. inversion H; subst fs1. destruct (add_all_spec _ _ _ E) as [Hi He]. cbn [fs_empty fs_includes fs_excludes app] in Hi, He.
  rewrite match_spec, Hi, He. reflexivity.
Qed.

(* the include regexes of the command line form ONE conjunctive filter, the exclude regexes one filter each *)
Example cli_regexes :
  let rp := rx_of [94;47;97]%N (RxPrefix [47;97]%N) in
  let rm := rx_of [94;103;101;116;36]%N (RxExact [103;101;116]%N) in
  let none := {| cl_by := None; cl_name := []; cl_method := []; cl_path := []; cl_tag := []; cl_operation_id := [];
                 cl_name_regex := None; cl_method_regex := None; cl_path_regex := None; cl_tag_regex := None;
                 cl_operation_id_regex := None |} in
  let both := {| cl_by := None; cl_name := []; cl_method := []; cl_path := []; cl_tag := []; cl_operation_id := [];
                 cl_name_regex := None; cl_method_regex := Some rm; cl_path_regex := Some rp; cl_tag_regex := None;
                 cl_operation_id_regex := None |} in
  length (calls_filters true (cli_calls {| cli_include := both; cli_exclude := none; cli_exclude_deprecated := false |})) = 1 /\
  length (calls_filters false (cli_calls {| cli_include := none; cli_exclude := both; cli_exclude_deprecated := true |})) = 3.
Proof. vm_compute. split; reflexivity. Qed.

(* ------------------------------------------------------------------------------------------------ *)
(* schema[path] (MethodMap) and the unspecified methods of the coverage phase                         *)
Lemma method_map_ignores_filters fs fs' item :
  method_map_keys fs item = method_map_keys fs' item /\ unspecified_methods fs item = unspecified_methods fs' item.
Proof. split; reflexivity. Qed.

Lemma unspecified_not_key fs item m : In m (unspecified_methods fs item) -> ~ In m (method_map_keys fs item).
Proof.
  unfold unspecified_methods. intros H. apply filter_In in H. destruct H as [_ H]. apply negb_true_iff in H.
  intros Hin. apply existsb_str_in in Hin. rewrite Hin in H. discriminate.
Qed.

Lemma str_eqb_sym a b : str_eqb a b = str_eqb b a.
Proof.
  destruct (str_eqb a b) eqn:E1, (str_eqb b a) eqn:E2; try reflexivity.
  - apply str_eqb_spec in E1. subst. rewrite str_eqb_refl in E2. discriminate.
  - apply str_eqb_spec in E2. subst. rewrite str_eqb_refl in E1. discriminate.
Qed.

Lemma ci_insert_fresh k acc :
  existsb (fun x => str_eqb (lower_ascii x) (lower_ascii k)) acc = false -> ci_insert k acc = acc ++ [k].
Proof.
  induction acc as [|x r IH]; cbn [existsb ci_insert app]; [reflexivity|].
  destruct (str_eqb (lower_ascii x) (lower_ascii k)); cbn [orb]; [discriminate|]. intros H. rewrite (IH H). reflexivity.
Qed.

Lemma ci_distinct_fresh acc k r :
  ci_distinct (acc ++ k :: r) = true -> existsb (fun x => str_eqb (lower_ascii x) (lower_ascii k)) acc = false.
Proof.
  induction acc as [|a acc IH]; cbn [app ci_distinct existsb]; [reflexivity|].
  intros H. apply andb_true_iff in H. destruct H as [H1 H2]. apply negb_true_iff in H1.
  rewrite existsb_app in H1. apply orb_false_iff in H1. destruct H1 as [_ H1]. cbn [existsb] in H1.
  apply orb_false_iff in H1. destruct H1 as [H1 _]. rewrite str_eqb_sym, H1. cbn [orb]. apply IH. exact H2.
Qed.

Lemma ci_keys_fold l : forall acc,
  ci_distinct (acc ++ l) = true -> fold_left (fun acc k => ci_insert k acc) l acc = acc ++ l.
Proof.
  induction l as [|k r IH]; intros acc H; cbn [fold_left]; [rewrite app_nil_r; reflexivity|].
  rewrite (ci_insert_fresh _ _ (ci_distinct_fresh _ _ _ H)).
  rewrite IH; rewrite <- app_assoc; [reflexivity | exact H].
Qed.

Lemma ci_keys_distinct l : ci_distinct l = true -> ci_keys l = l.
Proof. intros H. unfold ci_keys. apply (ci_keys_fold l []). exact H. Qed.

(* a method the coverage phase adds as unspecified is not a key of the path item: it can never be the method of a
   defined operation, selected or not *)
Lemma unspecified_not_defined fs item m :
  ci_distinct (map fst item) = true -> In m (unspecified_methods fs item) -> ~ In m (map fst item).
Proof.
  intros Hd H Hin. apply (unspecified_not_key _ _ _ H). unfold method_map_keys. rewrite (ci_keys_distinct _ Hd). exact Hin.
Qed.

Example unspecified_example :
  let item : path_item := [([103;101;116]%N, {| od_raw := JNull; od_resolved := JNull |});
                           ([100;101;108;101;116;101]%N, {| od_raw := JNull; od_resolved := JNull |})] in
  ci_distinct (map fst item) = true /\ length (unspecified_methods fs_empty item) = 5.
Proof. vm_compute. split; reflexivity. Qed.

(* F5: two keys equal up to case *)
Lemma unspecified_not_defined_refuted :
  let item : path_item := [([112;111;115;116]%N, {| od_raw := JNull; od_resolved := JNull |});
                           ([80;111;115;116]%N, {| od_raw := JNull; od_resolved := JNull |})] in
  ci_distinct (map fst item) = false /\ In [112;111;115;116]%N (unspecified_methods fs_empty item) /\
  In [112;111;115;116]%N (map fst item) /\ is_http_method [112;111;115;116]%N = true.
Proof. vm_compute. repeat split; auto. Qed.

(* ------------------------------------------------------------------------------------------------ *)
(* derivation histories: the object graph refines the value semantics                                *)
Lemma length_upd {A} i (v : A) l : length (upd i v l) = length l.
Proof. revert i; induction l as [|x r IH]; intros [|i]; cbn; try reflexivity. rewrite IH. reflexivity. Qed.

Lemma nth_upd_same {A} i (v d : A) l : i < length l -> nth i (upd i v l) d = v.
Proof.
  revert i; induction l as [|x r IH]; intros [|i] H; cbn in *; try lia; [reflexivity|]. apply IH. lia.
Qed.

Lemma nth_upd_other {A} i j (v d : A) l : i <> j -> nth j (upd i v l) d = nth j l d.
Proof.
  revert i j; induction l as [|x r IH]; intros [|i] [|j] H; cbn; try reflexivity; try congruence.
  apply IH. congruence.
Qed.

Lemma map_upd {A B} (f : A -> B) i v l : map f (upd i v l) = upd i (f v) (map f l).
Proof. revert i; induction l as [|x r IH]; intros [|i]; cbn; try reflexivity. rewrite IH. reflexivity. Qed.

Lemma Forall_upd {A} (P : A -> Prop) i v l : Forall P l -> P v -> Forall P (upd i v l).
Proof.
  revert i; induction l as [|x r IH]; intros [|i] Hl Hv; cbn; try assumption.
  - inversion Hl; subst. constructor; assumption.
  - inversion Hl; subst. constructor; [assumption | apply IH; assumption].
Qed.

Lemma nth_error_map' {A B} (f : A -> B) l n : nth_error (map f l) n = option_map f (nth_error l n).
Proof. revert n; induction l as [|x r IH]; intros [|n]; cbn; try reflexivity. apply IH. Qed.

Lemma heap_add_spec inc a ri re cells cells' ok :
  ri < length cells -> re < length cells -> ri <> re ->
  heap_add inc a (ri, re) cells = (cells', ok) ->
  length cells' = length cells /\
  (forall j, j <> ri -> j <> re -> cell cells' j = cell cells j) /\
  match add_filter inc a (deref cells (ri, re)) with
  | Added fs' => ok = true /\ deref cells' (ri, re) = fs'
  | Rejected _ => ok = false /\ cells' = cells
  end.
Proof.
  intros Hi He Hne. unfold heap_add. destruct (add_filter inc a (deref cells (ri, re))) as [fs'|e]; intros H; inversion H; subst; clear H.
  - cbn [fst snd]. split; [rewrite !length_upd; reflexivity|]. split.
    + intros j Hj1 Hj2. unfold cell. rewrite !nth_upd_other by congruence. reflexivity.
    + split; [reflexivity|]. unfold deref, cell. cbn [fst snd].
      rewrite nth_upd_other by congruence. rewrite nth_upd_same by exact Hi.
      rewrite nth_upd_same by (rewrite length_upd; exact He). destruct fs'; reflexivity.
  - repeat split; reflexivity.
Qed.

Lemma heap_call_spec c ri re cells cells' ok :
  ri < length cells -> re < length cells -> ri <> re ->
  heap_call c (ri, re) cells = (cells', ok) ->
  length cells' = length cells /\
  (forall j, j <> ri -> j <> re -> cell cells' j = cell cells j) /\
  match apply_call c (deref cells (ri, re)) with
  | Added fs' => ok = true /\ deref cells' (ri, re) = fs'
  | Rejected _ => ok = false
  end.
Proof.
  intros Hi He Hne. destruct c as [a|a dep]; cbn [heap_call apply_call]; unfold schema_include, schema_exclude.
  - intros H. destruct (heap_add_spec _ _ _ _ _ _ _ Hi He Hne H) as [L [U R]]. repeat split; try assumption.
    destruct (add_filter true a (deref cells (ri, re))); tauto.
  - destruct dep; [destruct (a_func a) as [f|]|].
    + destruct (heap_add false (only_func is_deprecated_id is_deprecated) (ri, re) cells) as [cells1 ok1] eqn:E1.
      destruct (heap_add_spec _ _ _ _ _ _ _ Hi He Hne E1) as [L1 [U1 R1]].
      destruct (add_filter false (only_func is_deprecated_id is_deprecated) (deref cells (ri, re))) as [fs1|e1].
      * destruct R1 as [-> D1]. intros H.
        assert (Hi1 : ri < length cells1) by (rewrite L1; exact Hi).
        assert (He1 : re < length cells1) by (rewrite L1; exact He).
        destruct (heap_add_spec _ _ _ _ _ _ _ Hi1 He1 Hne H) as [L2 [U2 R2]]. rewrite D1 in R2.
        split; [congruence|]. split; [intros j J1 J2; rewrite (U2 j J1 J2); apply U1; assumption|].
        destruct (add_filter false a fs1); tauto.
      * destruct R1 as [-> ->]. intros H. inversion H; subst. repeat split; reflexivity.
    + intros H. destruct (heap_add_spec _ _ _ _ _ _ _ Hi He Hne H) as [L [U R]]. repeat split; try assumption.
      destruct (add_filter false (with_func a is_deprecated_id is_deprecated) (deref cells (ri, re))); tauto.
    + intros H. destruct (heap_add_spec _ _ _ _ _ _ _ Hi He Hne H) as [L [U R]]. repeat split; try assumption.
      destruct (add_filter false a (deref cells (ri, re))); tauto.
Qed.

Definition bounded (st : hstate) : Prop :=
  Forall (fun hn => n_inc hn < length (h_cells st) /\ n_exc hn < length (h_cells st)) (h_nodes st).

Lemma heap_step_refines d st e :
  bounded st ->
  heap_abs (heap_step false d st e) = value_step d (heap_abs st) e /\ bounded (heap_step false d st e).
Proof.
  intros Hb. destruct e as [p c|n]; cbn [heap_step value_step].
  - unfold heap_abs at 2. rewrite nth_error_map'. destruct (nth_error (h_nodes st) p) as [pn|] eqn:Ep; cbn [option_map]; [|split; [reflexivity | exact Hb]].
    assert (Hp : n_inc pn < length (h_cells st) /\ n_exc pn < length (h_cells st)).
    { unfold bounded in Hb. rewrite Forall_forall in Hb. apply Hb. eapply nth_error_In. exact Ep. }
    destruct Hp as [Hpi Hpe]. cbn [heap_clone node_refs fst snd v_fs].
    set (L := length (h_cells st)).
    set (cells1 := h_cells st ++ [cell (h_cells st) (n_inc pn); cell (h_cells st) (n_exc pn)]).
    assert (HL1 : length cells1 = S (S L)) by (unfold cells1; rewrite app_length; cbn; fold L; lia).
    assert (Hd1 : deref cells1 (L, S L) = deref (h_cells st) (n_inc pn, n_exc pn)).
    { unfold deref, cell, cells1. cbn [fst snd]. rewrite !app_nth2 by (fold L; lia). fold L.
      replace (L - L) with 0 by lia. replace (S L - L) with 1 by lia. reflexivity. }
    destruct (heap_call c (L, S L) cells1) as [cells2 ok] eqn:Ec.
    assert (H1 : L < length cells1) by lia. assert (H2 : S L < length cells1) by lia. assert (H3 : L <> S L) by lia.
    destruct (heap_call_spec _ _ _ _ _ _ H1 H2 H3 Ec) as [L2 [U2 R2]]. rewrite Hd1 in R2.
    assert (Hold : forall hn, In hn (h_nodes st) -> deref cells2 (node_refs hn) = deref (h_cells st) (node_refs hn)).
    { intros hn Hin. unfold bounded in Hb. rewrite Forall_forall in Hb. destruct (Hb hn Hin) as [B1 B2]. fold L in B1, B2.
      unfold deref, node_refs. cbn [fst snd]. rewrite !U2 by lia. unfold cell, cells1. rewrite !app_nth1 by (fold L; lia). reflexivity. }
    assert (Hmap : map (fun hn => {| v_fs := deref cells2 (node_refs hn); v_stat := n_stat hn |}) (h_nodes st) = heap_abs st).
    { unfold heap_abs. apply map_ext_in. intros hn Hin. rewrite (Hold hn Hin). reflexivity. }
    assert (Hbold : Forall (fun hn => n_inc hn < length cells2 /\ n_exc hn < length cells2) (h_nodes st)).
    { unfold bounded in Hb. rewrite Forall_forall in *. intros hn Hin. destruct (Hb hn Hin). fold L in H, H0. lia. }
    cbn [fst snd]. unfold node_refs in *.
    destruct (apply_call c (deref (h_cells st) (n_inc pn, n_exc pn))) as [fs'|err].
    + destruct R2 as [-> D2]. split.
      * unfold heap_abs at 1. cbn [h_cells h_nodes]. rewrite map_app. cbn [map]. unfold node_refs at 1 2.
        rewrite Hmap. cbn [n_inc n_exc n_stat]. rewrite D2. reflexivity.
      * unfold bounded. cbn [h_cells h_nodes]. apply Forall_app. split; [exact Hbold|]. constructor; [|constructor]. cbn. lia.
    + subst ok. split; [unfold heap_abs at 1; cbn [h_cells h_nodes]; unfold node_refs; exact Hmap | unfold bounded; cbn [h_cells h_nodes]; exact Hbold].
  - unfold heap_abs at 2. rewrite nth_error_map'. destruct (nth_error (h_nodes st) n) as [hn|] eqn:En; cbn [option_map]; [|split; [reflexivity | exact Hb]].
    cbn [v_stat]. destruct (n_stat hn) as [s|] eqn:Es; [split; [reflexivity | exact Hb]|].
    split.
    + unfold heap_abs. cbn [h_cells h_nodes]. rewrite map_upd. cbn [v_fs node_refs n_inc n_exc n_stat]. reflexivity.
    + unfold bounded in *. cbn [h_cells h_nodes]. apply Forall_upd; [exact Hb|]. cbn [n_inc n_exc].
      rewrite Forall_forall in Hb. apply Hb. eapply nth_error_In. exact En.
Qed.

Lemma heap_run_refines d es : forall st,
  bounded st -> heap_abs (fold_left (heap_step false d) es st) = fold_left (value_step d) es (heap_abs st).
Proof.
  induction es as [|e es IH]; intros st Hb; cbn [fold_left]; [reflexivity|].
  destruct (heap_step_refines d st e Hb) as [Ha Hb']. rewrite (IH _ Hb'), Ha. reflexivity.
Qed.

(* every schema of every derivation history behaves as if it owned its filter set: the object graph built by
   include / exclude / statistic in any order and on any nodes is indistinguishable from value semantics *)
Lemma derived_schema_independent d es : heap_abs (heap_run false d es) = value_run d es.
Proof.
  unfold heap_run, value_run. rewrite heap_run_refines; [reflexivity|].
  unfold bounded, heap_init. cbn. repeat constructor.
Qed.

(* ... in which a cached statistic is never stale *)
Definition stat_fresh (d : doc) (vn : vnode) : Prop :=
  v_stat vn = None \/ v_stat vn = Some (measure_statistic (v_fs vn) d).

Lemma value_step_fresh d st e : Forall (stat_fresh d) st -> Forall (stat_fresh d) (value_step d st e).
Proof.
  intros H. destruct e as [p c|n]; cbn [value_step].
  - destruct (nth_error st p) as [pn|]; [|exact H]. destruct (apply_call c (v_fs pn)); [|exact H].
    apply Forall_app. split; [exact H|]. constructor; [left; reflexivity | constructor].
  - destruct (nth_error st n) as [vn|]; [|exact H]. destruct (v_stat vn); [exact H|].
    apply Forall_upd; [exact H | right; reflexivity].
Qed.

Lemma cached_statistic_fresh d es : Forall (stat_fresh d) (heap_abs (heap_run false d es)).
Proof.
  rewrite derived_schema_independent. unfold value_run.
  assert (G : forall st, Forall (stat_fresh d) st -> Forall (stat_fresh d) (fold_left (value_step d) es st)).
  { induction es as [|e es IH]; intros st H; cbn [fold_left]; [exact H|]. apply IH. apply value_step_fresh. exact H. }
  apply G. constructor; [left; reflexivity | constructor].
Qed.

(* a derived node carries exactly what its parent had plus the one call *)
Lemma value_derive d st p c pn fs' :
  nth_error st p = Some pn -> apply_call c (v_fs pn) = Added fs' ->
  value_step d st (EDerive p c) = st ++ [{| v_fs := fs'; v_stat := None |}].
Proof. intros H1 H2. cbn [value_step]. rewrite H1, H2. reflexivity. Qed.

(* sentinel: with clone passing the parent's sets on, a child derived from a filtered schema changes its parent *)
Definition w_tag (t : str) : add_args :=
  {| a_func := None; a_name := no_arg; a_method := no_arg; a_path := no_arg;
     a_tag := {| aa_expected := Some (FStr t); aa_regex := None |}; a_operation_id := no_arg |}.
Definition w_history : list event :=
  [EDerive 0 (CInclude (w_tag [116;49]%N)); EStat 1; EDerive 1 (CInclude (w_tag [116;50]%N))].
Definition w_hist_doc : doc :=
  let od (t : str) := {| od_raw := JObj [(s_tags, JArr [JStr t])]; od_resolved := JObj [(s_tags, JArr [JStr t])] |} in
  [([47;97]%N, [([103;101;116]%N, od [116;49]%N)]); ([47;98]%N, [([103;101;116]%N, od [116;50]%N)])].

Lemma shared_clone_not_independent :
  map (observe_node w_hist_doc) (heap_abs (heap_run true w_hist_doc w_history)) <>
  map (observe_node w_hist_doc) (value_run w_hist_doc w_history) /\
  map (observe_node w_hist_doc) (heap_abs (heap_run false w_hist_doc w_history)) =
  map (observe_node w_hist_doc) (value_run w_hist_doc w_history) /\
  length (value_run w_hist_doc w_history) = 3.
Proof. split; [vm_compute; discriminate | split; vm_compute; reflexivity]. Qed.

(* ------------------------------------------------------------------------------------------------ *)
(* JSON pointer array indices (repo fix 5f4626e6, RFC 6901)                                           *)
Lemma digits_val_all_digits s : forall acc n, digits_val s acc = Some n -> forallb is_digit s = true.
Proof.
  induction s as [|c r IH]; intros acc n H; cbn [digits_val forallb] in *; [reflexivity|].
  destruct (is_digit c); [|discriminate]. cbn [andb]. exact (IH _ _ H).
Qed.

Lemma parse_index_spec s z :
  parse_index s = Some z ->
  s <> [] /\ forallb is_digit s = true /\ (0 <= z)%Z /\ (s = [48%N] \/ hd 0%N s <> 48%N).
Proof.
  destruct s as [|c r]; cbn [parse_index]; [discriminate|].
  destruct (N.eqb c 48) eqn:E.
  - destruct r; [|discriminate]. intros H. inversion H; subst. apply N.eqb_eq in E. subst c.
    repeat split; try discriminate; try reflexivity. left; reflexivity.
  - destruct (digits_val (c :: r) 0) as [n|] eqn:D; cbn [option_map]; [|discriminate].
    intros H. inversion H; subst. split; [discriminate|]. split; [exact (digits_val_all_digits _ _ _ D)|].
    split; [apply N2Z.is_nonneg|]. right. cbn [hd]. apply N.eqb_neq. exact E.
Qed.

(* the rule of the code and the int() rule it replaced differ: /tags/-1 and /tags/01 *)
Lemma pointer_rule_differs :
  let doc := JObj [(s_tags, JArr [JStr [117]%N; JStr [100]%N])] in
  let p_minus1 := [47;116;97;103;115;47;45;49]%N in
  let p_01 := [47;116;97;103;115;47;48;49]%N in
  let p_1 := [47;116;97;103;115;47;49]%N in
  resolve_pointer doc p_minus1 = None /\ resolve_pointer_legacy doc p_minus1 = Some (JStr [100]%N) /\
  resolve_pointer doc p_01 = None /\ resolve_pointer_legacy doc p_01 = Some (JStr [100]%N) /\
  resolve_pointer doc p_1 = Some (JStr [100]%N) /\ resolve_pointer_legacy doc p_1 = Some (JStr [100]%N).
Proof. vm_compute. repeat split. Qed.

(* ================================================================================================ *)
(* access histories on one schema object: the operation cache                                          *)
Lemma traverse_item_false fs p item c : traverse_item false fs p item c = (c, item_operations fs p item).
Proof.
  induction item as [|[m od] r IH]; cbn [traverse_item item_operations flat_map]; [reflexivity|].
  destruct (negb (is_http_method m)) eqn:Hm; cbn [app]; [exact IH|].
  destruct (should_skip fs p m (od_resolved od)) eqn:Hs; cbn [app]; [exact IH|].
  unfold item_operations in IH. rewrite IH. reflexivity.
Qed.

Lemma traverse_false fs d c : traverse false fs d c = (c, get_all_operations fs d).
Proof.
  induction d as [|[p item] r IH]; cbn [traverse get_all_operations flat_map]; [reflexivity|].
  rewrite traverse_item_false. unfold get_all_operations in IH. rewrite IH. reflexivity.
Qed.

(* the cached statistic of the state, when there is one, is the statistic of the filter set *)
Definition astate_ok (d : doc) (fs : filter_set) (st : astate) : Prop :=
  match as_stat st with Some s => s = measure_statistic fs d | None => True end.

Lemma access_step_ok reuse d fs st a st' o :
  astate_ok d fs st -> access_step reuse d fs st a = (st', o) -> astate_ok d fs st'.
Proof.
  unfold astate_ok. intros Hok H. destruct a; cbn [access_step] in H.
  1-3: inversion H; subst; cbn [as_stat]; exact Hok.
  - destruct (traverse reuse fs d (as_cache st)) as [c ops]. inversion H; subst; cbn [as_stat]; exact Hok.
  - destruct (as_stat st) as [s|] eqn:Es; injection H as Hst Ho; rewrite <- Hst; cbn [as_stat]; [rewrite Es; exact Hok | reflexivity].
  - injection H as Hst Ho; rewrite <- Hst. exact Hok.
  - destruct (machine_step reuse d fs (as_cache st)) as [c r]. inversion H; subst; cbn [as_stat]; exact Hok.
Qed.

(* one step of the real code (reuse = false): what can be observed *)
Lemma access_step_false_obs d fs st a st' o :
  access_step false d fs st a = (st', o) ->
  match o with
  | OOffered l => l = offered_pairs (get_all_operations fs d)
  | OStatistic s => astate_ok d fs st -> s = stat_tuple (measure_statistic fs d)
  | _ => True
  end.
Proof.
  intros H. destruct a; cbn [access_step] in H.
  1-3: inversion H; subst; exact I.
  - rewrite traverse_false in H. inversion H; subst. reflexivity.
  - unfold astate_ok. destruct (as_stat st) as [s|] eqn:Es; inversion H; subst; intros Hok; [rewrite Hok|]; reflexivity.
  - inversion H; subst. intros _. reflexivity.
  - destruct (machine_step false d fs (as_cache st)) as [c r]. inversion H; subst. exact I.
Qed.

(* T1: whatever the cache holds and whatever was accessed before, a traversal offers get_all_operations fs d *)
Lemma access_offered_transparent d fs h : forall st l,
  In (OOffered l) (access_run false d fs h st) -> l = offered_pairs (get_all_operations fs d).
Proof.
  induction h as [|a r IH]; intros st l Hin; cbn [access_run] in Hin; [contradiction|].
  destruct (access_step false d fs st a) as [st' o] eqn:Hs. destruct Hin as [Ho | Hin]; [|exact (IH _ _ Hin)].
  subst o. exact (access_step_false_obs _ _ _ _ _ _ Hs).
Qed.

(* T2: every statistic observed (cached or measured again) is the statistic of the filter set *)
Lemma access_statistic_fresh d fs h : forall st s,
  astate_ok d fs st ->
  In (OStatistic s) (access_run false d fs h st) -> s = stat_tuple (measure_statistic fs d).
Proof.
  induction h as [|a r IH]; intros st s Hok Hin; cbn [access_run] in Hin; [contradiction|].
  destruct (access_step false d fs st a) as [st' o] eqn:Hs. destruct Hin as [Ho | Hin].
  - subst o. exact (access_step_false_obs _ _ _ _ _ _ Hs Hok).
  - exact (IH _ _ (access_step_ok _ _ _ _ _ _ _ Hok Hs) Hin).
Qed.

Lemma astate_init_ok d fs : astate_ok d fs astate_init.
Proof. exact I. Qed.

(* the reported number of selected operations is the number of operations offered by EVERY traversal of the history *)
Lemma access_count_eq_offered d fs h t s lt ls l :
  resolution_independent fs d = true ->
  In (OStatistic (t, s, lt, ls)) (access_run false d fs h astate_init) ->
  In (OOffered l) (access_run false d fs h astate_init) ->
  s = length l.
Proof.
  intros Hind Hs Ho.
  apply access_statistic_fresh in Hs; [|exact (astate_init_ok d fs)]. apply access_offered_transparent in Ho.
  subst l. unfold offered_pairs. rewrite map_length, <- (statistic_eq_offered fs d Hind).
  unfold stat_tuple in Hs. inversion Hs. reflexivity.
Qed.

(* ---- transitions built on a cache ---- *)
Lemma sm_run_sound d labels items : forall c c' ts e,
  sm_run d labels items c = (c', SmDone ts e) ->
  forall t, In t ts -> In (t_target t) labels /\ exists l, In (SLink (t_source t) l) items.
Proof.
  induction items as [|it r IH]; intros c c' ts e H t Ht; cbn [sm_run] in H.
  - inversion H; subst. contradiction.
  - destruct it as [src l|]; [|discriminate].
    assert (Hkeep : forall o c1 c2 rest, sm_run d labels r c1 = (c2, rest) -> sm_keep labels src l o rest = SmDone ts e ->
              In (t_target t) labels /\ exists l0, In (SLink (t_source t) l0) (SLink src l :: r)).
    { intros o c1 c2 rest Hr Hk. destruct rest as [|ts0 e0]; cbn [sm_keep] in Hk; [discriminate|].
      destruct (existsb (str_eqb (op_label o)) labels) eqn:E; inversion Hk; subst; clear Hk.
      - destruct Ht as [Ht|Ht].
        + subst t. cbn [t_target t_source]. split; [apply existsb_str_in; exact E | exists l; left; reflexivity].
        + destruct (IH _ _ _ _ Hr t Ht) as [A [l0 B]]. split; [exact A | exists l0; right; exact B].
      - destruct (IH _ _ _ _ Hr t Ht) as [A [l0 B]]. split; [exact A | exists l0; right; exact B]. }
    destruct (l_target l) as [i|ref|]; [| |discriminate].
    + destruct (cache_by_id d c i) as [c1 res]. destruct (sm_run d labels r c1) as [c2 rest] eqn:Hr.
      inversion H as [[Hc Hres]]; clear H. destruct res as [o|].
      * exact (Hkeep o c1 c2 rest Hr Hres).
      * destruct rest as [|ts0 e0]; cbn [sm_error] in Hres; [discriminate|]. inversion Hres; subst; clear Hres.
        destruct (IH _ _ _ _ Hr t Ht) as [A [l0 B]]. split; [exact A | exists l0; right; exact B].
    + destruct (cache_by_ref d c ref) as [c1 res]. destruct res as [o|]; [|discriminate].
      destruct (sm_run d labels r c1) as [c2 rest] eqn:Hr. inversion H as [[Hc Hres]]; clear H.
      exact (Hkeep o c1 c2 rest Hr Hres).
Qed.

Lemma sm_items_source ops src l : In (SLink src l) (sm_items ops) -> In src (map op_label ops).
Proof.
  unfold sm_items. intros H. apply in_flat_map in H. destruct H as [o [Ho Hin]].
  destruct (links_of_raw (od_raw (o_def o))) as [ls|].
  - apply in_map_iff in Hin. destruct Hin as [l' [E _]]. inversion E; subst. apply in_map. exact Ho.
  - destruct Hin as [E|[]]. discriminate.
Qed.

Lemma machine_step_false_sound d fs c c' ts t :
  machine_step false d fs c = (c', Some ts) -> In t ts ->
  In (t_source t) (map op_label (get_all_operations fs d)) /\ In (t_target t) (map op_label (get_all_operations fs d)).
Proof.
  unfold machine_step. rewrite traverse_false. intros H Ht.
  destruct (sm_run d (map op_label (get_all_operations fs d)) (sm_items (get_all_operations fs d)) c) as [c2 r] eqn:Hr.
  inversion H as [[Hc Hf]]; clear H. destruct r as [|ts0 e]; cbn [sm_final] in Hf; [discriminate|].
  destruct e; [discriminate|]. inversion Hf; subst; clear Hf.
  destruct (sm_run_sound _ _ _ _ _ _ _ Hr t Ht) as [A [l B]]. split; [exact (sm_items_source _ _ _ B) | exact A].
Qed.

(* T3: after ANY access history (any cache contents), a state machine that builds has no transition from or to an
   operation that is not offered *)
Lemma access_no_transition_to_unselected d fs h : forall st ts src status name tgt,
  In (OMachine (Some ts)) (access_run false d fs h st) -> In (src, status, name, tgt) ts ->
  In src (map op_label (get_all_operations fs d)) /\ In tgt (map op_label (get_all_operations fs d)).
Proof.
  induction h as [|a r IH]; intros st ts src status name tgt Hin Ht; cbn [access_run] in Hin; [contradiction|].
  destruct (access_step false d fs st a) as [st' o] eqn:Hs. destruct Hin as [Ho | Hin]; [|exact (IH _ _ _ _ _ _ Hin Ht)].
  subst o. destruct a; cbn [access_step] in Hs.
  1-3: inversion Hs.
  - destruct (traverse false fs d (as_cache st)); inversion Hs.
  - destruct (as_stat st); inversion Hs.
  - inversion Hs.
  - destruct (machine_step false d fs (as_cache st)) as [c res] eqn:Hm. inversion Hs as [[Hst Hobs]]; clear Hs.
    destruct res as [ts0|]; cbn [option_map] in Hobs; [|discriminate]. inversion Hobs; subst ts; clear Hobs.
    unfold transition_tuples in Ht. apply in_map_iff in Ht. destruct Ht as [t [Et Hin]]. inversion Et; subst; clear Et.
    exact (machine_step_false_sound _ _ _ _ _ _ Hm Hin).
Qed.

Lemma access_transition_target_selected d fs h st ts src status name tgt :
  In (OMachine (Some ts)) (access_run false d fs h st) -> In (src, status, name, tgt) ts ->
  exists p m od, tgt = label_of m p /\ (exists item, In (p, item) d /\ In (m, od) item) /\
                 is_http_method m = true /\ fs_match fs (mk_ctx p m (od_resolved od)) = true.
Proof.
  intros H Ht. apply offered_label_selected. exact (proj2 (access_no_transition_to_unselected _ _ _ _ _ _ _ _ _ H Ht)).
Qed.

(* ---- the lookups agree with the cache-free target resolution ---- *)
Lemma assoc_get_map_val {A B} (f : A -> B) k (l : list (str * A)) :
  assoc_get k (map (fun kv => (fst kv, f (snd kv))) l) = option_map f (assoc_get k l).
Proof.
  induction l as [|[k' v] r IH]; cbn [map assoc_get fst snd]; [reflexivity|].
  destruct (str_eqb k k'); [reflexivity | exact IH].
Qed.

Lemma item_ids_of_ops p item : item_ids p item = map (fun io => (fst io, op_key (snd io))) (item_id_ops p item).
Proof.
  unfold item_ids, item_id_ops. induction item as [|[k od] r IH]; cbn [flat_map map fst snd]; [reflexivity|].
  rewrite map_app, <- IH. f_equal.
  destruct (is_http_method k); [|reflexivity].
  destruct (jget s_operationId (od_raw od)) as [[]|]; reflexivity.
Qed.

Lemma doc_ids_of_ops d : doc_ids d = map (fun io => (fst io, op_key (snd io))) (doc_id_ops d).
Proof.
  unfold doc_ids, doc_id_ops. induction d as [|[p item] r IH]; cbn [flat_map map fst snd]; [reflexivity|].
  rewrite map_app, <- IH, item_ids_of_ops. reflexivity.
Qed.

Lemma find_by_id_of_op d i : find_by_id d i = option_map op_key (find_op_by_id d i).
Proof. unfold find_by_id, find_op_by_id. rewrite doc_ids_of_ops, <- map_rev. apply assoc_get_map_val. Qed.

Lemma find_by_ref_of_op d r : find_by_ref d r = option_map op_key (find_op_by_ref d r).
Proof.
  unfold find_by_ref, find_op_by_ref. destruct (parse_ref r) as [[p m]|]; [|reflexivity].
  destruct (assoc_get p d) as [item|]; [|reflexivity]. destruct (assoc_get m item); reflexivity.
Qed.

Lemma key_eqb_eq a b : key_eqb a b = true -> a = b.
Proof.
  destruct a as [a1 a2], b as [b1 b2]. unfold key_eqb. cbn [fst snd]. intros H. apply andb_true_iff in H. destruct H as [H1 H2].
  apply str_eqb_spec in H1. apply str_eqb_spec in H2. subst. reflexivity.
Qed.

(* every entry of the cache is filed under the keys a fresh lookup would compute *)
Definition cache_ok (d : doc) (c : ocache) : Prop :=
  (forall k o, key_get k (oc_by_key c) = Some o -> op_key o = k) /\
  (forall i o, assoc_get i (oc_by_id c) = Some o -> find_by_id d i = Some (op_key o)) /\
  (forall r o, assoc_get r (oc_by_ref c) = Some o -> find_by_ref d r = Some (op_key o)).

Lemma cache_ok_empty d : cache_ok d oc_empty.
Proof. repeat split; intros ? ? H; discriminate. Qed.

Lemma cache_by_id_ok d c i c' res :
  cache_ok d c -> cache_by_id d c i = (c', res) -> cache_ok d c' /\ option_map op_key res = find_by_id d i.
Proof.
  intros Hok H. destruct Hok as [Hk [Hi Hr]]. unfold cache_by_id in H.
  destruct (assoc_get i (oc_by_id c)) as [o|] eqn:Ei.
  { inversion H; subst. split; [repeat split; assumption|]. cbn. symmetry. exact (Hi _ _ Ei). }
  rewrite find_by_id_of_op. destruct (find_op_by_id d i) as [o|] eqn:Ef.
  2:{ inversion H; subst. split; [repeat split; assumption | reflexivity]. }
  destruct (key_get (op_key o) (oc_by_key c)) as [o'|] eqn:Ek.
  { inversion H; subst. split; [repeat split; assumption|]. cbn. rewrite (Hk _ _ Ek). reflexivity. }
  inversion H; subst; clear H. split; [|reflexivity]. unfold oc_insert. repeat split; cbn [oc_by_key oc_by_id oc_by_ref].
  - intros k o1 H1. cbn [key_get] in H1. destruct (key_eqb k (op_key o)) eqn:E.
    + inversion H1; subst. symmetry. exact (key_eqb_eq _ _ E).
    + exact (Hk _ _ H1).
  - intros j o1 H1. cbn [assoc_get] in H1. destruct (str_eqb j i) eqn:E.
    + inversion H1; subst. apply str_eqb_spec in E. subst j. rewrite find_by_id_of_op, Ef. reflexivity.
    + exact (Hi _ _ H1).
  - exact Hr.
Qed.

Lemma cache_by_ref_ok d c r c' res :
  cache_ok d c -> cache_by_ref d c r = (c', res) -> cache_ok d c' /\ option_map op_key res = find_by_ref d r.
Proof.
  intros Hok H. destruct Hok as [Hk [Hi Hr]]. unfold cache_by_ref in H.
  destruct (assoc_get r (oc_by_ref c)) as [o|] eqn:Ei.
  { inversion H; subst. split; [repeat split; assumption|]. cbn. symmetry. exact (Hr _ _ Ei). }
  rewrite find_by_ref_of_op. destruct (find_op_by_ref d r) as [o|] eqn:Ef.
  2:{ inversion H; subst. split; [repeat split; assumption | reflexivity]. }
  destruct (key_get (op_key o) (oc_by_key c)) as [o'|] eqn:Ek.
  { inversion H; subst. split; [repeat split; assumption|]. cbn. rewrite (Hk _ _ Ek). reflexivity. }
  inversion H; subst; clear H. split; [|reflexivity]. unfold oc_insert. repeat split; cbn [oc_by_key oc_by_id oc_by_ref].
  - intros k o1 H1. cbn [key_get] in H1. destruct (key_eqb k (op_key o)) eqn:E.
    + inversion H1; subst. symmetry. exact (key_eqb_eq _ _ E).
    + exact (Hk _ _ H1).
  - exact Hi.
  - intros j o1 H1. cbn [assoc_get] in H1. destruct (str_eqb j r) eqn:E.
    + inversion H1; subst. apply str_eqb_spec in E. subst j. rewrite find_by_ref_of_op, Ef. reflexivity.
    + exact (Hr _ _ H1).
Qed.

Lemma cache_by_item_ok d c p m c' res :
  cache_ok d c -> item_access_consistent d p m = true -> cache_by_item d c p m = (c', res) -> cache_ok d c'.
Proof.
  intros Hok Hc H. pose proof Hok as [Hk [Hi Hr]]. unfold cache_by_item in H. unfold item_access_consistent in Hc.
  destruct (assoc_get p d) as [item|]; [|inversion H; subst; exact Hok]. cbv zeta in H.
  destruct (ci_find (lower_ascii m) item) as [od|]; [|inversion H; subst; exact Hok].
  destruct (key_get (p, lower_ascii m) (oc_by_key c)) as [o'|]; [inversion H; subst; exact Hok|].
  inversion H; subst; clear H. unfold oc_insert. repeat split; cbn [oc_by_key oc_by_id oc_by_ref].
  - intros k o1 H1. cbn [key_get] in H1. destruct (key_eqb k (p, lower_ascii m)) eqn:E.
    + inversion H1; subst. symmetry. exact (key_eqb_eq _ _ E).
    + exact (Hk _ _ H1).
  - destruct (resolved_operation_id od) as [i|]; [|exact Hi].
    intros j o1 H1. cbn [assoc_get] in H1. destruct (str_eqb j i) eqn:E.
    + inversion H1; subst o1. apply str_eqb_spec in E. subst j.
      destruct (find_by_id d i) as [k|]; [|discriminate]. apply key_eqb_eq in Hc. subst k. reflexivity.
    + exact (Hi _ _ H1).
  - exact Hr.
Qed.

Definition sm_join (t1 : list transition) (e1 : bool) (r2 : sm_res) : sm_res :=
  match r2 with SmAbort => SmAbort | SmDone t2 e2 => SmDone (t1 ++ t2) (e1 || e2) end.

Lemma sm_run_app d labels a : forall b c,
  sm_run d labels (a ++ b) c =
  let (c1, r1) := sm_run d labels a c in
  match r1 with
  | SmAbort => (c1, SmAbort)
  | SmDone t1 e1 => let (c2, r2) := sm_run d labels b c1 in (c2, sm_join t1 e1 r2)
  end.
Proof.
  induction a as [|it a IH]; intros b c; cbn [app sm_run].
  - destruct (sm_run d labels b c) as [c2 [|t2 e2]]; reflexivity.
  - destruct it as [src l|]; [|reflexivity].
    destruct (l_target l) as [i|ref|]; [| |reflexivity].
    + destruct (cache_by_id d c i) as [c1 res]. rewrite IH.
      destruct (sm_run d labels a c1) as [c2 [|t1 e1]].
      * destruct res; reflexivity.
      * destruct res as [o|]; cbn [sm_keep sm_error].
        -- destruct (sm_run d labels b c2) as [c3 [|t2 e2]]; cbn [sm_keep sm_join];
           destruct (existsb (str_eqb (op_label o)) labels); reflexivity.
        -- destruct (sm_run d labels b c2) as [c3 [|t2 e2]]; reflexivity.
    + destruct (cache_by_ref d c ref) as [c1 [o|]]; [|reflexivity]. rewrite IH.
      destruct (sm_run d labels a c1) as [c2 [|t1 e1]]; [reflexivity|].
      destruct (sm_run d labels b c2) as [c3 [|t2 e2]]; cbn [sm_keep sm_join]; destruct (existsb (str_eqb (op_label o)) labels); reflexivity.
Qed.

Lemma sm_final_keep labels src l o r p m :
  op_key o = (p, m) ->
  sm_final (sm_keep labels src l o r) =
  match sm_final r with
  | Some rest => if existsb (str_eqb (label_of m p)) labels
                 then Some ({| t_source := src; t_status := l_status l; t_name := l_name l; t_target := label_of m p |} :: rest)
                 else Some rest
  | None => None
  end.
Proof.
  intros Hk. unfold op_key in Hk. inversion Hk; subst.
  destruct r as [|ts e]; cbn [sm_keep sm_final]; [reflexivity|]. unfold op_label.
  destruct (existsb (str_eqb (label_of (o_method o) (o_path o))) labels); destruct e; reflexivity.
Qed.

Lemma sm_links_spec d labels src ls : forall c c' r,
  cache_ok d c -> sm_run d labels (map (SLink src) ls) c = (c', r) ->
  cache_ok d c' /\ sm_final r = op_transitions d labels src ls.
Proof.
  induction ls as [|l ls IH]; intros c c' r Hok H; cbn [map sm_run op_transitions] in *.
  - inversion H; subst. split; [exact Hok | reflexivity].
  - destruct (l_target l) as [i|ref|] eqn:Et; cbn [resolve_target].
    + destruct (cache_by_id d c i) as [c1 res] eqn:Ec. destruct (cache_by_id_ok _ _ _ _ _ Hok Ec) as [Hok1 Hres].
      destruct (sm_run d labels (map (SLink src) ls) c1) as [c2 rest] eqn:Er.
      destruct (IH _ _ _ Hok1 Er) as [Hok2 Hrest]. inversion H; subst; clear H. split; [exact Hok2|].
      rewrite <- Hres, <- Hrest. destruct res as [o|]; cbn [option_map].
      * destruct (op_key o) as [p m] eqn:Ek. rewrite (sm_final_keep _ _ _ _ _ _ _ Ek).
        destruct (sm_final rest); reflexivity.
      * destruct rest as [|ts e]; reflexivity.
    + destruct (cache_by_ref d c ref) as [c1 res] eqn:Ec. destruct (cache_by_ref_ok _ _ _ _ _ Hok Ec) as [Hok1 Hres].
      rewrite <- Hres. destruct res as [o|]; cbn [option_map].
      * destruct (sm_run d labels (map (SLink src) ls) c1) as [c2 rest] eqn:Er.
        destruct (IH _ _ _ Hok1 Er) as [Hok2 Hrest]. inversion H; subst; clear H. split; [exact Hok2|].
        rewrite <- Hrest. destruct (op_key o) as [p m] eqn:Ek. rewrite (sm_final_keep _ _ _ _ _ _ _ Ek).
        destruct (sm_final rest); reflexivity.
      * inversion H; subst. split; [exact Hok1 | reflexivity].
    + inversion H; subst. split; [exact Hok | reflexivity].
Qed.

Lemma sm_final_join t1 e1 r2 :
  sm_final (sm_join t1 e1 r2) =
  match sm_final (SmDone t1 e1), sm_final r2 with Some a, Some b => Some (a ++ b) | _, _ => None end.
Proof. destruct r2 as [|t2 e2]; destruct e1; cbn; try reflexivity. destruct e2; reflexivity. Qed.

Lemma sm_ops_spec d labels ops : forall c c' r,
  cache_ok d c -> sm_run d labels (sm_items ops) c = (c', r) ->
  cache_ok d c' /\ sm_final r = transitions_of d labels ops.
Proof.
  induction ops as [|o ops IH]; intros c c' r Hok H.
  - cbn in H. inversion H; subst. split; [exact Hok | reflexivity].
  - unfold sm_items in H. cbn [flat_map] in H. fold (sm_items ops) in H. cbn [transitions_of].
    destruct (links_of_raw (od_raw (o_def o))) as [ls|].
    + rewrite sm_run_app in H.
      destruct (sm_run d labels (map (SLink (op_label o)) ls) c) as [c1 r1] eqn:E1.
      destruct (sm_links_spec _ _ _ _ _ _ _ Hok E1) as [Hok1 Hr1]. rewrite <- Hr1.
      destruct r1 as [|t1 e1].
      * inversion H; subst. split; [exact Hok1 | reflexivity].
      * destruct (sm_run d labels (sm_items ops) c1) as [c2 r2] eqn:E2.
        destruct (IH _ _ _ Hok1 E2) as [Hok2 Hr2]. inversion H; subst; clear H. split; [exact Hok2|].
        rewrite sm_final_join, <- Hr2. reflexivity.
    + cbn [app sm_run] in H. inversion H; subst. split; [exact Hok | reflexivity].
Qed.

Lemma machine_step_false_ok d fs c c' r :
  cache_ok d c -> machine_step false d fs c = (c', r) -> cache_ok d c' /\ r = collect_transitions fs d.
Proof.
  unfold machine_step, collect_transitions. rewrite traverse_false. intros Hok H.
  destruct (sm_run d (map op_label (get_all_operations fs d)) (sm_items (get_all_operations fs d)) c) as [c2 r2] eqn:E.
  destruct (sm_ops_spec _ _ _ _ _ _ Hok E) as [Hok2 Hr]. inversion H; subst. split; [exact Hok2 | exact Hr].
Qed.

(* T4: as long as every schema[path][method] access files its operation under an operationId that a fresh lookup
   resolves to that operation (in particular: no such access at all), the state machine built after ANY history is the
   one a fresh schema object builds *)
Lemma access_transitions_stable d fs h : forall st r,
  item_accesses_consistent d h = true -> cache_ok d (as_cache st) ->
  In (OMachine r) (access_run false d fs h st) -> r = option_map transition_tuples (collect_transitions fs d).
Proof.
  induction h as [|a h IH]; intros st r Hno Hok Hin; cbn [access_run] in Hin; [contradiction|].
  cbn [item_accesses_consistent forallb] in Hno. apply andb_true_iff in Hno. destruct Hno as [Ha Hno].
  fold (item_accesses_consistent d h) in Hno.
  destruct (access_step false d fs st a) as [st' o] eqn:Hs.
  assert (Hstep : cache_ok d (as_cache st') /\ (o = OMachine r -> r = option_map transition_tuples (collect_transitions fs d))).
  { destruct a; cbn [access_step] in Hs.
    3:{ destruct (cache_by_item d (as_cache st) path method) as [c1 res] eqn:Ec.
        pose proof (cache_by_item_ok _ _ _ _ _ _ Hok Ha Ec) as Hok1.
        inversion Hs; subst; cbn [as_cache fst]. split; [exact Hok1 | discriminate]. }
    - destruct (cache_by_id d (as_cache st) id) as [c1 res] eqn:Ec. destruct (cache_by_id_ok _ _ _ _ _ Hok Ec) as [Hok1 _].
      inversion Hs; subst; cbn [as_cache fst]. split; [exact Hok1 | discriminate].
    - destruct (cache_by_ref d (as_cache st) ref) as [c1 res] eqn:Ec. destruct (cache_by_ref_ok _ _ _ _ _ Hok Ec) as [Hok1 _].
      inversion Hs; subst; cbn [as_cache fst]. split; [exact Hok1 | discriminate].
    - rewrite traverse_false in Hs. inversion Hs; subst; cbn [as_cache]. split; [exact Hok | discriminate].
    - destruct (as_stat st); inversion Hs; subst; cbn [as_cache]; (split; [exact Hok | discriminate]).
    - inversion Hs; subst. split; [exact Hok | discriminate].
    - destruct (machine_step false d fs (as_cache st)) as [c1 r1] eqn:Em. destruct (machine_step_false_ok _ _ _ _ _ Hok Em) as [Hok1 Hr1].
      inversion Hs; subst; cbn [as_cache]. split; [exact Hok1|]. intros E. inversion E. reflexivity. }
  destruct Hstep as [Hok' Hobs]. destruct Hin as [Ho|Hin]; [exact (Hobs Ho) | exact (IH _ _ Hno Hok' Hin)].
Qed.

(* ---- witnesses ---- *)
Definition w_s_a : str := [47;97]%N.
Definition w_s_b : str := [47;98]%N.
Definition w_s_get : str := [103;101;116]%N.
Definition w_s_getX : str := [103;101;116;88]%N.

(* ... and false once schema[path][method] was used: with the duplicated operationId of finding C07-F2 the link that a
   fresh schema resolves to the excluded GET /b (no transition) resolves to GET /a after schema[/a][get] *)
Lemma access_transitions_stable_refuted :
  item_accesses_consistent w_doc_F2 [AItem w_s_a w_s_get; AMachine] = false /\ unique_operation_ids w_doc_F2 = false /\
  collect_transitions (fs_of w_calls_F2) w_doc_F2 = Some [] /\
  exists t, access_run false w_doc_F2 (fs_of w_calls_F2) [AItem w_s_a w_s_get; AMachine] astate_init
            = [OLookup (Some (w_s_a, w_s_get)); OMachine (Some [t])] /\
            snd t = label_of w_s_get w_s_a.
Proof. vm_compute. repeat split. eexists. split; reflexivity. Qed.

(* sentinel: a traversal that takes cache hits before the filter test offers the excluded GET /b after it was looked up
   by its operationId - the real traversal does not *)
Lemma cache_reuse_not_transparent :
  let fs := fs_of w_calls_F2 in
  let h := [AById w_s_getX; ATraverse; AMeasure] in
  fs_match fs (mk_ctx w_s_b w_s_get (JObj [])) = false /\
  (exists l, In (OOffered l) (access_run true w_doc_F2 fs h astate_init) /\ In (w_s_b, w_s_get) l /\ length l = 3) /\
  (exists l, In (OOffered l) (access_run false w_doc_F2 fs h astate_init) /\ ~ In (w_s_b, w_s_get) l /\ length l = 2) /\
  In (OStatistic (3, 2, 1, 1)) (access_run true w_doc_F2 fs h astate_init).
Proof.
  vm_compute. split; [reflexivity|]. split; [|split].
  - eexists. split; [right; left; reflexivity|]. split; [right; right; left; reflexivity | reflexivity].
  - eexists. split; [right; left; reflexivity|]. split; [|reflexivity].
    intros [H|[H|[]]]; discriminate.
  - right; right; left; reflexivity.
Qed.

(* non-vacuity: a history with lookups of the excluded operation, two traversals, a cached and a fresh statistic and two
   state machines, on the document of F2 under exclude(path=/b) *)
Example access_history_nonvacuous :
  let fs := fs_of w_calls_F2 in
  let h := [ATraverse; AItem [47;115;114;99]%N [80;79;83;84]%N; AById w_s_getX; AStat; AMachine; AByRef (s_paths_prefix ++ [126;49;98;47]%N ++ w_s_get); ATraverse; AMachine; AStat; AMeasure] in
  item_accesses_consistent w_doc_F2 h = true /\ no_item_access h = false /\ resolution_independent fs w_doc_F2 = true /\
  access_run false w_doc_F2 fs h astate_init =
  [OOffered [([47;115;114;99]%N, [112;111;115;116]%N); (w_s_a, w_s_get)]; OLookup (Some ([47;115;114;99]%N, [112;111;115;116]%N));
   OLookup (Some (w_s_b, w_s_get)); OStatistic (3, 2, 1, 1);
   OMachine (Some []); OLookup (Some (w_s_b, w_s_get)); OOffered [([47;115;114;99]%N, [112;111;115;116]%N); (w_s_a, w_s_get)];
   OMachine (Some []); OStatistic (3, 2, 1, 1); OStatistic (3, 2, 1, 1)].
Proof. vm_compute. repeat split. Qed.

Lemma access_hypotheses_satisfiable :
  let d := w_doc_F2 in
  let fs := fs_of w_calls_F2 in
  let h := [ATraverse; AItem [47;115;114;99]%N [80;79;83;84]%N; AById w_s_getX; AStat; AMachine; AByRef (s_paths_prefix ++ [126;49;98;47]%N ++ w_s_get); ATraverse; AMachine; AStat; AMeasure] in
  item_accesses_consistent d h = true /\ no_item_access h = false /\ resolution_independent fs d = true /\
  cache_ok d (as_cache astate_init) /\
  length (access_run false d fs h astate_init) = 10 /\
  In (OLookup (Some (w_s_b, w_s_get))) (access_run false d fs h astate_init) /\
  In (OMachine (Some [])) (access_run false d fs h astate_init) /\
  In (OStatistic (3, 2, 1, 1)) (access_run false d fs h astate_init).
Proof.
  destruct access_history_nonvacuous as [A [A' [B C]]]. cbv zeta in A, A', B, C |- *.
  split; [exact A|]. split; [exact A'|]. split; [exact B|]. split; [exact (cache_ok_empty _)|].
  rewrite C. cbn [length In]. repeat split; auto 12.
Qed.

(* F6: schema[/a][POST] on a key spelled Post *)
Definition w_doc_F6 : doc :=
  [([47;97]%N, [([112;117;116]%N, {| od_raw := (JObj [([114;101;115;112;111;110;115;101;115]%N, (JObj [([50;48;48]%N, (JObj [([100;101;115;99;114;105;112;116;105;111;110]%N, (JStr [111;107]%N)); ([108;105;110;107;115]%N, (JObj [([76]%N, (JObj [([111;112;101;114;97;116;105;111;110;73;100]%N, (JStr [111;112;65]%N))]))]))]))]))]); od_resolved := (JObj [([114;101;115;112;111;110;115;101;115]%N, (JObj [([50;48;48]%N, (JObj [([100;101;115;99;114;105;112;116;105;111;110]%N, (JStr [111;107]%N)); ([108;105;110;107;115]%N, (JObj [([76]%N, (JObj [([111;112;101;114;97;116;105;111;110;73;100]%N, (JStr [111;112;65]%N))]))]))]))]))]) |}); ([80;111;115;116]%N, {| od_raw := (JObj [([111;112;101;114;97;116;105;111;110;73;100]%N, (JStr [111;112;65]%N)); ([114;101;115;112;111;110;115;101;115]%N, (JObj [([50;48;48]%N, (JObj [([100;101;115;99;114;105;112;116;105;111;110]%N, (JStr [111;107]%N))]))]))]); od_resolved := (JObj [([111;112;101;114;97;116;105;111;110;73;100]%N, (JStr [111;112;65]%N)); ([114;101;115;112;111;110;115;101;115]%N, (JObj [([50;48;48]%N, (JObj [([100;101;115;99;114;105;112;116;105;111;110]%N, (JStr [111;107]%N))]))]))]) |})]); ([47;98]%N, [([100;101;108;101;116;101]%N, {| od_raw := (JObj [([111;112;101;114;97;116;105;111;110;73;100]%N, (JStr [111;112;65]%N)); ([114;101;115;112;111;110;115;101;115]%N, (JObj [([50;48;48]%N, (JObj [([100;101;115;99;114;105;112;116;105;111;110]%N, (JStr [111;107]%N))]))]))]); od_resolved := (JObj [([111;112;101;114;97;116;105;111;110;73;100]%N, (JStr [111;112;65]%N)); ([114;101;115;112;111;110;115;101;115]%N, (JObj [([50;48;48]%N, (JObj [([100;101;115;99;114;105;112;116;105;111;110]%N, (JStr [111;107]%N))]))]))]) |})])].

Lemma access_links_eq_transitions d fs h t s lt ls ts :
  resolution_independent fs d = true -> unique_operation_ids d = true -> unique_labels d = true ->
  refs_name_methods d = true -> item_accesses_consistent d h = true ->
  In (OStatistic (t, s, lt, ls)) (access_run false d fs h astate_init) ->
  In (OMachine (Some ts)) (access_run false d fs h astate_init) ->
  ls = length ts.
Proof.
  intros H1 H2 H3 H4 Hc Hs Hm.
  apply access_statistic_fresh in Hs; [|exact (astate_init_ok d fs)].
  apply (access_transitions_stable d fs h astate_init _ Hc (cache_ok_empty d)) in Hm.
  destruct (collect_transitions fs d) as [ts0|] eqn:E; [|discriminate]. cbn [option_map] in Hm. inversion Hm; subst ts.
  unfold transition_tuples. rewrite map_length, <- (links_selected_eq_transitions fs d H1 H2 H3 ts0 H4 E).
  unfold stat_tuple in Hs. inversion Hs. reflexivity.
Qed.

Lemma access_links_eq_transitions_refuted :
  let h := [AItem w_s_a [80;79;83;84]%N; AMeasure; AMachine] in
  resolution_independent fs_empty w_doc_F6 = true /\ unique_operation_ids w_doc_F6 = true /\ unique_labels w_doc_F6 = true /\
  refs_name_methods w_doc_F6 = true /\ item_accesses_consistent w_doc_F6 h = false /\
  access_run false w_doc_F6 fs_empty h astate_init =
    [OLookup (Some (w_s_a, [112;111;115;116]%N)); OStatistic (2, 2, 1, 1); OMachine (Some [])] /\
  option_map (@length transition) (collect_transitions fs_empty w_doc_F6) = Some 1.
Proof. vm_compute. repeat split. Qed.
