(* C07 property theorems only.  Each is closed by [exact] of a lemma of Proofs_C07 and followed by
   Print Assumptions. *)
From Coq Require Import List NArith ZArith Bool Permutation.
From Verif Require Import Common.Str Common.Json C07.Model_C07 C07.Proofs_C07.
Import ListNotations.

(* FilterSet.match: (no include filters, or some include filter has all its matchers matching) and no
   exclude filter has all its matchers matching *)
Theorem C07_match_spec : forall fs c,
  fs_match fs c = true <->
  (fs_includes fs = [] \/ exists f, In f (fs_includes fs) /\ filter_matches f c) /\
  (forall f, In f (fs_excludes fs) -> ~ filter_matches f c).
Proof. exact match_spec. Qed.
Print Assumptions C07_match_spec.

(* ... whatever order the two Python sets are iterated in *)
Theorem C07_match_perm : forall i i' e e' c,
  Permutation i i' -> Permutation e e' ->
  fs_match {| fs_includes := i; fs_excludes := e |} c = fs_match {| fs_includes := i'; fs_excludes := e' |} c.
Proof. exact match_perm. Qed.
Print Assumptions C07_match_perm.

(* iteration offers exactly the entries of the document whose key is an HTTP method and whose resolved
   definition is selected by the filter set *)
Theorem C07_offered_iff_selected : forall fs d p m od,
  In {| o_path := p; o_method := m; o_def := od |} (get_all_operations fs d) <->
  (exists item, In (p, item) d /\ In (m, od) item) /\
  is_http_method m = true /\ fs_match fs (mk_ctx p m (od_resolved od)) = true.
Proof. exact offered_iff_selected. Qed.
Print Assumptions C07_offered_iff_selected.

(* ... each exactly once and in document order *)
Theorem C07_offered_eq_filter : forall fs d,
  get_all_operations fs d = map op_of (filter (selectedb fs) (entries d)).
Proof. exact offered_eq_filter. Qed.
Print Assumptions C07_offered_eq_filter.

(* a key that is not one of the eight lower-case method names (GET, Post, parameters, ...) is never an operation;
   iteration, both statistic counts and _operation_iter are unchanged when such keys are removed *)
Theorem C07_non_method_key_never_offered : forall fs d o,
  In o (get_all_operations fs d) -> is_http_method (o_method o) = true.
Proof. exact non_method_key_never_offered. Qed.
Print Assumptions C07_non_method_key_never_offered.

Theorem C07_method_keys_agree : forall fs d,
  get_all_operations fs (strip_non_methods d) = get_all_operations fs d /\
  st_ops_total (measure_statistic fs (strip_non_methods d)) = st_ops_total (measure_statistic fs d) /\
  st_ops_selected (measure_statistic fs (strip_non_methods d)) = st_ops_selected (measure_statistic fs d) /\
  length (operation_iter fs (strip_non_methods d)) = length (operation_iter fs d).
Proof. exact method_keys_agree. Qed.
Print Assumptions C07_method_keys_agree.

(* the reported total is the number of operations of the document, whatever the filters *)
Theorem C07_statistic_total : forall fs d,
  st_ops_total (measure_statistic fs d) =
  length (filter (fun e : str * str * opdef => is_http_method (snd (fst e))) (entries d)).
Proof. exact statistic_total. Qed.
Print Assumptions C07_statistic_total.

(* the reported selected count equals the number of offered operations - when the filters give the same verdict
   on the raw and on the resolved definitions *)
Theorem C07_statistic_eq_offered_partial : forall fs d,
  resolution_independent fs d = true ->
  st_ops_selected (measure_statistic fs d) = length (get_all_operations fs d).
Proof. exact statistic_eq_offered. Qed.
Print Assumptions C07_statistic_eq_offered_partial.

(* which is the case for every filter set when no operation definition contains a reference *)
Theorem C07_no_references_independent : forall fs d,
  no_references d = true -> resolution_independent fs d = true.
Proof. exact no_references_independent. Qed.
Print Assumptions C07_no_references_independent.

(* ... and false in general: finding C07-F1 (1 selected reported, 2 operations offered) *)
Theorem C07_statistic_eq_offered_refuted : exists fs d,
  resolution_independent fs d = false /\
  st_ops_selected (measure_statistic fs d) = 1 /\ length (get_all_operations fs d) = 2.
Proof. exists (fs_of w_calls_F1), w_doc_F1. exact statistic_eq_offered_refuted. Qed.
Print Assumptions C07_statistic_eq_offered_refuted.

(* the dead helper _operation_iter agrees with the statistic (both look at raw definitions) *)
Theorem C07_operation_iter_eq_statistic : forall fs d,
  length (operation_iter fs d) = st_ops_selected (measure_statistic fs d).
Proof. exact operation_iter_length. Qed.
Print Assumptions C07_operation_iter_eq_statistic.

(* stateful phase: when the state machine can be built, every transition starts at and leads to an offered
   operation, i.e. to an entry of the document that the filter set selects *)
Theorem C07_no_transition_to_unselected : forall fs d ts t,
  collect_transitions fs d = Some ts -> In t ts ->
  In (t_source t) (map op_label (get_all_operations fs d)) /\
  In (t_target t) (map op_label (get_all_operations fs d)).
Proof. exact no_transition_to_unselected. Qed.
Print Assumptions C07_no_transition_to_unselected.

Theorem C07_transition_target_selected : forall fs d ts t,
  collect_transitions fs d = Some ts -> In t ts ->
  exists p m od, t_target t = label_of m p /\ (exists item, In (p, item) d /\ In (m, od) item) /\
                 is_http_method m = true /\ fs_match fs (mk_ctx p m (od_resolved od)) = true.
Proof. exact transition_target_selected. Qed.
Print Assumptions C07_transition_target_selected.

(* the reported number of selected links equals the number of transitions of the state machine, when operation
   ids are unique (and filters do not depend on resolution, labels are unique, references name methods) *)
Theorem C07_links_selected_eq_transitions_partial : forall fs d,
  resolution_independent fs d = true -> unique_operation_ids d = true -> unique_labels d = true ->
  forall ts, refs_name_methods d = true -> collect_transitions fs d = Some ts ->
  st_links_selected (measure_statistic fs d) = length ts.
Proof. exact links_selected_eq_transitions. Qed.
Print Assumptions C07_links_selected_eq_transitions_partial.

(* ... and false with a duplicated operationId (shared path item): finding C07-F2 *)
Theorem C07_links_selected_eq_transitions_refuted : exists fs d,
  resolution_independent fs d = true /\ unique_labels d = true /\ refs_name_methods d = true /\
  unique_operation_ids d = false /\
  st_links_selected (measure_statistic fs d) = 1 /\ collect_transitions fs d = Some [].
Proof. exists (fs_of w_calls_F2), w_doc_F2. exact links_selected_eq_transitions_refuted. Qed.
Print Assumptions C07_links_selected_eq_transitions_refuted.

(* ... and with a reference to a key that is not a method (mixed-case Post next to post): finding C07-F4 *)
Theorem C07_links_selected_eq_transitions_refuted_ref_key : exists fs d,
  resolution_independent fs d = true /\ unique_labels d = true /\ unique_operation_ids d = true /\
  refs_name_methods d = false /\
  st_links_selected (measure_statistic fs d) = 0 /\
  option_map (@length transition) (collect_transitions fs d) = Some 1.
Proof. exists fs_empty, w_doc_F4. exact links_selected_eq_transitions_refuted_ref_key. Qed.
Print Assumptions C07_links_selected_eq_transitions_refuted_ref_key.

(* lazy fixtures: the operations tested are those selected by the filters of the fixture's schema AND of the lazy
   schema - when the fixture's schema has no filters *)
Theorem C07_lazy_offered_partial : forall fixture_fs lazy_fs d,
  fixture_unfiltered fixture_fs = true ->
  lazy_operations fixture_fs lazy_fs d = get_all_operations (fs_union fixture_fs lazy_fs) d.
Proof. exact lazy_offered_partial. Qed.
Print Assumptions C07_lazy_offered_partial.

(* ... and false otherwise: finding C07-F3 (an operation the fixture excluded is tested) *)
Theorem C07_lazy_offered_refuted : exists fixture_fs lazy_fs d o,
  In o (lazy_operations fixture_fs lazy_fs d) /\
  fs_match fixture_fs (mk_ctx (o_path o) (o_method o) (od_resolved (o_def o))) = false /\
  ~ In o (get_all_operations (fs_union fixture_fs lazy_fs) d).
Proof. exists (fs_of w_fixture_calls_F3), (fs_of w_lazy_calls_F3), w_doc_F3. exact lazy_offered_refuted. Qed.
Print Assumptions C07_lazy_offered_refuted.

(* _add_filter: what an accepted call adds; the same filter again (include or exclude) is rejected; an exclude
   filter removes exactly the operations it matches; once excluded, always excluded *)
Theorem C07_add_filter_spec : forall inc a fs fs',
  add_filter inc a fs = Added fs' ->
  exists ms, matchers_of a = Some ms /\ ms <> [] /\
    existsb (filter_same ms) (fs_includes fs) = false /\ existsb (filter_same ms) (fs_excludes fs) = false /\
    fs' = if inc then {| fs_includes := fs_includes fs ++ [ms]; fs_excludes := fs_excludes fs |}
          else {| fs_includes := fs_includes fs; fs_excludes := fs_excludes fs ++ [ms] |}.
Proof. exact add_filter_spec. Qed.
Print Assumptions C07_add_filter_spec.

Theorem C07_duplicate_rejected : forall inc inc' a fs fs',
  add_filter inc a fs = Added fs' -> add_filter inc' a fs' = Rejected ErrExists.
Proof. exact add_twice_rejected. Qed.
Print Assumptions C07_duplicate_rejected.

Theorem C07_exclude_effect : forall a fs fs' c,
  add_filter false a fs = Added fs' ->
  exists ms, matchers_of a = Some ms /\ fs_match fs' c = fs_match fs c && negb (filter_match ms c).
Proof. exact exclude_effect. Qed.
Print Assumptions C07_exclude_effect.

Theorem C07_excluded_stays_excluded : forall fs c a inc fs',
  existsb (fun f => filter_match f c) (fs_excludes fs) = true -> add_filter inc a fs = Added fs' ->
  fs_match fs' c = false.
Proof. exact excluded_stays. Qed.
Print Assumptions C07_excluded_stays_excluded.

(* method filters by value compare upper-cased (ASCII) on both sides *)
Theorem C07_method_value_case_insensitive : forall e p m d,
  attr_matchers AMethod {| aa_expected := Some (FStr e); aa_regex := None |} = Some [MValue AMethod (upper_ascii e)] /\
  (matcher_match (MValue AMethod (upper_ascii e)) (mk_ctx p m d) = true <-> upper_ascii m = upper_ascii e).
Proof. exact method_value_case_insensitive. Qed.
Print Assumptions C07_method_value_case_insensitive.

(* the hypotheses of the partial theorems are satisfiable by non-trivial inputs *)
Theorem C07_hypotheses_satisfiable : exists d fs ts,
  resolution_independent fs d = true /\ unique_operation_ids d = true /\ unique_labels d = true /\
  refs_name_methods d = true /\ collect_transitions fs d = Some ts /\ length ts = 1 /\
  st_links_total (measure_statistic fs d) = 1 /\ st_ops_selected (measure_statistic fs d) = 2.
Proof. exact links_partial_nonvacuous. Qed.
Print Assumptions C07_hypotheses_satisfiable.

(* command line: the filter set built by FilterArguments.into() selects an operation iff (there is no include
   option or some include filter of the option list matches) and no exclude filter matches, where the filters are
   those of the calls made by into() in order (include regexes: one conjunctive filter) *)
Theorem C07_cli_into_spec : forall a fs c,
  cli_into a = CliOk fs ->
  (fs_match fs c = true <->
   (calls_filters true (cli_calls a) = [] \/ exists f, In f (calls_filters true (cli_calls a)) /\ filter_matches f c) /\
   (forall f, In f (calls_filters false (cli_calls a)) -> ~ filter_matches f c)).
Proof. exact cli_into_spec. Qed.
Print Assumptions C07_cli_into_spec.

(* schema[path] (MethodMap) lists every key of the path item whatever the filters; hence the methods the coverage
   phase sends as unspecified (negative mode) do not depend on the filters, and none of them is the method of an
   operation DEFINED for that path - in particular never one the user excluded *)
Theorem C07_method_map_ignores_filters : forall fs fs' item,
  method_map_keys fs item = method_map_keys fs' item /\ unspecified_methods fs item = unspecified_methods fs' item.
Proof. exact method_map_ignores_filters. Qed.
Print Assumptions C07_method_map_ignores_filters.

Theorem C07_unspecified_method_not_defined : forall fs item m,
  ci_distinct (map fst item) = true -> In m (unspecified_methods fs item) -> ~ In m (map fst item).
Proof. exact unspecified_not_defined. Qed.
Print Assumptions C07_unspecified_method_not_defined.

(* ... and false when two keys are equal up to case (post, Post): finding C07-F5 *)
Theorem C07_unspecified_method_not_defined_refuted : exists fs item m,
  ci_distinct (map fst item) = false /\ In m (unspecified_methods fs item) /\ In m (map fst item) /\
  is_http_method m = true.
Proof.
  exists fs_empty, [([112;111;115;116]%N, {| od_raw := JNull; od_resolved := JNull |});
                    ([80;111;115;116]%N, {| od_raw := JNull; od_resolved := JNull |})], [112;111;115;116]%N.
  exact unspecified_not_defined_refuted.
Qed.
Print Assumptions C07_unspecified_method_not_defined_refuted.

(* derivation histories.  Schemas are derived from one another by include / exclude on ANY earlier schema, in any
   order, interleaved with reads of the cached statistic.  The object graph the code builds (mutable set objects
   on a heap, FilterSet.clone copying them) is indistinguishable from value semantics: every schema carries the
   filter set of ITS OWN chain of calls, whatever was derived from it or next to it *)
Theorem C07_derived_schema_independent : forall d es,
  heap_abs (heap_run false d es) = value_run d es.
Proof. exact derived_schema_independent. Qed.
Print Assumptions C07_derived_schema_independent.

(* ... and a statistic that was cached is the statistic of the filter set the schema still has *)
Theorem C07_cached_statistic_fresh : forall d es,
  Forall (stat_fresh d) (heap_abs (heap_run false d es)).
Proof. exact cached_statistic_fresh. Qed.
Print Assumptions C07_cached_statistic_fresh.

(* sentinel: in the variant where clone hands the parent's (non-empty) sets on, the same history is observably
   different - a child changes its parent (so the theorem above is about the copying, not vacuous) *)
Theorem C07_shared_clone_not_independent : exists d es,
  map (observe_node d) (heap_abs (heap_run true d es)) <> map (observe_node d) (value_run d es) /\
  map (observe_node d) (heap_abs (heap_run false d es)) = map (observe_node d) (value_run d es) /\
  length (value_run d es) = 3.
Proof. exists w_hist_doc, w_history. exact shared_clone_not_independent. Qed.
Print Assumptions C07_shared_clone_not_independent.

(* filter expressions: an array token of the JSON pointer is an index only if it is ASCII digits, non-negative and
   without a leading zero (RFC 6901, core/transforms.py after repo fix 5f4626e6) *)
Theorem C07_pointer_index_rfc6901 : forall s z,
  parse_index s = Some z ->
  s <> [] /\ forallb is_digit s = true /\ (0 <= z)%Z /\ (s = [48%N] \/ hd 0%N s <> 48%N).
Proof. exact parse_index_spec. Qed.
Print Assumptions C07_pointer_index_rfc6901.

(* sentinel: the int()-style rule used before the fix is a different function (/tags/-1 was the last tag,
   /tags/01 the second) *)
Theorem C07_pointer_rule_differs :
  let doc := JObj [(s_tags, JArr [JStr [117]%N; JStr [100]%N])] in
  let p_minus1 := [47;116;97;103;115;47;45;49]%N in
  let p_01 := [47;116;97;103;115;47;48;49]%N in
  let p_1 := [47;116;97;103;115;47;49]%N in
  resolve_pointer doc p_minus1 = None /\ resolve_pointer_legacy doc p_minus1 = Some (JStr [100]%N) /\
  resolve_pointer doc p_01 = None /\ resolve_pointer_legacy doc p_01 = Some (JStr [100]%N) /\
  resolve_pointer doc p_1 = Some (JStr [100]%N) /\ resolve_pointer_legacy doc p_1 = Some (JStr [100]%N).
Proof. exact pointer_rule_differs. Qed.
Print Assumptions C07_pointer_rule_differs.

(* ---- access histories on ONE schema object (the per-schema operation cache, specs/openapi/_cache.py) ----
   A history is any list of: get_operation_by_id, get_operation_by_reference, schema[path][method], a traversal
   (get_all_operations), schema.statistic (cached), _measure_statistic(), as_state_machine().  The lookups fill the
   cache WITHOUT consulting the filters.  access_run false is the code, started in ANY state (any cache contents). *)

(* whatever was looked up, built or measured before, every traversal offers exactly get_all_operations fs d, i.e.
   (C07_offered_eq_filter) exactly the selected entries of the document, each once, in document order *)
Theorem C07_access_offered_transparent : forall d fs h st l,
  In (OOffered l) (access_run false d fs h st) -> l = offered_pairs (get_all_operations fs d).
Proof. exact access_offered_transparent. Qed.
Print Assumptions C07_access_offered_transparent.

(* every statistic read in the history - the cached property or a new measurement - is the statistic of the filter set *)
Theorem C07_access_statistic_fresh : forall d fs h st s,
  astate_ok d fs st ->
  In (OStatistic s) (access_run false d fs h st) -> s = stat_tuple (measure_statistic fs d).
Proof. exact access_statistic_fresh. Qed.
Print Assumptions C07_access_statistic_fresh.

(* the reported number of selected operations equals the number of operations offered by every traversal of the same
   history (region: filters do not depend on reference resolution; outside it C07_statistic_eq_offered_refuted, F1) *)
Theorem C07_access_count_eq_offered_partial : forall d fs h t s lt ls l,
  resolution_independent fs d = true ->
  In (OStatistic (t, s, lt, ls)) (access_run false d fs h astate_init) ->
  In (OOffered l) (access_run false d fs h astate_init) ->
  s = length l.
Proof. exact access_count_eq_offered. Qed.
Print Assumptions C07_access_count_eq_offered_partial.

(* a state machine built at any point of any history has no transition from or to an operation that is not offered:
   a cached (possibly excluded) link target is dropped like a freshly resolved one *)
Theorem C07_access_no_transition_to_unselected : forall d fs h st ts src status name tgt,
  In (OMachine (Some ts)) (access_run false d fs h st) -> In (src, status, name, tgt) ts ->
  In src (map op_label (get_all_operations fs d)) /\ In tgt (map op_label (get_all_operations fs d)).
Proof. exact access_no_transition_to_unselected. Qed.
Print Assumptions C07_access_no_transition_to_unselected.

Theorem C07_access_transition_target_selected : forall d fs h st ts src status name tgt,
  In (OMachine (Some ts)) (access_run false d fs h st) -> In (src, status, name, tgt) ts ->
  exists p m od, tgt = label_of m p /\ (exists item, In (p, item) d /\ In (m, od) item) /\
                 is_http_method m = true /\ fs_match fs (mk_ctx p m (od_resolved od)) = true.
Proof. exact access_transition_target_selected. Qed.
Print Assumptions C07_access_transition_target_selected.

(* the state machine does not depend on the history - as long as every schema[path][method] access of the history
   files its operation under an operationId that a fresh get_operation_by_id resolves to that same operation
   (executable region item_accesses_consistent; in particular: histories without such an access) *)
Theorem C07_access_transitions_stable_partial : forall d fs h st r,
  item_accesses_consistent d h = true -> cache_ok d (as_cache st) ->
  In (OMachine r) (access_run false d fs h st) -> r = option_map transition_tuples (collect_transitions fs d).
Proof. exact access_transitions_stable. Qed.
Print Assumptions C07_access_transitions_stable_partial.

(* ... and does otherwise: with the duplicated operationId of finding C07-F2, schema[/a][get] makes the link resolve
   to GET /a (one transition) where a fresh schema object resolves it to the excluded GET /b (none) *)
Theorem C07_access_transitions_stable_refuted : exists d fs p m,
  item_accesses_consistent d [AItem p m; AMachine] = false /\ unique_operation_ids d = false /\
  collect_transitions fs d = Some [] /\
  exists t, access_run false d fs [AItem p m; AMachine] astate_init = [OLookup (Some (p, m)); OMachine (Some [t])] /\
            snd t = label_of m p.
Proof. exists w_doc_F2, (fs_of w_calls_F2), w_s_a, w_s_get. exact access_transitions_stable_refuted. Qed.
Print Assumptions C07_access_transitions_stable_refuted.

(* the reported number of selected links equals the number of transitions of EVERY state machine built in the
   history (regions of C07_links_selected_eq_transitions_partial + item_accesses_consistent) *)
Theorem C07_access_links_eq_transitions_partial : forall d fs h t s lt ls ts,
  resolution_independent fs d = true -> unique_operation_ids d = true -> unique_labels d = true ->
  refs_name_methods d = true -> item_accesses_consistent d h = true ->
  In (OStatistic (t, s, lt, ls)) (access_run false d fs h astate_init) ->
  In (OMachine (Some ts)) (access_run false d fs h astate_init) ->
  ls = length ts.
Proof. exact access_links_eq_transitions. Qed.
Print Assumptions C07_access_links_eq_transitions_partial.

(* ... and false after schema[/a][POST] on a path item whose key is spelled Post (operationId opA, also the id of
   DELETE /b): no filters, unique ids among the operations, 1 selected link reported, a fresh schema has 1 transition,
   the accessed one has none (the link now resolves to the phantom POST /a, which is never offered): finding C07-F6 *)
Theorem C07_access_links_eq_transitions_refuted : exists d fs h,
  resolution_independent fs d = true /\ unique_operation_ids d = true /\ unique_labels d = true /\
  refs_name_methods d = true /\ item_accesses_consistent d h = false /\
  access_run false d fs h astate_init =
    [OLookup (Some (w_s_a, [112;111;115;116]%N)); OStatistic (2, 2, 1, 1); OMachine (Some [])] /\
  option_map (@length transition) (collect_transitions fs d) = Some 1.
Proof. exists w_doc_F6, fs_empty, [AItem w_s_a [80;79;83;84]%N; AMeasure; AMachine]. exact access_links_eq_transitions_refuted. Qed.
Print Assumptions C07_access_links_eq_transitions_refuted.

(* sentinel: in the variant where the traversal takes operation-cache hits BEFORE the filter test (and files what it
   builds), looking the excluded GET /b up by its operationId makes the next traversal offer it (3 offered, 2 reported);
   the real traversal on the same history does not - so the theorems above are about the code not reading the cache *)
Theorem C07_cache_reuse_not_transparent : exists d fs h p m,
  fs_match fs (mk_ctx p m (JObj [])) = false /\
  (exists l, In (OOffered l) (access_run true d fs h astate_init) /\ In (p, m) l /\ length l = 3) /\
  (exists l, In (OOffered l) (access_run false d fs h astate_init) /\ ~ In (p, m) l /\ length l = 2) /\
  In (OStatistic (3, 2, 1, 1)) (access_run true d fs h astate_init).
Proof.
  exists w_doc_F2, (fs_of w_calls_F2), [AById w_s_getX; ATraverse; AMeasure], w_s_b, w_s_get.
  exact cache_reuse_not_transparent.
Qed.
Print Assumptions C07_cache_reuse_not_transparent.

(* non-vacuity of the access-history theorems: a history with a (consistent) schema[path][METHOD] access, lookups of
   the excluded operation, traversals, cached and fresh statistics and state machines *)
Theorem C07_access_hypotheses_satisfiable : exists d fs h,
  item_accesses_consistent d h = true /\ no_item_access h = false /\ resolution_independent fs d = true /\
  cache_ok d (as_cache astate_init) /\
  length (access_run false d fs h astate_init) = 10 /\
  In (OLookup (Some (w_s_b, w_s_get))) (access_run false d fs h astate_init) /\
  In (OMachine (Some [])) (access_run false d fs h astate_init) /\
  In (OStatistic (3, 2, 1, 1)) (access_run false d fs h astate_init).
Proof.
  exists w_doc_F2, (fs_of w_calls_F2),
    [ATraverse; AItem [47;115;114;99]%N [80;79;83;84]%N; AById w_s_getX; AStat; AMachine; AByRef (s_paths_prefix ++ [126;49;98;47]%N ++ w_s_get); ATraverse; AMachine; AStat; AMeasure].
  exact access_hypotheses_satisfiable.
Qed.
Print Assumptions C07_access_hypotheses_satisfiable.
