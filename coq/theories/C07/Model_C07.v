(* C07 - exactly the selected API operations are tested, in every phase.

   Executable model (definitions only) of
     src/schemathesis/filters.py                      Matcher / Filter / FilterSet / _add_filter / is_deprecated /
                                                      expression_to_filter_function
     src/schemathesis/core/transforms.py              resolve_pointer
     src/schemathesis/schemas.py                      BaseSchema.include / exclude (deprecated flag)
     src/schemathesis/specs/openapi/schemas.py        _should_skip, get_all_operations, _measure_statistic,
                                                      _operation_iter, _populate_operation_id_cache,
                                                      get_operation_by_id / get_operation_by_reference (target lookup)
     src/schemathesis/specs/openapi/stateful/__init__.py   collect_transitions
     src/schemathesis/specs/openapi/stateful/links.py      get_all_links (which links an operation has)
     src/schemathesis/pytest/lazy.py                  get_schema (filter set of a lazily loaded schema)
     src/schemathesis/cli/commands/run/filters.py     FilterArguments.into

   The code is modelled AS IT IS.  In particular
     - _should_skip puts the SAME dictionary into definition.raw and definition.resolved of the context; iteration
       passes the resolved definition, statistics and _operation_iter pass the raw one;
     - method keys are compared with the lower-case HTTP_METHODS set (an upper-case key is not an operation);
     - operationId targets are looked up in a dictionary filled in document order (the last definition wins);
     - the filter set of a schema coming from a lazy fixture is REPLACED by the one of the LazySchema.

   Reference resolution (resolve_all) is foreign to this property: an operation definition is the pair of its raw
   and its resolved JSON value.  Python sets are lists in insertion order (C07_match_perm shows the order is
   irrelevant).  Values outside the fragment are totalised explicitly: [VBad] (tags / operationId that are not a
   string or a list of strings), [TBad] (a link without operationId and operationRef), [None] for raising lookups. *)
From Coq Require Import List NArith ZArith Bool.
From Verif Require Import Common.Str Common.Json.
Import ListNotations.

(* ------------------------------------------------------------------------------------------------ *)
(* string constants                                                                                  *)
Definition s_tags : str := [116;97;103;115]%N.
Definition s_operationId : str := [111;112;101;114;97;116;105;111;110;73;100]%N.
Definition s_deprecated : str := [100;101;112;114;101;99;97;116;101;100]%N.
Definition s_responses : str := [114;101;115;112;111;110;115;101;115]%N.
Definition s_links : str := [108;105;110;107;115]%N.
Definition s_operationRef : str := [111;112;101;114;97;116;105;111;110;82;101;102]%N.
Definition s_paths_prefix : str := [35;47;112;97;116;104;115;47]%N.    (* #/paths/ *)

(* specs/openapi/schemas.py:73  HTTP_METHODS (lower case) *)
Definition http_methods : list str := [
  [103;101;116]%N; [112;117;116]%N; [112;111;115;116]%N; [100;101;108;101;116;101]%N;
  [111;112;116;105;111;110;115]%N; [104;101;97;100]%N; [112;97;116;99;104]%N; [116;114;97;99;101]%N ].
Definition is_http_method (m : str) : bool := existsb (str_eqb m) http_methods.

Definition jget (k : str) (j : json) : option json :=
  match j with JObj kvs => assoc_get k kvs | _ => None end.

(* ------------------------------------------------------------------------------------------------ *)
(* the context a matcher sees: SimpleNamespace(operation=...) ; filters.py:19                        *)
Record ctx := { c_path : str; c_method : str; c_label : str; c_raw : json; c_resolved : json }.

Inductive attr := ALabel | AMethod | APath | ATag | AOperationId.
Definition attr_eqb (a b : attr) : bool :=
  match a, b with
  | ALabel, ALabel | AMethod, AMethod | APath, APath | ATag, ATag | AOperationId, AOperationId => true
  | _, _ => false
  end.
Definition is_method_attr (a : attr) : bool := attr_eqb a AMethod.

Inductive aval := VNone | VStr (s : str) | VList (l : list str) | VBad.

Fixpoint all_strs (l : list json) : option (list str) :=
  match l with
  | [] => Some []
  | JStr s :: r => match all_strs r with Some ss => Some (s :: ss) | None => None end
  | _ :: _ => None
  end.

Definition aval_of (o : option json) : aval :=
  match o with
  | None => VNone
  | Some JNull => VNone
  | Some (JStr s) => VStr s
  | Some (JArr l) => match all_strs l with Some ss => VList ss | None => VBad end
  | Some _ => VBad
  end.

(* filters.py:78 get_operation_attribute; tags: specs/openapi/schemas.py:660 get_tags = definition.raw.get(tags) *)
Definition attr_value (c : ctx) (a : attr) : aval :=
  match a with
  | ATag => aval_of (jget s_tags (c_raw c))
  | AOperationId => aval_of (jget s_operationId (c_raw c))
  | ALabel => VStr (c_label c)
  | APath => VStr (c_path c)
  | AMethod => VStr (upper_ascii (c_method c))
  end.

(* filters.py:90 / 99 / 108 *)
Definition by_value (v : aval) (expected : str) : bool :=
  match v with
  | VNone | VBad => false
  | VList l => existsb (fun entry => str_eqb entry expected) l
  | VStr s => str_eqb s expected
  end.
Definition by_value_list (v : aval) (expected : list str) : bool :=
  match v with
  | VNone | VBad => false
  | VList l => existsb (fun entry => existsb (str_eqb entry) expected) l
  | VStr s => existsb (str_eqb s) expected
  end.
Definition by_regex (v : aval) (search : str -> bool) : bool :=
  match v with
  | VNone | VBad => false
  | VList l => existsb search l
  | VStr s => search s
  end.

(* filters.py:32 Matcher.  A regex is a predicate (re.search) plus its source text (the label, i.e. the identity
   used for duplicate detection); a function matcher is a predicate plus hash(func). *)
Inductive matcher :=
| MValue (a : attr) (expected : str)
| MList (a : attr) (expected : list str)
| MRegex (a : attr) (src : str) (search : str -> bool)
| MFunc (id : N) (f : ctx -> bool).

Definition matcher_match (m : matcher) (c : ctx) : bool :=
  match m with
  | MValue a e => by_value (attr_value c a) e
  | MList a es => by_value_list (attr_value c a) es
  | MRegex a _ p => by_regex (attr_value c a) p
  | MFunc _ f => f c
  end.

Fixpoint strs_eqb (a b : list str) : bool :=
  match a, b with
  | [], [] => true
  | x :: a', y :: b' => str_eqb x y && strs_eqb a' b'
  | _, _ => false
  end.

(* Matcher.__eq__ / __hash__ : only _hash = hash(label) (hash(func) for functions) is compared *)
Definition matcher_same (m1 m2 : matcher) : bool :=
  match m1, m2 with
  | MValue a e, MValue b e' => attr_eqb a b && str_eqb e e'
  | MList a es, MList b es' => attr_eqb a b && strs_eqb es es'
  | MRegex a s _, MRegex b s' _ => attr_eqb a b && str_eqb s s'
  | MFunc i _, MFunc j _ => N.eqb i j
  | _, _ => false
  end.

(* filters.py:118 Filter: all matchers must match *)
Definition flt := list matcher.
Definition filter_match (f : flt) (c : ctx) : bool := forallb (fun m => matcher_match m c) f.
Fixpoint filter_same (f g : flt) : bool :=
  match f, g with
  | [], [] => true
  | m :: f', n :: g' => matcher_same m n && filter_same f' g'
  | _, _ => false
  end.

(* filters.py:138 FilterSet *)
Record filter_set := { fs_includes : list flt; fs_excludes : list flt }.
Definition fs_empty : filter_set := {| fs_includes := []; fs_excludes := [] |}.

(* filters.py:175 *)
Definition fs_is_empty (fs : filter_set) : bool :=
  match fs_includes fs, fs_excludes fs with [], [] => true | _, _ => false end.

(* filters.py:157 FilterSet.match *)
Definition fs_match (fs : filter_set) (c : ctx) : bool :=
  if existsb (fun f => filter_match f c) (fs_excludes fs) then false
  else match fs_includes fs with
       | [] => true
       | _ => existsb (fun f => filter_match f c) (fs_includes fs)
       end.

(* ------------------------------------------------------------------------------------------------ *)
(* _add_filter, filters.py:241                                                                       *)
Inductive fvalue := FStr (s : str) | FList (l : list str).
(* a regex argument: its source text and re.search with / without IGNORECASE *)
Definition rx_arg : Type := (str * (bool -> str -> bool))%type.
Record attr_arg := { aa_expected : option fvalue; aa_regex : option rx_arg }.
Definition no_arg : attr_arg := {| aa_expected := None; aa_regex := None |}.
Record add_args := {
  a_func : option (N * (ctx -> bool));
  a_name : attr_arg; a_method : attr_arg; a_path : attr_arg; a_tag : attr_arg; a_operation_id : attr_arg }.

Inductive add_error := ErrExpectedAndRegex | ErrEmpty | ErrExists.
Inductive add_result := Added (fs : filter_set) | Rejected (e : add_error).

(* filters.py:288 _normalize_method (ASCII upper-casing; filter values for methods are assumed ASCII) *)
Definition normalize_method (v : fvalue) : fvalue :=
  match v with FStr s => FStr (upper_ascii s) | FList l => FList (map upper_ascii l) end.

(* filters.py:50 / 60 *)
Definition for_value (a : attr) (v : fvalue) : matcher :=
  match v with FStr s => MValue a s | FList l => MList a l end.
Definition for_regex (a : attr) (r : rx_arg) : matcher := MRegex a (fst r) (snd r (is_method_attr a)).

Definition attr_matchers (a : attr) (arg : attr_arg) : option (list matcher) :=
  match aa_expected arg, aa_regex arg with
  | Some _, Some _ => None
  | Some e, None => Some [for_value a (if is_method_attr a then normalize_method e else e)]
  | None, Some r => Some [for_regex a r]
  | None, None => Some []
  end.

Definition attr_args (a : add_args) : list (attr * attr_arg) :=
  [(ALabel, a_name a); (AMethod, a_method a); (APath, a_path a); (ATag, a_tag a); (AOperationId, a_operation_id a)].

Fixpoint collect_matchers (l : list (attr * attr_arg)) : option (list matcher) :=
  match l with
  | [] => Some []
  | (a, arg) :: r =>
      match attr_matchers a arg with
      | None => None
      | Some ms => match collect_matchers r with Some ms' => Some (ms ++ ms') | None => None end
      end
  end.

Definition add_filter (include : bool) (a : add_args) (fs : filter_set) : add_result :=
  match collect_matchers (attr_args a) with
  | None => Rejected ErrExpectedAndRegex
  | Some ms =>
      let matchers := match a_func a with Some (i, f) => MFunc i f :: ms | None => ms end in
      match matchers with
      | [] => Rejected ErrEmpty
      | _ =>
          if existsb (filter_same matchers) (fs_includes fs) || existsb (filter_same matchers) (fs_excludes fs)
          then Rejected ErrExists
          else if include
               then Added {| fs_includes := fs_includes fs ++ [matchers]; fs_excludes := fs_excludes fs |}
               else Added {| fs_includes := fs_includes fs; fs_excludes := fs_excludes fs ++ [matchers] |}
      end
  end.

(* filters.py:347 is_deprecated: definition.raw.get(deprecated) is True *)
Definition is_deprecated (c : ctx) : bool :=
  match jget s_deprecated (c_raw c) with Some (JBool true) => true | _ => false end.
Definition is_deprecated_id : N := 0%N.

Definition only_func (i : N) (f : ctx -> bool) : add_args :=
  {| a_func := Some (i, f); a_name := no_arg; a_method := no_arg; a_path := no_arg; a_tag := no_arg; a_operation_id := no_arg |}.
Definition with_func (a : add_args) (i : N) (f : ctx -> bool) : add_args :=
  {| a_func := Some (i, f); a_name := a_name a; a_method := a_method a; a_path := a_path a; a_tag := a_tag a;
     a_operation_id := a_operation_id a |}.

(* schemas.py:129 BaseSchema.include, schemas.py:161 BaseSchema.exclude *)
Definition schema_include (a : add_args) (fs : filter_set) : add_result := add_filter true a fs.
Definition schema_exclude (a : add_args) (deprecated : bool) (fs : filter_set) : add_result :=
  if deprecated then
    match a_func a with
    | None => add_filter false (with_func a is_deprecated_id is_deprecated) fs
    | Some _ =>
        match add_filter false (only_func is_deprecated_id is_deprecated) fs with
        | Added fs' => add_filter false a fs'
        | Rejected e => Rejected e
        end
    end
  else add_filter false a fs.

Inductive call := CInclude (a : add_args) | CExclude (a : add_args) (deprecated : bool).
Definition apply_call (c : call) (fs : filter_set) : add_result :=
  match c with CInclude a => schema_include a fs | CExclude a d => schema_exclude a d fs end.
(* the chain schema.include(..).exclude(..)... ; the index of the raising call is reported *)
Fixpoint apply_calls (cs : list call) (fs : filter_set) (idx : N) : filter_set + (add_error * N) :=
  match cs with
  | [] => inl fs
  | c :: r => match apply_call c fs with
              | Added fs' => apply_calls r fs' (idx + 1)
              | Rejected e => inr (e, idx)
              end
  end.

(* ------------------------------------------------------------------------------------------------ *)
(* core/transforms.py:86 resolve_pointer, filters.py:376 expression_to_filter_function               *)
Fixpoint replace2 (a b by_ : N) (s : str) : str :=
  match s with
  | [] => []
  | x :: r =>
      match r with
      | y :: r' => if N.eqb x a && N.eqb y b then by_ :: replace2 a b by_ r' else x :: replace2 a b by_ r
      | [] => [x]
      end
  end.
(* value.replace(~1, /).replace(~0, ~) *)
Definition unescape (s : str) : str := replace2 126 48 126 (replace2 126 49 47 s).

Fixpoint digits_val (s : str) (acc : N) : option N :=
  match s with
  | [] => Some acc
  | c :: r => if is_digit c then digits_val r (acc * 10 + (c - 48))%N else None
  end.
(* core/transforms.py:107 (repo fix 5f4626e6, RFC 6901): an array token is an index only if it is ASCII digits, and
   either the single digit 0 or without a leading zero; no sign, blanks, underscores or non-ASCII digits *)
Definition parse_index (s : str) : option Z :=
  match s with
  | [] => None
  | c :: r =>
      if N.eqb c 48 then match r with [] => Some 0%Z | _ => None end
      else option_map Z.of_N (digits_val s 0)
  end.
(* SENTINEL, not the code any more: the int(token) rule used before 5f4626e6 (optional sign, leading zeros, hence
   Python negative indices: /tags/-1 was the last tag).  Kept to show the two rules differ (C07_pointer_rule_differs). *)
Definition parse_int_legacy (s : str) : option Z :=
  match s with
  | [] => None
  | c :: r =>
      if N.eqb c 45 then match r with [] => None | _ => option_map (fun n => Z.opp (Z.of_N n)) (digits_val r 0) end
      else if N.eqb c 43 then match r with [] => None | _ => option_map Z.of_N (digits_val r 0) end
      else option_map Z.of_N (digits_val s 0)
  end.
(* list[i] with Python negative indices (only reachable through the legacy rule) *)
Definition py_index {A} (l : list A) (i : Z) : option A :=
  if (0 <=? i)%Z then nth_error l (Z.to_nat i)
  else if (0 <=? Z.of_nat (length l) + i)%Z then nth_error l (Z.to_nat (Z.of_nat (length l) + i)) else None.

Fixpoint resolve_tokens_with (index : str -> option Z) (tokens : list str) (j : json) : option json :=
  match tokens with
  | [] => Some j
  | t :: r =>
      match j with
      | JObj kvs => match assoc_get t kvs with Some v => resolve_tokens_with index r v | None => None end
      | JArr l => match index t with
                  | Some i => match py_index l i with Some v => resolve_tokens_with index r v | None => None end
                  | None => None
                  end
      | _ => None
      end
  end.
(* None = UNRESOLVABLE *)
Definition resolve_pointer_with (index : str -> option Z) (document : json) (pointer : str) : option json :=
  match pointer with
  | [] => Some document
  | c :: _ => if N.eqb c 47 then resolve_tokens_with index (map unescape (tl (split_on 47 pointer))) document else None
  end.
Definition resolve_pointer : json -> str -> option json := resolve_pointer_with parse_index.
Definition resolve_pointer_legacy : json -> str -> option json := resolve_pointer_with parse_int_legacy.

(* op_eq = true for ==, false for != ; evaluated on definition.RESOLVED *)
Definition expr_filter (pointer : str) (op_eq : bool) (value : json) (c : ctx) : bool :=
  let eq := match resolve_pointer (c_resolved c) pointer with Some r => json_eqb r value | None => false end in
  if op_eq then eq else negb eq.

(* ------------------------------------------------------------------------------------------------ *)
(* documents                                                                                         *)
Record opdef := { od_raw : json; od_resolved : json }.
(* a path item after _resolve_path_item: key -> entry in dictionary order (keys that are not methods included) *)
Definition path_item := list (str * opdef).
Definition doc := list (str * path_item).

Definition label_of (method path : str) : str := upper_ascii method ++ [32%N] ++ path.

(* specs/openapi/schemas.py:140 _should_skip: ONE dictionary is stored as raw and as resolved *)
Definition mk_ctx (path method : str) (definition : json) : ctx :=
  {| c_path := path; c_method := method; c_label := label_of method path; c_raw := definition; c_resolved := definition |}.
Definition should_skip (fs : filter_set) (path method : str) (definition : json) : bool :=
  if negb (is_http_method method) then true
  else if fs_is_empty fs then false
  else negb (fs_match fs (mk_ctx path method definition)).

Record op := { o_path : str; o_method : str; o_def : opdef }.
Definition op_label (o : op) : str := label_of (o_method o) (o_path o).

(* specs/openapi/schemas.py:295 get_all_operations (the Ok results): filter on the RESOLVED definition *)
Definition item_operations (fs : filter_set) (path : str) (item : path_item) : list op :=
  flat_map (fun kd : str * opdef =>
    let (method, d) := kd in
    if negb (is_http_method method) then []
    else if should_skip fs path method (od_resolved d) then []
    else [{| o_path := path; o_method := method; o_def := d |}]) item.
Definition get_all_operations (fs : filter_set) (d : doc) : list op :=
  flat_map (fun pi : str * path_item => item_operations fs (fst pi) (snd pi)) d.

(* specs/openapi/schemas.py:237 _operation_iter: filter on the RAW definition, yields the raw definitions *)
Definition operation_iter (fs : filter_set) (d : doc) : list json :=
  flat_map (fun pi : str * path_item =>
    flat_map (fun kd : str * opdef =>
      if should_skip fs (fst pi) (fst kd) (od_raw (snd kd)) then [] else [od_raw (snd kd)]) (snd pi)) d.

(* ---- links of an operation --------------------------------------------------------------------- *)
Inductive target := TId (id : str) | TRef (ref : str) | TBad.
Record link := { l_status : str; l_name : str; l_target : target }.

(* OpenApiLink.__init__, links.py:60: operationId wins over operationRef *)
Definition link_target (definition : json) : target :=
  match jget s_operationId definition with
  | Some (JStr i) => TId i
  | Some _ => TBad
  | None => match jget s_operationRef definition with Some (JStr r) => TRef r | _ => TBad end
  end.
Definition response_links (status : str) (response : json) : list link :=
  match jget s_links response with
  | Some (JObj kvs) => map (fun kv : str * json => {| l_status := status; l_name := fst kv; l_target := link_target (snd kv) |}) kvs
  | _ => []
  end.
(* None: the definition has no responses key (definition.raw[responses] raises KeyError in get_all_links) *)
Definition links_of_raw (raw : json) : option (list link) :=
  match jget s_responses raw with
  | Some (JObj rs) => Some (flat_map (fun kv : str * json => response_links (fst kv) (snd kv)) rs)
  | Some _ => Some []
  | None => None
  end.
Definition links_or_nil (raw : json) : list link := match links_of_raw raw with Some l => l | None => [] end.

(* ---- looking a link target up (filters are NOT consulted here) --------------------------------- *)
(* _populate_operation_id_cache, schemas.py:492: a dictionary filled in document order: the LAST definition wins *)
Definition item_ids (path : str) (item : path_item) : list (str * (str * str)) :=
  flat_map (fun kd : str * opdef =>
    if is_http_method (fst kd) then
      match jget s_operationId (od_raw (snd kd)) with Some (JStr i) => [(i, (path, fst kd))] | _ => [] end
    else []) item.
Definition doc_ids (d : doc) : list (str * (str * str)) := flat_map (fun pi => item_ids (fst pi) (snd pi)) d.
Definition find_by_id (d : doc) (id : str) : option (str * str) := assoc_get id (rev (doc_ids d)).

(* get_operation_by_reference, schemas.py:516: the reference has to resolve, path and method are the last two
   segments of the reference (no HTTP_METHODS test).  Only references below #/paths/ are in the fragment. *)
Definition parse_ref (ref : str) : option (str * str) :=
  if starts_with s_paths_prefix ref then
    match split_on 47 (skipn (length s_paths_prefix) ref) with
    | [p; m] => Some (unescape p, m)
    | _ => None
    end
  else None.
Definition find_by_ref (d : doc) (ref : str) : option (str * str) :=
  match parse_ref ref with
  | Some (p, m) =>
      match assoc_get p d with
      | Some item => match assoc_get m item with Some _ => Some (p, m) | None => None end
      | None => None
      end
  | None => None
  end.
Definition resolve_target (d : doc) (t : target) : option (str * str) :=
  match t with TId i => find_by_id d i | TRef r => find_by_ref d r | TBad => None end.

(* ---- specs/openapi/stateful/__init__.py:90 collect_transitions ---------------------------------- *)
Record transition := { t_source : str; t_status : str; t_name : str; t_target : str }.

Fixpoint op_transitions (d : doc) (labels : list str) (source : str) (ls : list link) : option (list transition) :=
  match ls with
  | [] => Some []
  | l :: r =>
      match resolve_target d (l_target l), op_transitions d labels source r with
      | Some (p, m), Some rest =>
          if existsb (str_eqb (label_of m p)) labels
          then Some ({| t_source := source; t_status := l_status l; t_name := l_name l; t_target := label_of m p |} :: rest)
          else Some rest
      | _, _ => None
      end
  end.
Fixpoint transitions_of (d : doc) (labels : list str) (ops : list op) : option (list transition) :=
  match ops with
  | [] => Some []
  | o :: r =>
      match links_of_raw (od_raw (o_def o)) with
      | None => None
      | Some ls =>
          match op_transitions d labels (op_label o) ls, transitions_of d labels r with
          | Some a, Some b => Some (a ++ b)
          | _, _ => None
          end
      end
  end.
(* None: building the state machine raises (InvalidStateMachine, KeyError, RefResolutionError) *)
Definition collect_transitions (fs : filter_set) (d : doc) : option (list transition) :=
  let ops := get_all_operations fs d in
  transitions_of d (map op_label ops) ops.

(* ---- specs/openapi/schemas.py:169 _measure_statistic -------------------------------------------- *)
Definition http_entries (d : doc) : list (str * str * opdef) :=
  flat_map (fun pi : str * path_item =>
    flat_map (fun kd : str * opdef => if is_http_method (fst kd) then [(fst pi, fst kd, snd kd)] else []) (snd pi)) d.
Definition raw_selected (fs : filter_set) (e : str * str * opdef) : bool :=
  let '(p, m, od) := e in negb (should_skip fs p m (od_raw od)).

Definition selected_ids (fs : filter_set) (d : doc) : list str :=
  flat_map (fun e : str * str * opdef =>
    match jget s_operationId (od_raw (snd e)) with Some (JStr i) => [i] | _ => [] end)
    (filter (raw_selected fs) (http_entries d)).
Definition selected_by_path (fs : filter_set) (d : doc) : list (str * str) :=
  map (fun e : str * str * opdef => (snd (fst e), fst (fst e))) (filter (raw_selected fs) (http_entries d)).

Definition is_link_selected (fs : filter_set) (d : doc) (l : link) : bool :=
  match l_target l with
  | TId i => existsb (str_eqb i) (selected_ids fs d)
  | TRef r => match find_by_ref d r with
              | Some (p, m) => existsb (fun mp : str * str => str_eqb (fst mp) m && str_eqb (snd mp) p) (selected_by_path fs d)
              | None => false
              end
  | TBad => false
  end.

Record statistic := { st_ops_total : nat; st_ops_selected : nat; st_links_total : nat; st_links_selected : nat }.
Definition measure_statistic (fs : filter_set) (d : doc) : statistic :=
  let es := http_entries d in
  let sel := filter (raw_selected fs) es in
  {| st_ops_total := length es;
     st_ops_selected := length sel;
     st_links_total := length (flat_map (fun e : str * str * opdef => links_or_nil (od_raw (snd e))) es);
     st_links_selected :=
       length (filter (is_link_selected fs d) (flat_map (fun e : str * str * opdef => links_or_nil (od_raw (snd e))) sel)) |}.

(* ---- specs/openapi/schemas.py:868 MethodMap = schema[path]; generation/hypothesis/builder.py:507 ---------- *)
(* requests.structures.CaseInsensitiveDict(path_item): one slot per lower-cased key, at the position of its first
   insertion, remembering the spelling of the LAST insertion *)
Fixpoint ci_insert (k : str) (acc : list str) : list str :=
  match acc with
  | [] => [k]
  | x :: r => if str_eqb (lower_ascii x) (lower_ascii k) then k :: r else x :: ci_insert k r
  end.
Definition ci_keys (keys : list str) : list str := fold_left (fun acc k => ci_insert k acc) keys [].
(* MethodMap.__iter__ / __len__: EVERY key of the path item (methods of unselected operations and non-method keys
   included); the filter set of the schema is not consulted *)
Definition method_map_keys (fs : filter_set) (item : path_item) : list str := ci_keys (map fst item).
(* builder.py:392 the default unexpected methods (HEAD is left out) *)
Definition default_unexpected_methods : list str := [
  [103;101;116]%N; [112;117;116]%N; [112;111;115;116]%N; [100;101;108;101;116;101]%N;
  [111;112;116;105;111;110;115]%N; [112;97;116;99;104]%N; [116;114;97;99;101]%N ].
(* builder.py:507 coverage phase, negative mode: unexpected_methods - set(operation.schema[operation.path]) *)
Definition unspecified_methods (fs : filter_set) (item : path_item) : list str :=
  filter (fun m => negb (existsb (str_eqb m) (method_map_keys fs item))) default_unexpected_methods.
(* no two keys of a path item are equal up to ASCII case *)
Fixpoint ci_distinct (keys : list str) : bool :=
  match keys with
  | [] => true
  | k :: r => negb (existsb (fun x => str_eqb (lower_ascii x) (lower_ascii k)) r) && ci_distinct r
  end.

(* ---- pytest/lazy.py:297 get_schema: schema.clone(filter_set=<the LazySchema one>) --------------- *)
Definition lazy_filter_set (fixture_fs lazy_fs : filter_set) : filter_set := lazy_fs.
Definition lazy_operations (fixture_fs lazy_fs : filter_set) (d : doc) : list op :=
  get_all_operations (lazy_filter_set fixture_fs lazy_fs) d.

(* ------------------------------------------------------------------------------------------------ *)
(* region predicates (hypotheses of the _partial theorems)                                           *)
(* filters give the same verdict on the raw and on the resolved definition of every operation *)
Definition resolution_independent (fs : filter_set) (d : doc) : bool :=
  forallb (fun e : str * str * opdef =>
    let '(p, m, od) := e in
    Bool.eqb (fs_match fs (mk_ctx p m (od_raw od))) (fs_match fs (mk_ctx p m (od_resolved od)))) (http_entries d).
(* a syntactic sufficient condition: no reference anywhere in an operation definition *)
Definition no_references (d : doc) : bool :=
  forallb (fun e : str * str * opdef => json_eqb (od_raw (snd e)) (od_resolved (snd e))) (http_entries d).

Fixpoint nodup_strs (l : list str) : bool :=
  match l with [] => true | x :: r => negb (existsb (str_eqb x) r) && nodup_strs r end.
(* operationId values are unique over the document *)
Definition unique_operation_ids (d : doc) : bool := nodup_strs (map fst (doc_ids d)).
(* no two operations share a label (METHOD path).  For a Python dictionary (unique path keys, unique keys inside a
   path item) this always holds, because only the eight lower-case method names are operations. *)
Definition unique_labels (d : doc) : bool :=
  nodup_strs (map (fun e : str * str * opdef => label_of (snd (fst e)) (fst (fst e))) (http_entries d)).
(* a link given by operationRef that resolves names an HTTP method key (and not, say, an upper-case key or the
   shared parameters list) *)
Definition ref_names_method (d : doc) (l : link) : bool :=
  match l_target l with
  | TRef r => match find_by_ref d r with Some (_, m) => is_http_method m | None => true end
  | _ => true
  end.
Definition refs_name_methods (d : doc) : bool :=
  forallb (fun e : str * str * opdef => forallb (ref_names_method d) (links_or_nil (od_raw (snd e)))) (http_entries d).
(* the lazily loaded schema carries no filters of its own *)
Definition fixture_unfiltered (fixture_fs : filter_set) : bool := fs_is_empty fixture_fs.

(* ------------------------------------------------------------------------------------------------ *)
(* a concrete regex fragment and concrete function matchers, used by the correspondence harness       *)
Inductive rx := RxSub (s : str) | RxPrefix (s : str) | RxSuffix (s : str) | RxExact (s : str).
Fixpoint contains (p s : str) : bool :=
  starts_with p s || match s with [] => false | _ :: s' => contains p s' end.
Definition rx_search (r : rx) (icase : bool) (s : str) : bool :=
  let f := fun x : str => if icase then lower_ascii x else x in
  match r with
  | RxSub p => contains (f p) (f s)
  | RxPrefix p => starts_with (f p) (f s)
  | RxSuffix p => ends_with (f p) (f s)
  | RxExact p => str_eqb (f p) (f s)
  end.
Definition rx_of (src : str) (r : rx) : rx_arg := (src, rx_search r).

(* lambda ctx: len(ctx.operation.path) % 2 == 0 *)
Definition fn_path_len_even (c : ctx) : bool := Nat.even (length (c_path c)).
(* lambda ctx: ctx.operation.method.upper() in (GET, HEAD) *)
Definition fn_safe_method (c : ctx) : bool :=
  let m := upper_ascii (c_method c) in str_eqb m [71;69;84]%N || str_eqb m [72;69;65;68]%N.

(* ------------------------------------------------------------------------------------------------ *)
(* cli/commands/run/filters.py:105 FilterArguments.into                                              *)
Record cli_side := {
  cl_by : option (N * (ctx -> bool));
  cl_name : list str; cl_method : list str; cl_path : list str; cl_tag : list str; cl_operation_id : list str;
  cl_name_regex : option rx_arg; cl_method_regex : option rx_arg; cl_path_regex : option rx_arg;
  cl_tag_regex : option rx_arg; cl_operation_id_regex : option rx_arg }.
Record cli_args := { cli_include : cli_side; cli_exclude : cli_side; cli_exclude_deprecated : bool }.

Definition arg_value (a : attr) (s : str) : add_args :=
  let v := {| aa_expected := Some (FStr s); aa_regex := None |} in
  {| a_func := None;
     a_name := if attr_eqb a ALabel then v else no_arg; a_method := if attr_eqb a AMethod then v else no_arg;
     a_path := if attr_eqb a APath then v else no_arg; a_tag := if attr_eqb a ATag then v else no_arg;
     a_operation_id := if attr_eqb a AOperationId then v else no_arg |}.
Definition arg_regex (a : attr) (r : rx_arg) : add_args :=
  let v := {| aa_expected := None; aa_regex := Some r |} in
  {| a_func := None;
     a_name := if attr_eqb a ALabel then v else no_arg; a_method := if attr_eqb a AMethod then v else no_arg;
     a_path := if attr_eqb a APath then v else no_arg; a_tag := if attr_eqb a ATag then v else no_arg;
     a_operation_id := if attr_eqb a AOperationId then v else no_arg |}.
Definition rx_only (r : option rx_arg) : attr_arg := {| aa_expected := None; aa_regex := r |}.
Definition some_rx (s : cli_side) : bool :=
  match cl_name_regex s, cl_method_regex s, cl_path_regex s, cl_tag_regex s, cl_operation_id_regex s with
  | None, None, None, None, None => false
  | _, _, _, _, _ => true
  end.
Definition opt_list {A} (o : option A) : list A := match o with Some x => [x] | None => [] end.

(* the sequence of FilterSet.include / exclude calls made by into(), in order.  Include regexes go into ONE
   filter (a conjunction), exclude regexes into one filter each. *)
Definition cli_calls (a : cli_args) : list (bool * add_args) :=
  let i := cli_include a in
  let e := cli_exclude a in
  map (fun f => (true, only_func (fst f) (snd f))) (opt_list (cl_by i))
  ++ map (fun s => (true, arg_value ALabel s)) (cl_name i)
  ++ map (fun s => (true, arg_value AMethod s)) (cl_method i)
  ++ map (fun s => (true, arg_value APath s)) (cl_path i)
  ++ map (fun s => (true, arg_value ATag s)) (cl_tag i)
  ++ map (fun s => (true, arg_value AOperationId s)) (cl_operation_id i)
  ++ (if some_rx i then
        [(true, {| a_func := None; a_name := rx_only (cl_name_regex i); a_method := rx_only (cl_method_regex i);
                   a_path := rx_only (cl_path_regex i); a_tag := rx_only (cl_tag_regex i);
                   a_operation_id := rx_only (cl_operation_id_regex i) |})]
      else [])
  ++ map (fun f => (false, only_func (fst f) (snd f))) (opt_list (cl_by e))
  ++ map (fun s => (false, arg_value ALabel s)) (cl_name e)
  ++ map (fun s => (false, arg_value AMethod s)) (cl_method e)
  ++ map (fun s => (false, arg_value APath s)) (cl_path e)
  ++ map (fun s => (false, arg_value ATag s)) (cl_tag e)
  ++ map (fun s => (false, arg_value AOperationId s)) (cl_operation_id e)
  ++ map (fun r => (false, arg_regex ALabel r)) (opt_list (cl_name_regex e))
  ++ map (fun r => (false, arg_regex AMethod r)) (opt_list (cl_method_regex e))
  ++ map (fun r => (false, arg_regex APath r)) (opt_list (cl_path_regex e))
  ++ map (fun r => (false, arg_regex ATag r)) (opt_list (cl_tag_regex e))
  ++ map (fun r => (false, arg_regex AOperationId r)) (opt_list (cl_operation_id_regex e))
  ++ (if cli_exclude_deprecated a then [(false, only_func is_deprecated_id is_deprecated)] else []).

Fixpoint add_all (cs : list (bool * add_args)) (fs : filter_set) : add_result :=
  match cs with
  | [] => Added fs
  | (inc, a) :: r => match add_filter inc a fs with Added fs' => add_all r fs' | Rejected e => Rejected e end
  end.
(* validate_unique_filter on the ten value lists, then the calls *)
Inductive cli_result := CliOk (fs : filter_set) | CliUsageError.
Definition cli_into (a : cli_args) : cli_result :=
  let lists (s : cli_side) := [cl_path s; cl_method s; cl_name s; cl_tag s; cl_operation_id s] in
  if forallb nodup_strs (lists (cli_include a) ++ lists (cli_exclude a)) then
    match add_all (cli_calls a) fs_empty with
    | Added fs => CliOk fs
    | Rejected _ => CliUsageError
    end
  else CliUsageError.

(* ------------------------------------------------------------------------------------------------ *)
(* derivation histories: the object graph of schemas and their (mutable) filter sets                  *)
(* In Python a FilterSet holds two mutable set objects; BaseSchema.include / exclude (schemas.py:145,178) call
   FilterSet.clone (filters.py:150: FilterSet(_includes=self._includes.copy(), _excludes=self._excludes.copy()))
   and then MUTATE the clone (self._includes.add, filters.py:283); statistic is a cached_property of the schema
   object (schemas.py:255).  The heap below has one cell per set object; a schema object is a node holding the two
   cell indices of its filter set and its cached statistic.  [shared = true] is the variant in which clone passes
   the parent's sets on (FilterSet.__init__ replaces only an EMPTY set by a fresh one): it is NOT the code, it is
   kept as a sentinel (C07_shared_clone_not_independent). *)
Fixpoint upd {A} (i : nat) (v : A) (l : list A) : list A :=
  match l, i with
  | [], _ => []
  | _ :: r, O => v :: r
  | x :: r, S i' => x :: upd i' v r
  end.
Definition cell (cells : list (list flt)) (i : nat) : list flt := nth i cells [].
Definition deref (cells : list (list flt)) (refs : nat * nat) : filter_set :=
  {| fs_includes := cell cells (fst refs); fs_excludes := cell cells (snd refs) |}.

Record hnode := { n_inc : nat; n_exc : nat; n_stat : option statistic }.
Record hstate := { h_cells : list (list flt); h_nodes : list hnode }.
Definition node_refs (n : hnode) : nat * nat := (n_inc n, n_exc n).

(* FilterSet.clone: the new set objects and the heap after allocation *)
Definition heap_clone (shared : bool) (cells : list (list flt)) (refs : nat * nat) : list (list flt) * (nat * nat) :=
  if shared then
    let i := cell cells (fst refs) in
    let e := cell cells (snd refs) in
    let (cells1, ri) := match i with [] => (cells ++ [[]], length cells) | _ => (cells, fst refs) end in
    let (cells2, re) := match e with [] => (cells1 ++ [[]], length cells1) | _ => (cells1, snd refs) end in
    (cells2, (ri, re))
  else (cells ++ [cell cells (fst refs); cell cells (snd refs)], (length cells, S (length cells))).

(* _add_filter on the heap: raises before mutating, otherwise adds to ONE of the two set objects in place *)
Definition heap_add (include : bool) (a : add_args) (refs : nat * nat) (cells : list (list flt)) : list (list flt) * bool :=
  match add_filter include a (deref cells refs) with
  | Added fs' => (upd (snd refs) (fs_excludes fs') (upd (fst refs) (fs_includes fs') cells), true)
  | Rejected _ => (cells, false)
  end.
Definition heap_call (c : call) (refs : nat * nat) (cells : list (list flt)) : list (list flt) * bool :=
  match c with
  | CInclude a => heap_add true a refs cells
  | CExclude a deprecated =>
      if deprecated then
        match a_func a with
        | None => heap_add false (with_func a is_deprecated_id is_deprecated) refs cells
        | Some _ =>
            match heap_add false (only_func is_deprecated_id is_deprecated) refs cells with
            | (cells1, true) => heap_add false a refs cells1
            | (cells1, false) => (cells1, false)
            end
        end
      else heap_add false a refs cells
  end.

Inductive event := EDerive (parent : nat) (c : call) | EStat (node : nat).

Definition heap_step (shared : bool) (d : doc) (st : hstate) (e : event) : hstate :=
  match e with
  | EDerive p c =>
      match nth_error (h_nodes st) p with
      | None => st
      | Some pn =>
          let (cells1, refs) := heap_clone shared (h_cells st) (node_refs pn) in
          let (cells2, ok) := heap_call c refs cells1 in
          {| h_cells := cells2;
             h_nodes := if ok then h_nodes st ++ [{| n_inc := fst refs; n_exc := snd refs; n_stat := None |}] else h_nodes st |}
      end
  | EStat n =>
      match nth_error (h_nodes st) n with
      | None => st
      | Some hn =>
          match n_stat hn with
          | Some _ => st
          | None =>
              {| h_cells := h_cells st;
                 h_nodes := upd n {| n_inc := n_inc hn; n_exc := n_exc hn;
                                     n_stat := Some (measure_statistic (deref (h_cells st) (node_refs hn)) d) |} (h_nodes st) |}
          end
      end
  end.
(* the schema returned by the loader: an empty filter set (two fresh sets), nothing cached *)
Definition heap_init : hstate :=
  {| h_cells := [[]; []]; h_nodes := [{| n_inc := 0; n_exc := 1; n_stat := None |}] |}.
Definition heap_run (shared : bool) (d : doc) (es : list event) : hstate := fold_left (heap_step shared d) es heap_init.

(* the specification: value semantics, every schema owns its filter set *)
Record vnode := { v_fs : filter_set; v_stat : option statistic }.
Definition value_step (d : doc) (st : list vnode) (e : event) : list vnode :=
  match e with
  | EDerive p c =>
      match nth_error st p with
      | None => st
      | Some pn => match apply_call c (v_fs pn) with
                   | Added fs' => st ++ [{| v_fs := fs'; v_stat := None |}]
                   | Rejected _ => st
                   end
      end
  | EStat n =>
      match nth_error st n with
      | None => st
      | Some vn => match v_stat vn with
                   | Some _ => st
                   | None => upd n {| v_fs := v_fs vn; v_stat := Some (measure_statistic (v_fs vn) d) |} st
                   end
      end
  end.
Definition value_init : list vnode := [{| v_fs := fs_empty; v_stat := None |}].
Definition value_run (d : doc) (es : list event) : list vnode := fold_left (value_step d) es value_init.

(* what the heap looks like from outside *)
Definition heap_abs (st : hstate) : list vnode :=
  map (fun hn => {| v_fs := deref (h_cells st) (node_refs hn); v_stat := n_stat hn |}) (h_nodes st).

(* ------------------------------------------------------------------------------------------------ *)
(* what the correspondence harness observes for one schema + one chain of include / exclude calls     *)
Inductive outcome :=
| ORejected (e : add_error) (at_call : N)
| OOk (offered : list (str * str))                       (* (path, method key) of list(schema.get_all_operations()) *)
      (stat : nat * nat * nat * nat)                     (* operations total, selected, links total, selected *)
      (iterated : nat)                                   (* len(list(schema._operation_iter())) *)
      (transitions : option (list (str * str * str * str))).

Definition observe (fs : filter_set) (d : doc) : outcome :=
  let st := measure_statistic fs d in
  OOk (map (fun o => (o_path o, o_method o)) (get_all_operations fs d))
      (st_ops_total st, st_ops_selected st, st_links_total st, st_links_selected st)
      (length (operation_iter fs d))
      (option_map (map (fun t => (t_source t, t_status t, t_name t, t_target t))) (collect_transitions fs d)).
(* per path: list(schema[path]) and the methods the coverage phase adds as unspecified - for ANY filter set
   (C07_method_map_ignores_filters), so the harness evaluates it once per document *)
Definition doc_maps (fs : filter_set) (d : doc) : list (str * list str * list str) :=
  map (fun pi : str * path_item => (fst pi, method_map_keys fs (snd pi), unspecified_methods fs (snd pi))) d.
Definition run_case (d : doc) (cs : list call) : outcome :=
  match apply_calls cs fs_empty 0 with
  | inl fs => observe fs d
  | inr (e, i) => ORejected e i
  end.
Definition run_cli (d : doc) (a : cli_args) : option outcome :=
  match cli_into a with CliOk fs => Some (observe fs d) | CliUsageError => None end.

(* every node of a derivation history: offered operations, statistic (the cached one when it was read earlier),
   transitions *)
Definition observe_node (d : doc) (vn : vnode) : list (str * str) * (nat * nat * nat * nat) * option (list (str * str * str * str)) :=
  let fs := v_fs vn in
  let st := match v_stat vn with Some s => s | None => measure_statistic fs d end in
  (map (fun o => (o_path o, o_method o)) (get_all_operations fs d),
   (st_ops_total st, st_ops_selected st, st_links_total st, st_links_selected st),
   option_map (map (fun t => (t_source t, t_status t, t_name t, t_target t))) (collect_transitions fs d)).
Definition run_history (d : doc) (es : list event) := map (observe_node d) (heap_abs (heap_run false d es)).

(* ------------------------------------------------------------------------------------------------ *)
(* access histories on ONE schema object: the per-schema operation cache                               *)
(* specs/openapi/_cache.py OperationCache: _id_to_operation, _traversal_key_to_operation, _reference_to_operation
   (all three point into _operations) are filled by get_operation_by_id (schemas.py:467), get_operation_by_reference
   (schemas.py:516) and MethodMap._init_operation (schemas.py:890, schema[path][method]) - NONE of them consults the
   filter set.  _id_to_definition (filled once by _populate_operation_id_cache) is a function of the document:
   find_op_by_id below.  The traversal key is (scope, path, method); path items behind a reference are outside the
   fragment, so there is ONE scope and the key is (path, method).  A Python dict is a list with the newest binding
   first.  get_all_operations (schemas.py:295) does not touch the cache: that is [reuse = false].  [reuse = true] is
   the variant in which the traversal takes a cache hit BEFORE the filter test and inserts what it builds: it is NOT
   the code, it is kept as a sentinel (C07_cache_reuse_not_transparent). *)
Definition key_eqb (a b : str * str) : bool := str_eqb (fst a) (fst b) && str_eqb (snd a) (snd b).
Fixpoint key_get {A} (k : str * str) (l : list ((str * str) * A)) : option A :=
  match l with
  | [] => None
  | (k', v) :: r => if key_eqb k k' then Some v else key_get k r
  end.

Record ocache := {
  oc_by_id : list (str * op);
  oc_by_key : list ((str * str) * op);
  oc_by_ref : list (str * op) }.
Definition oc_empty : ocache := {| oc_by_id := []; oc_by_key := []; oc_by_ref := [] |}.
(* _cache.py:84 insert_operation *)
Definition oc_insert (o : op) (key : str * str) (id ref : option str) (c : ocache) : ocache :=
  {| oc_by_id := match id with Some i => (i, o) :: oc_by_id c | None => oc_by_id c end;
     oc_by_key := (key, o) :: oc_by_key c;
     oc_by_ref := match ref with Some r => (r, o) :: oc_by_ref c | None => oc_by_ref c end |}.
Definition op_key (o : op) : str * str := (o_path o, o_method o).

(* _id_to_definition: operationId -> (path, method, path item, RAW entry), the last definition wins *)
Definition item_id_ops (path : str) (item : path_item) : list (str * op) :=
  flat_map (fun kd : str * opdef =>
    if is_http_method (fst kd) then
      match jget s_operationId (od_raw (snd kd)) with
      | Some (JStr i) => [(i, {| o_path := path; o_method := fst kd; o_def := snd kd |})]
      | _ => []
      end
    else []) item.
Definition doc_id_ops (d : doc) : list (str * op) := flat_map (fun pi => item_id_ops (fst pi) (snd pi)) d.
Definition find_op_by_id (d : doc) (id : str) : option op := assoc_get id (rev (doc_id_ops d)).
(* resolver.resolve(reference): path and method are the last two segments, no HTTP_METHODS test *)
Definition find_op_by_ref (d : doc) (ref : str) : option op :=
  match parse_ref ref with
  | Some (p, m) =>
      match assoc_get p d with
      | Some item => match assoc_get m item with
                     | Some od => Some {| o_path := p; o_method := m; o_def := od |}
                     | None => None
                     end
      | None => None
      end
  | None => None
  end.
Definition resolved_operation_id (od : opdef) : option str :=
  match jget s_operationId (od_resolved od) with Some (JStr i) => Some i | _ => None end.

(* schemas.py:467 get_operation_by_id.  None = OperationNotFound *)
Definition cache_by_id (d : doc) (c : ocache) (id : str) : ocache * option op :=
  match assoc_get id (oc_by_id c) with
  | Some o => (c, Some o)
  | None =>
      match find_op_by_id d id with
      | None => (c, None)
      | Some o =>
          match key_get (op_key o) (oc_by_key c) with
          | Some o' => (c, Some o')
          | None => (oc_insert o (op_key o) (Some id) None c, Some o)
          end
      end
  end.
(* schemas.py:516 get_operation_by_reference.  None = RefResolutionError *)
Definition cache_by_ref (d : doc) (c : ocache) (ref : str) : ocache * option op :=
  match assoc_get ref (oc_by_ref c) with
  | Some o => (c, Some o)
  | None =>
      match find_op_by_ref d ref with
      | None => (c, None)
      | Some o =>
          match key_get (op_key o) (oc_by_key c) with
          | Some o' => (c, Some o')
          | None => (oc_insert o (op_key o) None (Some ref) c, Some o)
          end
      end
  end.
(* CaseInsensitiveDict(path_item)[m]: the value stored LAST under a key equal to m up to case *)
Definition ci_find (m : str) (item : path_item) : option opdef :=
  fold_left (fun acc (kd : str * opdef) => if str_eqb (lower_ascii (fst kd)) (lower_ascii m) then Some (snd kd) else acc)
            item None.
(* schema[path][method]: schemas.py:117 _get_operation_map + schemas.py:890 MethodMap._init_operation.
   None = OperationNotFound / LookupError.  The method is lower-cased, the operationId is the RESOLVED one. *)
Definition cache_by_item (d : doc) (c : ocache) (path method : str) : ocache * option op :=
  match assoc_get path d with
  | None => (c, None)
  | Some item =>
      let m := lower_ascii method in
      match ci_find m item with
      | None => (c, None)
      | Some od =>
          match key_get (path, m) (oc_by_key c) with
          | Some o' => (c, Some o')
          | None =>
              let o := {| o_path := path; o_method := m; o_def := od |} in
              (oc_insert o (path, m) (resolved_operation_id od) None c, Some o)
          end
      end
  end.

(* get_all_operations with the cache threaded through.  reuse = false is schemas.py:295 (the cache is neither read
   nor written); reuse = true is the sentinel. *)
Fixpoint traverse_item (reuse : bool) (fs : filter_set) (path : str) (item : path_item) (c : ocache) : ocache * list op :=
  match item with
  | [] => (c, [])
  | (method, od) :: r =>
      if negb (is_http_method method) then traverse_item reuse fs path r c
      else
        match (if reuse then key_get (path, method) (oc_by_key c) else None) with
        | Some o => let (c', ops) := traverse_item reuse fs path r c in (c', o :: ops)
        | None =>
            if should_skip fs path method (od_resolved od) then traverse_item reuse fs path r c
            else
              let o := {| o_path := path; o_method := method; o_def := od |} in
              let c1 := if reuse then oc_insert o (path, method) (resolved_operation_id od) None c else c in
              let (c', ops) := traverse_item reuse fs path r c1 in (c', o :: ops)
        end
  end.
Fixpoint traverse (reuse : bool) (fs : filter_set) (d : doc) (c : ocache) : ocache * list op :=
  match d with
  | [] => (c, [])
  | (p, item) :: r =>
      let (c1, a) := traverse_item reuse fs p item c in
      let (c2, b) := traverse reuse fs r c1 in
      (c2, a ++ b)
  end.

(* stateful/__init__.py:90 collect_transitions on the cache: every link of every offered operation is resolved, in
   order, through get_operation_by_id / get_operation_by_reference.  An unknown operationId is collected as an error
   (InvalidStateMachine after the loop: the remaining links are still resolved); a missing responses key, an
   unresolvable operationRef or a link without target raise at once. *)
Inductive sm_item := SLink (source : str) (l : link) | SAbort.
Definition sm_items (ops : list op) : list sm_item :=
  flat_map (fun o => match links_of_raw (od_raw (o_def o)) with
                     | None => [SAbort]
                     | Some ls => map (SLink (op_label o)) ls
                     end) ops.
Inductive sm_res := SmAbort | SmDone (ts : list transition) (errors : bool).
Definition sm_keep (labels : list str) (source : str) (l : link) (o : op) (r : sm_res) : sm_res :=
  match r with
  | SmAbort => SmAbort
  | SmDone ts e =>
      if existsb (str_eqb (op_label o)) labels
      then SmDone ({| t_source := source; t_status := l_status l; t_name := l_name l; t_target := op_label o |} :: ts) e
      else SmDone ts e
  end.
Definition sm_error (r : sm_res) : sm_res := match r with SmAbort => SmAbort | SmDone ts _ => SmDone ts true end.
Fixpoint sm_run (d : doc) (labels : list str) (items : list sm_item) (c : ocache) : ocache * sm_res :=
  match items with
  | [] => (c, SmDone [] false)
  | SAbort :: _ => (c, SmAbort)
  | SLink source l :: r =>
      match l_target l with
      | TBad => (c, SmAbort)
      | TId i =>
          let (c1, res) := cache_by_id d c i in
          let (c2, rest) := sm_run d labels r c1 in
          (c2, match res with Some o => sm_keep labels source l o rest | None => sm_error rest end)
      | TRef ref =>
          let (c1, res) := cache_by_ref d c ref in
          match res with
          | None => (c1, SmAbort)
          | Some o => let (c2, rest) := sm_run d labels r c1 in (c2, sm_keep labels source l o rest)
          end
      end
  end.
Definition sm_final (r : sm_res) : option (list transition) :=
  match r with SmDone ts false => Some ts | _ => None end.
(* schema.as_state_machine(): traversal, then the links of what was offered *)
Definition machine_step (reuse : bool) (d : doc) (fs : filter_set) (c : ocache) : ocache * option (list transition) :=
  let (c1, ops) := traverse reuse fs d c in
  let (c2, r) := sm_run d (map op_label ops) (sm_items ops) c1 in
  (c2, sm_final r).

Inductive access :=
| AById (id : str)                 (* schema.get_operation_by_id(id) *)
| AByRef (ref : str)               (* schema.get_operation_by_reference(ref) *)
| AItem (path method : str)        (* schema[path][method] *)
| ATraverse                        (* list(schema.get_all_operations()) *)
| AStat                            (* schema.statistic (cached_property, schemas.py:263) *)
| AMeasure                         (* schema._measure_statistic() *)
| AMachine.                        (* schema.as_state_machine() *)
Inductive aobs :=
| OLookup (r : option (str * str))                       (* (path, method) of the returned operation; None = raises *)
| OOffered (l : list (str * str))
| OStatistic (s : nat * nat * nat * nat)
| OMachine (ts : option (list (str * str * str * str))). (* None = raises *)
Record astate := { as_cache : ocache; as_stat : option statistic }.
Definition astate_init : astate := {| as_cache := oc_empty; as_stat := None |}.

Definition stat_tuple (s : statistic) : nat * nat * nat * nat :=
  (st_ops_total s, st_ops_selected s, st_links_total s, st_links_selected s).
Definition offered_pairs (ops : list op) : list (str * str) := map (fun o => (o_path o, o_method o)) ops.
Definition transition_tuples (ts : list transition) : list (str * str * str * str) :=
  map (fun t => (t_source t, t_status t, t_name t, t_target t)) ts.

Definition access_step (reuse : bool) (d : doc) (fs : filter_set) (st : astate) (a : access) : astate * aobs :=
  let with_cache (cr : ocache * option op) :=
    ({| as_cache := fst cr; as_stat := as_stat st |}, OLookup (option_map op_key (snd cr))) in
  match a with
  | AById i => with_cache (cache_by_id d (as_cache st) i)
  | AByRef r => with_cache (cache_by_ref d (as_cache st) r)
  | AItem p m => with_cache (cache_by_item d (as_cache st) p m)
  | ATraverse =>
      let (c, ops) := traverse reuse fs d (as_cache st) in
      ({| as_cache := c; as_stat := as_stat st |}, OOffered (offered_pairs ops))
  | AStat =>
      match as_stat st with
      | Some s => (st, OStatistic (stat_tuple s))
      | None => let s := measure_statistic fs d in
                ({| as_cache := as_cache st; as_stat := Some s |}, OStatistic (stat_tuple s))
      end
  | AMeasure => (st, OStatistic (stat_tuple (measure_statistic fs d)))
  | AMachine =>
      let (c, r) := machine_step reuse d fs (as_cache st) in
      ({| as_cache := c; as_stat := as_stat st |}, OMachine (option_map transition_tuples r))
  end.
Fixpoint access_run (reuse : bool) (d : doc) (fs : filter_set) (h : list access) (st : astate) : list aobs :=
  match h with
  | [] => []
  | a :: r => let (st', o) := access_step reuse d fs st a in o :: access_run reuse d fs r st'
  end.
(* what the harness evaluates: from_dict(raw).include(..).exclude(..), then the history on that ONE object *)
Definition run_access (reuse : bool) (d : doc) (cs : list call) (h : list access) : option (list aobs) :=
  match apply_calls cs fs_empty 0 with
  | inl fs => Some (access_run reuse d fs h astate_init)
  | inr _ => None
  end.
(* region of the history-independence theorem for transitions: no schema[path][method] access (that lookup files
   the operation under its RESOLVED operationId and under the lower-cased method) *)
Definition no_item_access (h : list access) : bool :=
  forallb (fun a => match a with AItem _ _ => false | _ => true end) h.

(* region of the history-independence theorems: every schema[path][method] access of the history files the operation it
   builds under an operationId that a FRESH get_operation_by_id resolves to that same (path, lower-cased method).  False
   for a key that is a method only up to case (Post, GET), for a duplicated operationId that is not the last definition,
   for an operationId that only the resolved definition has (operation behind a reference): finding C07-F6 *)
Definition item_access_consistent (d : doc) (path method : str) : bool :=
  match assoc_get path d with
  | None => true
  | Some item =>
      match ci_find (lower_ascii method) item with
      | None => true
      | Some od =>
          match resolved_operation_id od with
          | None => true
          | Some i => match find_by_id d i with
                      | Some k => key_eqb k (path, lower_ascii method)
                      | None => false
                      end
          end
      end
  end.
Definition item_accesses_consistent (d : doc) (h : list access) : bool :=
  forallb (fun a => match a with AItem p m => item_access_consistent d p m | _ => true end) h.
