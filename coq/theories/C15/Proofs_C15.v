(* C15 - lemmas, witnesses, non-vacuity examples. *)
From Coq Require Import List NArith ZArith Bool Lia ZifyBool.
From Verif Require Import Common.Str Common.Json C15.Model_C15.
Import ListNotations.

(* ------------------------------------------------------------------ sanitize_value *)

Lemma is_redacted_redact c v : is_redacted c (redact c v) = true.
Proof. destruct v; cbn; apply str_eqb_refl. Qed.

Lemma sanitize_clean c t : clean c (sanitize c t) = true.
Proof.
  induction t using json_ind'; try reflexivity.
  - cbn [sanitize clean]. induction H as [|x l Hx _ IH]; [reflexivity|].
    cbn [map forallb]. rewrite Hx, IH. reflexivity.
  - cbn [sanitize clean]. induction H as [|[k v] l Hx _ IH]; [reflexivity|].
    cbn [map forallb]. cbn [snd] in Hx. rewrite IH, andb_true_r.
    destruct (is_sensitive c k); [apply is_redacted_redact | exact Hx].
Qed.

Lemma redact_erase_value c v : redact c (erase_value v) = redact c v.
Proof. destruct v; reflexivity. Qed.

Lemma erase_value_redact c v : erase_value (redact c v) = erase_value v.
Proof. destruct v; reflexivity. Qed.

Lemma sanitize_erase c t : sanitize c (erase c t) = sanitize c t.
Proof.
  induction t using json_ind'; try reflexivity.
  - cbn [sanitize erase]. f_equal. induction H as [|x l Hx _ IH]; [reflexivity|].
    cbn [map]. rewrite Hx, IH. reflexivity.
  - cbn [sanitize erase]. f_equal. induction H as [|[k v] l Hx _ IH]; [reflexivity|].
    cbn [map]. cbn [snd] in Hx. rewrite IH. f_equal. f_equal.
    destruct (is_sensitive c k); [apply redact_erase_value | exact Hx].
Qed.

Lemma noninterference c a b : eq_outside_sensitive c a b = true -> sanitize c a = sanitize c b.
Proof.
  unfold eq_outside_sensitive. intros E. apply json_eqb_eq in E.
  rewrite <- (sanitize_erase c a), <- (sanitize_erase c b), E. reflexivity.
Qed.

Lemma erase_sanitize c t : erase c (sanitize c t) = erase c t.
Proof.
  induction t using json_ind'; try reflexivity.
  - cbn [sanitize erase]. f_equal. induction H as [|x l Hx _ IH]; [reflexivity|].
    cbn [map]. rewrite Hx, IH. reflexivity.
  - cbn [sanitize erase]. f_equal. induction H as [|[k v] l Hx _ IH]; [reflexivity|].
    cbn [map]. cbn [snd] in Hx. rewrite IH. f_equal. f_equal.
    destruct (is_sensitive c k); [apply erase_value_redact | exact Hx].
Qed.

Lemma nonsensitive_unchanged c t : eq_outside_sensitive c (sanitize c t) t = true.
Proof. unfold eq_outside_sensitive. rewrite erase_sanitize. apply json_eqb_refl. Qed.

Lemma no_sensitive_identity c t : has_sensitive c t = false -> sanitize c t = t.
Proof.
  induction t using json_ind'; try reflexivity.
  - cbn [sanitize has_sensitive]. intros E. f_equal.
    induction H as [|x l Hx _ IH]; [reflexivity|].
    cbn [existsb] in E. apply orb_false_iff in E. destruct E as [E1 E2].
    cbn [map]. rewrite (Hx E1), (IH E2). reflexivity.
  - cbn [sanitize has_sensitive]. intros E. f_equal.
    induction H as [|[k v] l Hx _ IH]; [reflexivity|].
    cbn [existsb] in E. apply orb_false_iff in E. destruct E as [E1 E2].
    apply orb_false_iff in E1. destruct E1 as [Ek Ev].
    cbn [map]. cbn [snd] in Hx. rewrite Ek, (Hx Ev), (IH E2). reflexivity.
Qed.

(* sanitize is idempotent when the marker itself is kept by redaction - always *)
Lemma sanitize_idem c t : sanitize c (sanitize c t) = sanitize c t.
Proof.
  induction t using json_ind'; try reflexivity.
  - cbn [sanitize]. f_equal. induction H as [|x l Hx _ IH]; [reflexivity|].
    cbn [map]. rewrite Hx, IH. reflexivity.
  - cbn [sanitize]. f_equal. induction H as [|[k v] l Hx _ IH]; [reflexivity|].
    cbn [map]. cbn [snd] in Hx. rewrite IH. f_equal. f_equal.
    destruct (is_sensitive c k); [destruct v; reflexivity | exact Hx].
Qed.

(* ------------------------------------------------------------------ configuration *)

(* two configurations that classify the keys of t alike (same marker) sanitise t alike *)
Lemma config_ext c c' t :
  repl c = repl c' ->
  (forall k, In k (all_keys t) -> is_sensitive c k = is_sensitive c' k) ->
  sanitize c t = sanitize c' t.
Proof.
  intros Hr. induction t using json_ind'; try reflexivity.
  - cbn [sanitize all_keys]. intros Hk. f_equal.
    induction H as [|x l Hx _ IH]; [reflexivity|].
    cbn [flat_map] in Hk. cbn [map]. rewrite Hx, IH; [reflexivity | |].
    + intros k Hin. apply Hk. apply in_or_app. right. exact Hin.
    + intros k Hin. apply Hk. apply in_or_app. left. exact Hin.
  - cbn [sanitize all_keys]. intros Hk. f_equal.
    induction H as [|[k v] l Hx _ IH]; [reflexivity|].
    cbn [flat_map] in Hk. cbn [map]. cbn [snd] in Hx. rewrite IH.
    + f_equal. f_equal. rewrite <- (Hk k (or_introl eq_refl)).
      destruct (is_sensitive c k).
      * unfold redact. rewrite Hr. reflexivity.
      * apply Hx. intros k' Hin. apply Hk. right. apply in_or_app. left. exact Hin.
    + intros k' Hin. apply Hk. right. apply in_or_app. right. exact Hin.
Qed.

(* ... and a key they classify differently shows in the output *)
Lemma config_differs c c' k v :
  is_sensitive c k = true -> is_sensitive c' k = false -> is_redacted c v = false ->
  sanitize c (JObj [(k, v)]) <> sanitize c' (JObj [(k, v)]) \/ sanitize c' v <> v.
Proof.
  intros H1 H2 H3. cbn [sanitize map]. rewrite H1, H2.
  destruct (json_eqb (redact c v) (sanitize c' v)) eqn:E.
  - right. apply json_eqb_eq in E. intros Heq. rewrite Heq in E.
    rewrite <- E in H3. rewrite is_redacted_redact in H3. discriminate.
  - left. intros Heq. inversion Heq as [Hv]. rewrite Hv in E. rewrite json_eqb_refl in E. discriminate.
Qed.

Lemma mem_str_app k a b : mem_str k (a ++ b) = mem_str k a || mem_str k b.
Proof. unfold mem_str. apply existsb_app. Qed.

(* extend: exactly the union *)
Lemma extend_sensitive c ks ms k :
  is_sensitive (extend c ks ms) k =
  is_sensitive c k
  || match ks with Some l => mem_str (lower_ascii k) (map lower_ascii l) | None => false end
  || match ms with Some l => existsb (fun m => is_sub m (lower_ascii k)) (map lower_ascii l) | None => false end.
Proof.
  unfold is_sensitive, extend. cbn [keys markers].
  destruct ks as [ks|], ms as [ms|]; rewrite ?mem_str_app, ?existsb_app, ?orb_false_r;
    repeat match goal with |- context [mem_str ?a ?b] => generalize (mem_str a b); intro end;
    repeat match goal with |- context [existsb ?a ?b] => generalize (existsb a b); intro end;
    repeat match goal with b : bool |- _ => destruct b end; reflexivity.
Qed.

(* configure: exactly the given lists (lower-cased), untouched parts inherited *)
Lemma from_config_sensitive c r ks ms k :
  is_sensitive (from_config c r (Some ks) (Some ms)) k =
  mem_str (lower_ascii k) (map lower_ascii ks) || existsb (fun m => is_sub m (lower_ascii k)) (map lower_ascii ms).
Proof. reflexivity. Qed.

Lemma from_config_none c : from_config c None None None = c.
Proof. destruct c; reflexivity. Qed.

Lemma extend_none c : extend c None None = c.
Proof. destruct c; reflexivity. Qed.

Lemma extend_repl c ks ms : repl (extend c ks ms) = repl c.
Proof. reflexivity. Qed.

(* ------------------------------------------------------------------ multi-valued maps *)

Lemma sanitize_mdict_json c h : mdict_json (sanitize_mdict c h) = sanitize c (mdict_json h).
Proof.
  unfold mdict_json, sanitize_mdict. cbn [sanitize]. f_equal. rewrite !map_map.
  apply map_ext. intros [k vs]. destruct (is_sensitive c k); [reflexivity|].
  f_equal. f_equal. cbn [sanitize]. rewrite map_map. cbn [sanitize]. reflexivity.
Qed.

Lemma sanitize_sdict_json c h : sdict_json (sanitize_sdict c h) = sanitize c (sdict_json h).
Proof.
  unfold sdict_json, sanitize_sdict. cbn [sanitize]. f_equal. rewrite !map_map.
  apply map_ext. intros [k v]. destruct (is_sensitive c k); reflexivity.
Qed.

Lemma sanitize_mdict_erase c h : sanitize_mdict c (erase_mdict c h) = sanitize_mdict c h.
Proof.
  unfold sanitize_mdict, erase_mdict. rewrite map_map. apply map_ext. intros [k vs].
  destruct (is_sensitive c k) eqn:E; rewrite ?E; reflexivity.
Qed.

Lemma sanitize_sdict_erase c h : sanitize_sdict c (erase_sdict c h) = sanitize_sdict c h.
Proof.
  unfold sanitize_sdict, erase_sdict. rewrite map_map. apply map_ext. intros [k v].
  destruct (is_sensitive c k) eqn:E; rewrite ?E; reflexivity.
Qed.

Lemma mdict_ni c h h' : erase_mdict c h = erase_mdict c h' -> sanitize_mdict c h = sanitize_mdict c h'.
Proof. intros E. rewrite <- (sanitize_mdict_erase c h), E. apply sanitize_mdict_erase. Qed.

Lemma sdict_ni c h h' : erase_sdict c h = erase_sdict c h' -> sanitize_sdict c h = sanitize_sdict c h'.
Proof. intros E. rewrite <- (sanitize_sdict_erase c h), E. apply sanitize_sdict_erase. Qed.

(* ------------------------------------------------------------------ sanitize_url *)

Lemma split_aux_no_sep sep b : forall cur, mem sep b = false -> split_on_aux sep b cur = [rev cur ++ b].
Proof.
  induction b as [|x b IH]; intros cur Hm; cbn [split_on_aux].
  - rewrite app_nil_r. reflexivity.
  - unfold mem in Hm. cbn [existsb] in Hm. apply orb_false_iff in Hm. destruct Hm as [Hx Hb].
    rewrite N.eqb_sym, Hx. rewrite (IH (x :: cur) Hb). cbn [rev]. rewrite <- app_assoc. reflexivity.
Qed.

Lemma split_aux_app sep b : forall a cur, exists p0 pre,
  split_on_aux sep (a ++ sep :: b) cur = (p0 :: pre) ++ split_on_aux sep b [].
Proof.
  induction a as [|x a IH]; intros cur; cbn [app split_on_aux].
  - rewrite N.eqb_refl. exists (rev cur), []. reflexivity.
  - destruct (N.eqb x sep).
    + destruct (IH []) as [p0 [pre E]]. exists (rev cur), (p0 :: pre). rewrite E. reflexivity.
    + apply IH.
Qed.

Lemma split_userinfo ui host : no_at host = true -> exists p0 pre,
  split_on AT (ui ++ AT :: host) = p0 :: pre ++ [host].
Proof.
  unfold no_at. intros H. apply negb_true_iff in H.
  destruct (split_aux_app AT host ui []) as [p0 [pre E]].
  exists p0, pre. unfold split_on. rewrite E, (split_aux_no_sep AT host [] H). reflexivity.
Qed.

(* whatever the userinfo is (it may itself contain @), only the marker is left *)
Lemma userinfo_replaced r ui host : no_at host = true ->
  sanitize_netloc r (ui ++ AT :: host) = r ++ AT :: host.
Proof.
  intros H. destruct (split_userinfo ui host H) as [p0 [pre E]].
  unfold sanitize_netloc. rewrite E.
  destruct pre as [|p1 rest]; cbn [app]; [reflexivity|].
  change (p1 :: rest ++ [host]) with ((p1 :: rest) ++ [host]). rewrite last_last. reflexivity.
Qed.

Lemma netloc_public_userinfo ui host : no_at host = true -> netloc_public (ui ++ AT :: host) = (true, host).
Proof.
  intros H. destruct (split_userinfo ui host H) as [p0 [pre E]].
  unfold netloc_public. rewrite E.
  destruct pre as [|p1 rest]; cbn [app]; [reflexivity|].
  change (p1 :: rest ++ [host]) with ((p1 :: rest) ++ [host]). rewrite last_last. reflexivity.
Qed.

Lemma netloc_no_userinfo r n : no_at n = true -> sanitize_netloc r n = n.
Proof.
  unfold no_at, sanitize_netloc, split_on. intros H. apply negb_true_iff in H.
  rewrite (split_aux_no_sep AT n [] H). reflexivity.
Qed.

Lemma sanitize_netloc_public r n :
  sanitize_netloc r n = (if fst (netloc_public n) then r ++ [AT] ++ snd (netloc_public n) else snd (netloc_public n)).
Proof.
  unfold sanitize_netloc, netloc_public. destruct (split_on AT n) as [|p0 [|p1 rest]]; reflexivity.
Qed.

Lemma url_noninterference c u u' : url_public c u = url_public c u' -> sanitize_url c u = sanitize_url c u'.
Proof.
  unfold url_public, sanitize_url. intros E. inversion E as [[E1 E2 E3 E4 E5]].
  rewrite !sanitize_netloc_public, E1, E2, E3, E5, (mdict_ni c _ _ E4). reflexivity.
Qed.

Lemma forallb_flat_map {A B} (P : B -> bool) (f : A -> list B) l :
  forallb P (flat_map f l) = forallb (fun x => forallb P (f x)) l.
Proof. induction l as [|x l IH]; [reflexivity|]. cbn [flat_map forallb]. rewrite forallb_app, IH. reflexivity. Qed.

Lemma url_query_clean c u : query_clean c (u_query (sanitize_url c u)) = true.
Proof.
  unfold sanitize_url, query_clean, flatten_query, sanitize_mdict. cbn [u_query].
  rewrite forallb_flat_map. apply forallb_forall. intros [k vs] Hin.
  apply in_map_iff in Hin. destruct Hin as [[k0 vs0] [E _]]. inversion E; subst.
  destruct (is_sensitive c k) eqn:Ek.
  - cbn [map forallb]. rewrite Ek, str_eqb_refl. reflexivity.
  - apply forallb_forall. intros [k1 v1] Hin1. apply in_map_iff in Hin1. destruct Hin1 as [v [Ev _]].
    inversion Ev; subst. rewrite Ek. reflexivity.
Qed.

(* pairs that differ only in the values of sensitive names have the same public grouping *)
Lemma add_value_public c k v v' : forall g g',
  (is_sensitive c k = false -> v = v') ->
  erase_mdict c g = erase_mdict c g' ->
  erase_mdict c (add_value k v g) = erase_mdict c (add_value k v' g').
Proof.
  induction g as [|[k1 vs] g IH]; intros [|[k1' vs'] g'] Hv E; cbn [erase_mdict map] in E; try discriminate.
  - cbn. destruct (is_sensitive c k) eqn:Ek; [reflexivity | rewrite (Hv eq_refl); reflexivity].
  - inversion E as [[Ek1 Evs Eg]]. subst k1'. cbn [add_value].
    destruct (str_eqb k k1) eqn:Ekk.
    + apply str_eqb_spec in Ekk. subst k1. cbn [erase_mdict map]. f_equal; [|exact Eg].
      destruct (is_sensitive c k) eqn:Ek; [reflexivity|]. rewrite (Hv eq_refl). inversion Evs. reflexivity.
    + cbn [erase_mdict map]. f_equal; [f_equal; exact Evs|]. apply IH; assumption.
Qed.

Lemma group_public_gen c : forall q q' g g',
  erase_sdict c q = erase_sdict c q' -> erase_mdict c g = erase_mdict c g' ->
  erase_mdict c (fold_left (fun g kv => add_value (fst kv) (snd kv) g) q g) =
  erase_mdict c (fold_left (fun g kv => add_value (fst kv) (snd kv) g) q' g').
Proof.
  induction q as [|[k v] q IH]; intros [|[k' v'] q'] g g' Eq Eg; cbn [erase_sdict map] in Eq; try discriminate.
  - exact Eg.
  - inversion Eq as [[Ek Ev Er]]. subst k'. cbn [fold_left fst snd]. apply IH; [exact Er|].
    apply add_value_public; [|exact Eg]. intros Hs. rewrite Hs in Ev. exact Ev.
Qed.

Lemma group_public c q q' :
  erase_sdict c q = erase_sdict c q' -> erase_mdict c (group_query q) = erase_mdict c (group_query q').
Proof. intros E. apply group_public_gen; [exact E | reflexivity]. Qed.

(* the user-level statement: same scheme/host/path/fragment, any userinfo, query pairs equal
   except for the values of sensitive names *)
Lemma url_secrets_erased c sch ui ui' host path q q' frag :
  no_at host = true -> erase_sdict c q = erase_sdict c q' ->
  sanitize_url c {| u_scheme := sch; u_netloc := ui ++ AT :: host; u_path := path; u_query := q; u_fragment := frag |} =
  sanitize_url c {| u_scheme := sch; u_netloc := ui' ++ AT :: host; u_path := path; u_query := q'; u_fragment := frag |}.
Proof.
  intros Hh Eq. apply url_noninterference. unfold url_public. cbn [u_scheme u_netloc u_path u_query u_fragment].
  rewrite !netloc_public_userinfo by exact Hh. rewrite (group_public c q q' Eq). reflexivity.
Qed.

(* ------------------------------------------------------------------ channels: VCR, HAR *)

Lemma map_congr {A B C} (f : A -> B) (g : A -> C) :
  (forall x y, f x = f y -> g x = g y) -> forall l l', map f l = map f l' -> map g l = map g l'.
Proof.
  intros H. induction l as [|x l IH]; intros [|y l'] E; cbn [map] in *; try discriminate; [reflexivity|].
  inversion E as [[E1 E2]]. rewrite (H x y E1), (IH l' E2). reflexivity.
Qed.

Lemma option_map_ni c (o o' : option mdict) :
  option_map (erase_mdict c) o = option_map (erase_mdict c) o' ->
  option_map (sanitize_mdict c) o = option_map (sanitize_mdict c) o'.
Proof.
  destruct o, o'; cbn; intros E; try discriminate; [|reflexivity].
  inversion E as [E1]. rewrite (mdict_ni c _ _ E1). reflexivity.
Qed.

Lemma vcr_entry_ni c i i' : interaction_public c i = interaction_public c i' -> vcr_entry true c i = vcr_entry true c i'.
Proof.
  unfold interaction_public, vcr_entry. intros E.
  assert (E1 := f_equal (fun t => fst (fst (fst t))) E). assert (E2 := f_equal (fun t => snd (fst (fst t))) E).
  assert (E3 := f_equal (fun t => snd (fst t)) E). assert (E4 := f_equal (fun t => snd t) E).
  cbn [fst snd] in E1, E2, E3, E4.
  rewrite (url_noninterference c _ _ E1), (mdict_ni c _ _ E2), (option_map_ni c _ _ E3), E4. reflexivity.
Qed.

Lemma har_entry_of_vcr parse san c b i :
  har_entry parse san c b i = har_of parse (vcr_entry san c i) b (i_req_headers i) (i_resp_headers i).
Proof. reflexivity. Qed.

(* before repo fix 8fd7266e the HAR writer raised on every entry whose URL had userinfo (default marker) *)
Lemma har_before_fix_raises parse b ui host i :
  no_at host = true -> u_netloc (i_uri i) = ui ++ AT :: host -> har_entry_before_8fd7266e parse true default_config b i = None.
Proof.
  intros Hh Hn. unfold har_entry_before_8fd7266e, vcr_entry, har_of_before_8fd7266e, sanitize_url. cbn [u_netloc].
  rewrite Hn, (userinfo_replaced _ ui host Hh). reflexivity.
Qed.

Lemma first_values_some h : values_nonempty h = true -> exists t, first_values h = Some t.
Proof.
  induction h as [|[k vs] h IH]; cbn [values_nonempty forallb first_values snd fst]; intros H; [eexists; reflexivity|].
  apply andb_true_iff in H. destruct H as [H1 H2]. destruct vs as [|v vs]; [discriminate|].
  destruct (IH H2) as [t ->]. eexists; reflexivity.
Qed.

Lemma values_nonempty_sanitize c h : values_nonempty h = true -> values_nonempty (sanitize_mdict c h) = true.
Proof.
  unfold values_nonempty, sanitize_mdict. induction h as [|[k vs] h IH]; [reflexivity|].
  cbn [map forallb snd]. intros H. apply andb_true_iff in H. destruct H as [H1 H2].
  rewrite (IH H2), andb_true_r. destruct (is_sensitive c k); [reflexivity | exact H1].
Qed.

(* now: the entry is written; its URL carries the marker instead of the userinfo, and every query
   record with a sensitive name carries the marker *)
Lemma har_userinfo_entry_written parse b c ui host i :
  no_at host = true -> u_netloc (i_uri i) = ui ++ AT :: host -> headers_have_values i = true ->
  exists e, har_entry parse true c b i = Some e /\ u_netloc (h_url e) = repl c ++ AT :: host /\
            h_url e = sanitize_url c (i_uri i) /\ query_clean c (h_query e) = true.
Proof.
  intros Hh Hn Hv. unfold headers_have_values in Hv. apply andb_true_iff in Hv. destruct Hv as [Hq Hs].
  unfold har_entry, vcr_entry, har_of, har_body.
  destruct (first_values_some _ (values_nonempty_sanitize c _ Hq)) as [rqf ->].
  destruct (i_resp_headers i) as [rs|]; cbn [option_map].
  - destruct (first_values_some _ (values_nonempty_sanitize c _ Hs)) as [rsf ->].
    eexists. split; [reflexivity|]. cbn [h_url h_query]. repeat split.
    + unfold sanitize_url. cbn [u_netloc]. rewrite Hn. apply userinfo_replaced. exact Hh.
    + apply url_query_clean.
  - eexists. split; [reflexivity|]. cbn [h_url h_query]. repeat split.
    + unfold sanitize_url. cbn [u_netloc]. rewrite Hn. apply userinfo_replaced. exact Hh.
    + apply url_query_clean.
Qed.

(* one concrete interaction: old code raises, current code writes the redacted entry *)
Definition w_har_interaction : interaction :=
  {| i_uri := {| u_scheme := [104;116;116;112]%N; u_netloc := [117;58;112;64;104]%N; u_path := [47]%N;
                 u_query := [([116;111;107;101;110]%N, [115]%N)]; u_fragment := [] |};
     i_req_headers := [(s_Authorization, [[115]%N])]; i_resp_headers := None; i_open := [] |}.

Lemma har_fix_witness :
  har_entry_before_8fd7266e simple_cookie true default_config false w_har_interaction = None /\
  exists e, har_entry simple_cookie true default_config false w_har_interaction = Some e /\
            u_netloc (h_url e) = default_repl ++ [64;104]%N /\
            h_query e = [([116;111;107;101;110]%N, default_repl)] /\
            h_req_headers e = [(s_Authorization, default_repl)].
Proof. split; [vm_compute; reflexivity|]. eexists. split; [vm_compute; reflexivity|]. repeat split. Qed.

(* ---- noninterference of the HAR entry *)

(* everything except the two mimeType fields is a function of the VCR entry *)
Lemma har_body_sans_mime parse uri rq rs op b raw_rq raw_rs :
  option_map entry_sans_mime (har_body parse uri rq rs op b raw_rq raw_rs) =
  option_map entry_sans_mime (har_body parse uri rq rs op false [] None).
Proof.
  unfold har_body. destruct (first_values rq) as [rqf|]; [|reflexivity].
  destruct rs as [rsh|]; [|reflexivity]. destruct (first_values rsh) as [rsf|]; reflexivity.
Qed.

Lemma har_entry_sans_mime_ni parse c b b' i i' :
  interaction_public c i = interaction_public c i' ->
  option_map entry_sans_mime (har_entry parse true c b i) = option_map entry_sans_mime (har_entry parse true c b' i').
Proof.
  intros E. rewrite !har_entry_of_vcr, (vcr_entry_ni c i i' E). unfold har_of.
  destruct (vcr_entry true c i') as [[[uri rq] rs] op].
  rewrite har_body_sans_mime. symmetry. rewrite har_body_sans_mime. reflexivity.
Qed.

Lemma entry_cookies_of_sans_mime e e' : entry_sans_mime e = entry_sans_mime e' -> entry_cookies e = entry_cookies e'.
Proof.
  unfold entry_sans_mime, entry_cookies. intros E. inversion E as [[E1 E2 E3 E4 E5 E6]]. rewrite E4. f_equal.
  destruct (h_resp e) as [r|], (h_resp e') as [r'|]; cbn [option_map] in E5; try discriminate; [|reflexivity].
  inversion E5. reflexivity.
Qed.

(* the cookies arrays in particular *)
Lemma har_cookies_ni parse c b b' i i' :
  interaction_public c i = interaction_public c i' ->
  option_map entry_cookies (har_entry parse true c b i) = option_map entry_cookies (har_entry parse true c b' i').
Proof.
  intros E. assert (H := har_entry_sans_mime_ni parse c b b' i i' E).
  destruct (har_entry parse true c b i) as [e|], (har_entry parse true c b' i') as [e'|]; cbn [option_map] in *; try discriminate; [|reflexivity].
  assert (H1 : entry_sans_mime e = entry_sans_mime e') by congruence. rewrite (entry_cookies_of_sans_mime e e' H1). reflexivity.
Qed.

Lemma assoc_get_erase_mdict c k h : is_sensitive c k = false -> assoc_get k (erase_mdict c h) = assoc_get k h.
Proof.
  intros Hk. induction h as [|[k' vs] h IH]; [reflexivity|]. cbn [erase_mdict map assoc_get].
  destruct (str_eqb k k') eqn:Ek.
  - apply str_eqb_spec in Ek. subst k'. rewrite Hk. reflexivity.
  - exact IH.
Qed.

Lemma mime_public c h h' : content_type_public c = true -> erase_mdict c h = erase_mdict c h' -> mime_of h = mime_of h'.
Proof.
  unfold content_type_public. intros Hc E. apply negb_true_iff in Hc. unfold mime_of, dict_get.
  rewrite <- (assoc_get_erase_mdict c _ h Hc), <- (assoc_get_erase_mdict c _ h' Hc), E. reflexivity.
Qed.

(* the whole entry, mimeType fields included, where the Content-Type header is not itself sensitive *)
Lemma har_entry_ni parse c b i i' :
  content_type_public c = true ->
  interaction_public c i = interaction_public c i' -> har_entry parse true c b i = har_entry parse true c b i'.
Proof.
  intros Hc E. rewrite !har_entry_of_vcr, (vcr_entry_ni c i i' E).
  unfold interaction_public in E.
  assert (E2 := f_equal (fun t => snd (fst (fst t))) E). assert (E3 := f_equal (fun t => snd (fst t)) E).
  cbn [fst snd] in E2, E3.
  unfold har_of. destruct (vcr_entry true c i') as [[[uri rq] rs] op]. unfold har_body.
  rewrite (mime_public c _ _ Hc E2).
  destruct (i_resp_headers i) as [h|], (i_resp_headers i') as [h'|]; cbn [option_map] in E3; try discriminate; [|reflexivity].
  inversion E3 as [E3']. rewrite (mime_public c _ _ Hc E3'). reflexivity.
Qed.

(* ... and outside that region the mimeType of the request body shows the recorded Content-Type value *)
Definition w_mime_cfg : config := extend default_config (Some [s_ContentType]) None.
Definition w_mime_interaction (secret : N) : interaction :=
  {| i_uri := {| u_scheme := [104]%N; u_netloc := [104]%N; u_path := []; u_query := []; u_fragment := [] |};
     i_req_headers := [(s_ContentType, [[secret]])]; i_resp_headers := None; i_open := [] |}.

Lemma har_mime_leaks :
  content_type_public w_mime_cfg = false /\
  interaction_public w_mime_cfg (w_mime_interaction 65) = interaction_public w_mime_cfg (w_mime_interaction 66) /\
  (exists e, har_entry simple_cookie true w_mime_cfg true (w_mime_interaction 65) = Some e /\
             h_req_headers e = [(s_ContentType, default_repl)] /\ h_post_mime e = Some [65]%N) /\
  har_entry simple_cookie true w_mime_cfg true (w_mime_interaction 65) <>
  har_entry simple_cookie true w_mime_cfg true (w_mime_interaction 66).
Proof.
  split; [vm_compute; reflexivity|]. split; [vm_compute; reflexivity|]. split.
  - eexists. split; [vm_compute; reflexivity|]. split; reflexivity.
  - vm_compute. discriminate.
Qed.

(* ---- the cookies arrays *)

Lemma dict_get_sanitize_mdict c k h :
  dict_get k (sanitize_mdict c h) =
  if is_sensitive c k then (if assoc_mem k h then [repl c] else []) else dict_get k h.
Proof.
  unfold dict_get, assoc_mem. induction h as [|[k' vs] h IH]; cbn [sanitize_mdict map assoc_get].
  - destruct (is_sensitive c k); reflexivity.
  - destruct (str_eqb k k') eqn:Ek.
    + apply str_eqb_spec in Ek. subst k'. destruct (is_sensitive c k); reflexivity.
    + exact IH.
Qed.

(* with sanitization on and a sensitive Cookie / Set-Cookie header name, the arrays are built from the MARKER:
   a function of the configuration and of the presence of the header, whatever the header carried *)
Lemma har_cookies_from_marker parse c b i e :
  har_entry parse true c b i = Some e ->
  (is_sensitive c s_Cookie = true ->
   h_req_cookies e = if assoc_mem s_Cookie (i_req_headers i) then har_cookies parse [repl c] else []) /\
  (is_sensitive c s_SetCookie = true ->
   forall r h, h_resp e = Some r -> i_resp_headers i = Some h ->
   hr_cookies r = if assoc_mem s_SetCookie h then har_cookies parse [repl c] else []).
Proof.
  unfold har_entry, vcr_entry, har_of, har_body.
  destruct (first_values (sanitize_mdict c (i_req_headers i))) as [rqf|]; [|discriminate].
  destruct (i_resp_headers i) as [rs|]; cbn [option_map].
  - destruct (first_values (sanitize_mdict c rs)) as [rsf|]; [|discriminate].
    intros E. injection E as <-. cbn [h_req_cookies h_resp]. split.
    + intros Hs. rewrite dict_get_sanitize_mdict, Hs. destruct (assoc_mem s_Cookie (i_req_headers i)); reflexivity.
    + intros Hs r h Er Eh. inversion Er. inversion Eh. subst. cbn [hr_cookies].
      rewrite dict_get_sanitize_mdict, Hs. destruct (assoc_mem s_SetCookie h); reflexivity.
  - intros E. injection E as <-. cbn [h_req_cookies h_resp]. split.
    + intros Hs. rewrite dict_get_sanitize_mdict, Hs. destruct (assoc_mem s_Cookie (i_req_headers i)); reflexivity.
    + intros _ r h Er. discriminate.
Qed.

(* the quirk of _extract_cookies: a parser that finds no cookie in a single character finds none at all,
   sanitization on or off *)
Lemma har_cookies_nil parse vs : (forall ch, parse [ch] = []) -> har_cookies parse vs = [].
Proof.
  intros Hp. unfold har_cookies. induction vs as [|v vs IH]; [reflexivity|]. cbn [flat_map]. rewrite IH, app_nil_r.
  induction v as [|ch v IHv]; [reflexivity|]. cbn [flat_map]. rewrite Hp, IHv. reflexivity.
Qed.

Lemma har_entry_cookies_empty parse san c b i e :
  (forall ch, parse [ch] = []) -> har_entry parse san c b i = Some e -> entry_cookies e = ([], []).
Proof.
  intros Hp. unfold har_entry, har_of. destruct (vcr_entry san c i) as [[[uri rq] rs] op]. unfold har_body.
  destruct (first_values rq) as [rqf|]; [|discriminate].
  destruct rs as [rsh|].
  - destruct (first_values rsh) as [rsf|]; [|discriminate]. intros E. injection E as <-.
    unfold entry_cookies. cbn [h_req_cookies h_resp hr_cookies]. rewrite !har_cookies_nil by exact Hp. reflexivity.
  - intros E. injection E as <-. unfold entry_cookies. cbn [h_req_cookies h_resp].
    rewrite har_cookies_nil by exact Hp. reflexivity.
Qed.

(* the modelled SimpleCookie fragment satisfies that contract for every character *)
Lemma strip_sp_char ch : strip [SP] [ch] = if N.eqb ch SP then [] else [ch].
Proof.
  unfold strip. cbn [strip_left]. unfold mem. cbn [existsb]. rewrite orb_false_r.
  destruct (N.eqb ch SP) eqn:E; [reflexivity|]. cbn [rev app strip_left]. unfold mem. cbn [existsb]. rewrite E. reflexivity.
Qed.

Lemma simple_cookie_char ch : simple_cookie [ch] = [].
Proof.
  unfold simple_cookie, split_on. cbn [split_on_aux].
  destruct (N.eqb ch SEMI) eqn:E1; [reflexivity|].
  cbn [split_on_aux rev app parse_items]. rewrite strip_sp_char.
  destruct (N.eqb ch SP) eqn:E2; [reflexivity|]. cbn [cut_at].
  destruct (N.eqb ch EQS) eqn:E3; reflexivity.
Qed.

(* SENTINEL variant (cookies parsed from the recorded header values, redacted by cookie name): leaks *)
Definition s_sid : str := [115;105;100]%N.
Definition w_cookie_interaction (secret : N) : interaction :=
  {| i_uri := {| u_scheme := [104]%N; u_netloc := [104]%N; u_path := []; u_query := []; u_fragment := [] |};
     i_req_headers := [(s_Cookie, [ s_sid ++ [EQS; secret] ++ [59;32;116;104;101;109;101;61;100]%N (* ; theme=d *) ])];
     i_resp_headers := Some [(s_set_cookie_lc, [ s_sid ++ [EQS; secret] ++ [59;32;80;97;116;104;61;47]%N (* ; Path=/ *) ])];
     i_open := [] |}.

Lemma har_raw_cookies_leaks :
  interaction_public default_config (w_cookie_interaction 65) = interaction_public default_config (w_cookie_interaction 66) /\
  har_entry simple_cookie true default_config false (w_cookie_interaction 65) =
  har_entry simple_cookie true default_config false (w_cookie_interaction 66) /\
  (exists e r, har_entry_raw_cookies simple_cookie true default_config false (w_cookie_interaction 65) = Some e /\
               h_req_headers e = [(s_Cookie, default_repl)] /\
               h_req_cookies e = [new_cookie s_sid [65]%N; new_cookie [116;104;101;109;101]%N [100]%N] /\
               h_resp e = Some r /\ hr_headers r = [(s_set_cookie_lc, default_repl)] /\
               hr_cookies r = [set_attr s_path [47]%N false (new_cookie s_sid [65]%N)]) /\
  har_entry_raw_cookies simple_cookie true default_config false (w_cookie_interaction 65) <>
  har_entry_raw_cookies simple_cookie true default_config false (w_cookie_interaction 66).
Proof.
  split; [vm_compute; reflexivity|]. split; [vm_compute; reflexivity|]. split.
  - eexists. eexists. split; [vm_compute; reflexivity|]. repeat split.
  - vm_compute. discriminate.
Qed.

(* the sentinel does redact a cookie whose own name is sensitive - which is why it looks right on sessionid *)
Lemma har_raw_cookies_sensitive_name parse c vs ck :
  In ck (raw_cookies parse true c vs) -> is_sensitive c (ck_name ck) = true -> ck_value ck = repl c.
Proof.
  unfold raw_cookies, redact_cookies. intros Hin Hs. apply in_map_iff in Hin. destruct Hin as [x [Hx _]].
  destruct (is_sensitive c (ck_name x)) eqn:Ex; subst ck.
  - reflexivity.
  - cbn in Hs. rewrite Ex in Hs. discriminate.
Qed.

Lemma vcr_file_ni_same_argv c argv0 args is_ is_' :
  map (interaction_public c) is_ = map (interaction_public c) is_' ->
  vcr_file true c argv0 args is_ = vcr_file true c argv0 args is_'.
Proof.
  intros E. unfold vcr_file. f_equal. revert E. apply map_congr. apply vcr_entry_ni.
Qed.

(* witnesses: -H with an Authorization header whose value differs *)
Definition w_args (secret : N) : list str :=
  [ [45;72]%N; ([65;117;116;104;111;114;105;122;97;116;105;111;110;58;32]%N ++ [secret]) ].

Lemma vcr_command_leaks :
  args_public default_config (w_args 65) = args_public default_config (w_args 66) /\
  vcr_command s_st (w_args 65) <> vcr_command s_st (w_args 66).
Proof. split; [vm_compute; reflexivity | vm_compute; discriminate]. Qed.

Lemma vcr_file_leaks :
  args_public default_config (w_args 65) = args_public default_config (w_args 66) /\
  vcr_file true default_config s_st (w_args 65) [] <> vcr_file true default_config s_st (w_args 66) [].
Proof. split; [vm_compute; reflexivity | vm_compute; discriminate]. Qed.

(* non-vacuity of the public view of argv: an ordinary argument is kept *)
Example args_public_keeps : args_public default_config [[45;72]%N; [88;45;65;58;32;49]%N] = [[45;72]%N; [88;45;65;58;32;49]%N].
Proof. vm_compute. reflexivity. Qed.

(* ------------------------------------------------------------------ channel: curl sample *)

Lemma is_sensitive_lower c k k' : lower_ascii k = lower_ascii k' -> is_sensitive c k = is_sensitive c k'.
Proof. unfold is_sensitive. intros ->. reflexivity. Qed.

Lemma has_header_sanitize c name h : has_header name (sanitize_sdict c h) = has_header name h.
Proof.
  unfold has_header, sanitize_sdict. induction h as [|[k v] h IH]; [reflexivity|].
  cbn [map existsb fst]. rewrite IH. reflexivity.
Qed.

Lemma sanitize_all_sensitive c ck :
  forallb (fun kv => is_sensitive c (fst kv)) ck = true ->
  sanitize_sdict c ck = map (fun kv => (fst kv, repl c)) ck.
Proof.
  induction ck as [|[k v] ck IH]; [reflexivity|]. cbn [forallb fst]. intros H.
  apply andb_true_iff in H. destruct H as [H1 H2]. cbn [sanitize_sdict map fst].
  rewrite H1. f_equal. apply IH. exact H2.
Qed.

Lemma names_eq_map (ck ck' : sdict) (r : str) :
  map (fun kv : str * str => (fst kv, @nil N)) ck = map (fun kv : str * str => (fst kv, @nil N)) ck' ->
  map (fun kv : str * str => (fst kv, r)) ck = map (fun kv : str * str => (fst kv, r)) ck'.
Proof.
  apply map_congr. intros x y E. inversion E as [E1]. rewrite E1. reflexivity.
Qed.

Lemma requests_prepare_header_present n h ck ck' :
  has_header s_Cookie h = true -> requests_prepare n h ck None = requests_prepare n h ck' None.
Proof. unfold requests_prepare, requests_prepare_core. intros ->. destruct ck, ck'; reflexivity. Qed.

Lemma curl_ni c k k' :
  kwargs_public c k = kwargs_public c k' ->
  no_request_auth k = true -> no_request_auth k' = true ->
  cookies_covered c k = true -> cookies_covered c k' = true ->
  curl_view true c k = curl_view true c k'.
Proof.
  unfold kwargs_public, curl_view, no_request_auth, cookies_covered, cookies_public.
  intros E Ha Ha' Hc Hc'.
  assert (E1 := f_equal (fun t => fst (fst (fst (fst (fst t))))) E).
  assert (E2 := f_equal (fun t => snd (fst (fst (fst (fst t))))) E).
  assert (E3 := f_equal (fun t => snd (fst (fst (fst t)))) E).
  assert (E4 := f_equal (fun t => snd (fst (fst t))) E).
  assert (E6 := f_equal (fun t => snd t) E).
  cbn [fst snd] in E1, E2, E3, E4, E6. clear E.
  destruct (k_auth k); [discriminate|]. destruct (k_auth k'); [discriminate|].
  rewrite (url_noninterference c _ _ E1), (sdict_ni c _ _ E2), E6.
  assert (Ep : sanitize c (JObj (k_params k)) = sanitize c (JObj (k_params k'))).
  { rewrite <- (sanitize_erase c (JObj (k_params k))), E4. apply sanitize_erase. }
  rewrite Ep. f_equal. f_equal.
  destruct (is_sensitive c s_Cookie) eqn:Es.
  - cbn [negb orb] in Hc, Hc'.
    destruct (has_header s_Cookie (sanitize_sdict c (k_headers k'))) eqn:Eh.
    + apply requests_prepare_header_present. exact Eh.
    + rewrite has_header_sanitize in Eh.
      assert (Eh0 : has_header s_Cookie (k_headers k) = false).
      { rewrite <- (has_header_sanitize c), (sdict_ni c _ _ E2), has_header_sanitize. exact Eh. }
      destruct (k_cookies k) as [|x ck] eqn:Ck; destruct (k_cookies k') as [|x' ck'] eqn:Ck';
        try discriminate; [reflexivity|].
      rewrite Eh0 in Hc. rewrite Eh in Hc'. cbn [orb] in Hc, Hc'.
      rewrite (sanitize_all_sensitive c _ Hc), (sanitize_all_sensitive c _ Hc').
      rewrite (names_eq_map _ _ (repl c) E3). reflexivity.
  - rewrite (sdict_ni c _ _ E3). reflexivity.
Qed.

(* witnesses *)
Definition w_url : url :=
  {| u_scheme := [104;116;116;112]%N; u_netloc := [104]%N; u_path := [47]%N; u_query := []; u_fragment := [] |}.
Definition w_kwargs_auth (p : N) : case_kwargs :=
  {| k_url := w_url; k_headers := [(s_Authorization, [p])]; k_cookies := []; k_params := [];
     k_auth := Some ([117]%N, [p]); k_open := [] |}.
Definition w_kwargs_cookie (p : N) : case_kwargs :=
  {| k_url := w_url; k_headers := []; k_cookies := [([83;73;68]%N, [p])]; k_params := [];
     k_auth := None; k_open := [] |}.
Definition w_kwargs_ok (p : N) : case_kwargs :=
  {| k_url := w_url; k_headers := [(s_Authorization, [p]); (s_Cookie, [p])]; k_cookies := [([83;73;68]%N, [p])];
     k_params := [([116;111;107;101;110]%N, JStr [p])]; k_auth := None; k_open := [] |}.

Lemma curl_leaks_auth :
  kwargs_public default_config (w_kwargs_auth 65) = kwargs_public default_config (w_kwargs_auth 66) /\
  cookies_covered default_config (w_kwargs_auth 65) = true /\ cookies_covered default_config (w_kwargs_auth 66) = true /\
  curl_view true default_config (w_kwargs_auth 65) <> curl_view true default_config (w_kwargs_auth 66).
Proof. repeat split; try (vm_compute; reflexivity). vm_compute. discriminate. Qed.

Lemma curl_leaks_cookie :
  kwargs_public default_config (w_kwargs_cookie 65) = kwargs_public default_config (w_kwargs_cookie 66) /\
  no_request_auth (w_kwargs_cookie 65) = true /\ no_request_auth (w_kwargs_cookie 66) = true /\
  curl_view true default_config (w_kwargs_cookie 65) <> curl_view true default_config (w_kwargs_cookie 66).
Proof. repeat split; try (vm_compute; reflexivity). vm_compute. discriminate. Qed.

Example curl_ni_nonvacuous :
  kwargs_public default_config (w_kwargs_ok 65) = kwargs_public default_config (w_kwargs_ok 66) /\
  no_request_auth (w_kwargs_ok 65) = true /\ cookies_covered default_config (w_kwargs_ok 65) = true /\
  w_kwargs_ok 65 <> w_kwargs_ok 66 /\
  curl_view true default_config (w_kwargs_ok 65) = curl_view true default_config (w_kwargs_ok 66).
Proof. repeat split; try (vm_compute; reflexivity). vm_compute. discriminate. Qed.

(* ------------------------------------------------------------------ JUnit message, console *)

Lemma failure_message_ni c f k k' :
  kwargs_public c k = kwargs_public c k' ->
  no_request_auth k = true -> no_request_auth k' = true ->
  cookies_covered c k = true -> cookies_covered c k' = true ->
  failure_message true c f k = failure_message true c f k'.
Proof. intros. unfold failure_message. f_equal. apply curl_ni; assumption. Qed.

Definition w_location (p : N) : url :=
  {| u_scheme := [104;116;116;112]%N; u_netloc := [117;58;p;64;104]%N; u_path := [47]%N; u_query := []; u_fragment := [] |}.

Lemma console_leaks_location :
  url_public default_config (w_location 65) = url_public default_config (w_location 66) /\
  console_view true default_config (w_location 65) [] <> console_view true default_config (w_location 66) [].
Proof. split; [vm_compute; reflexivity | vm_compute; discriminate]. Qed.

Lemma cons_inj {A} (x y : A) l l' : x :: l = y :: l' -> x = y /\ l = l'.
Proof. intros E. inversion E. split; reflexivity. Qed.

Lemma console_ni c loc fs fs' :
  map fst fs = map fst fs' ->
  map (fun fk => kwargs_public c (snd fk)) fs = map (fun fk => kwargs_public c (snd fk)) fs' ->
  forallb (fun fk => no_request_auth (snd fk) && cookies_covered c (snd fk)) fs = true ->
  forallb (fun fk => no_request_auth (snd fk) && cookies_covered c (snd fk)) fs' = true ->
  console_view true c loc fs = console_view true c loc fs'.
Proof.
  unfold console_view. intros E1 E2 H H'. f_equal. revert fs' E1 E2 H H'.
  induction fs as [|[f k] fs IH]; intros [|[f' k'] fs'] E1 E2 H H'; cbn [map fst snd forallb] in *; try discriminate; [reflexivity|].
  apply cons_inj in E1. destruct E1 as [Ef E1']. apply cons_inj in E2. destruct E2 as [Ek E2']. subst f'.
  apply andb_true_iff in H. destruct H as [G1 G2]. apply andb_true_iff in G1. destruct G1 as [Ha Hc].
  apply andb_true_iff in H'. destruct H' as [G1' G2']. apply andb_true_iff in G1'. destruct G1' as [Ha' Hc'].
  rewrite (failure_message_ni c f k k' Ek Ha Ha' Hc Hc'), (IH fs' E1' E2' G2 G2'). reflexivity.
Qed.

(* ------------------------------------------------------------------ sanitization off *)

Lemma off_identity c i k f loc fs argv0 args is_ :
  vcr_entry false c i = (i_uri i, i_req_headers i, i_resp_headers i, i_open i) /\
  (forall parse b, har_entry parse false c b i = har_of parse (i_uri i, i_req_headers i, i_resp_headers i, i_open i) b (i_req_headers i) (i_resp_headers i)) /\
  curl_view false c k = (k_url k, k_params k, requests_prepare (u_netloc (k_url k)) (k_headers k) (k_cookies k) (k_auth k), k_open k) /\
  failure_message false c f k = (f, curl_view false c k) /\
  console_view false c loc fs = (loc, map (fun fk => (fst fk, curl_view false c (snd fk))) fs) /\
  vcr_file false c argv0 args is_ = (vcr_command argv0 args, map (fun i => (i_uri i, i_req_headers i, i_resp_headers i, i_open i)) is_).
Proof. repeat split; reflexivity. Qed.

(* ------------------------------------------------------------------ non-vacuity examples *)

Definition s_token : str := [116;111;107;101;110]%N.
Definition ex_tree (secret : N) : json :=
  JObj [ ([88;45;65;85;84;72]%N (* X-AUTH *), JStr [secret]);
         ([97]%N, JArr [ JObj [ ([80;97;115;115;87;111;114;100]%N (* PassWord *), JArr [JStr [secret]; JInt 1]) ] ]);
         ([98]%N, JStr [120]%N) ].

Example ex_ni : ex_tree 65 <> ex_tree 66 /\ eq_outside_sensitive default_config (ex_tree 65) (ex_tree 66) = true /\
  sanitize default_config (ex_tree 65) <> ex_tree 65 /\ clean default_config (ex_tree 65) = false.
Proof. repeat split; try (vm_compute; reflexivity); vm_compute; discriminate. Qed.

Example ex_no_sensitive : has_sensitive default_config (JObj [([98]%N, JArr [JStr [120]%N])]) = false.
Proof. vm_compute. reflexivity. Qed.

Example ex_config_differs :
  is_sensitive (extend default_config (Some [[88;45;90]%N]) None) [120;45;122]%N = true /\
  is_sensitive default_config [120;45;122]%N = false /\
  is_redacted (extend default_config (Some [[88;45;90]%N]) None) (JStr [49]%N) = false.
Proof. repeat split; vm_compute; reflexivity. Qed.

Example ex_url :
  sanitize_url default_config
    {| u_scheme := [104]%N; u_netloc := [117;64;112;64;104]%N; u_path := []; u_fragment := [];
       u_query := [([97]%N, [49]%N); (s_token, [50]%N); ([97]%N, [51]%N); (s_token, [52]%N)] |} =
    {| u_scheme := [104]%N; u_netloc := default_repl ++ [64;104]%N; u_path := []; u_fragment := [];
       u_query := [([97]%N, [49]%N); ([97]%N, [51]%N); (s_token, default_repl)] |}.
Proof. vm_compute. reflexivity. Qed.

(* packaged statements used verbatim by Properties_C15 *)
Lemma configure_nothing cfg : from_config cfg None None None = cfg /\ extend cfg None None = cfg.
Proof. split; [apply from_config_none | apply extend_none]. Qed.

Lemma headers_are_sanitize_value cfg h h2 :
  mdict_json (sanitize_mdict cfg h) = sanitize cfg (mdict_json h) /\
  sdict_json (sanitize_sdict cfg h2) = sanitize cfg (sdict_json h2).
Proof. split; [apply sanitize_mdict_json | apply sanitize_sdict_json]. Qed.

Lemma hypotheses_satisfiable :
  (exists t t', t <> t' /\ eq_outside_sensitive default_config t t' = true /\ sanitize default_config t <> t /\ clean default_config t = false) /\
  (exists k k', k <> k' /\ kwargs_public default_config k = kwargs_public default_config k' /\ no_request_auth k = true /\
                cookies_covered default_config k = true /\ curl_view true default_config k = curl_view true default_config k').
Proof.
  split.
  - exists (ex_tree 65), (ex_tree 66). exact ex_ni.
  - exists (w_kwargs_ok 65), (w_kwargs_ok 66).
    destruct curl_ni_nonvacuous as [H1 [H2 [H3 [H4 H5]]]]. repeat split; assumption.
Qed.

(* ================================================================== strengthening after seed C15_e *)


(* ------------------------------------------------------------------ order of sanitization and prepare (seed C15_e) *)

Lemma split_aux_app_full sep b : forall a cur,
  split_on_aux sep (a ++ sep :: b) cur = split_on_aux sep a cur ++ split_on_aux sep b [].
Proof.
  induction a as [|x a IH]; intros cur; cbn [app split_on_aux].
  - rewrite N.eqb_refl. reflexivity.
  - destruct (N.eqb x sep).
    + rewrite IH. reflexivity.
    + apply IH.
Qed.

Lemma split_on_app sep a b : split_on sep (a ++ sep :: b) = split_on sep a ++ split_on sep b.
Proof. unfold split_on. apply split_aux_app_full. Qed.

Lemma split_aux_nonempty sep s : forall cur, split_on_aux sep s cur <> [].
Proof.
  induction s as [|x s IH]; intros cur; cbn [split_on_aux]; [discriminate|].
  destruct (N.eqb x sep); [discriminate | apply IH].
Qed.

Lemma split_on_no_sep sep s : mem sep s = false -> split_on sep s = [s].
Proof. intros H. unfold split_on. rewrite (split_aux_no_sep sep s [] H). reflexivity. Qed.

(* get_auth_from_url reads what is before the LAST @, whatever it contains *)
Lemma url_auth_alt n :
  url_auth n = match split_on AT n with
               | p0 :: p1 :: rest => userinfo_auth (join [AT] (removelast (p0 :: p1 :: rest)))
               | _ => None
               end.
Proof. unfold url_auth, userinfo_auth. destruct (split_on AT n) as [|p0 [|p1 rest]]; reflexivity. Qed.

Lemma match_snoc {B} (F : list str -> option B) (l : list str) (host : str) : l <> [] ->
  match l ++ [host] with
  | p0 :: p1 :: rest => F (removelast (p0 :: p1 :: rest))
  | _ => None
  end = F l.
Proof.
  intros Hl. destruct l as [|a l]; [exfalso; apply Hl; reflexivity|].
  assert (R : removelast ((a :: l) ++ [host]) = a :: l) by apply removelast_last.
  destruct l as [|b r]; cbn [app] in *; rewrite R; reflexivity.
Qed.

Lemma url_auth_userinfo ui host : no_at host = true -> url_auth (ui ++ AT :: host) = userinfo_auth ui.
Proof.
  unfold no_at. intros H. apply negb_true_iff in H.
  rewrite url_auth_alt, split_on_app, (split_on_no_sep AT host H).
  transitivity (userinfo_auth (join [AT] (split_on AT ui))).
  - exact (match_snoc (fun l => userinfo_auth (join [AT] l)) (split_on AT ui) host (split_aux_nonempty AT ui [])).
  - rewrite join_split_on. reflexivity.
Qed.

Lemma userinfo_auth_no_colon r : mem COLON r = false -> userinfo_auth r = None.
Proof. intros H. unfold userinfo_auth. rewrite (split_on_no_sep COLON r H). reflexivity. Qed.

Lemma userinfo_auth_user_pass u p : mem COLON u = false -> (u, p) <> ([], []) -> userinfo_auth (u ++ COLON :: p) = Some (u, p).
Proof.
  intros H Hne. unfold userinfo_auth. rewrite split_on_app, (split_on_no_sep COLON u H).
  assert (J := join_split_on COLON p).
  destruct (split_on COLON p) as [|p0 ps] eqn:E.
  - exfalso. exact (split_aux_nonempty COLON p [] E).
  - cbn [app]. rewrite J. destruct u; [|reflexivity]. destruct p; [|reflexivity]. exfalso. apply Hne. reflexivity.
Qed.

Lemma netloc_of_with_netloc n k : u_netloc (k_url (with_netloc n k)) = n.
Proof. reflexivity. Qed.

(* the current order: the URL is sanitised BEFORE prepare(), so the only thing prepare_auth can read is the marker *)
Lemma curl_userinfo_not_derived c ui host k :
  no_at host = true -> u_netloc (k_url k) = ui ++ AT :: host -> k_auth k = None ->
  view_headers (curl_view true c k) =
    requests_prepare_core (sanitize_sdict c (k_headers k)) (sanitize_sdict c (k_cookies k)) (userinfo_auth (repl c)).
Proof.
  intros H En Ea. unfold view_headers, curl_view. cbn [fst snd]. unfold requests_prepare. rewrite Ea.
  cbn [sanitize_url u_netloc]. rewrite En, (userinfo_replaced (repl c) ui host H), (url_auth_userinfo (repl c) host H).
  reflexivity.
Qed.

Lemma curl_marker_derives_nothing c ui host k :
  no_at host = true -> u_netloc (k_url k) = ui ++ AT :: host -> k_auth k = None -> marker_derives_nothing c = true ->
  view_headers (curl_view true c k) =
    requests_prepare_core (sanitize_sdict c (k_headers k)) (sanitize_sdict c (k_cookies k)) None.
Proof.
  intros H En Ea Hm. rewrite (curl_userinfo_not_derived c ui host k H En Ea).
  unfold marker_derives_nothing in Hm. apply negb_true_iff in Hm. rewrite (userinfo_auth_no_colon _ Hm). reflexivity.
Qed.

(* noninterference in the userinfo, no region: any two userinfos (with @ or : inside, empty, ...) on the same case *)
Lemma curl_ni_userinfo c ui ui' host k : no_at host = true ->
  curl_view true c (with_netloc (ui ++ AT :: host) k) = curl_view true c (with_netloc (ui' ++ AT :: host) k).
Proof.
  intros H. unfold curl_view, with_netloc, sanitize_url. cbn [k_url k_headers k_cookies k_params k_auth k_open u_scheme u_netloc u_path u_query u_fragment].
  rewrite !(userinfo_replaced (repl c) _ host H). reflexivity.
Qed.

Lemma curl_ni_userinfo_rendered c ui ui' host k : no_at host = true ->
  rendered_headers (view_headers (curl_view true c (with_netloc (ui ++ AT :: host) k))) =
  rendered_headers (view_headers (curl_view true c (with_netloc (ui' ++ AT :: host) k))).
Proof. intros H. rewrite (curl_ni_userinfo c ui ui' host k H). reflexivity. Qed.

(* structural: every credential-bearing header name of the view carries exactly the marker *)
Lemma headers_redacted_plain c h :
  headers_redacted c (map (fun kv : str * str => (fst kv, HPlain (snd kv))) (sanitize_sdict c h)) = true.
Proof.
  unfold headers_redacted, sanitize_sdict. induction h as [|[k v] h IH]; [reflexivity|].
  cbn [map forallb fst snd]. rewrite IH, andb_true_r.
  destruct (is_sensitive c k) eqn:E; [apply str_eqb_refl | reflexivity].
Qed.

Lemma headers_redacted_app c a b : headers_redacted c (a ++ b) = headers_redacted c a && headers_redacted c b.
Proof. unfold headers_redacted. apply forallb_app. Qed.

Lemma mem_rev ch l : mem ch (rev l) = mem ch l.
Proof.
  destruct (mem ch l) eqn:E.
  - apply mem_spec. apply -> in_rev. apply mem_spec. exact E.
  - destruct (mem ch (rev l)) eqn:E'; [|reflexivity].
    apply mem_spec in E'. apply in_rev in E'. apply mem_spec in E'. congruence.
Qed.

Lemma split_aux_parts_no_sep sep s : forall cur x,
  mem sep cur = false -> In x (split_on_aux sep s cur) -> mem sep x = false.
Proof.
  induction s as [|ch s IH]; intros cur x Hc Hin; cbn [split_on_aux] in Hin.
  - destruct Hin as [<-|[]]. rewrite mem_rev. exact Hc.
  - destruct (N.eqb ch sep) eqn:Ec.
    + destruct Hin as [<-|Hin]; [rewrite mem_rev; exact Hc|].
      apply (IH [] x); [reflexivity | exact Hin].
    + apply (IH (ch :: cur) x); [|exact Hin]. unfold mem. cbn [existsb]. rewrite N.eqb_sym, Ec. exact Hc.
Qed.

Lemma in_last {A} (l : list A) d : l <> [] -> In (last l d) l.
Proof.
  intros Hl. rewrite (app_removelast_last d Hl) at 2. apply in_or_app. right. left. reflexivity.
Qed.

(* after sanitize_netloc the only userinfo left is the marker *)
Lemma url_auth_sanitized r n : url_auth (sanitize_netloc r n) = if fst (netloc_public n) then userinfo_auth r else None.
Proof.
  unfold sanitize_netloc, netloc_public.
  destruct (split_on AT n) as [|p0 [|p1 rest]] eqn:Es; cbn [fst].
  - rewrite url_auth_alt, Es. reflexivity.
  - rewrite url_auth_alt, Es. reflexivity.
  - assert (Hh : no_at (last (p1 :: rest) p0) = true).
    { unfold no_at. apply negb_true_iff. apply (split_aux_parts_no_sep AT n [] _ eq_refl).
      fold (split_on AT n). rewrite Es. right. apply in_last. discriminate. }
    change (r ++ [AT] ++ last (p1 :: rest) p0) with (r ++ AT :: last (p1 :: rest) p0).
    apply url_auth_userinfo. exact Hh.
Qed.

Lemma curl_headers_redacted c k :
  no_request_auth k = true -> no_cookie_jar_header c k = true -> marker_derives_nothing c = true ->
  headers_redacted c (view_headers (curl_view true c k)) = true.
Proof.
  unfold no_request_auth, no_cookie_jar_header, marker_derives_nothing. intros Ha Hc Hm.
  destruct (k_auth k) eqn:Ea; [discriminate|]. apply negb_true_iff in Hm.
  unfold view_headers, curl_view. cbn [fst snd]. unfold requests_prepare. rewrite Ea.
  cbn [sanitize_url u_netloc]. rewrite url_auth_sanitized, (userinfo_auth_no_colon _ Hm).
  assert (En : (if fst (netloc_public (u_netloc (k_url k))) then @None (str * str) else None) = None) by (destruct (fst _); reflexivity).
  rewrite En. unfold requests_prepare_core.
  destruct (k_cookies k) as [|x ck] eqn:Ck; cbn [sanitize_sdict map]; [apply headers_redacted_plain|].
  rewrite has_header_sanitize.
  destruct (has_header s_Cookie (k_headers k)) eqn:Eh; [apply headers_redacted_plain|].
  rewrite orb_false_r in Hc. apply negb_true_iff in Hc.
  rewrite headers_redacted_app, headers_redacted_plain. unfold headers_redacted. cbn [forallb fst snd]. rewrite Hc. reflexivity.
Qed.

(* ------------------------------------------------------------------ the seeded order (sentinel) *)

Lemma set_header_in {A} name (v : A) h : In (name, v) (set_header name v h).
Proof.
  induction h as [|[k w] h IH]; cbn [set_header]; [left; reflexivity|].
  destruct (str_eqb (lower_ascii k) (lower_ascii name)); [left; reflexivity | right; exact IH].
Qed.

(* prepare() first: for EVERY user:password the view carries the Basic value derived from it, whatever the headers said,
   while the URL of the view shows the marker *)
Lemma prepare_first_derives_authorization enc c u p host k :
  no_at host = true -> mem COLON u = false -> (u, p) <> ([], []) ->
  u_netloc (k_url k) = (u ++ COLON :: p) ++ AT :: host -> k_auth k = None ->
  In (s_Authorization, HBasic u p) (view_headers (curl_view_prepare_first enc true c k)) /\
  u_netloc (view_url (curl_view_prepare_first enc true c k)) = repl c ++ AT :: host.
Proof.
  intros H Hu Hne En Ea. unfold view_headers, view_url, curl_view_prepare_first. cbn [fst snd sanitize_url u_netloc].
  unfold requests_prepare. rewrite Ea, En, (url_auth_userinfo _ host H), (userinfo_auth_user_pass u p Hu Hne).
  split; [apply set_header_in | apply userinfo_replaced; exact H].
Qed.

Definition w_kwargs_userinfo (p : N) : case_kwargs :=
  {| k_url := {| u_scheme := [104;116;116;112]%N; u_netloc := [117;58;p;64;104]%N; u_path := [47]%N; u_query := []; u_fragment := [] |};
     k_headers := [(s_Authorization, [66;101;97;114;101;114;32;120]%N)]; k_cookies := []; k_params := [];
     k_auth := None; k_open := [] |}.

Lemma prepare_first_leaks :
  kwargs_public default_config (w_kwargs_userinfo 65) = kwargs_public default_config (w_kwargs_userinfo 66) /\
  no_request_auth (w_kwargs_userinfo 65) = true /\ no_request_auth (w_kwargs_userinfo 66) = true /\
  cookies_covered default_config (w_kwargs_userinfo 65) = true /\ cookies_covered default_config (w_kwargs_userinfo 66) = true /\
  curl_view true default_config (w_kwargs_userinfo 65) = curl_view true default_config (w_kwargs_userinfo 66) /\
  rendered_headers (view_headers (curl_view true default_config (w_kwargs_userinfo 65))) = [(s_Authorization, default_repl)] /\
  view_url (curl_view_prepare_first no_params_enc true default_config (w_kwargs_userinfo 65)) =
    view_url (curl_view_prepare_first no_params_enc true default_config (w_kwargs_userinfo 66)) /\
  u_netloc (view_url (curl_view_prepare_first no_params_enc true default_config (w_kwargs_userinfo 65))) = default_repl ++ [64;104]%N /\
  rendered_headers (view_headers (curl_view_prepare_first no_params_enc true default_config (w_kwargs_userinfo 65))) =
    [(s_Authorization, [66;97;115;105;99;32;100;84;112;66]%N)] (* Basic dTpB *) /\
  rendered_headers (view_headers (curl_view_prepare_first no_params_enc true default_config (w_kwargs_userinfo 66))) =
    [(s_Authorization, [66;97;115;105;99;32;100;84;112;67]%N)] (* Basic dTpC *).
Proof. repeat split; vm_compute; reflexivity. Qed.

Example curl_headers_redacted_nonvacuous :
  no_request_auth (w_kwargs_userinfo 65) = true /\ no_cookie_jar_header default_config (w_kwargs_userinfo 65) = true /\
  marker_derives_nothing default_config = true /\
  headers_redacted default_config (view_headers (curl_view false default_config (w_kwargs_userinfo 65))) = false /\
  headers_redacted default_config (view_headers (curl_view_prepare_first no_params_enc true default_config (w_kwargs_userinfo 65))) = false.
Proof. repeat split; vm_compute; reflexivity. Qed.

(* a marker with a colon does derive an Authorization header - from the marker alone *)
Example marker_with_colon_derives :
  let c := from_config default_config (Some [120;58;121]%N) None None in
  marker_derives_nothing c = false /\
  rendered_headers (view_headers (curl_view true c (w_kwargs_userinfo 65))) = [(s_Authorization, [66;97;115;105;99;32;101;68;112;53]%N)] /\
  curl_view true c (w_kwargs_userinfo 65) = curl_view true c (w_kwargs_userinfo 66).
Proof. repeat split; vm_compute; reflexivity. Qed.


(* ------------------------------------------------------------------ base64: the derived form determines the secret *)
Ltac Zify.zify_post_hook ::= Z.to_euclidean_division_equations.

Lemma b64_char_props i : (i < 64)%N -> b64_index (b64_char i) = Some i /\ N.eqb (b64_char i) PAD = false.
Proof.
  intros Hi.
  assert (F : forallb (fun j => match b64_index (b64_char j) with Some k => N.eqb k j | None => false end && negb (N.eqb (b64_char j) PAD))
                      (map N.of_nat (seq 0 64)) = true) by (vm_compute; reflexivity).
  rewrite forallb_forall in F. specialize (F i).
  assert (Hin : In i (map N.of_nat (seq 0 64))).
  { rewrite <- (N2Nat.id i). apply in_map. apply in_seq. lia. }
  specialize (F Hin). apply andb_true_iff in F. destruct F as [F1 F2].
  destruct (b64_index (b64_char i)) as [k|]; [|discriminate]. apply N.eqb_eq in F1. subst k.
  apply negb_true_iff in F2. split; [reflexivity | exact F2].
Qed.

Lemma list_ind3 {A} (P : list A -> Prop) :
  P [] -> (forall a, P [a]) -> (forall a b, P [a; b]) -> (forall a b c r, P r -> P (a :: b :: c :: r)) -> forall l, P l.
Proof.
  intros H0 H1 H2 H3. fix IH 1. intros [|a [|b [|c r]]]; [exact H0 | apply H1 | apply H2 | apply H3; apply IH].
Qed.

Lemma b64_roundtrip : forall l, is_bytes l = true -> b64_decode (b64 l) = Some l.
Proof.
  unfold is_bytes. induction l as [|a|a b|a b c r IH] using list_ind3; intros Hb.
  - reflexivity.
  - cbn [forallb] in Hb. rewrite andb_true_r in Hb. apply N.ltb_lt in Hb.
    cbn [b64 b64_decode].
    destruct (b64_char_props (a / 4)) as [E0 _]; [lia|].
    destruct (b64_char_props ((a mod 4) * 16)) as [E1 _]; [lia|].
    rewrite E0, E1, N.eqb_refl.
    assert (Em : (((a mod 4) * 16) mod 16 =? 0)%N = true) by (apply N.eqb_eq; lia). rewrite Em.
    f_equal. f_equal. lia.
  - cbn [forallb] in Hb. rewrite andb_true_r in Hb. apply andb_true_iff in Hb. destruct Hb as [Ha Hb].
    apply N.ltb_lt in Ha, Hb. cbn [b64 b64_decode].
    destruct (b64_char_props (a / 4)) as [E0 _]; [lia|].
    destruct (b64_char_props ((a mod 4) * 16 + b / 16)) as [E1 _]; [lia|].
    destruct (b64_char_props ((b mod 16) * 4)) as [E2 N2]; [lia|].
    rewrite E0, E1, N.eqb_refl, N2, E2.
    assert (Em : ((((b mod 16) * 4) mod 4) =? 0)%N = true) by (apply N.eqb_eq; lia). rewrite Em.
    f_equal. f_equal; [lia|]. f_equal. lia.
  - cbn [forallb] in Hb. apply andb_true_iff in Hb. destruct Hb as [Ha Hb]. apply andb_true_iff in Hb. destruct Hb as [Hb Hc].
    apply andb_true_iff in Hc. destruct Hc as [Hc Hr]. apply N.ltb_lt in Ha, Hb, Hc.
    cbn [b64 b64_decode].
    destruct (b64_char_props (a / 4)) as [E0 _]; [lia|].
    destruct (b64_char_props ((a mod 4) * 16 + b / 16)) as [E1 _]; [lia|].
    destruct (b64_char_props ((b mod 16) * 4 + c / 64)) as [E2 _]; [lia|].
    destruct (b64_char_props (c mod 64)) as [E3 N3]; [lia|].
    rewrite E0, E1, N3, E2, E3, (IH Hr).
    f_equal. f_equal; [lia|]. f_equal; [lia|]. f_equal. lia.
Qed.

Lemma b64_injective l l' : is_bytes l = true -> is_bytes l' = true -> b64 l = b64 l' -> l = l'.
Proof.
  intros H H' E. assert (D := b64_roundtrip l H). rewrite E, (b64_roundtrip l' H') in D. inversion D. reflexivity.
Qed.

(* the value of the derived Authorization header gives back the user:password text it was built from *)
Lemma basic_value_determines_credentials u p u' p' :
  is_bytes (u ++ [COLON] ++ p) = true -> is_bytes (u' ++ [COLON] ++ p') = true ->
  basic_value u p = basic_value u' p' -> u ++ [COLON] ++ p = u' ++ [COLON] ++ p'.
Proof.
  unfold basic_value. intros H H' E. apply app_inv_head in E. apply (b64_injective _ _ H H' E).
Qed.

Example b64_examples :
  b64 [117;58;112]%N = [100;84;112;119]%N /\ b64 [117;58]%N = [100;84;111;61]%N /\ b64 [97]%N = [89;81;61;61]%N /\
  b64_decode [100;84;112;119]%N = Some [117;58;112]%N /\ b64_decode [100;84;112]%N = None.
Proof. repeat split; vm_compute; reflexivity. Qed.
