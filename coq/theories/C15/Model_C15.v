(* C15 - model of schemathesis output sanitization, as the code is.
   Source: src/schemathesis/core/output/sanitization.py (sanitize_value, sanitize_url,
   SanitizationConfig.from_config / extend), transport/prepare.py (prepare_request),
   cli/commands/run/handlers/cassettes.py (vcr_writer, har_writer,
   get_command_representation), core/failures.py (format_failures), handlers/output.py
   (loading line).  Executable definitions only.  Keys are ASCII (str.lower on
   non-ASCII letters is outside the model). *)
From Coq Require Import List NArith ZArith Bool.
From Verif Require Import Common.Str Common.Json.
Import ListNotations.

(* ---------------------------------------------------------------- configuration *)

(* frozensets are lists here: only membership is ever used *)
Record config := { keys : list str; markers : list str; repl : str }.

Definition default_keys : list str := [
  [95;99;115;114;102]%N (* _csrf *);
  [95;99;115;114;102;95;116;111;107;101;110]%N (* _csrf_token *);
  [95;115;101;115;115;105;111;110]%N (* _session *);
  [95;120;115;114;102]%N (* _xsrf *);
  [97;105;111;104;116;116;112;95;115;101;115;115;105;111;110]%N (* aiohttp_session *);
  [97;112;105;45;107;101;121]%N (* api-key *);
  [97;112;105;95;107;101;121]%N (* api_key *);
  [97;112;105;107;101;121]%N (* apikey *);
  [97;117;116;104]%N (* auth *);
  [97;117;116;104;111;114;105;122;97;116;105;111;110]%N (* authorization *);
  [99;111;110;110;101;99;116;46;115;105;100]%N (* connect.sid *);
  [99;111;111;107;105;101]%N (* cookie *);
  [99;114;101;100;101;110;116;105;97;108;115]%N (* credentials *);
  [99;115;114;102]%N (* csrf *);
  [99;115;114;102;45;116;111;107;101;110]%N (* csrf-token *);
  [99;115;114;102;95;116;111;107;101;110]%N (* csrf_token *);
  [99;115;114;102;116;111;107;101;110]%N (* csrftoken *);
  [105;112;95;97;100;100;114;101;115;115]%N (* ip_address *);
  [109;121;115;113;108;95;112;119;100]%N (* mysql_pwd *);
  [112;97;115;115;119;100]%N (* passwd *);
  [112;97;115;115;119;111;114;100]%N (* password *);
  [112;104;112;115;101;115;115;105;100]%N (* phpsessid *);
  [112;114;105;118;97;116;101;45;107;101;121]%N (* private-key *);
  [112;114;105;118;97;116;101;95;107;101;121]%N (* private_key *);
  [112;114;105;118;97;116;101;107;101;121]%N (* privatekey *);
  [114;101;109;111;116;101;45;97;100;100;114]%N (* remote-addr *);
  [114;101;109;111;116;101;95;97;100;100;114]%N (* remote_addr *);
  [115;101;99;114;101;116]%N (* secret *);
  [115;101;115;115;105;111;110]%N (* session *);
  [115;101;115;115;105;111;110;105;100]%N (* sessionid *);
  [115;101;116;45;99;111;111;107;105;101]%N (* set-cookie *);
  [115;101;116;95;99;111;111;107;105;101]%N (* set_cookie *);
  [116;111;107;101;110]%N (* token *);
  [120;45;97;112;105;45;107;101;121]%N (* x-api-key *);
  [120;45;99;115;114;102;116;111;107;101;110]%N (* x-csrftoken *);
  [120;45;102;111;114;119;97;114;100;101;100;45;102;111;114]%N (* x-forwarded-for *);
  [120;45;114;101;97;108;45;105;112]%N (* x-real-ip *);
  [120;95;97;112;105;95;107;101;121]%N (* x_api_key *);
  [120;95;99;115;114;102;116;111;107;101;110]%N (* x_csrftoken *);
  [120;95;102;111;114;119;97;114;100;101;100;95;102;111;114]%N (* x_forwarded_for *);
  [120;95;114;101;97;108;95;105;112]%N (* x_real_ip *);
  [120;115;114;102;45;116;111;107;101;110]%N (* xsrf-token *)
].

Definition default_markers : list str := [
  [97;117;116;104]%N (* auth *);
  [99;114;101;100;101;110;116;105;97;108]%N (* credential *);
  [107;101;121]%N (* key *);
  [112;97;115;115;119;100]%N (* passwd *);
  [112;97;115;115;119;111;114;100]%N (* password *);
  [115;101;99;114;101;116]%N (* secret *);
  [115;101;115;115;105;111;110]%N (* session *);
  [116;111;107;101;110]%N (* token *)
].

Definition default_repl : str := [91;70;105;108;116;101;114;101;100;93]%N. (* [Filtered] *)

Definition default_config : config :=
  {| keys := default_keys; markers := default_markers; repl := default_repl |}.

(* SanitizationConfig.from_config (what configure() calls): NOT_SET = None *)
Definition from_config (base : config) (r : option str) (ks ms : option (list str)) : config :=
  {| keys := match ks with Some l => map lower_ascii l | None => keys base end;
     markers := match ms with Some l => map lower_ascii l | None => markers base end;
     repl := match r with Some x => x | None => repl base end |}.

(* SanitizationConfig.extend (what extend() calls): set union *)
Definition extend (base : config) (ks ms : option (list str)) : config :=
  {| keys := match ks with Some l => keys base ++ map lower_ascii l | None => keys base end;
     markers := match ms with Some l => markers base ++ map lower_ascii l | None => markers base end;
     repl := repl base |}.

(* ---------------------------------------------------------------- the sensitivity test *)

(* Python: m in s (substring); the empty marker is in every key *)
Fixpoint is_sub (m s : str) : bool :=
  starts_with m s || match s with [] => false | _ :: s' => is_sub m s' end.

Definition mem_str (k : str) (l : list str) : bool := existsb (str_eqb k) l.

(* sanitization.py:160-161 *)
Definition is_sensitive (c : config) (k : str) : bool :=
  mem_str (lower_ascii k) (keys c) || existsb (fun m => is_sub m (lower_ascii k)) (markers c).

(* ---------------------------------------------------------------- sanitize_value *)

(* sanitization.py:162-165: a list becomes [replacement], anything else replacement *)
Definition redact (c : config) (v : json) : json :=
  match v with JArr _ => JArr [JStr (repl c)] | _ => JStr (repl c) end.

(* sanitization.py:151-172 on a JSON tree (dict keys unique, no aliasing).  The second
   loop also visits the fresh [replacement] lists, which contain a string only. *)
Fixpoint sanitize (c : config) (j : json) : json :=
  match j with
  | JObj kvs =>
      JObj (map (fun kv => match kv with
                           | (k, v) => (k, if is_sensitive c k then redact c v else sanitize c v)
                           end) kvs)
  | JArr l => JArr (map (sanitize c) l)
  | _ => j
  end.

(* the value left at a sensitive key *)
Definition is_redacted (c : config) (v : json) : bool :=
  match v with
  | JStr s => str_eqb s (repl c)
  | JArr [JStr s] => str_eqb s (repl c)
  | _ => false
  end.

(* no sensitive key, at any depth, keeps a value other than the marker *)
Fixpoint clean (c : config) (j : json) : bool :=
  match j with
  | JObj kvs =>
      forallb (fun kv => match kv with
                         | (k, v) => if is_sensitive c k then is_redacted c v else clean c v
                         end) kvs
  | JArr l => forallb (clean c) l
  | _ => true
  end.

(* public projection: what an observer may know.  Values at sensitive keys are erased,
   except for whether the value is a list (the code reveals that: [marker] vs marker) *)
Definition erase_value (v : json) : json := match v with JArr _ => JArr [] | _ => JNull end.

Fixpoint erase (c : config) (j : json) : json :=
  match j with
  | JObj kvs =>
      JObj (map (fun kv => match kv with
                           | (k, v) => (k, if is_sensitive c k then erase_value v else erase c v)
                           end) kvs)
  | JArr l => JArr (map (erase c) l)
  | _ => j
  end.

Definition eq_outside_sensitive (c : config) (a b : json) : bool := json_eqb (erase c a) (erase c b).

(* is there a sensitive key anywhere (outside already-sensitive subtrees) *)
Fixpoint has_sensitive (c : config) (j : json) : bool :=
  match j with
  | JObj kvs =>
      existsb (fun kv => match kv with (k, v) => is_sensitive c k || has_sensitive c v end) kvs
  | JArr l => existsb (has_sensitive c) l
  | _ => false
  end.

(* every key occurring in the tree *)
Fixpoint all_keys (j : json) : list str :=
  match j with
  | JObj kvs => flat_map (fun kv => match kv with (k, v) => k :: all_keys v end) kvs
  | JArr l => flat_map all_keys l
  | _ => []
  end.

(* ---------------------------------------------------------------- multi-valued string maps
   (recorded headers dict[str, list[str]], parse_qs result) and flat string maps
   (requests headers / cookies) *)

Definition mdict := list (str * list str).
Definition sdict := list (str * str).

Definition mdict_json (h : mdict) : json :=
  JObj (map (fun kv => match kv with (k, vs) => (k, JArr (map JStr vs)) end) h).
Definition sdict_json (h : sdict) : json :=
  JObj (map (fun kv => match kv with (k, v) => (k, JStr v) end) h).

(* sanitize_value specialised to these shapes (proved equal to [sanitize] on the JSON encoding) *)
Definition sanitize_mdict (c : config) (h : mdict) : mdict :=
  map (fun kv => match kv with (k, vs) => (k, if is_sensitive c k then [repl c] else vs) end) h.
Definition sanitize_sdict (c : config) (h : sdict) : sdict :=
  map (fun kv => match kv with (k, v) => (k, if is_sensitive c k then repl c else v) end) h.

Definition erase_mdict (c : config) (h : mdict) : mdict :=
  map (fun kv => match kv with (k, vs) => (k, if is_sensitive c k then [] else vs) end) h.
Definition erase_sdict (c : config) (h : sdict) : sdict :=
  map (fun kv => match kv with (k, v) => (k, if is_sensitive c k then [] else v) end) h.

(* ---------------------------------------------------------------- sanitize_url *)

(* result of urlsplit + the decoded pairs of the query (parse_qsl order) *)
Record url := { u_scheme : str; u_netloc : str; u_path : str; u_query : sdict; u_fragment : str }.

Definition AT : N := 64%N.

(* sanitization.py:184-188: netloc.split(@); more than one part -> replacement@last *)
Definition sanitize_netloc (r : str) (n : str) : str :=
  match split_on AT n with
  | p0 :: p1 :: rest => r ++ [AT] ++ last (p1 :: rest) p0
  | _ => n
  end.

(* public part of a netloc: is there userinfo, and the host[:port] after the last @ *)
Definition netloc_public (n : str) : bool * str :=
  match split_on AT n with
  | p0 :: p1 :: rest => (true, last (p1 :: rest) p0)
  | _ => (false, n)
  end.

(* parse_qs(keep_blank_values=True): dict key -> list of values; a repeated key appends to
   the list created at its first occurrence *)
Fixpoint add_value (k v : str) (g : mdict) : mdict :=
  match g with
  | [] => [(k, [v])]
  | (k', vs) :: r => if str_eqb k k' then (k', vs ++ [v]) :: r else (k', vs) :: add_value k v r
  end.
Definition group_query (q : sdict) : mdict := fold_left (fun g kv => add_value (fst kv) (snd kv) g) q [].

(* urlencode(doseq=True): one pair per value *)
Definition flatten_query (g : mdict) : sdict :=
  flat_map (fun kv => match kv with (k, vs) => map (fun v => (k, v)) vs end) g.

(* sanitization.py:175-197 *)
Definition sanitize_url (c : config) (u : url) : url :=
  {| u_scheme := u_scheme u;
     u_netloc := sanitize_netloc (repl c) (u_netloc u);
     u_path := u_path u;
     u_query := flatten_query (sanitize_mdict c (group_query (u_query u)));
     u_fragment := u_fragment u |}.

(* what an observer may know about a URL *)
Definition url_public (c : config) (u : url) : str * (bool * str) * str * mdict * str :=
  (u_scheme u, netloc_public (u_netloc u), u_path u, erase_mdict c (group_query (u_query u)), u_fragment u).

Definition no_at (s : str) : bool := negb (mem AT s).

(* every pair of the query with a sensitive name carries the marker *)
Definition query_clean (c : config) (q : sdict) : bool :=
  forallb (fun kv => match kv with (k, v) => if is_sensitive c k then str_eqb v (repl c) else true end) q.

(* ---------------------------------------------------------------- output channels *)

(* one recorded interaction (engine/recorder.py Request / core/transport.py Response).
   i_open: method, bodies, status, timings - not credential-bearing per the property text *)
Record interaction := {
  i_uri : url;
  i_req_headers : mdict;
  i_resp_headers : option mdict;
  i_open : str
}.

Definition interaction_public (c : config) (i : interaction) :=
  (url_public c (i_uri i), erase_mdict c (i_req_headers i), option_map (erase_mdict c) (i_resp_headers i), i_open i).

(* cassettes.py:122-132, 269-282, 293: the VCR entry *)
Definition vcr_entry (san : bool) (c : config) (i : interaction) : url * mdict * option mdict * str :=
  if san then (sanitize_url c (i_uri i), sanitize_mdict c (i_req_headers i),
               option_map (sanitize_mdict c) (i_resp_headers i), i_open i)
  else (i_uri i, i_req_headers i, i_resp_headers i, i_open i).

Definition s_st : str := [115;116]%N.
Definition s_schemathesis : str := [115;99;104;101;109;97;116;104;101;115;105;115]%N.
Definition s_unknown : str := [60;117;110;107;110;111;119;110;32;101;110;116;114;121;112;111;105;110;116;62]%N.
Definition SP : N := 32%N.

(* cassettes.py:97-103 get_command_representation: raw argv, no sanitization at all *)
Definition vcr_command (argv0 : str) (args : list str) : str :=
  if ends_with s_schemathesis argv0 || ends_with s_st argv0
  then s_st ++ [SP] ++ join [SP] args
  else s_unknown.

(* the cassette: command line + entries *)
Definition vcr_file (san : bool) (c : config) (argv0 : str) (args : list str) (is_ : list interaction) :=
  (vcr_command argv0 args, map (vcr_entry san c) is_).

(* what an observer may know about the command line: the argument after -H / --header
   whose header name is sensitive, and the argument after --auth / -a, are secret *)
Definition s_dash_H : str := [45;72]%N.
Definition s_header : str := [45;45;104;101;97;100;101;114]%N.
Definition s_auth : str := [45;45;97;117;116;104]%N.
Definition s_dash_a : str := [45;97]%N.
Definition COLON : N := 58%N.

Definition header_arg_name (a : str) : str := match split_on COLON a with n :: _ => n | [] => [] end.

Fixpoint args_public (c : config) (args : list str) : list str :=
  match args with
  | f :: tl =>
      match tl with
      | a :: rest =>
          if str_eqb f s_auth || str_eqb f s_dash_a then f :: [] :: args_public c rest
          else if (str_eqb f s_dash_H || str_eqb f s_header) && is_sensitive c (header_arg_name a)
               then f :: header_arg_name a :: args_public c rest
               else f :: args_public c tl
      | [] => args
      end
  | [] => args
  end.

Definition s_Cookie : str := [67;111;111;107;105;101]%N.
Definition s_SetCookie : str := [83;101;116;45;67;111;111;107;105;101]%N.
Definition s_Location : str := [76;111;99;97;116;105;111;110]%N.
Definition s_Authorization : str := [65;117;116;104;111;114;105;122;97;116;105;111;110]%N.

(* values[0] for every header; None is the IndexError on an empty list *)
Fixpoint first_values (h : mdict) : option sdict :=
  match h with
  | [] => Some []
  | kv :: r =>
      match snd kv with
      | v :: _ => match first_values r with Some t => Some ((fst kv, v) :: t) | None => None end
      | [] => None
      end
  end.

Definition dict_get (k : str) (h : mdict) : list str := match assoc_get k h with Some vs => vs | None => [] end.

(* ---------------------------------------------------------------- cookies
   http.cookies.SimpleCookie + cassettes.py:473-484 _cookie_to_har: one harfile.Cookie per morsel.
   An attribute that is empty is written as None (data[path] or None), hence plain strings / booleans. *)
Record cookie := {
  ck_name : str; ck_value : str; ck_path : str; ck_domain : str; ck_expires : str;
  ck_httponly : bool; ck_secure : bool
}.

Definition SEMI : N := 59%N.
Definition EQS : N := 61%N.
Definition s_path : str := [112;97;116;104]%N.
Definition s_domain : str := [100;111;109;97;105;110]%N.
Definition s_expires : str := [101;120;112;105;114;101;115]%N.
Definition s_httponly : str := [104;116;116;112;111;110;108;121]%N.
Definition s_secure : str := [115;101;99;117;114;101]%N.
(* Morsel._reserved / Morsel._flags *)
Definition cookie_reserved : list str :=
  [s_expires; s_path; [99;111;109;109;101;110;116]%N (* comment *); s_domain; [109;97;120;45;97;103;101]%N (* max-age *); s_secure; s_httponly;
   [118;101;114;115;105;111;110]%N (* version *); [115;97;109;101;115;105;116;101]%N (* samesite *)].
Definition cookie_flags : list str := [s_httponly; s_secure].

Definition new_cookie (n v : str) : cookie :=
  {| ck_name := n; ck_value := v; ck_path := []; ck_domain := []; ck_expires := []; ck_httponly := false; ck_secure := false |}.
Definition with_value (v : str) (c : cookie) : cookie :=
  {| ck_name := ck_name c; ck_value := v; ck_path := ck_path c; ck_domain := ck_domain c; ck_expires := ck_expires c;
     ck_httponly := ck_httponly c; ck_secure := ck_secure c |}.

(* M[key] = value for a lower-cased reserved key; only the five attributes harfile.Cookie receives are kept.
   flag = the attribute came without a value (True); a valued httponly / secure is truthy when non-empty *)
Definition set_attr (k v : str) (flag : bool) (c : cookie) : cookie :=
  let t := flag || match v with [] => false | _ => true end in
  {| ck_name := ck_name c; ck_value := ck_value c;
     ck_path := if str_eqb k s_path then v else ck_path c;
     ck_domain := if str_eqb k s_domain then v else ck_domain c;
     ck_expires := if str_eqb k s_expires then v else ck_expires c;
     ck_httponly := if str_eqb k s_httponly then t else ck_httponly c;
     ck_secure := if str_eqb k s_secure then t else ck_secure c |}.

(* BaseCookie.__set: an existing morsel keeps its place and its attributes, only the value changes *)
Fixpoint set_value (n v : str) (acc : list cookie) : list cookie :=
  match acc with
  | [] => [new_cookie n v]
  | c :: r => if str_eqb (ck_name c) n then with_value v c :: r else c :: set_value n v r
  end.

Definition update_named (n : str) (f : cookie -> cookie) (acc : list cookie) : list cookie :=
  map (fun c => if str_eqb (ck_name c) n then f c else c) acc.

(* partition at the first occurrence of a character *)
Fixpoint cut_at (ch : N) (s : str) : option (str * str) :=
  match s with
  | [] => None
  | x :: r => if N.eqb x ch then Some ([], r)
              else match cut_at ch r with Some (a, b) => Some (x :: a, b) | None => None end
  end.

(* BaseCookie.__parse_string on the fragment  item (; item)*  with item = name=value | attr=value | flag,
   names and values without whitespace, quotes, commas or a leading dollar sign (the Expires date excepted).
   None = invalid cookie string (nothing is loaded); an empty item ends the scan (the pattern stops matching).
   cur = name of the current morsel M. *)
Fixpoint parse_items (items : list str) (cur : option str) (acc : list cookie) : option (list cookie) :=
  match items with
  | [] => Some acc
  | it :: rest =>
      match strip [SP] it with
      | [] => Some acc
      | s =>
          match cut_at EQS s with
          | None =>
              match cur with
              | Some n => if mem_str (lower_ascii s) cookie_flags
                          then parse_items rest cur (update_named n (set_attr (lower_ascii s) [] true) acc)
                          else None
              | None => None
              end
          | Some (k0, v0) =>
              let k := strip [SP] k0 in
              let v := strip [SP] v0 in
              match k with
              | [] => None
              | _ =>
                  if mem_str (lower_ascii k) cookie_reserved
                  then match cur with
                       | Some n => parse_items rest cur (update_named n (set_attr (lower_ascii k) v false) acc)
                       | None => None
                       end
                  else parse_items rest (Some k) (set_value k v acc)
              end
          end
      end
  end.

(* list(SimpleCookie(text).items()) turned into HAR cookies *)
Definition simple_cookie (text : str) : list cookie :=
  match parse_items (split_on SEMI text) None [] with Some l => l | None => [] end.

(* cassettes.py:469-470 _extract_cookies AS IT IS: the argument is the list of values of one header;
   the comprehension  for items in headers for item in items  walks the CHARACTERS of every value and
   hands each single character to the cookie parser.  parse = the foreign cookie parser. *)
Definition har_cookies (parse : str -> list cookie) (values : list str) : list cookie :=
  flat_map (fun v => flat_map (fun ch => parse [ch]) v) values.

Definition s_ContentType : str := [67;111;110;116;101;110;116;45;84;121;112;101]%N.
Definition s_set_cookie_lc : str := [115;101;116;45;99;111;111;107;105;101]%N.

(* headers.get(Content-Type, [empty])[0] *)
Definition mime_of (h : mdict) : str := hd [] (dict_get s_ContentType h).

Record har_resp_t := {
  hr_headers : sdict; hr_cookies : list cookie; hr_redirect : str;
  hr_mime : str                 (* content.mimeType *)
}.

Record har_entry_t := {
  h_url : url; h_query : sdict;
  h_req_headers : sdict; h_req_cookies : list cookie;
  h_post_mime : option str;     (* postData.mimeType, present when the request has a body *)
  h_resp : option har_resp_t;
  h_open : str
}.

Definition LBR : N := 91%N.
Definition RBR : N := 93%N.

(* cassettes.py:363-446 (after repo fix 8fd7266e): URL, query string, header records, cookies and the redirect
   URL are read from the sanitised copies, i.e. they are a function of what the VCR entry shows.  The query
   string is cut out of the URI text (partition on # then on ?, :374) and read with parse_qsl: on the parsed
   view that is u_query of the (sanitised) URI (a marker containing ? or # is outside the model).
   The two mimeType fields (:377, :385) are read from the RECORDED headers, whatever the sanitize flag:
   raw_rq / raw_rs.  has_body: interaction.request.body is not None (part of i_open for the other channels).
   None = the writer raises IndexError on a header without values. *)
Definition har_body (parse : str -> list cookie) (uri : url) (rq : mdict) (rs : option mdict) (op : str)
                    (has_body : bool) (raw_rq : mdict) (raw_rs : option mdict) : option har_entry_t :=
    match first_values rq with
    | None => None
    | Some rqf =>
        let post := if has_body then Some (mime_of raw_rq) else None in
        match rs with
        | None => Some {| h_url := uri; h_query := u_query uri; h_req_headers := rqf;
                          h_req_cookies := har_cookies parse (dict_get s_Cookie rq);
                          h_post_mime := post; h_resp := None; h_open := op |}
        | Some rsh =>
            match first_values rsh with
            | None => None
            | Some rsf => Some {| h_url := uri; h_query := u_query uri; h_req_headers := rqf;
                                  h_req_cookies := har_cookies parse (dict_get s_Cookie rq);
                                  h_post_mime := post;
                                  h_resp := Some {| hr_headers := rsf;
                                                    hr_cookies := har_cookies parse (dict_get s_SetCookie rsh);
                                                    hr_redirect := hd [] (dict_get s_Location rsh);
                                                    hr_mime := match raw_rs with Some h => mime_of h | None => [] end |};
                                  h_open := op |}
            end
        end
    end.

Definition har_of (parse : str -> list cookie) (e : url * mdict * option mdict * str)
                  (has_body : bool) (raw_rq : mdict) (raw_rs : option mdict) : option har_entry_t :=
  match e with (uri, rq, rs, op) => har_body parse uri rq rs op has_body raw_rq raw_rs end.

Definition har_entry (parse : str -> list cookie) (san : bool) (c : config) (has_body : bool) (i : interaction)
  : option har_entry_t :=
  har_of parse (vcr_entry san c i) has_body (i_req_headers i) (i_resp_headers i).

(* region of the HAR noninterference theorem: the Content-Type header is not itself sensitive under the
   configuration (it is not under the default one) *)
Definition content_type_public (c : config) : bool := negb (is_sensitive c s_ContentType).

(* SENTINEL, not the current code: har_writer before repo fix 8fd7266e took the query with
   urlparse(uri), which raises ValueError when the netloc has a square bracket that is not an IP
   literal - which is what the default marker [Filtered]@host is.  Kept to state what the fix changed. *)
Definition har_of_before_8fd7266e (parse : str -> list cookie) (e : url * mdict * option mdict * str)
                  (has_body : bool) (raw_rq : mdict) (raw_rs : option mdict) : option har_entry_t :=
  match e with
  | (uri, rq, rs, op) =>
      if mem LBR (u_netloc uri) || mem RBR (u_netloc uri) then None else har_body parse uri rq rs op has_body raw_rq raw_rs
  end.
Definition har_entry_before_8fd7266e (parse : str -> list cookie) (san : bool) (c : config) (has_body : bool) (i : interaction)
  : option har_entry_t :=
  har_of_before_8fd7266e parse (vcr_entry san c i) has_body (i_req_headers i) (i_resp_headers i).

(* SENTINEL, not the current code: a HAR writer that fills the cookies arrays from the RECORDED (unsanitised)
   Cookie / set-cookie header values - whole values, not characters - and redacts each cookie by its own NAME,
   the convention prepare_request uses for case.cookies.  Kept to state that this variant leaks. *)
Definition redact_cookies (san : bool) (c : config) (cs : list cookie) : list cookie :=
  if san then map (fun ck => if is_sensitive c (ck_name ck) then with_value (repl c) ck else ck) cs else cs.
Definition raw_cookies (parse : str -> list cookie) (san : bool) (c : config) (values : list str) : list cookie :=
  redact_cookies san c (flat_map parse values).
Definition har_entry_raw_cookies (parse : str -> list cookie) (san : bool) (c : config) (has_body : bool) (i : interaction)
  : option har_entry_t :=
  match har_entry parse san c has_body i with
  | None => None
  | Some e =>
      Some {| h_url := h_url e; h_query := h_query e; h_req_headers := h_req_headers e;
              h_req_cookies := raw_cookies parse san c (dict_get s_Cookie (i_req_headers i));
              h_post_mime := h_post_mime e;
              h_resp := match h_resp e, i_resp_headers i with
                        | Some r, Some raw =>
                            Some {| hr_headers := hr_headers r;
                                    hr_cookies := raw_cookies parse san c (dict_get s_set_cookie_lc raw);
                                    hr_redirect := hr_redirect r; hr_mime := hr_mime r |}
                        | r, _ => r
                        end;
              h_open := h_open e |}
  end.

(* the cookies arrays of an entry: request.cookies, response.cookies *)
Definition entry_cookies (e : har_entry_t) : list cookie * list cookie :=
  (h_req_cookies e, match h_resp e with Some r => hr_cookies r | None => [] end).

(* everything in an entry except the two mimeType fields *)
Definition entry_sans_mime (e : har_entry_t) :=
  (h_url e, h_query e, h_req_headers e, h_req_cookies e,
   option_map (fun r => (hr_headers r, hr_cookies r, hr_redirect r)) (h_resp e), h_open e).

(* every recorded header has at least one value (always so for real HTTP traffic) *)
Definition values_nonempty (h : mdict) : bool := forallb (fun kv => match snd kv with [] => false | _ => true end) h.
Definition headers_have_values (i : interaction) : bool :=
  values_nonempty (i_req_headers i) && match i_resp_headers i with Some h => values_nonempty h | None => true end.

(* -------- the curl code sample: Case.as_curl_command -> prepare_request(sanitize) ->
   requests Request prepare -> curl.generate.
   A header value after prepare() is either what was in kwargs[headers], or built by requests
   from the cookie jar, or built by the auth object (HTTPBasicAuth: Basic b64(user:pass)). *)
Inductive hvalue :=
| HPlain (v : str)
| HCookieJar (cookies : sdict)
| HBasic (user pass : str).

(* kwargs of serialize_case that matter; params values are JSON (lists allowed) *)
Record case_kwargs := {
  k_url : url;
  k_headers : sdict;          (* final_headers: case.headers + given headers + defaults *)
  k_cookies : sdict;
  k_params : list (str * json);
  k_auth : option (str * str);  (* case._auth *)
  k_open : str                (* method, body *)
}.

Definition has_header (name : str) (h : sdict) : bool :=
  existsb (fun kv => str_eqb (lower_ascii (fst kv)) (lower_ascii name)) h.

(* CaseInsensitiveDict.__setitem__: position of the existing entry, spelling of the new name *)
Fixpoint set_header {A} (name : str) (v : A) (h : list (str * A)) : list (str * A) :=
  match h with
  | [] => [(name, v)]
  | (k, w) :: r => if str_eqb (lower_ascii k) (lower_ascii name) then (name, v) :: r else (k, w) :: set_header name v r
  end.

(* requests.utils.get_auth_from_url on user:password@host (percent-decoding not modelled): a userinfo
   without a colon has password None -> TypeError -> no auth; both parts empty -> no auth *)
Definition url_auth (netloc : str) : option (str * str) :=
  match split_on AT netloc with
  | p0 :: p1 :: rest =>
      let ui := join [AT] (removelast (p0 :: p1 :: rest)) in
      match split_on COLON ui with
      | u :: p :: ps =>
          let pw := join [COLON] (p :: ps) in
          match u, pw with [], [] => None | _, _ => Some (u, pw) end
      | _ => None
      end
  | _ => None
  end.

(* requests PreparedRequest.prepare: prepare_cookies adds Cookie only when there are cookies and
   no Cookie header yet; prepare_auth (explicit auth object, else the userinfo of the URL) then
   overwrites Authorization *)
Definition requests_prepare_core (h : sdict) (cookies : sdict) (auth : option (str * str)) : list (str * hvalue) :=
  let h0 := map (fun kv => (fst kv, HPlain (snd kv))) h in
  let h1 := match cookies with
            | [] => h0
            | _ => if has_header s_Cookie h then h0 else h0 ++ [(s_Cookie, HCookieJar cookies)]
            end in
  match auth with
  | Some (u, p) => set_header s_Authorization (HBasic u p) h1
  | None => h1
  end.

Definition requests_prepare (netloc : str) (h : sdict) (cookies : sdict) (auth : option (str * str)) : list (str * hvalue) :=
  requests_prepare_core h cookies (match auth with Some a => Some a | None => url_auth netloc end).

(* prepare.py:84-99 *)
Definition params_of (j : json) : list (str * json) := match j with JObj kvs => kvs | _ => [] end.

Definition curl_view (san : bool) (c : config) (k : case_kwargs) : url * list (str * json) * list (str * hvalue) * str :=
  let u := if san then sanitize_url c (k_url k) else k_url k in
  let h := if san then sanitize_sdict c (k_headers k) else k_headers k in
  let ck := if san then sanitize_sdict c (k_cookies k) else k_cookies k in
  let ps := if san then params_of (sanitize c (JObj (k_params k))) else k_params k in
  (u, ps, requests_prepare (u_netloc u) h ck (k_auth k), k_open k).

(* what is public about the cookies: everything except the values of sensitive names - and names
   only when the Cookie header itself is sensitive under the configuration (the property text
   lists the Cookie header among the credential-bearing ones) *)
Definition cookies_public (c : config) (ck : sdict) : sdict :=
  if is_sensitive c s_Cookie then map (fun kv => (fst kv, [])) ck else erase_sdict c ck.

Definition kwargs_public (c : config) (k : case_kwargs) :=
  (url_public c (k_url k), erase_sdict c (k_headers k), cookies_public c (k_cookies k),
   erase c (JObj (k_params k)), match k_auth k with Some _ => true | None => false end, k_open k).

(* regions where the curl sample is safe *)
Definition no_request_auth (k : case_kwargs) : bool := match k_auth k with None => true | Some _ => false end.
Definition cookies_covered (c : config) (k : case_kwargs) : bool :=
  negb (is_sensitive c s_Cookie) ||
  match k_cookies k with
  | [] => true
  | _ => has_header s_Cookie (k_headers k) || forallb (fun kv => is_sensitive c (fst kv)) (k_cookies k)
  end.

(* core/failures.py:271-316 format_failures: failure titles/messages and the response payload
   (f_open, not credential-bearing per the property text) followed by the curl sample.
   JUnit (junitxml.py:43-54) and the console FAILURES section (output.py:92-106) both print it. *)
Definition failure_message (san : bool) (c : config) (f_open : str) (k : case_kwargs) :=
  (f_open, curl_view san c k).

(* the console additionally prints the schema location as given on the command line
   (output.py:234-235, 831), never sanitised *)
Definition console_view (san : bool) (c : config) (location : url) (fs : list (str * case_kwargs)) :=
  (location, map (fun fk => failure_message san c (fst fk) (snd fk)) fs).

Definition location_has_no_secret (c : config) (u : url) : bool :=
  negb (fst (netloc_public (u_netloc u))) && negb (existsb (fun kv => is_sensitive c (fst kv)) (u_query u)).

(* ---------------------------------------------------------------- derived encodings, order of
   sanitization and request preparation (strengthening after seed C15_e).

   requests.auth._basic_auth_str: Basic + base64(latin1(user:pass)).  RFC 4648 standard alphabet with
   padding, on a list of byte values (code points below 256; anything else is outside the model:
   the real function raises UnicodeEncodeError there). *)
Definition b64_alphabet : list N :=
  [65;66;67;68;69;70;71;72;73;74;75;76;77;78;79;80;81;82;83;84;85;86;87;88;89;90;
   97;98;99;100;101;102;103;104;105;106;107;108;109;110;111;112;113;114;115;116;117;118;119;120;121;122;
   48;49;50;51;52;53;54;55;56;57;43;47]%N.
Definition PAD : N := 61%N.
Definition b64_char (i : N) : N := nth (N.to_nat i) b64_alphabet PAD.

Fixpoint b64 (l : list N) : list N :=
  match l with
  | [] => []
  | [a] => [b64_char (a / 4); b64_char ((a mod 4) * 16); PAD; PAD]%N
  | [a; b] => [b64_char (a / 4); b64_char ((a mod 4) * 16 + b / 16); b64_char ((b mod 16) * 4); PAD]%N
  | a :: b :: c :: r =>
      (b64_char (a / 4) :: b64_char ((a mod 4) * 16 + b / 16) :: b64_char ((b mod 16) * 4 + c / 64) ::
       b64_char (c mod 64) :: b64 r)%N
  end.

(* the inverse, on padded text only: None = not a base64 text *)
Fixpoint index_of (ch : N) (l : list N) (i : N) : option N :=
  match l with
  | [] => None
  | x :: r => if N.eqb x ch then Some i else index_of ch r (i + 1)%N
  end.
Definition b64_index (ch : N) : option N := index_of ch b64_alphabet 0%N.

Fixpoint b64_decode (l : list N) : option (list N) :=
  match l with
  | [] => Some []
  | c0 :: c1 :: c2 :: c3 :: r =>
      match b64_index c0, b64_index c1 with
      | Some i0, Some i1 =>
          if N.eqb c3 PAD then
            match r with
            | [] =>
                if N.eqb c2 PAD
                then (if N.eqb (i1 mod 16) 0 then Some [i0 * 4 + i1 / 16] else None)%N
                else match b64_index c2 with
                     | Some i2 => (if N.eqb (i2 mod 4) 0 then Some [i0 * 4 + i1 / 16; (i1 mod 16) * 16 + i2 / 4] else None)%N
                     | None => None
                     end
            | _ => None
            end
          else
            match b64_index c2, b64_index c3, b64_decode r with
            | Some i2, Some i3, Some t => Some (i0 * 4 + i1 / 16 :: (i1 mod 16) * 16 + i2 / 4 :: (i2 mod 4) * 64 + i3 :: t)%N
            | _, _, _ => None
            end
      | _, _ => None
      end
  | _ => None
  end.

Definition is_bytes (l : list N) : bool := forallb (fun x => N.ltb x 256) l.

(* the text of a header value after prepare(): what curl.generate prints after the header name *)
Definition s_Basic_sp : str := [66;97;115;105;99;32]%N. (* Basic + space *)
Definition render_cookie_jar (ck : sdict) : str :=
  join [SEMI; SP] (map (fun kv => fst kv ++ [EQS] ++ snd kv) ck).
Definition basic_value (u p : str) : str := s_Basic_sp ++ b64 (u ++ [COLON] ++ p).
Definition render_hvalue (v : hvalue) : str :=
  match v with
  | HPlain s => s
  | HCookieJar ck => render_cookie_jar ck
  | HBasic u p => basic_value u p
  end.
Definition rendered_headers (hs : list (str * hvalue)) : sdict := map (fun kv => (fst kv, render_hvalue (snd kv))) hs.

Definition view_url {B C D} (v : url * B * C * D) : url := fst (fst (fst v)).
Definition view_headers {A B D} (v : A * B * list (str * hvalue) * D) : list (str * hvalue) := snd (fst v).

(* get_auth_from_url seen from the userinfo alone (what is before the last @) *)
Definition userinfo_auth (ui : str) : option (str * str) :=
  match split_on COLON ui with
  | u :: p :: ps =>
      let pw := join [COLON] (p :: ps) in
      match u, pw with [], [] => None | _, _ => Some (u, pw) end
  | _ => None
  end.

(* the same case on another netloc *)
Definition with_netloc (n : str) (k : case_kwargs) : case_kwargs :=
  {| k_url := {| u_scheme := u_scheme (k_url k); u_netloc := n; u_path := u_path (k_url k);
                 u_query := u_query (k_url k); u_fragment := u_fragment (k_url k) |};
     k_headers := k_headers k; k_cookies := k_cookies k; k_params := k_params k; k_auth := k_auth k; k_open := k_open k |}.

(* specification side of the structural oracle: every header of the view whose NAME is credential-bearing
   (Authorization, Proxy-Authorization, Cookie, X-...-Token, ...) carries exactly the marker - not a cookie jar,
   not a Basic value *)
Definition headers_redacted (c : config) (hs : list (str * hvalue)) : bool :=
  forallb (fun kv => if is_sensitive c (fst kv)
                     then match snd kv with HPlain v => str_eqb v (repl c) | _ => false end
                     else true) hs.

(* regions of the structural theorem: no request auth object (finding C15-F2), no Cookie header built from the jar
   (finding C15-F3), and a marker from which get_auth_from_url derives nothing (no colon: the default one) *)
Definition no_cookie_jar_header (c : config) (k : case_kwargs) : bool :=
  negb (is_sensitive c s_Cookie) ||
  match k_cookies k with [] => true | _ => has_header s_Cookie (k_headers k) end.
Definition marker_derives_nothing (c : config) : bool := negb (mem COLON (repl c)).

(* SENTINEL, not the current code (seed C15_e): headers and cookies sanitised, then requests prepare() on the RAW
   URL (params merged into its query: enc = the foreign encoding of the params), and only then sanitize_url on
   request.url.  prepare_auth has already read the userinfo by then.  Kept to state that this order leaks. *)
Definition curl_view_prepare_first (enc : list (str * json) -> sdict) (san : bool) (c : config) (k : case_kwargs)
  : url * list (str * json) * list (str * hvalue) * str :=
  let h := if san then sanitize_sdict c (k_headers k) else k_headers k in
  let ck := if san then sanitize_sdict c (k_cookies k) else k_cookies k in
  let hs := requests_prepare (u_netloc (k_url k)) h ck (k_auth k) in
  let merged := {| u_scheme := u_scheme (k_url k); u_netloc := u_netloc (k_url k); u_path := u_path (k_url k);
                   u_query := u_query (k_url k) ++ enc (k_params k); u_fragment := u_fragment (k_url k) |} in
  (if san then sanitize_url c merged else merged, [], hs, k_open k).

Definition no_params_enc (ps : list (str * json)) : sdict := [].
