(* C15 property theorems only.  Each is closed by [exact] of a lemma of Proofs_C15 and
   followed by Print Assumptions. *)
From Coq Require Import List NArith ZArith Bool.
From Verif Require Import Common.Str Common.Json C15.Model_C15 C15.Proofs_C15.
Import ListNotations.

(* ---- the sanitizer (sanitize_value) ---- *)

(* after sanitization no sensitive key, at any depth, keeps a value other than the marker *)
Theorem C15_all_sensitive_replaced : forall cfg t, clean cfg (sanitize cfg t) = true.
Proof. exact sanitize_clean. Qed.
Print Assumptions C15_all_sensitive_replaced.

(* two inputs equal outside the values at sensitive keys sanitise to the same output:
   the output is a function of the public projection only *)
Theorem C15_noninterference : forall cfg t t',
  eq_outside_sensitive cfg t t' = true -> sanitize cfg t = sanitize cfg t'.
Proof. exact noninterference. Qed.
Print Assumptions C15_noninterference.

(* everything outside the sensitive positions is left as it was (keys, order, values) *)
Theorem C15_nonsensitive_unchanged : forall cfg t, eq_outside_sensitive cfg (sanitize cfg t) t = true.
Proof. exact nonsensitive_unchanged. Qed.
Print Assumptions C15_nonsensitive_unchanged.

Theorem C15_no_sensitive_key_identity : forall cfg t, has_sensitive cfg t = false -> sanitize cfg t = t.
Proof. exact no_sensitive_identity. Qed.
Print Assumptions C15_no_sensitive_key_identity.

Theorem C15_sanitize_idempotent : forall cfg t, sanitize cfg (sanitize cfg t) = sanitize cfg t.
Proof. exact sanitize_idem. Qed.
Print Assumptions C15_sanitize_idempotent.

(* ---- configuration: customising the lists changes exactly the set ---- *)

Theorem C15_config_changes_exactly_the_set : forall cfg cfg' t,
  repl cfg = repl cfg' ->
  (forall k, In k (all_keys t) -> is_sensitive cfg k = is_sensitive cfg' k) ->
  sanitize cfg t = sanitize cfg' t.
Proof. exact config_ext. Qed.
Print Assumptions C15_config_changes_exactly_the_set.

Theorem C15_config_difference_shows : forall cfg cfg' k v,
  is_sensitive cfg k = true -> is_sensitive cfg' k = false -> is_redacted cfg v = false ->
  sanitize cfg (JObj [(k, v)]) <> sanitize cfg' (JObj [(k, v)]) \/ sanitize cfg' v <> v.
Proof. exact config_differs. Qed.
Print Assumptions C15_config_difference_shows.

(* extend = union with the lower-cased additions; configure = the lower-cased lists given *)
Theorem C15_extend_is_union : forall cfg ks ms k,
  is_sensitive (extend cfg ks ms) k =
  is_sensitive cfg k
  || match ks with Some l => mem_str (lower_ascii k) (map lower_ascii l) | None => false end
  || match ms with Some l => existsb (fun m => is_sub m (lower_ascii k)) (map lower_ascii l) | None => false end.
Proof. exact extend_sensitive. Qed.
Print Assumptions C15_extend_is_union.

Theorem C15_configure_replaces : forall cfg r ks ms k,
  is_sensitive (from_config cfg r (Some ks) (Some ms)) k =
  mem_str (lower_ascii k) (map lower_ascii ks) || existsb (fun m => is_sub m (lower_ascii k)) (map lower_ascii ms).
Proof. exact from_config_sensitive. Qed.
Print Assumptions C15_configure_replaces.

Theorem C15_configure_nothing_is_identity : forall cfg, from_config cfg None None None = cfg /\ extend cfg None None = cfg.
Proof. exact configure_nothing. Qed.
Print Assumptions C15_configure_nothing_is_identity.

(* ---- sanitize_url ---- *)

Theorem C15_url_noninterference : forall cfg u u', url_public cfg u = url_public cfg u' -> sanitize_url cfg u = sanitize_url cfg u'.
Proof. exact url_noninterference. Qed.
Print Assumptions C15_url_noninterference.

(* user-level form: any two userinfos, query pairs equal except for values of sensitive names *)
Theorem C15_url_secrets_erased : forall cfg sch ui ui' host path q q' frag,
  no_at host = true -> erase_sdict cfg q = erase_sdict cfg q' ->
  sanitize_url cfg {| u_scheme := sch; u_netloc := ui ++ AT :: host; u_path := path; u_query := q; u_fragment := frag |} =
  sanitize_url cfg {| u_scheme := sch; u_netloc := ui' ++ AT :: host; u_path := path; u_query := q'; u_fragment := frag |}.
Proof. exact url_secrets_erased. Qed.
Print Assumptions C15_url_secrets_erased.

Theorem C15_url_userinfo_replaced : forall r ui host, no_at host = true -> sanitize_netloc r (ui ++ AT :: host) = r ++ AT :: host.
Proof. exact userinfo_replaced. Qed.
Print Assumptions C15_url_userinfo_replaced.

Theorem C15_url_query_clean : forall cfg u, query_clean cfg (u_query (sanitize_url cfg u)) = true.
Proof. exact url_query_clean. Qed.
Print Assumptions C15_url_query_clean.

Theorem C15_url_without_userinfo_keeps_netloc : forall r n, no_at n = true -> sanitize_netloc r n = n.
Proof. exact netloc_no_userinfo. Qed.
Print Assumptions C15_url_without_userinfo_keeps_netloc.

(* sanitize_value on recorded headers / flat dicts is the same function *)
Theorem C15_headers_are_sanitize_value : forall cfg h h2,
  mdict_json (sanitize_mdict cfg h) = sanitize cfg (mdict_json h) /\
  sdict_json (sanitize_sdict cfg h2) = sanitize cfg (sdict_json h2).
Proof. exact headers_are_sanitize_value. Qed.
Print Assumptions C15_headers_are_sanitize_value.

(* ---- channels ---- *)

Theorem C15_channel_ni_vcr_entry : forall cfg i i',
  interaction_public cfg i = interaction_public cfg i' -> vcr_entry true cfg i = vcr_entry true cfg i'.
Proof. exact vcr_entry_ni. Qed.
Print Assumptions C15_channel_ni_vcr_entry.

Theorem C15_channel_ni_har_entry : forall cfg i i',
  interaction_public cfg i = interaction_public cfg i' -> har_entry true cfg i = har_entry true cfg i'.
Proof. exact har_entry_ni. Qed.
Print Assumptions C15_channel_ni_har_entry.

(* HAR entries for URLs with userinfo (repo fix 8fd7266e): the entry is written, with the marker in place
   of the userinfo and of every value of a sensitive query name ... *)
Theorem C15_channel_har_userinfo_entry_written : forall cfg ui host i,
  no_at host = true -> u_netloc (i_uri i) = ui ++ AT :: host -> headers_have_values i = true ->
  exists e, har_entry true cfg i = Some e /\ u_netloc (h_url e) = repl cfg ++ AT :: host /\
            h_url e = sanitize_url cfg (i_uri i) /\ query_clean cfg (h_query e) = true.
Proof. exact har_userinfo_entry_written. Qed.
Print Assumptions C15_channel_har_userinfo_entry_written.

(* ... whereas the writer as it was before the fix (sentinel definition) raised on every such entry *)
Theorem C15_channel_har_before_8fd7266e_raises : forall ui host i,
  no_at host = true -> u_netloc (i_uri i) = ui ++ AT :: host -> har_entry_before_8fd7266e true default_config i = None.
Proof. exact har_before_fix_raises. Qed.
Print Assumptions C15_channel_har_before_8fd7266e_raises.

Theorem C15_channel_har_written_before_8fd7266e_refuted : exists i,
  har_entry_before_8fd7266e true default_config i = None /\
  exists e, har_entry true default_config i = Some e /\
            u_netloc (h_url e) = default_repl ++ [64;104]%N /\
            h_query e = [([116;111;107;101;110]%N, default_repl)] /\
            h_req_headers e = [(s_Authorization, default_repl)].
Proof. exists w_har_interaction. exact har_fix_witness. Qed.
Print Assumptions C15_channel_har_written_before_8fd7266e_refuted.

(* the cassette as a whole: safe when the command line is the same ... *)
Theorem C15_channel_ni_vcr_file_partial : forall cfg argv0 args is_ is_',
  map (interaction_public cfg) is_ = map (interaction_public cfg) is_' ->
  vcr_file true cfg argv0 args is_ = vcr_file true cfg argv0 args is_'.
Proof. exact vcr_file_ni_same_argv. Qed.
Print Assumptions C15_channel_ni_vcr_file_partial.

(* ... and refuted when the secret came in through argv: the command: line echoes it *)
Theorem C15_channel_ni_vcr_command_refuted : exists args args',
  args_public default_config args = args_public default_config args' /\
  vcr_file true default_config s_st args [] <> vcr_file true default_config s_st args' [].
Proof. exists (w_args 65), (w_args 66). exact vcr_file_leaks. Qed.
Print Assumptions C15_channel_ni_vcr_command_refuted.

(* curl code sample *)
Theorem C15_channel_ni_curl_partial : forall cfg k k',
  kwargs_public cfg k = kwargs_public cfg k' ->
  no_request_auth k = true -> no_request_auth k' = true ->
  cookies_covered cfg k = true -> cookies_covered cfg k' = true ->
  curl_view true cfg k = curl_view true cfg k'.
Proof. exact curl_ni. Qed.
Print Assumptions C15_channel_ni_curl_partial.

Theorem C15_channel_ni_curl_refuted_request_auth : exists k k',
  kwargs_public default_config k = kwargs_public default_config k' /\
  cookies_covered default_config k = true /\ cookies_covered default_config k' = true /\
  curl_view true default_config k <> curl_view true default_config k'.
Proof. exists (w_kwargs_auth 65), (w_kwargs_auth 66). exact curl_leaks_auth. Qed.
Print Assumptions C15_channel_ni_curl_refuted_request_auth.

Theorem C15_channel_ni_curl_refuted_cookie_jar : exists k k',
  kwargs_public default_config k = kwargs_public default_config k' /\
  no_request_auth k = true /\ no_request_auth k' = true /\
  curl_view true default_config k <> curl_view true default_config k'.
Proof. exists (w_kwargs_cookie 65), (w_kwargs_cookie 66). exact curl_leaks_cookie. Qed.
Print Assumptions C15_channel_ni_curl_refuted_cookie_jar.

(* JUnit failure message / console FAILURES section = open text + curl sample *)
Theorem C15_channel_ni_junit_partial : forall cfg f k k',
  kwargs_public cfg k = kwargs_public cfg k' ->
  no_request_auth k = true -> no_request_auth k' = true ->
  cookies_covered cfg k = true -> cookies_covered cfg k' = true ->
  failure_message true cfg f k = failure_message true cfg f k'.
Proof. exact failure_message_ni. Qed.
Print Assumptions C15_channel_ni_junit_partial.

Theorem C15_channel_ni_console_partial : forall cfg loc fs fs',
  map fst fs = map fst fs' ->
  map (fun fk => kwargs_public cfg (snd fk)) fs = map (fun fk => kwargs_public cfg (snd fk)) fs' ->
  forallb (fun fk => no_request_auth (snd fk) && cookies_covered cfg (snd fk)) fs = true ->
  forallb (fun fk => no_request_auth (snd fk) && cookies_covered cfg (snd fk)) fs' = true ->
  console_view true cfg loc fs = console_view true cfg loc fs'.
Proof. exact console_ni. Qed.
Print Assumptions C15_channel_ni_console_partial.

Theorem C15_channel_ni_console_refuted_location : exists loc loc',
  url_public default_config loc = url_public default_config loc' /\
  console_view true default_config loc [] <> console_view true default_config loc' [].
Proof. exists (w_location 65), (w_location 66). exact console_leaks_location. Qed.
Print Assumptions C15_channel_ni_console_refuted_location.

(* ---- sanitization off: every channel shows the raw exchange, whatever the configuration ---- *)
Theorem C15_off_is_identity : forall cfg i k f loc fs argv0 args is_,
  vcr_entry false cfg i = (i_uri i, i_req_headers i, i_resp_headers i, i_open i) /\
  har_entry false cfg i = har_of (i_uri i, i_req_headers i, i_resp_headers i, i_open i) /\
  curl_view false cfg k = (k_url k, k_params k, requests_prepare (u_netloc (k_url k)) (k_headers k) (k_cookies k) (k_auth k), k_open k) /\
  failure_message false cfg f k = (f, curl_view false cfg k) /\
  console_view false cfg loc fs = (loc, map (fun fk => (fst fk, curl_view false cfg (snd fk))) fs) /\
  vcr_file false cfg argv0 args is_ = (vcr_command argv0 args, map (fun i => (i_uri i, i_req_headers i, i_resp_headers i, i_open i)) is_).
Proof. exact off_identity. Qed.
Print Assumptions C15_off_is_identity.

(* ---- the hypotheses above are satisfiable by non-trivial inputs ---- *)
Theorem C15_hypotheses_satisfiable :
  (exists t t', t <> t' /\ eq_outside_sensitive default_config t t' = true /\ sanitize default_config t <> t /\ clean default_config t = false) /\
  (exists k k', k <> k' /\ kwargs_public default_config k = kwargs_public default_config k' /\ no_request_auth k = true /\
                cookies_covered default_config k = true /\ curl_view true default_config k = curl_view true default_config k').
Proof. exact hypotheses_satisfiable. Qed.
Print Assumptions C15_hypotheses_satisfiable.
