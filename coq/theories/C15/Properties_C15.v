(* C15 property theorems only.  Each is closed by [exact] of a lemma of Proofs_C15 and
   followed by Print Assumptions. *)
From Coq Require Import List NArith ZArith Bool.
From Verif Require Import Common.Str Common.Json C15.Model_C15 C15.Proofs_C15.
Import ListNotations.

(* ---- the sanitizer (sanitize_value) ---- *)

(* after sanitization no sensitive key, at any depth, keeps a value other than the marker *)
Theorem C15_all_sensitive_replaced : forall cfg t, clean cfg (sanitize cfg t) = true.
Proof. exact sanitize_clean. Qed.
Print Assumptions C15_all_sensitive_replaced.

(* two inputs equal outside the values at sensitive keys sanitise to the same output:
   the output is a function of the public projection only *)
Theorem C15_noninterference : forall cfg t t',
  eq_outside_sensitive cfg t t' = true -> sanitize cfg t = sanitize cfg t'.
Proof. exact noninterference. Qed.
Print Assumptions C15_noninterference.

(* everything outside the sensitive positions is left as it was (keys, order, values) *)
Theorem C15_nonsensitive_unchanged : forall cfg t, eq_outside_sensitive cfg (sanitize cfg t) t = true.
Proof. exact nonsensitive_unchanged. Qed.
Print Assumptions C15_nonsensitive_unchanged.

Theorem C15_no_sensitive_key_identity : forall cfg t, has_sensitive cfg t = false -> sanitize cfg t = t.
Proof. exact no_sensitive_identity. Qed.
Print Assumptions C15_no_sensitive_key_identity.

Theorem C15_sanitize_idempotent : forall cfg t, sanitize cfg (sanitize cfg t) = sanitize cfg t.
Proof. exact sanitize_idem. Qed.
Print Assumptions C15_sanitize_idempotent.

(* ---- configuration: customising the lists changes exactly the set ---- *)

Theorem C15_config_changes_exactly_the_set : forall cfg cfg' t,
  repl cfg = repl cfg' ->
  (forall k, In k (all_keys t) -> is_sensitive cfg k = is_sensitive cfg' k) ->
  sanitize cfg t = sanitize cfg' t.
Proof. exact config_ext. Qed.
Print Assumptions C15_config_changes_exactly_the_set.

Theorem C15_config_difference_shows : forall cfg cfg' k v,
  is_sensitive cfg k = true -> is_sensitive cfg' k = false -> is_redacted cfg v = false ->
  sanitize cfg (JObj [(k, v)]) <> sanitize cfg' (JObj [(k, v)]) \/ sanitize cfg' v <> v.
Proof. exact config_differs. Qed.
Print Assumptions C15_config_difference_shows.

(* extend = union with the lower-cased additions; configure = the lower-cased lists given *)
Theorem C15_extend_is_union : forall cfg ks ms k,
  is_sensitive (extend cfg ks ms) k =
  is_sensitive cfg k
  || match ks with Some l => mem_str (lower_ascii k) (map lower_ascii l) | None => false end
  || match ms with Some l => existsb (fun m => is_sub m (lower_ascii k)) (map lower_ascii l) | None => false end.
Proof. exact extend_sensitive. Qed.
Print Assumptions C15_extend_is_union.

Theorem C15_configure_replaces : forall cfg r ks ms k,
  is_sensitive (from_config cfg r (Some ks) (Some ms)) k =
  mem_str (lower_ascii k) (map lower_ascii ks) || existsb (fun m => is_sub m (lower_ascii k)) (map lower_ascii ms).
Proof. exact from_config_sensitive. Qed.
Print Assumptions C15_configure_replaces.

Theorem C15_configure_nothing_is_identity : forall cfg, from_config cfg None None None = cfg /\ extend cfg None None = cfg.
Proof. exact configure_nothing. Qed.
Print Assumptions C15_configure_nothing_is_identity.

(* ---- sanitize_url ---- *)

Theorem C15_url_noninterference : forall cfg u u', url_public cfg u = url_public cfg u' -> sanitize_url cfg u = sanitize_url cfg u'.
Proof. exact url_noninterference. Qed.
Print Assumptions C15_url_noninterference.

(* user-level form: any two userinfos, query pairs equal except for values of sensitive names *)
Theorem C15_url_secrets_erased : forall cfg sch ui ui' host path q q' frag,
  no_at host = true -> erase_sdict cfg q = erase_sdict cfg q' ->
  sanitize_url cfg {| u_scheme := sch; u_netloc := ui ++ AT :: host; u_path := path; u_query := q; u_fragment := frag |} =
  sanitize_url cfg {| u_scheme := sch; u_netloc := ui' ++ AT :: host; u_path := path; u_query := q'; u_fragment := frag |}.
Proof. exact url_secrets_erased. Qed.
Print Assumptions C15_url_secrets_erased.

Theorem C15_url_userinfo_replaced : forall r ui host, no_at host = true -> sanitize_netloc r (ui ++ AT :: host) = r ++ AT :: host.
Proof. exact userinfo_replaced. Qed.
Print Assumptions C15_url_userinfo_replaced.

Theorem C15_url_query_clean : forall cfg u, query_clean cfg (u_query (sanitize_url cfg u)) = true.
Proof. exact url_query_clean. Qed.
Print Assumptions C15_url_query_clean.

Theorem C15_url_without_userinfo_keeps_netloc : forall r n, no_at n = true -> sanitize_netloc r n = n.
Proof. exact netloc_no_userinfo. Qed.
Print Assumptions C15_url_without_userinfo_keeps_netloc.

(* sanitize_value on recorded headers / flat dicts is the same function *)
Theorem C15_headers_are_sanitize_value : forall cfg h h2,
  mdict_json (sanitize_mdict cfg h) = sanitize cfg (mdict_json h) /\
  sdict_json (sanitize_sdict cfg h2) = sanitize cfg (sdict_json h2).
Proof. exact headers_are_sanitize_value. Qed.
Print Assumptions C15_headers_are_sanitize_value.

(* ---- channels ---- *)

Theorem C15_channel_ni_vcr_entry : forall cfg i i',
  interaction_public cfg i = interaction_public cfg i' -> vcr_entry true cfg i = vcr_entry true cfg i'.
Proof. exact vcr_entry_ni. Qed.
Print Assumptions C15_channel_ni_vcr_entry.

(* HAR entry.  parse = the foreign cookie parser (http.cookies.SimpleCookie), any function; has_body = the request
   has a body.  Everything except the two mimeType fields - URL, queryString, header records, BOTH cookies arrays,
   redirectURL, open text - is a function of the public projection of the exchange: whatever entered through a
   sensitive header (a Cookie / Set-Cookie header with arbitrary name=value pairs included), through the userinfo
   or through a sensitive query parameter has no influence on any of these fields ... *)
Theorem C15_channel_ni_har_entry_sans_mime : forall parse cfg b b' i i',
  interaction_public cfg i = interaction_public cfg i' ->
  option_map entry_sans_mime (har_entry parse true cfg b i) = option_map entry_sans_mime (har_entry parse true cfg b' i').
Proof. exact har_entry_sans_mime_ni. Qed.
Print Assumptions C15_channel_ni_har_entry_sans_mime.

(* ... the cookies arrays in particular ... *)
Theorem C15_channel_ni_har_cookies : forall parse cfg b b' i i',
  interaction_public cfg i = interaction_public cfg i' ->
  option_map entry_cookies (har_entry parse true cfg b i) = option_map entry_cookies (har_entry parse true cfg b' i').
Proof. exact har_cookies_ni. Qed.
Print Assumptions C15_channel_ni_har_cookies.

(* ... which, where the Cookie / Set-Cookie header names are sensitive, are built from the MARKER: a function of
   the configuration and of the presence of the header, whatever name=value pairs the header carried ... *)
Theorem C15_channel_har_cookies_from_marker : forall parse cfg b i e,
  har_entry parse true cfg b i = Some e ->
  (is_sensitive cfg s_Cookie = true ->
   h_req_cookies e = if assoc_mem s_Cookie (i_req_headers i) then har_cookies parse [repl cfg] else []) /\
  (is_sensitive cfg s_SetCookie = true ->
   forall r h, h_resp e = Some r -> i_resp_headers i = Some h ->
   hr_cookies r = if assoc_mem s_SetCookie h then har_cookies parse [repl cfg] else []).
Proof. exact har_cookies_from_marker. Qed.
Print Assumptions C15_channel_har_cookies_from_marker.

(* ... and empty for every parser that finds no cookie in a single character (the writer walks the characters
   of each header value, cassettes.py:469-470), sanitization on or off; the modelled SimpleCookie is such a parser *)
Theorem C15_channel_har_cookies_empty : forall parse san cfg b i e,
  (forall ch, parse [ch] = []) -> har_entry parse san cfg b i = Some e -> entry_cookies e = ([], []).
Proof. exact har_entry_cookies_empty. Qed.
Print Assumptions C15_channel_har_cookies_empty.

Theorem C15_simple_cookie_single_character : forall ch, simple_cookie [ch] = [].
Proof. exact simple_cookie_char. Qed.
Print Assumptions C15_simple_cookie_single_character.

(* SENTINEL (not the current code): the writer that parses the cookies out of the RECORDED Cookie / set-cookie
   values and redacts them by cookie name does redact cookies whose own name is sensitive ... *)
Theorem C15_channel_har_raw_cookies_sensitive_names_redacted : forall parse cfg vs ck,
  In ck (raw_cookies parse true cfg vs) -> is_sensitive cfg (ck_name ck) = true -> ck_value ck = repl cfg.
Proof. exact har_raw_cookies_sensitive_name. Qed.
Print Assumptions C15_channel_har_raw_cookies_sensitive_names_redacted.

(* ... and leaks every other cookie: two exchanges with the same public projection (Cookie: sid=A; theme=d and
   set-cookie: sid=A; Path=/ against sid=B), same entry under the current writer, different entries under the sentinel,
   whose cookies arrays show sid=A next to header records that carry the marker *)
Theorem C15_channel_ni_har_raw_cookies_refuted : exists i i',
  interaction_public default_config i = interaction_public default_config i' /\
  har_entry simple_cookie true default_config false i = har_entry simple_cookie true default_config false i' /\
  (exists e r, har_entry_raw_cookies simple_cookie true default_config false i = Some e /\
               h_req_headers e = [(s_Cookie, default_repl)] /\
               h_req_cookies e = [new_cookie s_sid [65]%N; new_cookie [116;104;101;109;101]%N [100]%N] /\
               h_resp e = Some r /\ hr_headers r = [(s_set_cookie_lc, default_repl)] /\
               hr_cookies r = [set_attr s_path [47]%N false (new_cookie s_sid [65]%N)]) /\
  har_entry_raw_cookies simple_cookie true default_config false i <> har_entry_raw_cookies simple_cookie true default_config false i'.
Proof. exists (w_cookie_interaction 65), (w_cookie_interaction 66). exact har_raw_cookies_leaks. Qed.
Print Assumptions C15_channel_ni_har_raw_cookies_refuted.

(* The whole entry, mimeType fields included: safe where the Content-Type header is not itself sensitive under the
   configuration (the default one) ... *)
Theorem C15_channel_ni_har_entry_partial : forall parse cfg b i i',
  content_type_public cfg = true ->
  interaction_public cfg i = interaction_public cfg i' -> har_entry parse true cfg b i = har_entry parse true cfg b i'.
Proof. exact har_entry_ni. Qed.
Print Assumptions C15_channel_ni_har_entry_partial.

(* ... and refuted outside: after extend(keys_to_sanitize=[Content-Type]) postData.mimeType still shows the recorded
   value (read from the unsanitised headers, cassettes.py:377) next to a header record that carries the marker *)
Theorem C15_channel_ni_har_entry_refuted_mime : exists cfg i i',
  content_type_public cfg = false /\
  interaction_public cfg i = interaction_public cfg i' /\
  (exists e, har_entry simple_cookie true cfg true i = Some e /\
             h_req_headers e = [(s_ContentType, default_repl)] /\ h_post_mime e = Some [65]%N) /\
  har_entry simple_cookie true cfg true i <> har_entry simple_cookie true cfg true i'.
Proof. exists w_mime_cfg, (w_mime_interaction 65), (w_mime_interaction 66). exact har_mime_leaks. Qed.
Print Assumptions C15_channel_ni_har_entry_refuted_mime.

(* HAR entries for URLs with userinfo (repo fix 8fd7266e): the entry is written, with the marker in place
   of the userinfo and of every value of a sensitive query name ... *)
Theorem C15_channel_har_userinfo_entry_written : forall parse b cfg ui host i,
  no_at host = true -> u_netloc (i_uri i) = ui ++ AT :: host -> headers_have_values i = true ->
  exists e, har_entry parse true cfg b i = Some e /\ u_netloc (h_url e) = repl cfg ++ AT :: host /\
            h_url e = sanitize_url cfg (i_uri i) /\ query_clean cfg (h_query e) = true.
Proof. exact har_userinfo_entry_written. Qed.
Print Assumptions C15_channel_har_userinfo_entry_written.

(* ... whereas the writer as it was before the fix (sentinel definition) raised on every such entry *)
Theorem C15_channel_har_before_8fd7266e_raises : forall parse b ui host i,
  no_at host = true -> u_netloc (i_uri i) = ui ++ AT :: host -> har_entry_before_8fd7266e parse true default_config b i = None.
Proof. exact har_before_fix_raises. Qed.
Print Assumptions C15_channel_har_before_8fd7266e_raises.

Theorem C15_channel_har_written_before_8fd7266e_refuted : exists i,
  har_entry_before_8fd7266e simple_cookie true default_config false i = None /\
  exists e, har_entry simple_cookie true default_config false i = Some e /\
            u_netloc (h_url e) = default_repl ++ [64;104]%N /\
            h_query e = [([116;111;107;101;110]%N, default_repl)] /\
            h_req_headers e = [(s_Authorization, default_repl)].
Proof. exists w_har_interaction. exact har_fix_witness. Qed.
Print Assumptions C15_channel_har_written_before_8fd7266e_refuted.

(* the cassette as a whole: safe when the command line is the same ... *)
Theorem C15_channel_ni_vcr_file_partial : forall cfg argv0 args is_ is_',
  map (interaction_public cfg) is_ = map (interaction_public cfg) is_' ->
  vcr_file true cfg argv0 args is_ = vcr_file true cfg argv0 args is_'.
Proof. exact vcr_file_ni_same_argv. Qed.
Print Assumptions C15_channel_ni_vcr_file_partial.

(* ... and refuted when the secret came in through argv: the command: line echoes it *)
Theorem C15_channel_ni_vcr_command_refuted : exists args args',
  args_public default_config args = args_public default_config args' /\
  vcr_file true default_config s_st args [] <> vcr_file true default_config s_st args' [].
Proof. exists (w_args 65), (w_args 66). exact vcr_file_leaks. Qed.
Print Assumptions C15_channel_ni_vcr_command_refuted.

(* curl code sample *)
Theorem C15_channel_ni_curl_partial : forall cfg k k',
  kwargs_public cfg k = kwargs_public cfg k' ->
  no_request_auth k = true -> no_request_auth k' = true ->
  cookies_covered cfg k = true -> cookies_covered cfg k' = true ->
  curl_view true cfg k = curl_view true cfg k'.
Proof. exact curl_ni. Qed.
Print Assumptions C15_channel_ni_curl_partial.

Theorem C15_channel_ni_curl_refuted_request_auth : exists k k',
  kwargs_public default_config k = kwargs_public default_config k' /\
  cookies_covered default_config k = true /\ cookies_covered default_config k' = true /\
  curl_view true default_config k <> curl_view true default_config k'.
Proof. exists (w_kwargs_auth 65), (w_kwargs_auth 66). exact curl_leaks_auth. Qed.
Print Assumptions C15_channel_ni_curl_refuted_request_auth.

Theorem C15_channel_ni_curl_refuted_cookie_jar : exists k k',
  kwargs_public default_config k = kwargs_public default_config k' /\
  no_request_auth k = true /\ no_request_auth k' = true /\
  curl_view true default_config k <> curl_view true default_config k'.
Proof. exists (w_kwargs_cookie 65), (w_kwargs_cookie 66). exact curl_leaks_cookie. Qed.
Print Assumptions C15_channel_ni_curl_refuted_cookie_jar.

(* ---- order of sanitization and request preparation (seed C15_e): prepare() derives an Authorization header from the
   userinfo of the URL it is given (requests prepare_auth / get_auth_from_url) ---- *)

(* the code sanitises the URL first: whatever the userinfo, prepare can only read the marker *)
Theorem C15_channel_curl_userinfo_not_derived : forall cfg ui host k,
  no_at host = true -> u_netloc (k_url k) = ui ++ AT :: host -> k_auth k = None ->
  view_headers (curl_view true cfg k) =
    requests_prepare_core (sanitize_sdict cfg (k_headers k)) (sanitize_sdict cfg (k_cookies k)) (userinfo_auth (repl cfg)).
Proof. exact curl_userinfo_not_derived. Qed.
Print Assumptions C15_channel_curl_userinfo_not_derived.

(* ... and from a marker without a colon (the default one) nothing is derived at all *)
Theorem C15_channel_curl_marker_derives_nothing : forall cfg ui host k,
  no_at host = true -> u_netloc (k_url k) = ui ++ AT :: host -> k_auth k = None -> marker_derives_nothing cfg = true ->
  view_headers (curl_view true cfg k) =
    requests_prepare_core (sanitize_sdict cfg (k_headers k)) (sanitize_sdict cfg (k_cookies k)) None.
Proof. exact curl_marker_derives_nothing. Qed.
Print Assumptions C15_channel_curl_marker_derives_nothing.

(* noninterference in the userinfo, no region: no function of the userinfo reaches the view (structured or rendered,
   i.e. with the base64 of the Basic value computed) - for any two userinfos, any configuration, any case *)
Theorem C15_channel_ni_curl_userinfo : forall cfg ui ui' host k, no_at host = true ->
  curl_view true cfg (with_netloc (ui ++ AT :: host) k) = curl_view true cfg (with_netloc (ui' ++ AT :: host) k).
Proof. exact curl_ni_userinfo. Qed.
Print Assumptions C15_channel_ni_curl_userinfo.

Theorem C15_channel_ni_curl_userinfo_rendered : forall cfg ui ui' host k, no_at host = true ->
  rendered_headers (view_headers (curl_view true cfg (with_netloc (ui ++ AT :: host) k))) =
  rendered_headers (view_headers (curl_view true cfg (with_netloc (ui' ++ AT :: host) k))).
Proof. exact curl_ni_userinfo_rendered. Qed.
Print Assumptions C15_channel_ni_curl_userinfo_rendered.

(* structural: every header of the code sample whose name is credential-bearing carries exactly the marker
   (regions: no request auth object = finding F2, no Cookie header built from the jar = finding F3, marker without colon) *)
Theorem C15_channel_curl_headers_redacted_partial : forall cfg k,
  no_request_auth k = true -> no_cookie_jar_header cfg k = true -> marker_derives_nothing cfg = true ->
  headers_redacted cfg (view_headers (curl_view true cfg k)) = true.
Proof. exact curl_headers_redacted. Qed.
Print Assumptions C15_channel_curl_headers_redacted_partial.

(* SENTINEL (seeded order: prepare, then sanitize the URL): for EVERY user:password the view carries the Basic value
   derived from it - whatever the sanitised headers said - while its URL shows the marker *)
Theorem C15_channel_curl_prepare_first_derives_authorization : forall enc cfg u p host k,
  no_at host = true -> mem COLON u = false -> (u, p) <> ([], []) ->
  u_netloc (k_url k) = (u ++ COLON :: p) ++ AT :: host -> k_auth k = None ->
  In (s_Authorization, HBasic u p) (view_headers (curl_view_prepare_first enc true cfg k)) /\
  u_netloc (view_url (curl_view_prepare_first enc true cfg k)) = repl cfg ++ AT :: host.
Proof. exact prepare_first_derives_authorization. Qed.
Print Assumptions C15_channel_curl_prepare_first_derives_authorization.

(* ... refuted by witness: http://u:A@h/ vs http://u:B@h/ with Authorization: Bearer x - same public projection, inside
   both regions of the partial theorem, same view under the current order (Authorization: [Filtered]); under the seeded
   order the same URL ([Filtered]@h) but Authorization: Basic dTpB vs Basic dTpC *)
Theorem C15_channel_ni_curl_prepare_first_refuted : exists k k',
  kwargs_public default_config k = kwargs_public default_config k' /\
  no_request_auth k = true /\ no_request_auth k' = true /\
  cookies_covered default_config k = true /\ cookies_covered default_config k' = true /\
  curl_view true default_config k = curl_view true default_config k' /\
  rendered_headers (view_headers (curl_view true default_config k)) = [(s_Authorization, default_repl)] /\
  view_url (curl_view_prepare_first no_params_enc true default_config k) =
    view_url (curl_view_prepare_first no_params_enc true default_config k') /\
  u_netloc (view_url (curl_view_prepare_first no_params_enc true default_config k)) = default_repl ++ [64;104]%N /\
  rendered_headers (view_headers (curl_view_prepare_first no_params_enc true default_config k)) =
    [(s_Authorization, [66;97;115;105;99;32;100;84;112;66]%N)] /\
  rendered_headers (view_headers (curl_view_prepare_first no_params_enc true default_config k')) =
    [(s_Authorization, [66;97;115;105;99;32;100;84;112;67]%N)].
Proof. exists (w_kwargs_userinfo 65), (w_kwargs_userinfo 66). exact prepare_first_leaks. Qed.
Print Assumptions C15_channel_ni_curl_prepare_first_refuted.

(* derived encodings: base64 is invertible on byte strings, so the Basic value IS the user:password text - an artefact that
   shows it shows the secret, although the raw text occurs nowhere *)
Theorem C15_b64_roundtrip : forall l, is_bytes l = true -> b64_decode (b64 l) = Some l.
Proof. exact b64_roundtrip. Qed.
Print Assumptions C15_b64_roundtrip.

Theorem C15_basic_value_determines_credentials : forall u p u' p',
  is_bytes (u ++ [COLON] ++ p) = true -> is_bytes (u' ++ [COLON] ++ p') = true ->
  basic_value u p = basic_value u' p' -> u ++ [COLON] ++ p = u' ++ [COLON] ++ p'.
Proof. exact basic_value_determines_credentials. Qed.
Print Assumptions C15_basic_value_determines_credentials.

(* JUnit failure message / console FAILURES section = open text + curl sample *)
Theorem C15_channel_ni_junit_partial : forall cfg f k k',
  kwargs_public cfg k = kwargs_public cfg k' ->
  no_request_auth k = true -> no_request_auth k' = true ->
  cookies_covered cfg k = true -> cookies_covered cfg k' = true ->
  failure_message true cfg f k = failure_message true cfg f k'.
Proof. exact failure_message_ni. Qed.
Print Assumptions C15_channel_ni_junit_partial.

Theorem C15_channel_ni_console_partial : forall cfg loc fs fs',
  map fst fs = map fst fs' ->
  map (fun fk => kwargs_public cfg (snd fk)) fs = map (fun fk => kwargs_public cfg (snd fk)) fs' ->
  forallb (fun fk => no_request_auth (snd fk) && cookies_covered cfg (snd fk)) fs = true ->
  forallb (fun fk => no_request_auth (snd fk) && cookies_covered cfg (snd fk)) fs' = true ->
  console_view true cfg loc fs = console_view true cfg loc fs'.
Proof. exact console_ni. Qed.
Print Assumptions C15_channel_ni_console_partial.

Theorem C15_channel_ni_console_refuted_location : exists loc loc',
  url_public default_config loc = url_public default_config loc' /\
  console_view true default_config loc [] <> console_view true default_config loc' [].
Proof. exists (w_location 65), (w_location 66). exact console_leaks_location. Qed.
Print Assumptions C15_channel_ni_console_refuted_location.

(* ---- sanitization off: every channel shows the raw exchange, whatever the configuration ---- *)
Theorem C15_off_is_identity : forall cfg i k f loc fs argv0 args is_,
  vcr_entry false cfg i = (i_uri i, i_req_headers i, i_resp_headers i, i_open i) /\
  (forall parse b, har_entry parse false cfg b i = har_of parse (i_uri i, i_req_headers i, i_resp_headers i, i_open i) b (i_req_headers i) (i_resp_headers i)) /\
  curl_view false cfg k = (k_url k, k_params k, requests_prepare (u_netloc (k_url k)) (k_headers k) (k_cookies k) (k_auth k), k_open k) /\
  failure_message false cfg f k = (f, curl_view false cfg k) /\
  console_view false cfg loc fs = (loc, map (fun fk => (fst fk, curl_view false cfg (snd fk))) fs) /\
  vcr_file false cfg argv0 args is_ = (vcr_command argv0 args, map (fun i => (i_uri i, i_req_headers i, i_resp_headers i, i_open i)) is_).
Proof. exact off_identity. Qed.
Print Assumptions C15_off_is_identity.

(* ---- the hypotheses above are satisfiable by non-trivial inputs ---- *)
Theorem C15_hypotheses_satisfiable :
  (exists t t', t <> t' /\ eq_outside_sensitive default_config t t' = true /\ sanitize default_config t <> t /\ clean default_config t = false) /\
  (exists k k', k <> k' /\ kwargs_public default_config k = kwargs_public default_config k' /\ no_request_auth k = true /\
                cookies_covered default_config k = true /\ curl_view true default_config k = curl_view true default_config k').
Proof. exact hypotheses_satisfiable. Qed.
Print Assumptions C15_hypotheses_satisfiable.
