(* C20 - lemmas, witnesses and non-vacuity examples for Model_C20. *)
From Coq Require Import List NArith ZArith Bool Lia ZifyBool.
From Verif Require Import Common.Str C20.Model_C20.
Import ListNotations.

(* ------------------------------------------------------------------------------------------------ *)
(* small facts                                                                                       *)
Lemma mem_str_spec s l : mem_str s l = true <-> In s l.
Proof.
  induction l as [|x r IH]; cbn [mem_str In].
  - split; [discriminate | tauto].
  - rewrite orb_true_iff, IH, str_eqb_spec. split; intros [H|H]; auto.
Qed.

Lemma mem_str_false s l : mem_str s l = false <-> ~ In s l.
Proof. rewrite <- mem_str_spec. destruct (mem_str s l); split; congruence. Qed.

Lemma str_eqb_sym a b : str_eqb a b = str_eqb b a.
Proof.
  destruct (str_eqb a b) eqn:E1, (str_eqb b a) eqn:E2; auto.
  - apply str_eqb_spec in E1. subst. rewrite str_eqb_refl in E2. discriminate.
  - apply str_eqb_spec in E2. subst. rewrite str_eqb_refl in E1. discriminate.
Qed.

Lemma str_eqb_false a b : str_eqb a b = false <-> a <> b.
Proof. rewrite <- str_eqb_spec. destruct (str_eqb a b); split; congruence. Qed.

(* ------------------------------------------------------------------------------------------------ *)
(* FilterSet.match against its specification                                                         *)
Definition filter_matches (f : flt) (c : ctx) : Prop := forall m, In m f -> matcher_match m c = true.
(* an operation passes the filters: no EXCLUDE filter matches, and some INCLUDE filter matches unless there is none *)
Definition passes (fs : filter_set) (c : ctx) : Prop :=
  (forall f, In f (fs_excludes fs) -> ~ filter_matches f c) /\
  (fs_includes fs = [] \/ exists f, In f (fs_includes fs) /\ filter_matches f c).

Lemma filter_match_spec f c : filter_match f c = true <-> filter_matches f c.
Proof. unfold filter_match, filter_matches. apply forallb_forall. Qed.

Lemma fs_match_spec fs c : fs_match fs c = true <-> passes fs c.
Proof.
  unfold fs_match, passes.
  destruct (existsb (fun f => filter_match f c) (fs_excludes fs)) eqn:Ex.
  - split; [discriminate|]. intros [Hex _]. exfalso.
    apply existsb_exists in Ex. destruct Ex as [f [Hin Hm]].
    apply (Hex f Hin). apply filter_match_spec. exact Hm.
  - assert (Hex : forall f, In f (fs_excludes fs) -> ~ filter_matches f c).
    { intros f Hin Hm. apply filter_match_spec in Hm.
      assert (existsb (fun f => filter_match f c) (fs_excludes fs) = true) by (apply existsb_exists; eauto).
      congruence. }
    destruct (fs_includes fs) as [|i0 irest] eqn:Inc.
    + split; auto.
    + rewrite existsb_exists. split.
      * intros [f [Hin Hm]]. split; auto. right. exists f. split; auto. apply filter_match_spec. exact Hm.
      * intros [_ [Hnil | [f [Hin Hm]]]]; [discriminate|]. exists f. split; auto. apply filter_match_spec. exact Hm.
Qed.

(* ------------------------------------------------------------------------------------------------ *)
(* get_all_operations = the root fields that pass the filters, in order                              *)
Definition keep (path : str) (fs : filter_set) (o : op) : bool := fs_match fs (real_ctx path o).

Lemma offered_fields_filter path fs r t fields :
  offered_fields path fs r t fields =
  filter (keep path fs) (map (fun f => {| o_root := r; o_type := t; o_field := f |}) fields).
Proof.
  induction fields as [|f rest IH]; cbn [offered_fields map filter]; auto.
  unfold should_skip, keep at 1. destruct (fs_match fs _); cbn [negb]; rewrite IH; reflexivity.
Qed.

Lemma offered_root_filter path fs r t :
  offered_root path fs r t = filter (keep path fs) (fields_of_root r t).
Proof. destruct t as [ct|]; cbn [offered_root fields_of_root filter]; auto. apply offered_fields_filter. Qed.

Lemma filter_app' {A} (p : A -> bool) l1 l2 : filter p (l1 ++ l2) = filter p l1 ++ filter p l2.
Proof. induction l1 as [|x r IH]; cbn [app filter]; auto. destruct (p x); cbn [app]; rewrite IH; auto. Qed.

Lemma offered_eq path fs c : offered path fs c = filter (keep path fs) (root_fields c).
Proof. unfold offered, root_fields. rewrite filter_app', !offered_root_filter. reflexivity. Qed.

Lemma offered_iff path fs c o :
  In o (offered path fs c) <-> In o (root_fields c) /\ passes fs (real_ctx path o).
Proof. rewrite offered_eq, filter_In. unfold keep. rewrite fs_match_spec. tauto. Qed.

(* no operation is offered twice unless the schema lists it twice; labels identify the root field *)
Lemma offered_incl path fs c o : In o (offered path fs c) -> In o (root_fields c).
Proof. intros H. apply offered_iff in H. tauto. Qed.

Lemma root_fields_shape c o :
  In o (root_fields c) <->
  (exists ct, c_query c = Some ct /\ o_root o = RQuery /\ o_type o = ct_name ct /\ In (o_field o) (ct_fields ct)) \/
  (exists ct, c_mutation c = Some ct /\ o_root o = RMutation /\ o_type o = ct_name ct /\ In (o_field o) (ct_fields ct)).
Proof.
  unfold root_fields. rewrite in_app_iff.
  assert (H : forall r t, In o (fields_of_root r t) <->
              exists ct, t = Some ct /\ o_root o = r /\ o_type o = ct_name ct /\ In (o_field o) (ct_fields ct)).
  { intros r t. destruct t as [ct|]; cbn [fields_of_root].
    - rewrite in_map_iff. split.
      + intros [f [E Hin]]. subst o. exists ct. cbn. auto.
      + intros [ct' [E [Hr [Ht Hf]]]]. injection E as E. subst ct'. exists (o_field o). split; auto.
        destruct o as [r0 t0 f0]. cbn in *. subst. reflexivity.
    - split; [intros []|]. intros [ct [E _]]. discriminate. }
  rewrite !H. tauto.
Qed.

(* ------------------------------------------------------------------------------------------------ *)
(* counts                                                                                            *)
(* filters that do not look at operation.definition: the same answer on the dummy and the real operation *)
Definition blind_matcher (m : matcher) : Prop :=
  forall c1 c2, c_label c1 = c_label c2 -> c_path c1 = c_path c2 -> matcher_match m c1 = matcher_match m c2.
Definition blind (fs : filter_set) : Prop :=
  forall f m, In f (fs_includes fs ++ fs_excludes fs) -> In m f -> blind_matcher m.

Lemma attr_value_blind c1 c2 a :
  c_label c1 = c_label c2 -> c_path c1 = c_path c2 -> attr_value c1 a = attr_value c2 a.
Proof. intros Hl Hp. destruct a; cbn [attr_value]; congruence. Qed.

Lemma no_func_blind fs : fs_no_func fs = true -> blind fs.
Proof.
  unfold fs_no_func, blind. intros H f m Hf Hm c1 c2 Hl Hp.
  rewrite forallb_forall in H. specialize (H f Hf). rewrite forallb_forall in H. specialize (H m Hm).
  destruct m as [a e|a es|a p|g]; cbn [is_func negb] in H; try discriminate;
    cbn [matcher_match]; rewrite (attr_value_blind c1 c2 a Hl Hp); reflexivity.
Qed.

Lemma filter_match_blind fs f c1 c2 :
  blind fs -> In f (fs_includes fs ++ fs_excludes fs) ->
  c_label c1 = c_label c2 -> c_path c1 = c_path c2 -> filter_match f c1 = filter_match f c2.
Proof.
  intros Hb Hf Hl Hp. unfold filter_match.
  assert (G : forall l, (forall m, In m l -> In m f) ->
              forallb (fun m => matcher_match m c1) l = forallb (fun m => matcher_match m c2) l).
  { induction l as [|m r IH]; intros Hsub; cbn [forallb]; auto.
    rewrite (Hb f m Hf (Hsub m (or_introl eq_refl)) c1 c2 Hl Hp), IH; auto.
    intros m' Hm'. apply Hsub. right. exact Hm'. }
  apply G. auto.
Qed.

Lemma existsb_ext_in {A} (p q : A -> bool) l : (forall x, In x l -> p x = q x) -> existsb p l = existsb q l.
Proof.
  induction l as [|x r IH]; intros H; cbn [existsb]; auto.
  rewrite (H x (or_introl eq_refl)), IH; auto. intros y Hy. apply H. right. exact Hy.
Qed.

Lemma fs_match_blind fs c1 c2 :
  blind fs -> c_label c1 = c_label c2 -> c_path c1 = c_path c2 -> fs_match fs c1 = fs_match fs c2.
Proof.
  intros Hb Hl Hp. unfold fs_match.
  rewrite (existsb_ext_in (fun f => filter_match f c1) (fun f => filter_match f c2) (fs_excludes fs)).
  2:{ intros f Hf. apply (filter_match_blind fs); auto. apply in_or_app. right. exact Hf. }
  rewrite (existsb_ext_in (fun f => filter_match f c1) (fun f => filter_match f c2) (fs_includes fs)).
  2:{ intros f Hf. apply (filter_match_blind fs); auto. apply in_or_app. left. exact Hf. }
  reflexivity.
Qed.

Lemma count_fields_spec path fs r t fields a b :
  blind fs ->
  count_fields path fs t fields (a, b) =
  ((a + N.of_nat (length fields))%N, (b + N.of_nat (length (offered_fields path fs r t fields)))%N).
Proof.
  intros Hb. revert a b. induction fields as [|f rest IH]; intros a b; cbn [count_fields offered_fields length].
  - f_equal; lia.
  - unfold should_skip.
    rewrite (fs_match_blind fs (dummy_ctx path (mk_label t f))
               (real_ctx path {| o_root := r; o_type := t; o_field := f |}) Hb eq_refl eq_refl).
    destruct (fs_match fs (real_ctx path _)); cbn [negb length]; rewrite IH; f_equal; lia.
Qed.

Lemma count_named_zero_find n ts : count_named n ts = 0%nat -> find_last n ts = None.
Proof.
  induction ts as [|t r IH]; cbn [count_named find_last]; auto.
  destruct (str_eqb (rt_name t) n); intros H; [discriminate|]. rewrite IH; auto.
Qed.

Lemma count_named_zero_types path fs n ts acc : count_named n ts = 0%nat -> count_types path fs n ts acc = Some acc.
Proof.
  induction ts as [|t r IH]; cbn [count_named count_types]; auto.
  destruct (str_eqb (rt_name t) n); intros H; [discriminate|]. apply IH. exact H.
Qed.

Lemma count_types_unique path fs n ts t acc :
  count_named n ts = 1%nat -> find_last n ts = Some t ->
  count_types path fs n ts acc =
  match rt_fields t with None => None | Some fields => Some (count_fields path fs n fields acc) end.
Proof.
  induction ts as [|t0 r IH]; cbn [count_named find_last count_types]; [discriminate|].
  destruct (str_eqb (rt_name t0) n) eqn:E; intros Hc Hf.
  - assert (Hz : count_named n r = 0%nat) by lia.
    rewrite (count_named_zero_find n r Hz) in Hf. injection Hf as Hf. subst t0.
    destruct (rt_fields t) as [fields|]; auto. apply count_named_zero_types. exact Hz.
  - destruct (find_last n r) as [t'|] eqn:F; [|discriminate]. injection Hf as Hf. subst t'.
    apply IH; auto.
Qed.

Lemma dedup_aux_nodup seen l :
  nodup_str l = true -> (forall x, In x l -> ~ In x seen) -> dedup_aux seen l = l.
Proof.
  revert seen. induction l as [|x r IH]; intros seen Hn Hs; cbn [dedup_aux nodup_str] in *; auto.
  apply andb_true_iff in Hn. destruct Hn as [Hx Hr].
  assert (Hm : mem_str x seen = false) by (apply mem_str_false; apply Hs; left; reflexivity).
  rewrite Hm. f_equal. apply IH; auto.
  intros y Hy [Hyx | Hin].
  - subst y. apply negb_true_iff in Hx. apply mem_str_false in Hx. contradiction.
  - apply (Hs y); auto. right. exact Hy.
Qed.

Lemma dedup_nodup l : nodup_str l = true -> dedup l = l.
Proof. intros H. apply dedup_aux_nodup; auto. Qed.

Lemma find_last_name n ts t : find_last n ts = Some t -> rt_name t = n.
Proof.
  induction ts as [|t0 r IH]; cbn [find_last]; [discriminate|].
  destruct (find_last n r) as [t'|].
  - intros H. injection H as H. subst t'. apply IH. reflexivity.
  - destruct (str_eqb (rt_name t0) n) eqn:E; [|discriminate]. intros H. injection H as H. subst t0.
    apply str_eqb_spec. exact E.
Qed.

Lemma count_root_wf path fs r ts name a b :
  blind fs -> wf_root ts name = true ->
  exists t, build_root ts name = BOk t /\
            count_root path fs ts name (a, b) =
            Some ((a + N.of_nat (length (fields_of_root r t)))%N, (b + N.of_nat (length (offered_root path fs r t)))%N).
Proof.
  intros Hb Hwf. destruct name as [n|]; cbn [wf_root build_root count_root] in *.
  - apply andb_true_iff in Hwf. destruct Hwf as [Hc Hf]. apply Nat.eqb_eq in Hc.
    destruct (find_last n ts) as [t|] eqn:F; [|discriminate].
    destruct (rt_kind t) eqn:K; [|discriminate]. destruct (rt_fields t) as [fields|] eqn:Fl; [|discriminate].
    eexists. split; [reflexivity|].
    rewrite (count_types_unique path fs n ts t (a, b) Hc F), Fl.
    cbn [fields_of_root offered_root ct_name ct_fields]. rewrite (dedup_nodup fields Hf), map_length.
    rewrite (find_last_name n ts t F). rewrite (count_fields_spec path fs r n fields a b Hb). reflexivity.
  - exists None. split; auto. cbn [fields_of_root offered_root length]. f_equal. f_equal; lia.
Qed.

Lemma counts_eq_offered_blind path fs r :
  blind fs -> wf_raw r = true ->
  exists c, build_client r = BOk c /\
            measure path fs r = Some (N.of_nat (length (root_fields c)), N.of_nat (length (offered path fs c))).
Proof.
  intros Hb Hwf. unfold wf_raw in Hwf. apply andb_true_iff in Hwf. destruct Hwf as [Hq Hm].
  destruct (count_root_wf path fs RQuery (r_types r) (r_query r) 0%N 0%N Hb Hq) as [q [Bq Cq]].
  unfold measure, build_client. rewrite Bq, Cq.
  destruct (count_root_wf path fs RMutation (r_types r) (r_mutation r)
              (0 + N.of_nat (length (fields_of_root RQuery q)))%N
              (0 + N.of_nat (length (offered_root path fs RQuery q)))%N Hb Hm) as [m [Bm Cm]].
  rewrite Bm, Cm. eexists. split; [reflexivity|].
  unfold root_fields, offered. cbn [c_query c_mutation]. rewrite !app_length. f_equal. f_equal; lia.
Qed.

Lemma counts_eq_offered_partial path fs r :
  wf_raw r = true -> fs_no_func fs = true ->
  exists c, build_client r = BOk c /\
            measure path fs r = Some (N.of_nat (length (root_fields c)), N.of_nat (length (offered path fs c))).
Proof. intros Hwf Hnf. apply counts_eq_offered_blind; auto. apply no_func_blind. exact Hnf. Qed.

(* witnesses *)
Definition n_Query : str := [81;117;101;114;121]%N.
Definition n_Mutation : str := [77;117;116;97;116;105;111;110]%N.
Definition n_foo : str := [102;111;111]%N.
Definition n_bar : str := [98;97;114]%N.
Definition n_baz : str := [98;97;122]%N.
Definition n_Long : str := [76;111;110;103]%N.
Definition w_path : str := [47;103;113;108]%N.

Definition t_query := {| rt_name := n_Query; rt_kind := KObject; rt_fields := Some [n_foo; n_bar] |}.
Definition t_mutation := {| rt_name := n_Mutation; rt_kind := KObject; rt_fields := Some [n_foo; n_baz] |}.
Definition t_long := {| rt_name := n_Long; rt_kind := KOther; rt_fields := None |}.
Definition raw_ok : raw :=
  {| r_query := Some n_Query; r_mutation := Some n_Mutation; r_types := [t_query; t_long; t_mutation] |}.
(* the introspection result lists the Query type twice *)
Definition raw_dup_type : raw :=
  {| r_query := Some n_Query; r_mutation := Some n_Mutation; r_types := [t_query; t_long; t_mutation; t_query] |}.
(* the Query type lists the field foo twice *)
Definition raw_dup_field : raw :=
  {| r_query := Some n_Query; r_mutation := None;
     r_types := [{| rt_name := n_Query; rt_kind := KObject; rt_fields := Some [n_foo; n_bar; n_foo] |}] |}.
Definition fs_none : filter_set := {| fs_includes := []; fs_excludes := [] |}.
Definition fs_name : filter_set :=
  {| fs_includes := [[MValue ALabel (mk_label n_Query n_foo)]; [MList ALabel [mk_label n_Mutation n_baz]]];
     fs_excludes := [[MRegex ALabel (fun s => starts_with n_Mutation s); MValue AMethod s_POST; MValue APath w_path]] |}.
(* include(lambda ctx: ctx.operation.definition is not None) *)
Definition fs_func : filter_set :=
  {| fs_includes := [[MFunc (fun c => match c_def c with Some _ => true | None => false end)]]; fs_excludes := [] |}.

Definition counts_agree (path : str) (fs : filter_set) (r : raw) : Prop :=
  exists c, build_client r = BOk c /\
            measure path fs r = Some (N.of_nat (length (root_fields c)), N.of_nat (length (offered path fs c))).

Lemma counts_refuted_dup_type : fs_no_func fs_none = true /\ ~ counts_agree w_path fs_none raw_dup_type.
Proof. split; [reflexivity|]. intros [c [B M]]. vm_compute in B. injection B as B. subst c. vm_compute in M. discriminate. Qed.

Lemma counts_refuted_dup_field : fs_no_func fs_none = true /\ ~ counts_agree w_path fs_none raw_dup_field.
Proof. split; [reflexivity|]. intros [c [B M]]. vm_compute in B. injection B as B. subst c. vm_compute in M. discriminate. Qed.

Lemma counts_refuted_func : wf_raw raw_ok = true /\ ~ counts_agree w_path fs_func raw_ok.
Proof. split; [reflexivity|]. intros [c [B M]]. vm_compute in B. injection B as B. subst c. vm_compute in M. discriminate. Qed.

Example counts_nonvacuous :
  wf_raw raw_ok = true /\ fs_no_func fs_name = true /\
  measure w_path fs_name raw_ok = Some (4%N, 1%N) /\
  offered_raw w_path fs_name raw_ok = BOk [{| o_root := RQuery; o_type := n_Query; o_field := n_foo |}].
Proof. vm_compute. repeat split. Qed.

(* ------------------------------------------------------------------------------------------------ *)
(* the strategy call targets the operation's own root type and field                                 *)
Lemma strategy_targets_field c cfg names o :
  In o (root_fields c) ->
  hg_accepts c (strategy_call cfg names o) = true /\
  hg_target c (strategy_call cfg names o) = Some (o_type o, [o_field o]) /\
  sc_allow_x00 (strategy_call cfg names o) = g_allow_x00 cfg /\
  sc_allow_null (strategy_call cfg names o) = g_allow_null cfg /\
  sc_codec (strategy_call cfg names o) = g_codec cfg /\
  sc_scalars (strategy_call cfg names o) = names.
Proof.
  intros Hin. apply root_fields_shape in Hin.
  unfold hg_accepts, hg_target, strategy_call, hg_root_type. cbn [sc_factory sc_fields sc_allow_x00 sc_allow_null sc_codec sc_scalars].
  destruct Hin as [[ct [Hq [Hr [Ht Hf]]]] | [ct [Hm [Hr [Ht Hf]]]]]; rewrite Hr; cbn [factory_of].
  - rewrite Hq. cbn [forallb]. apply mem_str_spec in Hf. rewrite Hf, Ht. repeat split; reflexivity.
  - rewrite Hm. cbn [forallb]. apply mem_str_spec in Hf. rewrite Hf, Ht. repeat split; reflexivity.
Qed.

Lemma strategy_targets_offered path fs c cfg names o :
  In o (offered path fs c) ->
  hg_accepts c (strategy_call cfg names o) = true /\
  hg_target c (strategy_call cfg names o) = Some (o_type o, [o_field o]).
Proof.
  intros Hin. apply offered_incl in Hin.
  destruct (strategy_targets_field c cfg names o Hin) as [H1 [H2 _]]. auto.
Qed.

Definition client_ok : client :=
  {| c_query := Some {| ct_name := n_Query; ct_fields := [n_foo; n_bar] |};
     c_mutation := Some {| ct_name := n_Mutation; ct_fields := [n_foo; n_baz] |} |}.

Example strategy_nonvacuous :
  build_client raw_ok = BOk client_ok /\
  length (root_fields client_ok) = 4%nat /\
  hg_target client_ok (strategy_call {| g_allow_x00 := false; g_allow_null := true; g_codec := None |} [n_Long]
                         {| o_root := RMutation; o_type := n_Mutation; o_field := n_baz |})
  = Some (n_Mutation, [n_baz]).
Proof. vm_compute. repeat split. Qed.

(* ------------------------------------------------------------------------------------------------ *)
Definition spec_of (c : client) (p : str * str) : lres := lookup_spec c (fst p) (snd p).

(* schema[type][field] with the cache keyed by type.field (fe80b0ba)                                   *)
Lemma mk_label_inj a : forall b x y,
  mem dot a = false -> mem dot b = false -> mk_label a x = mk_label b y -> a = b /\ x = y.
Proof.
  unfold mk_label, mem. induction a as [|c a IH]; intros b x y Ha Hb E; destruct b as [|d b]; cbn [app existsb] in *.
  - injection E as E. auto.
  - injection E as E1 E2. subst d. rewrite N.eqb_refl in Hb. discriminate.
  - injection E as E1 E2. subst c. rewrite N.eqb_refl in Ha. discriminate.
  - injection E as E1 E2. subst d. apply orb_false_iff in Ha. apply orb_false_iff in Hb.
    destruct (IH b x y (proj2 Ha) (proj2 Hb) E2) as [H1 H2]. subst. auto.
Qed.

Lemma root_by_name_spec c key r ct :
  root_by_name c key = Some (r, ct) ->
  ct_name ct = key /\ ((c_query c = Some ct /\ r = RQuery) \/ (c_mutation c = Some ct /\ r = RMutation)).
Proof.
  unfold root_by_name. intros H.
  destruct (c_query c) as [qt|]; destruct (c_mutation c) as [mt|];
    repeat match type of H with
    | context [str_eqb ?a ?b] => let E := fresh "E" in destruct (str_eqb a b) eqn:E
    end; try discriminate; injection H as H1 H2; subst;
    match goal with E : str_eqb _ _ = true |- _ => apply str_eqb_spec in E end; auto.
Qed.

Lemma root_dotless c key r ct :
  root_names_dotless c = true -> root_by_name c key = Some (r, ct) -> mem dot key = false.
Proof.
  intros Hd H. destruct (root_by_name_spec c key r ct H) as [Hn Hc]. subst key.
  unfold root_names_dotless in Hd. apply andb_true_iff in Hd. destruct Hd as [Hq Hm]. unfold dotless in *.
  destruct Hc as [[E _] | [E _]]; rewrite E in *; apply negb_true_iff; assumption.
Qed.

Lemma run_lookups_inv c h : root_names_dotless c = true -> forall ca,
  (forall k o, cache_get k ca = Some o ->
     exists key field, k = mk_label key field /\ mem dot key = false /\ lookup_spec c key field = LOp o) ->
  run_lookups c ca h = map (spec_of c) h.
Proof.
  intros Hd. unfold run_lookups. induction h as [|[key field] rest IH]; intros ca Hinv; cbn [run_lookups_with map]; auto.
  unfold lookup_with, spec_of at 1, lookup_spec. cbn [fst snd].
  destruct (root_by_name c key) as [[r ct]|] eqn:R.
  - destruct (root_by_name_spec c key r ct R) as [Hname _].
    pose proof (root_dotless c key r ct Hd R) as Hkey.
    unfold cache_key. replace (mk_label (ct_name ct) field) with (mk_label key field) by (rewrite Hname; reflexivity).
    destruct (cache_get (mk_label key field) ca) as [o|] eqn:G.
    + destruct (Hinv _ o G) as [key' [field' [Ek [Hk' Hs]]]].
      destruct (mk_label_inj key key' field field' Hkey Hk' Ek) as [E1 E2]. subst key' field'.
      unfold lookup_spec in Hs. rewrite R in Hs. f_equal; [exact (eq_sym Hs)|]. apply IH. exact Hinv.
    + destruct (mem_str field (ct_fields ct)) eqn:M; f_equal; apply IH; auto.
      intros k o' Hg. cbn [cache_get] in Hg. destruct (str_eqb (mk_label key field) k) eqn:E.
      * apply str_eqb_spec in E. subst k. injection Hg as Hg. subst o'. exists key, field. repeat split; auto.
        unfold lookup_spec. rewrite R, M. reflexivity.
      * apply Hinv. exact Hg.
  - f_equal. apply IH. exact Hinv.
Qed.

(* every history, same-named fields under both root types included *)
Lemma lookups_full c h : root_names_dotless c = true -> run_lookups c [] h = map (spec_of c) h.
Proof. intros Hd. apply run_lookups_inv; auto. intros k o Hg. discriminate. Qed.

(* ------------------------------------------------------------------------------------------------ *)
(* SENTINEL: schema[type][field] with the cache keyed by field name (before fe80b0ba)                                            *)

Lemma hist_consistent_spec h :
  hist_consistent h = true -> forall p q, In p h -> In q h -> snd p = snd q -> fst p = fst q.
Proof.
  unfold hist_consistent. intros H p q Hp Hq E.
  rewrite forallb_forall in H. specialize (H p Hp). rewrite forallb_forall in H. specialize (H q Hq).
  assert (E' : str_eqb (snd p) (snd q) = true) by (apply str_eqb_spec; exact E).
  rewrite E' in H. cbn [implb] in H. apply str_eqb_spec. exact H.
Qed.

Lemma run_lookups_fk_inv c h : forall seen ca,
  (forall k o, cache_get k ca = Some o -> exists key, In (key, k) seen /\ lookup_spec c key k = LOp o) ->
  (forall p q, In p (seen ++ h) -> In q (seen ++ h) -> snd p = snd q -> fst p = fst q) ->
  run_lookups_fk c ca h = map (spec_of c) h.
Proof.
  induction h as [|[key field] rest IH]; intros seen ca Hinv Hcons; cbn [run_lookups_fk run_lookups_with map]; auto.
  assert (Hcons' : forall p q, In p ((seen ++ [(key, field)]) ++ rest) -> In q ((seen ++ [(key, field)]) ++ rest) ->
                               snd p = snd q -> fst p = fst q).
  { intros p q. rewrite <- !app_assoc. cbn [app]. apply Hcons. }
  unfold lookup_fk, lookup_with, cache_key_fk, spec_of at 1, lookup_spec. cbn [fst snd].
  destruct (root_by_name c key) as [[r ct]|] eqn:R.
  - destruct (cache_get field ca) as [o|] eqn:G.
    + destruct (Hinv field o G) as [key' [Hin Hs]].
      assert (Ek : key' = key).
      { apply (Hcons (key', field) (key, field)); auto.
        - apply in_or_app. left. exact Hin.
        - apply in_or_app. right. left. reflexivity. }
      subst key'. unfold lookup_spec in Hs. rewrite R in Hs.
      f_equal; [exact (eq_sym Hs)|].
      apply (IH (seen ++ [(key, field)])); auto.
      intros k o' Hg. destruct (Hinv k o' Hg) as [k' [Hin' Hs']]. exists k'. split; auto.
      apply in_or_app. left. exact Hin'.
    + destruct (mem_str field (ct_fields ct)) eqn:M.
      * f_equal. apply (IH (seen ++ [(key, field)])); auto.
        intros k o' Hg. cbn [cache_get] in Hg. destruct (str_eqb field k) eqn:E.
        -- apply str_eqb_spec in E. subst k. injection Hg as Hg. subst o'. exists key. split.
           ++ apply in_or_app. right. left. reflexivity.
           ++ unfold lookup_spec. rewrite R, M. reflexivity.
        -- destruct (Hinv k o' Hg) as [k' [Hin' Hs']]. exists k'. split; auto. apply in_or_app. left. exact Hin'.
      * f_equal. apply (IH (seen ++ [(key, field)])); auto.
        intros k o' Hg. destruct (Hinv k o' Hg) as [k' [Hin' Hs']]. exists k'. split; auto.
        apply in_or_app. left. exact Hin'.
  - f_equal. apply (IH (seen ++ [(key, field)])); auto.
    intros k o' Hg. destruct (Hinv k o' Hg) as [k' [Hin' Hs']]. exists k'. split; auto.
    apply in_or_app. left. exact Hin'.
Qed.

Lemma lookups_fk_partial c h : hist_consistent h = true -> run_lookups_fk c [] h = map (spec_of c) h.
Proof.
  intros H. apply (run_lookups_fk_inv c h [] []).
  - intros k o Hg. discriminate.
  - cbn [app]. apply hist_consistent_spec. exact H.
Qed.

(* a schema with a single root type never mixes operations up, whatever the history *)
Lemma lookups_fk_single_root c h :
  c_mutation c = None -> run_lookups_fk c [] h = map (spec_of c) h.
Proof.
  intros Hm.
  assert (G : forall h ca, (forall k o, cache_get k ca = Some o ->
                              exists ct, c_query c = Some ct /\ mem_str k (ct_fields ct) = true /\
                                         o = {| o_root := RQuery; o_type := ct_name ct; o_field := k |}) ->
              run_lookups_fk c ca h = map (spec_of c) h).
  { clear h. induction h as [|[key field] rest IH]; intros ca Hinv; cbn [run_lookups_fk run_lookups_with map]; auto.
    unfold lookup_fk, lookup_with, cache_key_fk, spec_of at 1, lookup_spec. cbn [fst snd].
    destruct (root_by_name c key) as [[r ct]|] eqn:R.
    - assert (Hq : c_query c = Some ct /\ r = RQuery).
      { unfold root_by_name in R. rewrite Hm in R. destruct (c_query c) as [qt|]; [|discriminate].
        destruct (str_eqb (ct_name qt) key); [|discriminate]. injection R as R1 R2. subst. auto. }
      destruct Hq as [Hq Hr]. subst r.
      destruct (cache_get field ca) as [o|] eqn:G.
      + destruct (Hinv field o G) as [ct' [Hq' [Hmem Ho]]]. rewrite Hq in Hq'. injection Hq' as Hq'. subst ct'.
        rewrite Hmem. subst o. f_equal. apply IH. exact Hinv.
      + destruct (mem_str field (ct_fields ct)) eqn:M; f_equal; apply IH; auto.
        intros k o' Hg. cbn [cache_get] in Hg. destruct (str_eqb field k) eqn:E.
        * apply str_eqb_spec in E. subst k. injection Hg as Hg. subst o'. exists ct. auto.
        * apply Hinv. exact Hg.
    - f_equal. apply IH. exact Hinv. }
  apply G. intros k o Hg. discriminate.
Qed.

Definition h_cross : list (str * str) := [(n_Mutation, n_foo); (n_Query, n_foo)].
Lemma lookups_fk_refuted : run_lookups_fk client_ok [] h_cross <> map (spec_of client_ok) h_cross.
Proof. vm_compute. discriminate. Qed.
(* ... and a field of the other root type is returned instead of a KeyError *)
Definition h_cross_missing : list (str * str) := [(n_Mutation, n_baz); (n_Query, n_baz)].
Lemma lookups_fk_refuted_missing :
  run_lookups_fk client_ok [] h_cross_missing =
    [LOp {| o_root := RMutation; o_type := n_Mutation; o_field := n_baz |};
     LOp {| o_root := RMutation; o_type := n_Mutation; o_field := n_baz |}] /\
  spec_of client_ok (n_Query, n_baz) = LNoField.
Proof. vm_compute. split; reflexivity. Qed.

Example lookups_fk_nonvacuous :
  hist_consistent [(n_Query, n_foo); (n_Mutation, n_baz); (n_Query, n_foo); (n_Query, n_baz); (n_Long, n_foo)] = false /\
  hist_consistent [(n_Query, n_foo); (n_Mutation, n_baz); (n_Query, n_foo); (n_Long, n_Long); (n_Query, n_bar)] = true /\
  run_lookups_fk client_ok [] [(n_Query, n_foo); (n_Mutation, n_baz); (n_Query, n_foo)] =
    [LOp {| o_root := RQuery; o_type := n_Query; o_field := n_foo |};
     LOp {| o_root := RMutation; o_type := n_Mutation; o_field := n_baz |};
     LOp {| o_root := RQuery; o_type := n_Query; o_field := n_foo |}].
Proof. vm_compute. repeat split. Qed.

(* the same two histories on the cache as it is now *)
Lemma lookups_fixed_on_witnesses :
  run_lookups client_ok [] h_cross = map (spec_of client_ok) h_cross /\
  run_lookups client_ok [] h_cross_missing = map (spec_of client_ok) h_cross_missing /\
  run_lookups client_ok [] (rev h_cross) = map (spec_of client_ok) (rev h_cross) /\
  run_lookups_fk client_ok [] (rev h_cross) <> map (spec_of client_ok) (rev h_cross).
Proof. vm_compute. repeat split; try reflexivity. discriminate. Qed.

Lemma field_keyed_cache_refuted :
  root_names_dotless client_ok = true /\
  run_lookups_fk client_ok [] h_cross <> map (spec_of client_ok) h_cross /\
  run_lookups client_ok [] h_cross = map (spec_of client_ok) h_cross.
Proof. split; [reflexivity|]. split; [exact lookups_fk_refuted | exact (proj1 lookups_fixed_on_witnesses)]. Qed.

(* the dotless hypothesis is needed by the MODEL (strings are arbitrary there; graphql-core refuses such names) *)
Definition client_dotted : client :=
  {| c_query := Some {| ct_name := [65]%N; ct_fields := [[98;46;99]%N] |};
     c_mutation := Some {| ct_name := [65;46;98]%N; ct_fields := [[99]%N] |} |}.
Lemma lookups_dotted_names_collide :
  root_names_dotless client_dotted = false /\
  run_lookups client_dotted [] [([65]%N, [98;46;99]%N); ([65;46;98]%N, [99]%N)] <>
  map (spec_of client_dotted) [([65]%N, [98;46;99]%N); ([65;46;98]%N, [99]%N)].
Proof. vm_compute. split; [reflexivity|discriminate]. Qed.

Example lookups_nonvacuous :
  root_names_dotless client_ok = true /\
  run_lookups client_ok [] [(n_Mutation, n_foo); (n_Query, n_foo); (n_Query, n_baz); (n_Mutation, n_foo); (n_Long, n_foo)] =
    [LOp {| o_root := RMutation; o_type := n_Mutation; o_field := n_foo |};
     LOp {| o_root := RQuery; o_type := n_Query; o_field := n_foo |}; LNoField;
     LOp {| o_root := RMutation; o_type := n_Mutation; o_field := n_foo |}; LNoType].
Proof. vm_compute. split; reflexivity. Qed.

(* ------------------------------------------------------------------------------------------------ *)
(* the scalar table                                                                                  *)
Lemma tbl_get_set k k' v t : tbl_get k (tbl_set k' v t) = if str_eqb k' k then Some v else tbl_get k t.
Proof.
  induction t as [|[k0 v0] r IH]; cbn [tbl_set tbl_get].
  - destruct (str_eqb k' k); reflexivity.
  - destruct (str_eqb k0 k') eqn:E0; cbn [tbl_get].
    + apply str_eqb_spec in E0. subst k0. destruct (str_eqb k' k); reflexivity.
    + destruct (str_eqb k0 k) eqn:E1.
      * destruct (str_eqb k' k) eqn:E2; auto.
        apply str_eqb_spec in E1. apply str_eqb_spec in E2. subst. rewrite str_eqb_refl in E0. discriminate.
      * exact IH.
Qed.

Lemma tbl_get_none_keys k t : ~ In k (map fst t) -> tbl_get k t = None.
Proof.
  induction t as [|[k0 v0] r IH]; cbn [map fst tbl_get In]; auto.
  intros H. destruct (str_eqb k0 k) eqn:E.
  - apply str_eqb_spec in E. subst. tauto.
  - apply IH. tauto.
Qed.

(* {**extra, **registered}: a registered strategy replaces the built-in one of the same name *)
Lemma tbl_merge_get a b k :
  nodup_str (map fst b) = true ->
  tbl_get k (tbl_merge a b) = match tbl_get k b with Some v => Some v | None => tbl_get k a end.
Proof.
  unfold tbl_merge. revert a. induction b as [|[k1 v1] r IH]; intros a Hn; cbn [fold_left map fst snd tbl_get nodup_str] in *; auto.
  apply andb_true_iff in Hn. destruct Hn as [Hk Hr]. rewrite (IH _ Hr).
  destruct (str_eqb k1 k) eqn:E.
  - apply str_eqb_spec in E. subst k1. apply negb_true_iff in Hk. apply mem_str_false in Hk.
    rewrite (tbl_get_none_keys k r Hk), tbl_get_set, str_eqb_refl. reflexivity.
  - destruct (tbl_get k r); auto. rewrite tbl_get_set, E. reflexivity.
Qed.

Lemma tbl_set_keys k v t :
  map fst (tbl_set k v t) = if mem_str k (map fst t) then map fst t else map fst t ++ [k].
Proof.
  induction t as [|[k0 v0] r IH]; cbn [tbl_set map fst mem_str app]; auto.
  rewrite (str_eqb_sym k k0). destruct (str_eqb k0 k) eqn:E; cbn [map fst orb]; auto.
  rewrite IH. destruct (mem_str k (map fst r)); reflexivity.
Qed.

Lemma tbl_set_nodup k v t : nodup_str (map fst t) = true -> nodup_str (map fst (tbl_set k v t)) = true.
Proof.
  induction t as [|[k0 v0] r IH]; cbn [tbl_set map fst nodup_str mem_str]; auto.
  intros H. apply andb_true_iff in H. destruct H as [H0 Hr].
  destruct (str_eqb k0 k) eqn:E; cbn [map fst nodup_str].
  - rewrite H0, Hr. reflexivity.
  - rewrite (IH Hr), andb_true_r. rewrite tbl_set_keys.
    apply negb_true_iff in H0. apply negb_true_iff.
    destruct (mem_str k (map fst r)); auto.
    apply mem_str_false. intros Hin. apply in_app_or in Hin. destruct Hin as [Hin | [Hin | []]].
    + apply mem_str_false in H0. contradiction.
    + subst k. rewrite str_eqb_refl in E. discriminate.
Qed.

(* scalar(name, strategy) either refuses or stores exactly that strategy under exactly that name *)
Lemma register_spec ns ss name s t :
  nodup_str (map fst t) = true ->
  match register ns ss name s t with
  | IncorrectUsage => ns = false \/ ss = false
  | Registered t' => ns = true /\ ss = true /\ nodup_str (map fst t') = true /\
                     forall k, tbl_get k t' = if str_eqb name k then Some s else tbl_get k t
  end.
Proof.
  intros Hn. unfold register. destruct ns; cbn [negb]; auto. destruct ss; cbn [negb]; auto.
  repeat split; auto.
  - apply tbl_set_nodup. exact Hn.
  - intros k. apply tbl_get_set.
Qed.

Lemma long_range v : in_long v = true <-> (-9223372036854775808 <= v <= 9223372036854775807)%Z.
Proof.
  unfold in_long.
  replace long_min with (-9223372036854775808)%Z by (vm_compute; reflexivity).
  replace long_max with (9223372036854775807)%Z by (vm_compute; reflexivity).
  rewrite andb_true_iff, !Z.leb_le. tauto.
Qed.

Lemma extra_scalars_have_kinds :
  forallb (fun n => match extra_scalar_kind n with Some _ => true | None => false end) extra_scalar_names = true /\
  nodup_str extra_scalar_names = true /\ extra_scalar_kind s_Long = Some NInt /\ length extra_scalar_names = 9%nat.
Proof. vm_compute. repeat split. Qed.

Example scalar_table_nonvacuous :
  tbl_merge [(s_Date, 1%N); (s_Long, 2%N)] [(s_Long, 7%N); (n_foo, 8%N)] = [(s_Date, 1%N); (s_Long, 7%N); (n_foo, 8%N)] /\
  nodup_str (map fst [(s_Long, 7%N); (n_foo, 8%N)]) = true.
Proof. vm_compute. split; reflexivity. Qed.

(* ------------------------------------------------------------------------------------------------ *)
(* prepare_body                                                                                      *)
Lemma prepare_body_spec b :
  match b with
  | BText doc => prepare_body b = PDict [(s_query, doc)]
  | BBytes x => prepare_body b = PBytes x
  | BNotSet => prepare_body b = PNotSet
  end.
Proof. destruct b; reflexivity. Qed.

(* ------------------------------------------------------------------------------------------------ *)
(* access histories on one operation object: the strategy arguments follow the CURRENT configuration *)
Lemma run_events_app extra o h1 : forall st h2,
  run_events extra o st (h1 ++ h2) = run_events extra o st h1 ++ run_events extra o (state_after st h1) h2.
Proof.
  induction h1 as [|e r IH]; intros st h2; cbn [app run_events state_after fold_left]; auto.
  destruct e; rewrite IH; reflexivity.
Qed.

Lemma args_follow_current_config extra o st h pc :
  run_events extra o st (h ++ [EDraw pc]) = run_events extra o st h ++ [draw_call extra o (state_after st h) pc].
Proof. rewrite run_events_app. reflexivity. Qed.

Lemma state_ignores_draws h : forall st, state_after st h = state_after st (filter (fun e => negb (is_draw e)) h).
Proof.
  unfold state_after. induction h as [|e r IH]; intros st; cbn [filter fold_left]; auto.
  destruct e; cbn [is_draw negb fold_left step_state]; apply IH.
Qed.

Lemma state_after_app st h1 h2 : state_after st (h1 ++ h2) = state_after (state_after st h1) h2.
Proof. unfold state_after. apply fold_left_app. Qed.

(* the configuration in effect is the last one configured; a per-call configuration wins for that draw only *)
Lemma config_is_latest extra o st h c pc :
  let call := fst (draw_call extra o (state_after st (h ++ [EConfigure c])) pc) in
  let eff := match pc with Some c' => c' | None => c end in
  sc_allow_x00 call = g_allow_x00 eff /\ sc_allow_null call = g_allow_null eff /\ sc_codec call = g_codec eff.
Proof.
  cbn zeta. rewrite state_after_app. unfold state_after at 1. cbn [fold_left step_state].
  unfold draw_call, strategy_call. cbn [fst st_cfg sc_allow_x00 sc_allow_null sc_codec].
  destruct pc; repeat split; reflexivity.
Qed.

(* earlier draws leave no trace: the call of a draw is the same with every earlier draw removed *)
Lemma draws_do_not_stick extra o st h pc :
  draw_call extra o (state_after st h) pc =
  draw_call extra o (state_after st (filter (fun e => negb (is_draw e)) h)) pc.
Proof. rewrite <- state_ignores_draws. reflexivity. Qed.

Lemma history_calls_target c extra o h : forall st,
  In o (root_fields c) ->
  Forall (fun call => hg_accepts c (fst call) = true /\ hg_target c (fst call) = Some (o_type o, [o_field o]))
         (run_events extra o st h).
Proof.
  intros st Hin. revert st. induction h as [|e r IH]; intros st; cbn [run_events]; [constructor|].
  destruct e; try apply IH. constructor; [|apply IH].
  unfold draw_call. cbn [fst].
  destruct (strategy_targets_field c (match percall with Some c0 => c0 | None => st_cfg st end)
              (map fst (tbl_merge extra (st_reg st))) o Hin) as [H1 [H2 _]]. split; assumption.
Qed.

Definition cfg_loose : gen_config := {| g_allow_x00 := true; g_allow_null := true; g_codec := Some [117;116;102;45;56]%N |}.
Definition cfg_strict : gen_config := {| g_allow_x00 := false; g_allow_null := false; g_codec := Some [97;115;99;105;105]%N |}.
Example history_nonvacuous :
  let o := {| o_root := RQuery; o_type := n_Query; o_field := n_foo |} in
  let h := [EDraw None; EConfigure cfg_strict; ERegister true true n_Long 7%N; EDraw None; EDraw (Some cfg_loose)] in
  map (fun call => (sc_allow_null (fst call), tbl_get n_Long (snd call)))
      (run_events [(n_Long, 2%N)] o {| st_cfg := cfg_loose; st_reg := [] |} h)
  = [(true, Some 2%N); (false, Some 7%N); (true, Some 7%N)].
Proof. vm_compute. reflexivity. Qed.
