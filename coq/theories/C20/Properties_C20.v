(* C20 property theorems only.  Each is closed by [exact] of a lemma of Proofs_C20 and followed by
   Print Assumptions.  What hypothesis-graphql generates (document validity) is NOT a theorem here:
   it is foreign code, covered by the graphql-core oracle of the harness only. *)
From Coq Require Import List NArith ZArith Bool.
From Verif Require Import Common.Str C20.Model_C20 C20.Proofs_C20.
Import ListNotations.

(* ---- offered operations = the root fields passing the filters, in schema order ------------------- *)
(* list(get_all_operations()) is the list of root fields (query type first) filtered by FilterSet.match;
   for every schema, every base path and every filter set, custom functions included *)
Theorem C20_offered_eq_selected_root_fields : forall path fs c,
  offered path fs c = filter (fun o => fs_match fs (real_ctx path o)) (root_fields c).
Proof. exact offered_eq. Qed.
Print Assumptions C20_offered_eq_selected_root_fields.

(* ... and membership against the declarative reading of the filters: no EXCLUDE filter matches and, if there
   are INCLUDE filters, one of them matches *)
Theorem C20_offered_iff_passes : forall path fs c o,
  In o (offered path fs c) <-> In o (root_fields c) /\ passes fs (real_ctx path o).
Proof. exact offered_iff. Qed.
Print Assumptions C20_offered_iff_passes.

(* the root fields are exactly the fields of the query type and of the mutation type with their own root kind *)
Theorem C20_root_fields_shape : forall c o,
  In o (root_fields c) <->
  (exists ct, c_query c = Some ct /\ o_root o = RQuery /\ o_type o = ct_name ct /\ In (o_field o) (ct_fields ct)) \/
  (exists ct, c_mutation c = Some ct /\ o_root o = RMutation /\ o_type o = ct_name ct /\ In (o_field o) (ct_fields ct)).
Proof. exact root_fields_shape. Qed.
Print Assumptions C20_root_fields_shape.

(* ---- selected / total counts --------------------------------------------------------------------- *)
(* full statement (for every introspection result the client schema can be built from and every filter set the
   counts are the number of root fields and the number of offered operations) is FALSE of the code: *)
Theorem C20_counts_eq_offered_refuted_dup_type : exists path fs r,
  fs_no_func fs = true /\ ~ counts_agree path fs r.
Proof. exists w_path, fs_none, raw_dup_type. exact counts_refuted_dup_type. Qed.
Print Assumptions C20_counts_eq_offered_refuted_dup_type.

Theorem C20_counts_eq_offered_refuted_dup_field : exists path fs r,
  fs_no_func fs = true /\ ~ counts_agree path fs r.
Proof. exists w_path, fs_none, raw_dup_field. exact counts_refuted_dup_field. Qed.
Print Assumptions C20_counts_eq_offered_refuted_dup_field.

Theorem C20_counts_eq_offered_refuted_func : exists path fs r,
  wf_raw r = true /\ ~ counts_agree path fs r.
Proof. exists w_path, fs_func, raw_ok. exact counts_refuted_func. Qed.
Print Assumptions C20_counts_eq_offered_refuted_func.

(* strongest true restriction: a well-formed introspection result (each root type name carried by exactly one
   type, an object whose field names are distinct - what every valid GraphQL schema introspects to) and
   name / method / path / tag filters only *)
Theorem C20_counts_eq_offered_partial : forall path fs r,
  wf_raw r = true -> fs_no_func fs = true ->
  exists c, build_client r = BOk c /\
            measure path fs r = Some (N.of_nat (length (root_fields c)), N.of_nat (length (offered path fs c))).
Proof. exact counts_eq_offered_partial. Qed.
Print Assumptions C20_counts_eq_offered_partial.

(* the same for custom functions that do not look at operation.definition *)
Theorem C20_counts_eq_offered_blind : forall path fs r,
  blind fs -> wf_raw r = true ->
  exists c, build_client r = BOk c /\
            measure path fs r = Some (N.of_nat (length (root_fields c)), N.of_nat (length (offered path fs c))).
Proof. exact counts_eq_offered_blind. Qed.
Print Assumptions C20_counts_eq_offered_blind.

Theorem C20_counts_hypotheses_satisfiable :
  wf_raw raw_ok = true /\ fs_no_func fs_name = true /\
  measure w_path fs_name raw_ok = Some (4%N, 1%N) /\
  offered_raw w_path fs_name raw_ok = BOk [{| o_root := RQuery; o_type := n_Query; o_field := n_foo |}].
Proof. exact counts_nonvacuous. Qed.
Print Assumptions C20_counts_hypotheses_satisfiable.

(* ---- the strategy handed to hypothesis-graphql targets the operation's own field ------------------ *)
(* for every root field of every schema: the factory chosen by the root kind reads the root type the operation
   belongs to, fields = [the operation's field] passes validate_fields, and allow_x00 / allow_null / codec and the
   scalar table are passed through unchanged *)
Theorem C20_strategy_targets_field : forall c cfg names o,
  In o (root_fields c) ->
  hg_accepts c (strategy_call cfg names o) = true /\
  hg_target c (strategy_call cfg names o) = Some (o_type o, [o_field o]) /\
  sc_allow_x00 (strategy_call cfg names o) = g_allow_x00 cfg /\
  sc_allow_null (strategy_call cfg names o) = g_allow_null cfg /\
  sc_codec (strategy_call cfg names o) = g_codec cfg /\
  sc_scalars (strategy_call cfg names o) = names.
Proof. exact strategy_targets_field. Qed.
Print Assumptions C20_strategy_targets_field.

Theorem C20_strategy_targets_offered : forall path fs c cfg names o,
  In o (offered path fs c) ->
  hg_accepts c (strategy_call cfg names o) = true /\
  hg_target c (strategy_call cfg names o) = Some (o_type o, [o_field o]).
Proof. exact strategy_targets_offered. Qed.
Print Assumptions C20_strategy_targets_offered.

(* ---- schema[type][field] returns the operation that was asked for -------------------------------- *)
(* for every schema (same-named fields under Query and Mutation included) and every history of lookups each result is
   the stateless specification.  The cache is keyed by type.field since fe80b0ba; root_names_dotless is name
   well-formedness (GraphQL names have no dot; graphql-core refuses others), needed because the key is a string *)
Theorem C20_lookup_returns_requested : forall c h,
  root_names_dotless c = true -> run_lookups c [] h = map (spec_of c) h.
Proof. exact lookups_full. Qed.
Print Assumptions C20_lookup_returns_requested.

(* SENTINEL (the cache keyed by the field name alone, before fe80b0ba): Mutation.foo then Query.foo returns the mutation
   operation, while the cache as it is now answers both orders correctly *)
Theorem C20_field_keyed_cache_refuted : exists c h,
  root_names_dotless c = true /\
  run_lookups_fk c [] h <> map (spec_of c) h /\ run_lookups c [] h = map (spec_of c) h.
Proof. exists client_ok, h_cross. exact field_keyed_cache_refuted. Qed.
Print Assumptions C20_field_keyed_cache_refuted.

Theorem C20_lookup_hypotheses_satisfiable :
  root_names_dotless client_ok = true /\
  run_lookups client_ok [] [(n_Mutation, n_foo); (n_Query, n_foo); (n_Query, n_baz); (n_Mutation, n_foo); (n_Long, n_foo)] =
    [LOp {| o_root := RMutation; o_type := n_Mutation; o_field := n_foo |};
     LOp {| o_root := RQuery; o_type := n_Query; o_field := n_foo |}; LNoField;
     LOp {| o_root := RMutation; o_type := n_Mutation; o_field := n_foo |}; LNoType].
Proof. exact lookups_nonvacuous. Qed.
Print Assumptions C20_lookup_hypotheses_satisfiable.

(* ---- scalar table -------------------------------------------------------------------------------- *)
(* {**get_extra_scalar_strategies(), **CUSTOM_SCALARS}: a registered strategy wins, every other extra scalar stays *)
Theorem C20_scalar_table_lookup : forall extra registered k,
  nodup_str (map fst registered) = true ->
  tbl_get k (tbl_merge extra registered) =
  match tbl_get k registered with Some v => Some v | None => tbl_get k extra end.
Proof. exact tbl_merge_get. Qed.
Print Assumptions C20_scalar_table_lookup.

Theorem C20_scalar_register : forall ns ss name s t,
  nodup_str (map fst t) = true ->
  match register ns ss name s t with
  | IncorrectUsage => ns = false \/ ss = false
  | Registered t' => ns = true /\ ss = true /\ nodup_str (map fst t') = true /\
                     forall k, tbl_get k t' = if str_eqb name k then Some s else tbl_get k t
  end.
Proof. exact register_spec. Qed.
Print Assumptions C20_scalar_register.

Theorem C20_long_is_int64 : forall v,
  in_long v = true <-> (-9223372036854775808 <= v <= 9223372036854775807)%Z.
Proof. exact long_range. Qed.
Print Assumptions C20_long_is_int64.

Theorem C20_extra_scalars_have_kinds :
  forallb (fun n => match extra_scalar_kind n with Some _ => true | None => false end) extra_scalar_names = true /\
  nodup_str extra_scalar_names = true /\ extra_scalar_kind s_Long = Some NInt /\ length extra_scalar_names = 9%nat.
Proof. exact extra_scalars_have_kinds. Qed.
Print Assumptions C20_extra_scalars_have_kinds.

(* ---- the request body ---------------------------------------------------------------------------- *)
Theorem C20_body_is_query_document : forall b,
  match b with
  | BText doc => prepare_body b = PDict [(s_query, doc)]
  | BBytes x => prepare_body b = PBytes x
  | BNotSet => prepare_body b = PNotSet
  end.
Proof. exact prepare_body_spec. Qed.
Print Assumptions C20_body_is_query_document.

(* ---- access histories on one operation object: the arguments follow the CURRENT configuration ------ *)
(* whatever happened before (draws, reconfigurations, registrations), a draw calls the factory with the generation
   config of that moment (the per-call one if given) and the scalar table of that moment *)
Theorem C20_strategy_args_follow_current_config : forall extra o st h pc,
  run_events extra o st (h ++ [EDraw pc]) = run_events extra o st h ++ [draw_call extra o (state_after st h) pc].
Proof. exact args_follow_current_config. Qed.
Print Assumptions C20_strategy_args_follow_current_config.

(* earlier draws leave no trace: removing every earlier draw from the history does not change the call *)
Theorem C20_draws_do_not_stick : forall extra o st h pc,
  draw_call extra o (state_after st h) pc =
  draw_call extra o (state_after st (filter (fun e => negb (is_draw e)) h)) pc.
Proof. exact draws_do_not_stick. Qed.
Print Assumptions C20_draws_do_not_stick.

(* after schema.configure(generation=c) the next draw uses c (or its own per-call config), whatever was used before *)
Theorem C20_config_is_latest : forall extra o st h c pc,
  let call := fst (draw_call extra o (state_after st (h ++ [EConfigure c])) pc) in
  let eff := match pc with Some c' => c' | None => c end in
  sc_allow_x00 call = g_allow_x00 eff /\ sc_allow_null call = g_allow_null eff /\ sc_codec call = g_codec eff.
Proof. exact config_is_latest. Qed.
Print Assumptions C20_config_is_latest.

(* every call of every history targets the operation's own root type and field *)
Theorem C20_history_calls_target_field : forall c extra o h st,
  In o (root_fields c) ->
  Forall (fun call => hg_accepts c (fst call) = true /\ hg_target c (fst call) = Some (o_type o, [o_field o]))
         (run_events extra o st h).
Proof. exact history_calls_target. Qed.
Print Assumptions C20_history_calls_target_field.
