(* C20 - generated GraphQL requests are valid for the schema and target their field.

   Executable model (definitions only) of the part of the property that is schemathesis code:

     src/schemathesis/specs/graphql/schemas.py   GraphQLSchema.get_all_operations (:174), _build_operation (:198),
                                                 _should_skip (:190), _measure_statistic (:149),
                                                 _get_operation_map (:101), FieldMap._init_operation / __getitem__
                                                 (:297, :309), graphql_cases (:321, the call of the strategy factory)
     src/schemathesis/specs/graphql/_cache.py    OperationCache (operations keyed by type name + field name since fe80b0ba)
     src/schemathesis/specs/graphql/scalars.py   scalar (:15), get_extra_scalar_strategies (:33), the merged table
     src/schemathesis/filters.py                 Matcher / Filter / FilterSet.match as used by _should_skip
     src/schemathesis/transport/prepare.py       prepare_body (:48) for a GraphQL schema

   Foreign code appears as data or as a stated contract, never as a proof:
     - graphql-core build_client_schema: [build_client] below is the CONTRACT assumed about it (a dictionary
       comprehension over the introspected types: the last type of a name wins; a dictionary comprehension over the
       fields of a type: one entry per field name at the position of its first occurrence; a root type that is
       missing, not an OBJECT, or has fields = null raises).  It is compared with the real function on every run.
     - hypothesis-graphql queries / mutations: only the CALL is modelled ([strategy_call]) together with the two
       argument checks it performs before generating ([hg_accepts]: the root type exists, fields is non-empty and
       contains only fields of that root type).  What it generates is covered by the oracle stage only.
     - re.search of a name_regex filter: a predicate carried by the matcher.

   The code is modelled AS IT IS:
     - _measure_statistic walks the RAW introspection JSON (every entry of types whose name equals the root type
       name, every entry of its fields list) while get_all_operations walks the CLIENT schema built from it;
     - _measure_statistic hands the filters a dummy operation whose definition is None ([c_def = None]);
     - the operation cache used by schema[type][field] is keyed by the string type.field (fe80b0ba); the earlier
       field-name-only key is kept as a labelled sentinel ([lookup_fk]). *)
From Coq Require Import List NArith ZArith Bool.
From Verif Require Import Common.Str.
Import ListNotations.

(* ------------------------------------------------------------------------------------------------ *)
(* string constants                                                                                  *)
Definition s_POST : str := [80;79;83;84]%N.
Definition s_query : str := [113;117;101;114;121]%N.
Definition dot : N := 46%N.

Fixpoint mem_str (s : str) (l : list str) : bool :=
  match l with [] => false | x :: r => str_eqb s x || mem_str s r end.

(* ------------------------------------------------------------------------------------------------ *)
(* the raw introspection result  (raw_schema[__schema])                                              *)
Inductive root := RQuery | RMutation.
Definition root_eqb (a b : root) : bool :=
  match a, b with RQuery, RQuery | RMutation, RMutation => true | _, _ => false end.

Inductive kind := KObject | KOther.
(* rt_fields = None is JSON null (what introspection returns for scalars, enums, unions, input objects) *)
Record rtype := { rt_name : str; rt_kind : kind; rt_fields : option (list str) }.
Record raw := { r_query : option str; r_mutation : option str; r_types : list rtype }.

(* ------------------------------------------------------------------------------------------------ *)
(* graphql.build_client_schema (contract, see the header)                                            *)
Fixpoint find_last (n : str) (ts : list rtype) : option rtype :=
  match ts with
  | [] => None
  | t :: r => match find_last n r with
              | Some t' => Some t'
              | None => if str_eqb (rt_name t) n then Some t else None
              end
  end.

(* keys of {f[name]: ... for f in fields}: first occurrence keeps the position *)
Fixpoint dedup_aux (seen : list str) (l : list str) : list str :=
  match l with
  | [] => []
  | x :: r => if mem_str x seen then dedup_aux seen r else x :: dedup_aux (x :: seen) r
  end.
Definition dedup (l : list str) : list str := dedup_aux [] l.

Record ctype := { ct_name : str; ct_fields : list str }.
Record client := { c_query : option ctype; c_mutation : option ctype }.

Inductive build_res (A : Type) := BOk (x : A) | BRaises.
Arguments BOk {A} x.
Arguments BRaises {A}.

Definition build_root (ts : list rtype) (name : option str) : build_res (option ctype) :=
  match name with
  | None => BOk None
  | Some n =>
      match find_last n ts with
      | None => BRaises                                     (* unknown type *)
      | Some t =>
          match rt_kind t, rt_fields t with
          | KObject, Some fs => BOk (Some {| ct_name := rt_name t; ct_fields := dedup fs |})
          | _, _ => BRaises                                 (* not an object type / missing fields *)
          end
      end
  end.

Definition build_client (r : raw) : build_res client :=
  match build_root (r_types r) (r_query r), build_root (r_types r) (r_mutation r) with
  | BOk q, BOk m => BOk {| c_query := q; c_mutation := m |}
  | _, _ => BRaises
  end.

(* ------------------------------------------------------------------------------------------------ *)
(* operations: schemas.py:198 _build_operation                                                       *)
Record op := { o_root : root; o_type : str; o_field : str }.
Definition op_eqb (a b : op) : bool :=
  root_eqb (o_root a) (o_root b) && str_eqb (o_type a) (o_type b) && str_eqb (o_field a) (o_field b).
(* label = f[{operation_type.name}.{field_name}] *)
Definition mk_label (type_name field : str) : str := type_name ++ dot :: field.
Definition label (o : op) : str := mk_label (o_type o) (o_field o).

(* ------------------------------------------------------------------------------------------------ *)
(* filters.py as seen from a GraphQL operation                                                       *)
(* the context: SimpleNamespace(operation=...).  c_def = None is the dummy operation of
   _measure_statistic (definition=None); path is schema.base_path, the same for every operation *)
Record ctx := { c_label : str; c_path : str; c_def : option op }.

(* attributes a matcher can look at.  tag: APIOperation.tags -> schema.get_tags(...) = None for GraphQL
   (schemas.py:271), so every tag matcher is False.  operation_id is NOT in the model: for a GraphQL operation
   get_operation_attribute raises AttributeError (definition.raw is a GraphQLField / definition is None) in
   get_all_operations and in _measure_statistic alike. *)
Inductive attr := ALabel | AMethod | APath | ATag.

Definition attr_value (c : ctx) (a : attr) : option str :=
  match a with
  | ALabel => Some (c_label c)
  | AMethod => Some (upper_ascii s_POST)     (* method=POST on both the real and the dummy operation *)
  | APath => Some (c_path c)
  | ATag => None
  end.

(* filters.py:90 / 99 / 108 *)
Definition by_value (v : option str) (expected : str) : bool :=
  match v with None => false | Some s => str_eqb s expected end.
Definition by_value_list (v : option str) (expected : list str) : bool :=
  match v with None => false | Some s => mem_str s expected end.
Definition by_regex (v : option str) (search : str -> bool) : bool :=
  match v with None => false | Some s => search s end.

Inductive matcher :=
| MValue (a : attr) (expected : str)
| MList (a : attr) (expected : list str)
| MRegex (a : attr) (search : str -> bool)
| MFunc (f : ctx -> bool).

Definition matcher_match (m : matcher) (c : ctx) : bool :=
  match m with
  | MValue a e => by_value (attr_value c a) e
  | MList a es => by_value_list (attr_value c a) es
  | MRegex a p => by_regex (attr_value c a) p
  | MFunc f => f c
  end.

(* filters.py:118 Filter.match: all matchers *)
Definition flt := list matcher.
Definition filter_match (f : flt) (c : ctx) : bool := forallb (fun m => matcher_match m c) f.

(* filters.py:138 FilterSet (Python sets; C07_match_perm in C07 shows the order is irrelevant) *)
Record filter_set := { fs_includes : list flt; fs_excludes : list flt }.

(* filters.py:157 FilterSet.match *)
Definition fs_match (fs : filter_set) (c : ctx) : bool :=
  if existsb (fun f => filter_match f c) (fs_excludes fs) then false
  else match fs_includes fs with
       | [] => true
       | _ => existsb (fun f => filter_match f c) (fs_includes fs)
       end.

(* schemas.py:190 _should_skip *)
Definition should_skip (fs : filter_set) (c : ctx) : bool := negb (fs_match fs c).

Definition is_func (m : matcher) : bool := match m with MFunc _ => true | _ => false end.
(* region predicate: the filter set has no custom-function matcher (name / method / path / tag filters only) *)
Definition fs_no_func (fs : filter_set) : bool :=
  forallb (fun f => forallb (fun m => negb (is_func m)) f) (fs_includes fs ++ fs_excludes fs).

(* ------------------------------------------------------------------------------------------------ *)
(* schemas.py:174 get_all_operations, written as the two nested loops of the source                  *)
Definition real_ctx (path : str) (o : op) : ctx := {| c_label := label o; c_path := path; c_def := Some o |}.

Fixpoint offered_fields (path : str) (fs : filter_set) (r : root) (tname : str) (fields : list str) : list op :=
  match fields with
  | [] => []
  | f :: rest =>
      let operation := {| o_root := r; o_type := tname; o_field := f |} in
      if should_skip fs (real_ctx path operation) then offered_fields path fs r tname rest
      else operation :: offered_fields path fs r tname rest
  end.

Definition offered_root (path : str) (fs : filter_set) (r : root) (t : option ctype) : list op :=
  match t with
  | None => []                                               (* if operation_type is None: continue *)
  | Some ct => offered_fields path fs r (ct_name ct) (ct_fields ct)
  end.

Definition offered (path : str) (fs : filter_set) (c : client) : list op :=
  offered_root path fs RQuery (c_query c) ++ offered_root path fs RMutation (c_mutation c).

(* the specification side: the root fields of the schema, query type first, in schema order *)
Definition fields_of_root (r : root) (t : option ctype) : list op :=
  match t with
  | None => []
  | Some ct => map (fun f => {| o_root := r; o_type := ct_name ct; o_field := f |}) (ct_fields ct)
  end.
Definition root_fields (c : client) : list op :=
  fields_of_root RQuery (c_query c) ++ fields_of_root RMutation (c_mutation c).

(* list(schema.get_all_operations()) starting from the raw introspection result *)
Definition offered_raw (path : str) (fs : filter_set) (r : raw) : build_res (list op) :=
  match build_client r with BOk c => BOk (offered path fs c) | BRaises => BRaises end.

(* ------------------------------------------------------------------------------------------------ *)
(* schemas.py:149 _measure_statistic on the RAW introspection result                                 *)
Definition dummy_ctx (path : str) (lbl : str) : ctx := {| c_label := lbl; c_path := path; c_def := None |}.

(* for field in type_def[fields]: total += 1; label = ...; if not skip: selected += 1 *)
Fixpoint count_fields (path : str) (fs : filter_set) (tname : str) (fields : list str) (acc : N * N) : N * N :=
  match fields with
  | [] => acc
  | f :: rest =>
      let '(total, selected) := acc in
      let sel := if should_skip fs (dummy_ctx path (mk_label tname f)) then selected else (selected + 1)%N in
      count_fields path fs tname rest ((total + 1)%N, sel)
  end.

(* for type_def in raw_schema.get(types, []): if type_def[name] == query_type_name: ...
   None = TypeError (iterating fields = null) *)
Fixpoint count_types (path : str) (fs : filter_set) (tname : str) (ts : list rtype) (acc : N * N) : option (N * N) :=
  match ts with
  | [] => Some acc
  | t :: rest =>
      if str_eqb (rt_name t) tname then
        match rt_fields t with
        | None => None
        | Some fields => count_types path fs tname rest (count_fields path fs tname fields acc)
        end
      else count_types path fs tname rest acc
  end.

Definition count_root (path : str) (fs : filter_set) (ts : list rtype) (name : option str) (acc : N * N) : option (N * N) :=
  match name with
  | None => Some acc
  | Some n => count_types path fs n ts acc
  end.

(* (total, selected) *)
Definition measure (path : str) (fs : filter_set) (r : raw) : option (N * N) :=
  match count_root path fs (r_types r) (r_query r) (0%N, 0%N) with
  | None => None
  | Some acc => count_root path fs (r_types r) (r_mutation r) acc
  end.

(* region predicates of the counting theorem: a well-formed introspection result.
   wf_root: exactly one type carries the root name, it is an object with a fields list without duplicates *)
Fixpoint count_named (n : str) (ts : list rtype) : nat :=
  match ts with [] => 0%nat | t :: r => ((if str_eqb (rt_name t) n then 1 else 0) + count_named n r)%nat end.
Fixpoint nodup_str (l : list str) : bool :=
  match l with [] => true | x :: r => negb (mem_str x r) && nodup_str r end.
Definition wf_root (ts : list rtype) (name : option str) : bool :=
  match name with
  | None => true
  | Some n =>
      Nat.eqb (count_named n ts) 1 &&
      match find_last n ts with
      | Some t => match rt_kind t, rt_fields t with KObject, Some fs => nodup_str fs | _, _ => false end
      | None => false
      end
  end.
Definition wf_raw (r : raw) : bool := wf_root (r_types r) (r_query r) && wf_root (r_types r) (r_mutation r).

(* ------------------------------------------------------------------------------------------------ *)
(* schemas.py:321 graphql_cases: the call of the hypothesis-graphql strategy factory                 *)
Inductive factory := Queries | Mutations.
Record gen_config := { g_allow_x00 : bool; g_allow_null : bool; g_codec : option str }.
Record strategy_args := {
  sc_factory : factory; sc_fields : list str; sc_scalars : list str;
  sc_allow_x00 : bool; sc_allow_null : bool; sc_codec : option str }.

(* strategy_factory = {QUERY: queries, MUTATION: mutations}[definition.root_type] *)
Definition factory_of (r : root) : factory := match r with RQuery => Queries | RMutation => Mutations end.

Definition strategy_call (cfg : gen_config) (scalar_names : list str) (o : op) : strategy_args :=
  {| sc_factory := factory_of (o_root o); sc_fields := [o_field o]; sc_scalars := scalar_names;
     sc_allow_x00 := g_allow_x00 cfg; sc_allow_null := g_allow_null cfg; sc_codec := g_codec cfg |}.

(* hypothesis-graphql side of the call (contract): queries uses schema.query_type, mutations schema.mutation_type;
   InvalidArgument when that type is None; validate_fields: non-empty and every field is a field of the type *)
Definition hg_root_type (c : client) (f : factory) : option ctype :=
  match f with Queries => c_query c | Mutations => c_mutation c end.
Definition hg_accepts (c : client) (a : strategy_args) : bool :=
  match hg_root_type c (sc_factory a) with
  | None => false
  | Some ct => match sc_fields a with
               | [] => false
               | fields => forallb (fun f => mem_str f (ct_fields ct)) fields
               end
  end.
(* the (root type name, selectable fields) the generated document is restricted to *)
Definition hg_target (c : client) (a : strategy_args) : option (str * list str) :=
  match hg_root_type c (sc_factory a) with
  | None => None
  | Some ct => Some (ct_name ct, sc_fields a)
  end.

(* ------------------------------------------------------------------------------------------------ *)
(* schema[type_name][field_name]: _get_operation_map (:101), FieldMap.__getitem__ (:309),
   _init_operation (:297) with OperationCache._operations keyed by field_name                        *)
Inductive lres := LOp (o : op) | LNoType | LNoField.

(* first root (QUERY, then MUTATION) whose type name equals the key *)
Definition root_by_name (c : client) (key : str) : option (root * ctype) :=
  match c_query c with
  | Some ct => if str_eqb (ct_name ct) key then Some (RQuery, ct)
               else match c_mutation c with
                    | Some mt => if str_eqb (ct_name mt) key then Some (RMutation, mt) else None
                    | None => None
                    end
  | None => match c_mutation c with
            | Some mt => if str_eqb (ct_name mt) key then Some (RMutation, mt) else None
            | None => None
            end
  end.

Definition cache := list (str * op).
Fixpoint cache_get (k : str) (ca : cache) : option op :=
  match ca with
  | [] => None
  | (k', o) :: r => if str_eqb k' k then Some o else cache_get k r
  end.

(* FieldMap._init_operation with an explicit cache-key function of (root type name, field name) *)
Definition lookup_with (keyf : str -> str -> str) (c : client) (ca : cache) (key field : str) : lres * cache :=
  match root_by_name c key with
  | None => (LNoType, ca)
  | Some (r, ct) =>
      let k := keyf (ct_name ct) field in
      match cache_get k ca with
      | Some o => (LOp o, ca)                                  (* cache hit: whatever was stored under the key *)
      | None =>
          if mem_str field (ct_fields ct)
          then let o := {| o_root := r; o_type := ct_name ct; o_field := field |} in (LOp o, (k, o) :: ca)
          else (LNoField, ca)
      end
  end.

Fixpoint run_lookups_with (keyf : str -> str -> str) (c : client) (ca : cache) (h : list (str * str)) : list lres :=
  match h with
  | [] => []
  | (key, field) :: rest => let '(res, ca') := lookup_with keyf c ca key field in res :: run_lookups_with keyf c ca' rest
  end.

(* the code as it is (since fe80b0ba): key = f[{operation_type.name}.{field_name}] *)
Definition cache_key (tname field : str) : str := mk_label tname field.
Definition lookup := lookup_with cache_key.
Definition run_lookups := run_lookups_with cache_key.

(* SENTINEL - the cache as it was before fe80b0ba, keyed by the field name alone.  Kept only so that the defect stays
   stated and refuted (C20_field_keyed_cache_refuted) and so that a regression is recognised by the harness. *)
Definition cache_key_fk (tname field : str) : str := field.
Definition lookup_fk := lookup_with cache_key_fk.
Definition run_lookups_fk := run_lookups_with cache_key_fk.

(* well-formedness of names: a root type name has no dot (GraphQL names are [_a-zA-Z0-9]+; graphql-core refuses
   anything else when the client schema is built), so the string key determines (type name, field name) *)
Definition dotless (s : str) : bool := negb (mem dot s).
Definition root_names_dotless (c : client) : bool :=
  match c_query c with Some ct => dotless (ct_name ct) | None => true end &&
  match c_mutation c with Some ct => dotless (ct_name ct) | None => true end.

(* what the lookup should return: independent of the history *)
Definition lookup_spec (c : client) (key field : str) : lres :=
  match root_by_name c key with
  | None => LNoType
  | Some (r, ct) => if mem_str field (ct_fields ct)
                    then LOp {| o_root := r; o_type := ct_name ct; o_field := field |} else LNoField
  end.

(* region predicate of the SENTINEL theorems: no field name is looked up under two different type keys *)
Definition hist_consistent (h : list (str * str)) : bool :=
  forallb (fun p => forallb (fun q => implb (str_eqb (snd p) (snd q)) (str_eqb (fst p) (fst q))) h) h.

(* ------------------------------------------------------------------------------------------------ *)
(* scalars.py: the table handed to hypothesis-graphql  {**get_extra_scalar_strategies(), **CUSTOM_SCALARS} *)
(* a strategy is identified by a number (the harness numbers the strategy objects) *)
Definition table := list (str * N).
Fixpoint tbl_get (k : str) (t : table) : option N :=
  match t with [] => None | (k', v) :: r => if str_eqb k' k then Some v else tbl_get k r end.
(* d[k] = v on an insertion-ordered dict *)
Fixpoint tbl_set (k : str) (v : N) (t : table) : table :=
  match t with
  | [] => [(k, v)]
  | (k', v') :: r => if str_eqb k' k then (k', v) :: r else (k', v') :: tbl_set k v r
  end.
Definition tbl_merge (a b : table) : table := fold_left (fun acc kv => tbl_set (fst kv) (snd kv) acc) b a.

(* scalars.py:15 scalar(name, strategy): the two isinstance checks are the first two arguments *)
Inductive reg_res := Registered (t : table) | IncorrectUsage.
Definition register (name_is_str strategy_is_strategy : bool) (name : str) (s : N) (t : table) : reg_res :=
  if negb name_is_str then IncorrectUsage
  else if negb strategy_is_strategy then IncorrectUsage
  else Registered (tbl_set name s t).

(* scalars.py:33 the names of the extra scalars, in the order of the dict literal *)
Definition s_Date : str := [68;97;116;101]%N.
Definition s_Time : str := [84;105;109;101]%N.
Definition s_DateTime : str := [68;97;116;101;84;105;109;101]%N.
Definition s_IP : str := [73;80]%N.
Definition s_IPv4 : str := [73;80;118;52]%N.
Definition s_IPv6 : str := [73;80;118;54]%N.
Definition s_BigInt : str := [66;105;103;73;110;116]%N.
Definition s_Long : str := [76;111;110;103]%N.
Definition s_UUID : str := [85;85;73;68]%N.
Definition extra_scalar_names : list str :=
  [s_Date; s_Time; s_DateTime; s_IP; s_IPv4; s_IPv6; s_BigInt; s_Long; s_UUID].

(* value kind of the AST node each extra scalar produces (nodes.String / nodes.Int) *)
Inductive node_kind := NString | NInt.
Definition extra_scalar_kind (n : str) : option node_kind :=
  if mem_str n [s_Date; s_Time; s_DateTime; s_IP; s_IPv4; s_IPv6; s_UUID] then Some NString
  else if mem_str n [s_BigInt; s_Long] then Some NInt
  else None.

(* scalars.py:50 Long: st.integers(min_value=-(2**63), max_value=2**63 - 1) *)
Definition long_min : Z := (- 2 ^ 63)%Z.
Definition long_max : Z := (2 ^ 63 - 1)%Z.
Definition in_long (v : Z) : bool := (long_min <=? v)%Z && (v <=? long_max)%Z.

(* ------------------------------------------------------------------------------------------------ *)
(* transport/prepare.py:48 prepare_body for a GraphQL schema                                         *)
Inductive body := BNotSet | BBytes (b : str) | BText (s : str).
Inductive prepared := PNotSet | PBytes (b : str) | PDict (kvs : list (str * str)).
(* case.body if isinstance(case.body, (NotSet, bytes)) else {query: case.body} *)
Definition prepare_body (b : body) : prepared :=
  match b with
  | BNotSet => PNotSet
  | BBytes x => PBytes x
  | BText s => PDict [(s_query, s)]
  end.

(* ------------------------------------------------------------------------------------------------ *)
(* access histories on ONE operation object (as returned by schema[type][field] and kept by the caller):
   the generation config can be replaced (schema.configure(generation=...)), scalars can be (re)registered, and
   every draw builds the strategy anew: graphql_cases (schemas.py:339-354) calls the factory on EVERY draw with
   generation_config or self.generation_config (get_case_strategy, schemas.py:237) and with the scalar table of
   that moment.  Nothing about a draw is remembered.                                                  *)
Inductive event :=
| EConfigure (cfg : gen_config)                                   (* schema.configure(generation=cfg) *)
| ERegister (name_is_str strategy_is_strategy : bool) (name : str) (s : N)   (* schemathesis.graphql.scalar(...) *)
| EDraw (percall : option gen_config).                            (* operation.as_strategy(generation_config=percall) + one draw *)

Record gstate := { st_cfg : gen_config; st_reg : table }.

(* the factory call of one draw, together with the scalar table it is given *)
Definition draw_call (extra : table) (o : op) (st : gstate) (percall : option gen_config) : strategy_args * table :=
  let cfg := match percall with Some c => c | None => st_cfg st end in
  let tbl := tbl_merge extra (st_reg st) in
  (strategy_call cfg (map fst tbl) o, tbl).

Definition step_state (st : gstate) (e : event) : gstate :=
  match e with
  | EConfigure cfg => {| st_cfg := cfg; st_reg := st_reg st |}
  | ERegister ns ss name s =>
      match register ns ss name s (st_reg st) with
      | Registered t => {| st_cfg := st_cfg st; st_reg := t |}
      | IncorrectUsage => st
      end
  | EDraw _ => st
  end.

Fixpoint run_events (extra : table) (o : op) (st : gstate) (h : list event) : list (strategy_args * table) :=
  match h with
  | [] => []
  | e :: rest =>
      match e with
      | EDraw pc => draw_call extra o st pc :: run_events extra o (step_state st e) rest
      | _ => run_events extra o (step_state st e) rest
      end
  end.

Definition state_after (st : gstate) (h : list event) : gstate := fold_left step_state h st.
Definition is_draw (e : event) : bool := match e with EDraw _ => true | _ => false end.
