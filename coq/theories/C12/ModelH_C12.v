(* C12, how the configured Hypothesis settings reach the test (generation/hypothesis/builder.py: create_test).
   The test object is created under the ACTIVE Hypothesis profile (hypothesis.settings.default at that moment); the settings
   the engine was configured with were built under the same profile.  create_test (1) replaces the deadline by
   DEFAULT_DEADLINE when the test still has the profile's deadline, (2) takes from the configured settings every setting that
   differs from a BASELINE - the active profile in the code as it is; the stock profile is the refuted sentinel.
   Settings are total maps from setting names (numbered) to values (numbered).  Definitions only. *)
From Coq Require Import Arith Bool List.
Import ListNotations.

Definition settings := nat -> nat.
Definition K_MAX_EXAMPLES := 0.
Definition K_DEADLINE := 1.
Definition K_STEP_COUNT := 2.
Definition K_DERANDOMIZE := 3.
Definition DEFAULT_DEADLINE := 150.   (* deadlines in units of 100 ms: 15000 ms *)

Inductive baseline_kind := ActiveProfile | StockProfile.

Definition with_deadline (test active : settings) : settings :=
  fun k => if Nat.eqb k K_DEADLINE && Nat.eqb (test k) (active k) then DEFAULT_DEADLINE else test k.

Definition merge (test config baseline : settings) : settings :=
  fun k => if Nat.eqb (config k) (baseline k) then test k else config k.

(* settings of the test create_test returns; the test object starts with the active profile's settings *)
Definition effective (b : baseline_kind) (active stock config : settings) : settings :=
  merge (with_deadline active active) config (match b with ActiveProfile => active | StockProfile => stock end).

Definition of_list (l : list nat) : settings := fun k => nth k l 0.
