From Coq Require Import List ZArith Bool Arith Lia.
From Verif Require Import C12.ModelR_C12.
Import ListNotations.
Local Open Scope Z_scope.

Lemma countp_le p q l : (forall h, p h = true -> q h = true) -> (countp p l <= countp q l)%nat.
Proof.
  intros H. unfold countp. induction l as [|x l IH]; cbn; auto.
  destruct (p x) eqn:Ep.
  - rewrite (H x Ep). cbn. lia.
  - destruct (q x); cbn; lia.
Qed.

Definition within (limit : nat) (interval : Z) (g : list Z) : Prop :=
  forall a, (countp (in_window interval a) g <= limit)%nat.

Lemma acquire_within limit interval g t : within limit interval g -> within limit interval (fst (acquire limit interval g t)).
Proof.
  intros H. unfold acquire. destruct (Nat.ltb (countp (recent interval t) g) limit) eqn:E; cbn [fst]; [|exact H].
  apply Nat.ltb_lt in E. intros a. unfold countp. cbn [filter].
  destruct (in_window interval a t) eqn:Ew; [|apply H].
  cbn [length]. fold (countp (in_window interval a) g).
  assert (Hle : (countp (in_window interval a) g <= countp (recent interval t) g)%nat).
  { apply countp_le. intros h Hh. unfold in_window in *. unfold recent.
    apply andb_true_iff in Hh; destruct Hh as [H1 H2]. apply andb_true_iff in Ew; destruct Ew as [E1 E2].
    apply Z.leb_le in H1, E1. apply Z.ltb_lt in H2, E2. apply Z.ltb_lt. lia. }
  lia.
Qed.

(* whatever the times of the attempts (no order is assumed: several threads call the limiter), every window of one
   interval holds at most `limit` granted requests *)
Lemma rate_within_limit limit interval ts : within limit interval (attempts limit interval ts).
Proof.
  unfold attempts. assert (H0 : within limit interval []) by (intros a; cbn; lia).
  revert H0. generalize (@nil Z). induction ts as [|t ts IH]; intros g Hg; cbn [fold_left]; auto.
  apply IH. apply acquire_within. exact Hg.
Qed.

(* a request reaches the API at most `jitter` after it was granted: a window seen by the API holds at most the grants of
   the window extended by the jitter towards the past *)
Lemma seen_window_bound interval jitter a (pairs : list (Z * Z)) :
  0 <= jitter ->
  (forall g s, In (g, s) pairs -> g <= s <= g + jitter) ->
  Nat.le (countp (in_window interval a) (map snd pairs))
         (countp (fun h => (a - jitter <=? h) && (h <? a + interval)) (map fst pairs)).
Proof.
  intros Hj H. unfold countp. induction pairs as [|[g s] l IH]; cbn [map filter fst snd]; auto.
  assert (IH' := IH (fun g0 s0 Hin => H g0 s0 (or_intror Hin))).
  destruct (in_window interval a s) eqn:E.
  - assert (Hg : (a - jitter <=? g) && (g <? a + interval) = true).
    { unfold in_window in E. apply andb_true_iff in E; destruct E as [E1 E2]. apply Z.leb_le in E1. apply Z.ltb_lt in E2.
      destruct (H g s (or_introl eq_refl)). apply andb_true_iff. split; [apply Z.leb_le | apply Z.ltb_lt]; lia. }
    rewrite Hg. cbn [length]. lia.
  - destruct ((a - jitter <=? g) && (g <? a + interval)); cbn [length]; lia.
Qed.

(* non-vacuity and sharpness: 3 per second, attempts every 200 ms: the 4th and 5th are refused, the bound is reached *)
Lemma rate_example :
  attempts 3 1000 [0; 200; 400; 600; 800; 1000; 1200] = [1200; 1000; 400; 200; 0] /\
  countp (in_window 1000 0) (attempts 3 1000 [0; 200; 400; 600; 800; 1000; 1200]) = 3%nat.
Proof. vm_compute. split; reflexivity. Qed.

(* the guard matters: a limiter that compares with <= instead of < lets limit + 1 requests into one window *)
Definition acquire_le (limit : nat) (interval : Z) (grants : list Z) (t : Z) : list Z :=
  if Nat.leb (countp (recent interval t) grants) limit then t :: grants else grants.
Lemma rate_refuted_le_guard :
  countp (in_window 1000 0) (fold_left (acquire_le 3 1000) [0; 200; 400; 600; 800] []) = 4%nat.
Proof. vm_compute. reflexivity. Qed.

Lemma max_delay_covers_interval limit u : 1 <= limit -> (u <= 3)%nat -> unit_ms u + 50 <= max_delay_ms limit u.
Proof.
  intros Hl Hu. unfold max_delay_ms, unit_ms. destruct u as [|[|[|u]]]; cbn; lia.
Qed.
