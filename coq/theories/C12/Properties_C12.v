(* C12 property theorems only (on the unit-phase LTS of Model_C11). *)
From Coq Require Import List NArith Bool Arith.
From Verif Require Import C11.Model_C11 C11.Proofs_C11 C12.Proofs_C12 C12.Gen_C12 C12.GenProofs_C12.
Import ListNotations.

(* After a stop request (or the failure limit) at most one further request per worker is sent:
   for all configurations, behaviours, numbers of workers n and all interleavings. *)
Theorem C12_sends_after_stop_le_workers : forall c sched n os,
  sends_after_stop (run c sched (init n os)) <= n.
Proof. exact sends_after_stop_le_workers. Qed.
Print Assumptions C12_sends_after_stop_le_workers.

(* After a stop request no new scenario is started beyond the one each worker may already be fetching:
   at most n further operations are taken from the producer, whatever happened before (s1) and after (s2). *)
Theorem C12_no_scenario_after_stop : forall c s1 s2 n os,
  let a := step c (run c s1 (init n os)) Stop in
  length (ops a) - length (ops (run c s2 a)) <= n.
Proof. exact no_scenario_after_stop. Qed.
Print Assumptions C12_no_scenario_after_stop.

(* No more than max_failures failed or errored scenarios are reported, for all interleavings. *)
Theorem C12_reported_failures_le_max : forall c m sched n os,
  maxf c = Some m -> 1 <= m -> failed_scenarios (trace (run c sched (init n os))) <= m.
Proof. exact reported_failures_le_max. Qed.
Print Assumptions C12_reported_failures_le_max.

(* Once the limit is reached every later phase is only opened and closed as skipped, with the reason. *)
Theorem C12_later_phases_skipped_with_reason : forall p phases stop0,
  Forall (fun e => match e with
                   | PhaseFinished _ st lim => st = SKIP /\ lim = true
                   | PhaseStarted _ => True
                   | _ => False end)
         (plan_loop p phases stop0 true).
Proof. exact plan_skips_after_limit. Qed.
Print Assumptions C12_later_phases_skipped_with_reason.

(* The functions regenerated from today's Python source (engine/control.py: count_failure, is_stopped;
   engine/__init__.py: _STATUS_ORDER) are the ones the model uses. *)
Theorem C12_gen_count_failure_eq : forall c n l, gen_count_failure (maxf c) n l = count_failure c n l.
Proof. exact gen_count_failure_eq. Qed.
Print Assumptions C12_gen_count_failure_eq.

Theorem C12_gen_is_stopped_eq : forall s, gen_is_stopped (stop s) (limit s) = has_to_stop s.
Proof. exact gen_is_stopped_eq. Qed.
Print Assumptions C12_gen_is_stopped_eq.

Theorem C12_gen_srank_eq : forall s, gen_srank s = srank s.
Proof. exact gen_srank_eq. Qed.
Print Assumptions C12_gen_srank_eq.

(* both bounds are attained (sharpness / non-vacuity) *)
Theorem C12_sends_bound_is_reached :
  let s := run (cfg_now None) [W 0; W 0; W 0; W 0; W 1; W 1; W 1; W 1; Stop; W 0; W 1; W 0; W 1]
               (init 2 [op_ok 0 3; op_ok 1 3]) in
  sends_after_stop s = 2 /\ length (sent s) = 2.
Proof. exact sends_bound_is_reached. Qed.
Print Assumptions C12_sends_bound_is_reached.

Theorem C12_failures_bound_is_reached :
  let s := run (cfg_now (Some 1)) sched_limit (init 2 [op_fail 0; op_ok 1 2]) in
  failed_scenarios (trace s) = 1 /\ limit s = true.
Proof. exact failures_bound_is_reached. Qed.
Print Assumptions C12_failures_bound_is_reached.
