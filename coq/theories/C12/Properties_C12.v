(* C12 property theorems only (on the unit-phase LTS of Model_C11). *)
From Coq Require Import List NArith Bool Arith.
From Verif Require Import C11.Model_C11 C11.Proofs_C11 C12.Proofs_C12 C12.Gen_C12 C12.GenProofs_C12 C11.ModelP_C11 C11.ProofsP_C11 C11.ProofsP3_C11.
Import ListNotations.

(* After a stop request (or the failure limit) at most one further request per worker is sent:
   for all configurations, behaviours, numbers of workers n and all interleavings. *)
Theorem C12_sends_after_stop_le_workers : forall c sched n os,
  sends_after_stop (run c sched (init n os)) <= n.
Proof. exact sends_after_stop_le_workers. Qed.
Print Assumptions C12_sends_after_stop_le_workers.

(* After a stop request no new scenario is started beyond the one each worker may already be fetching:
   at most n further operations are taken from the producer, whatever happened before (s1) and after (s2). *)
Theorem C12_no_scenario_after_stop : forall c s1 s2 n os,
  let a := step c (run c s1 (init n os)) Stop in
  length (ops a) - length (ops (run c s2 a)) <= n.
Proof. exact no_scenario_after_stop. Qed.
Print Assumptions C12_no_scenario_after_stop.

(* No more than max_failures failed or errored scenarios are reported, for all interleavings. *)
Theorem C12_reported_failures_le_max : forall c m sched n os,
  maxf c = Some m -> 1 <= m -> failed_scenarios (trace (run c sched (init n os))) <= m.
Proof. exact reported_failures_le_max. Qed.
Print Assumptions C12_reported_failures_le_max.

(* Once the limit is reached every later phase is only opened and closed as skipped, with the reason. *)
Theorem C12_later_phases_skipped_with_reason : forall p phases stop0,
  Forall (fun e => match e with
                   | PhaseFinished _ st lim => st = SKIP /\ lim = true
                   | PhaseStarted _ => True
                   | _ => False end)
         (plan_loop p phases stop0 true).
Proof. exact plan_skips_after_limit. Qed.
Print Assumptions C12_later_phases_skipped_with_reason.

(* The functions regenerated from today's Python source (engine/control.py: count_failure, is_stopped;
   engine/__init__.py: _STATUS_ORDER) are the ones the model uses. *)
Theorem C12_gen_count_failure_eq : forall c n l, gen_count_failure (maxf c) n l = count_failure c n l.
Proof. exact gen_count_failure_eq. Qed.
Print Assumptions C12_gen_count_failure_eq.

Theorem C12_gen_is_stopped_eq : forall s, gen_is_stopped (stop s) (limit s) = has_to_stop s.
Proof. exact gen_is_stopped_eq. Qed.
Print Assumptions C12_gen_is_stopped_eq.

Theorem C12_gen_srank_eq : forall s, gen_srank s = srank s.
Proof. exact gen_srank_eq. Qed.
Print Assumptions C12_gen_srank_eq.

(* both bounds are attained (sharpness / non-vacuity) *)
Theorem C12_sends_bound_is_reached :
  let s := run (cfg_now None) [W 0; W 0; W 0; W 0; W 1; W 1; W 1; W 1; Stop; W 0; W 1; W 0; W 1]
               (init 2 [op_ok 0 3; op_ok 1 3]) in
  sends_after_stop s = 2 /\ length (sent s) = 2.
Proof. exact sends_bound_is_reached. Qed.
Print Assumptions C12_sends_bound_is_reached.

Theorem C12_failures_bound_is_reached :
  let s := run (cfg_now (Some 1)) sched_limit (init 2 [op_fail 0; op_ok 1 2]) in
  failed_scenarios (trace s) = 1 /\ limit s = true.
Proof. exact failures_bound_is_reached. Qed.
Print Assumptions C12_failures_bound_is_reached.

(* ---- unique inputs (ModelU_C12: lookup and store are separate steps, any number of workers) ---- *)
From Verif Require Import C12.ModelU_C12 C12.ProofsU_C12.

(* With unique inputs the same request is never sent twice: for all outcomes, all case sequences in which every operation
   belongs to one worker, and all interleavings of the workers' lookups and sends. *)
Theorem C12_unique_never_sent_twice : forall out owner scripts sched,
  owned owner scripts -> NoDup (u_sent (urun out sched (uinit scripts))).
Proof. exact unique_never_sent_twice. Qed.
Print Assumptions C12_unique_never_sent_twice.

(* One worker: for every sequence of generated cases. *)
Theorem C12_unique_one_worker : forall out script sched,
  NoDup (u_sent (urun out sched (uinit (fun w => match w with 0 => script | _ => [] end)))).
Proof. exact unique_one_worker. Qed.
Print Assumptions C12_unique_one_worker.

(* The deduplication loses nothing: when the workers are done every generated case was sent. *)
Theorem C12_unique_nothing_lost : forall out scripts sched n,
  let s := urun out sched (uinit scripts) in
  quiescent n s -> forall w k, w < n -> In k (scripts w) -> In k (u_sent s).
Proof. exact unique_nothing_lost. Qed.
Print Assumptions C12_unique_nothing_lost.

(* The hypothesis is needed: the cache alone does not serialise two workers that are given the same case. *)
Theorem C12_unique_shared_case_refuted : exists out scripts sched,
  ~ NoDup (u_sent (urun out sched (uinit scripts))).
Proof.
  exists (fun _ => OOk), (scripts_of [[k7]; [k7]]), [ULookup 0; ULookup 1; USend 0; USend 1].
  rewrite unique_refuted_shared_case. intros H. inversion H as [|x l Hn _]; subst. apply Hn. left; reflexivity.
Qed.
Print Assumptions C12_unique_shared_case_refuted.

(* ---- rate limit (ModelR_C12: the sliding-window guard schemathesis relies on) ---- *)
From Coq Require Import ZArith.
From Verif Require Import C12.ModelR_C12 C12.ProofsR_C12.

(* Every window of one interval holds at most `limit` granted requests, whatever the times at which the workers ask. *)
Theorem C12_rate_within_limit : forall limit interval ts a,
  countp (in_window interval a) (attempts limit interval ts) <= limit.
Proof. exact rate_within_limit. Qed.
Print Assumptions C12_rate_within_limit.

(* A request reaches the API at most `jitter` after its grant: an API-side window holds at most the grants of the window
   extended by the jitter (the "scheduling jitter at window boundaries" of the property text). *)
Theorem C12_rate_seen_window_bound : forall interval jitter a pairs,
  (0 <= jitter)%Z ->
  (forall g s, In (g, s) pairs -> (g <= s <= g + jitter)%Z) ->
  countp (in_window interval a) (map snd pairs) <=
  countp (fun h => (a - jitter <=? h)%Z && (h <? a + interval)%Z) (map fst pairs).
Proof. exact seen_window_bound. Qed.
Print Assumptions C12_rate_seen_window_bound.

Theorem C12_rate_bound_is_reached :
  countp (in_window 1000 0) (attempts 3 1000 [0; 200; 400; 600; 800; 1000; 1200]%Z) = 3.
Proof. exact (proj2 rate_example). Qed.
Print Assumptions C12_rate_bound_is_reached.

(* The outcome cache regenerated from today's engine/context.py (cache_outcome / get_cached_outcome) is the cache of ModelU_C12:
   a store binds the key and drops nothing, a lookup finds the newest binding. *)
Theorem C12_gen_cache_outcome_eq : forall (d : list (ModelU_C12.key * ModelU_C12.outcome)) k v, gen_cache_outcome d k v = (k, v) :: d.
Proof. exact gen_cache_outcome_eq. Qed.
Print Assumptions C12_gen_cache_outcome_eq.

Theorem C12_gen_get_cached_outcome_eq : forall (d : list (ModelU_C12.key * ModelU_C12.outcome)) k,
  gen_get_cached_outcome ModelU_C12.key_eqb d k = ModelU_C12.find_key k d.
Proof. exact gen_get_cached_outcome_eq. Qed.
Print Assumptions C12_gen_get_cached_outcome_eq.

(* ---- the stateful phase (ModelP_C11: execute_state_machine_loop, one thread) ----
   After the stop request or the failure limit is visible at most ONE further step (request) is executed - the one whose
   entry test came just before - whatever Hypothesis does inside run(), wherever the stop arrives, for every limit. *)
Theorem C12_stateful_at_most_one_step_after_stop : forall c faults stop0 limit0 counter0 behs ls,
  count_true (p_bodies (prun c ls (pinit_f faults stop0 limit0 counter0 behs))) <= 1.
Proof. exact producer_at_most_one_after_stop. Qed.
Print Assumptions C12_stateful_at_most_one_step_after_stop.

(* A stateful phase entered after the stop was requested sends nothing and announces no scenario. *)
Theorem C12_stateful_nothing_when_stopped_before_start : forall c faults limit0 counter0 behs ls,
  let s := prun c ls (pinit_f faults true limit0 counter0 behs) in
  p_bodies s = [] /\ scenario_statuses (p_out s) = [].
Proof. exact producer_stopped_before_start. Qed.
Print Assumptions C12_stateful_nothing_when_stopped_before_start.

(* the bound is reached: the stop arrives between the entry test of a step and its request *)
Theorem C12_stateful_one_step_after_stop_is_reached :
  count_true (p_bodies (prun {| p_maxf := None; p_maxex := 5 |} (repeat LP 4 ++ [LStop] ++ repeat LP 9)
                             (pinit false false 0 [([[StOk; StOk]], ROk)]))) = 1.
Proof. vm_compute. reflexivity. Qed.
Print Assumptions C12_stateful_one_step_after_stop_is_reached.

(* "After a stop request no new scenario is started", stateful phase: false by one - setup() does not look at the flag, so a
   stop that arrives between two scenarios lets one more scenario be announced (finding C12-F1; it sends nothing) ... *)
Theorem C12_stateful_scenario_after_stop_refuted : exists c behs s1 s2,
  let a := pstep c (prun c s1 (pinit false false 0 behs)) LStop in
  count_scs (p_out (prun c s2 a)) = S (count_scs (p_out a)) /\ p_bodies (prun c s2 a) = [false].
Proof.
  exists {| p_maxf := None; p_maxex := 5 |}, [([[StOk]; [StOk]], ROk)], (repeat LP 5), (repeat LP 9).
  destruct one_scenario_after_stop_is_reached as (H1 & H2 & H3). cbv zeta. rewrite H2, H1. split; [reflexivity|exact H3].
Qed.
Print Assumptions C12_stateful_scenario_after_stop_refuted.

(* ... and never by more than one, whenever every scenario Hypothesis starts has at least one step (its runner always
   executes a first step): for every behaviour, limit, history before (s1) and after (s2) the request. *)
Theorem C12_stateful_scenarios_after_stop_le_one_partial : forall c stop0 limit0 counter0 behs s1 s2,
  forallb nonempty_beh behs = true ->
  let a := pstep c (prun c s1 (pinit stop0 limit0 counter0 behs)) LStop in
  count_scs (p_out (prun c s2 a)) <= S (count_scs (p_out a)).
Proof. exact scenarios_after_stop. Qed.
Print Assumptions C12_stateful_scenarios_after_stop_le_one_partial.

(* scenarios without any step never test the flag: the hypothesis is needed *)
Theorem C12_stateful_scenarios_after_stop_needs_steps : exists c behs s1 s2,
  let a := pstep c (prun c s1 (pinit false false 0 behs)) LStop in
  ~ count_scs (p_out (prun c s2 a)) <= S (count_scs (p_out a)).
Proof.
  exists {| p_maxf := None; p_maxex := 5 |}, [([[]; []; []], ROk)], (repeat LP 2), (repeat LP 9).
  destruct scenarios_after_stop_needs_steps as (H1 & H2). cbv zeta. rewrite H2, H1. intros Hc. inversion Hc as [|? Hc']. inversion Hc'.
Qed.
Print Assumptions C12_stateful_scenarios_after_stop_needs_steps.

(* ---- the configured Hypothesis settings reach the test (ModelH_C12: create_test's settings merge) ----
   Whatever Hypothesis profile is loaded, every configured setting other than the deadline - max_examples and
   stateful_step_count in particular - is the one the test runs with. *)
From Verif Require Import C12.ModelH_C12 C12.ProofsH_C12.

Theorem C12_configured_setting_takes_effect : forall active stock config k,
  k <> K_DEADLINE -> effective ActiveProfile active stock config k = config k.
Proof. exact configured_setting_takes_effect. Qed.
Print Assumptions C12_configured_setting_takes_effect.

Theorem C12_configured_deadline : forall active stock config,
  effective ActiveProfile active stock config K_DEADLINE =
  if Nat.eqb (config K_DEADLINE) (active K_DEADLINE) then DEFAULT_DEADLINE else config K_DEADLINE.
Proof. exact configured_deadline. Qed.
Print Assumptions C12_configured_deadline.

(* sentinel: comparing with the stock profile instead of the active one loses a configured max_examples = 100 *)
Theorem C12_stock_baseline_refuted : exists active stock config,
  effective StockProfile active stock config K_MAX_EXAMPLES <> config K_MAX_EXAMPLES.
Proof.
  exists (of_list [240; 200; 50; 0]), (of_list [100; 200; 50; 0]), (of_list [100; 200; 50; 0]).
  destruct stock_baseline_drops_configured_value as [H1 H2]. rewrite H1, H2. discriminate.
Qed.
Print Assumptions C12_stock_baseline_refuted.
