From Coq Require Import Arith Bool List Lia.
From Verif Require Import C12.ModelH_C12.
Import ListNotations.

(* every configured setting except the deadline reaches the test unchanged, whatever profile is loaded *)
Lemma configured_setting_takes_effect active stock config k :
  k <> K_DEADLINE -> effective ActiveProfile active stock config k = config k.
Proof.
  intros Hk. unfold effective, merge, with_deadline.
  destruct (Nat.eqb (config k) (active k)) eqn:E; [|reflexivity].
  apply Nat.eqb_eq in E. destruct (Nat.eqb k K_DEADLINE) eqn:Ek; [apply Nat.eqb_eq in Ek; contradiction|].
  cbn [andb]. symmetry. exact E.
Qed.

Lemma configured_deadline active stock config :
  effective ActiveProfile active stock config K_DEADLINE =
  if Nat.eqb (config K_DEADLINE) (active K_DEADLINE) then DEFAULT_DEADLINE else config K_DEADLINE.
Proof.
  unfold effective, merge, with_deadline. rewrite !Nat.eqb_refl. cbn [andb].
  destruct (Nat.eqb (config K_DEADLINE) (active K_DEADLINE)); reflexivity.
Qed.

(* with the stock profile as the baseline a configured value equal to the stock default is dropped under another profile *)
Lemma stock_baseline_drops_configured_value :
  let active := of_list [240; 200; 50; 0] in
  let stock := of_list [100; 200; 50; 0] in
  let config := of_list [100; 200; 50; 0] in
  effective StockProfile active stock config K_MAX_EXAMPLES = 240 /\ config K_MAX_EXAMPLES = 100.
Proof. vm_compute. auto. Qed.
