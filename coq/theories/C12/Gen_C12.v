(* GENERATED on every run by harness/props/c12_gen.py from the Python source - do not edit.
   engine/control.py sha256 40a50eb3954ca617, engine/__init__.py sha256 c6771931763c4beb,
   engine/context.py sha256 1de2d7fb46aa4806 *)
From Coq Require Import Arith Bool List.
From Verif Require Import C11.Model_C11.

Definition gen_count_failure (max_failures : option nat) (_failures_counter : nat) (has_reached_the_failure_limit : bool) :=
  let '(_failures_counter, has_reached_the_failure_limit) := (match max_failures with
  | Some max_failures_v => let _failures_counter := (_failures_counter + 1) in
  let '(_failures_counter, has_reached_the_failure_limit) := (if (Nat.leb max_failures_v _failures_counter) then let has_reached_the_failure_limit := true in
  (_failures_counter, has_reached_the_failure_limit) else (_failures_counter, has_reached_the_failure_limit)) in
  (_failures_counter, has_reached_the_failure_limit)
  | None => (_failures_counter, has_reached_the_failure_limit)
  end) in
  (_failures_counter, has_reached_the_failure_limit).

Definition gen_is_stopped (is_interrupted : bool) (has_reached_the_failure_limit : bool) :=
  (is_interrupted || has_reached_the_failure_limit).

Definition gen_srank (s : status) : nat :=
  match s with
  | SUCCESS => 0
  | FAILURE => 1
  | ERROR => 2
  | INTERRUPTED => 3
  | SKIP => 4
  end.

(* Python dict as an association list, newest binding first: d[k] = v is a cons, d.get(k, default) the first match *)
Fixpoint gen_assoc_get {K V : Type} (eqb : K -> K -> bool) (k : K) (d : list (K * V)) : option V :=
  match d with
  | nil => None
  | cons (k', v) r => if eqb k k' then Some v else gen_assoc_get eqb k r
  end.

Definition gen_cache_outcome {K V : Type} (d : list (K * V)) (k : K) (v : V) : list (K * V) :=
  let d := cons (k, v) d in
  d.

Definition gen_get_cached_outcome {K V : Type} (eqb : K -> K -> bool) (d : list (K * V)) (k : K) : option V :=
  gen_assoc_get eqb k d.
