(* GENERATED on every run by harness/props/c12_gen.py from the Python source - do not edit.
   engine/control.py sha256 40a50eb3954ca617, engine/__init__.py sha256 c6771931763c4beb *)
From Coq Require Import Arith Bool.
From Verif Require Import C11.Model_C11.

Definition gen_count_failure (max_failures : option nat) (_failures_counter : nat) (has_reached_the_failure_limit : bool) :=
  let '(_failures_counter, has_reached_the_failure_limit) := (match max_failures with
  | Some max_failures_v => let _failures_counter := (_failures_counter + 1) in
  let '(_failures_counter, has_reached_the_failure_limit) := (if (Nat.leb max_failures_v _failures_counter) then let has_reached_the_failure_limit := true in
  (_failures_counter, has_reached_the_failure_limit) else (_failures_counter, has_reached_the_failure_limit)) in
  (_failures_counter, has_reached_the_failure_limit)
  | None => (_failures_counter, has_reached_the_failure_limit)
  end) in
  (_failures_counter, has_reached_the_failure_limit).

Definition gen_is_stopped (is_interrupted : bool) (has_reached_the_failure_limit : bool) :=
  (is_interrupted || has_reached_the_failure_limit).

Definition gen_srank (s : status) : nat :=
  match s with
  | SUCCESS => 0
  | FAILURE => 1
  | ERROR => 2
  | INTERRUPTED => 3
  | SKIP => 4
  end.
