From Coq Require Import List NArith Bool Arith Lia.
From Verif Require Import C12.ModelU_C12.
Import ListNotations.

Lemma key_eqb_eq a b : key_eqb a b = true <-> a = b.
Proof.
  unfold key_eqb. destruct a as [a1 a2], b as [b1 b2]. cbn [fst snd]. rewrite andb_true_iff, Nat.eqb_eq, N.eqb_eq.
  split; [intros [-> ->]; reflexivity | intros H; inversion H; auto].
Qed.

Lemma key_eqb_refl a : key_eqb a a = true.
Proof. apply key_eqb_eq. reflexivity. Qed.

Lemma key_eqb_neq a b : a <> b -> key_eqb a b = false.
Proof. intros H. destruct (key_eqb a b) eqn:E; auto. apply key_eqb_eq in E. contradiction. Qed.

Lemma find_key_cons k k' o c : find_key k ((k', o) :: c) = if key_eqb k k' then Some o else find_key k c.
Proof. reflexivity. Qed.

Lemma upd_same {A} (f : nat -> A) w v : upd f w v w = v.
Proof. unfold upd. rewrite Nat.eqb_refl. reflexivity. Qed.

Lemma upd_other {A} (f : nat -> A) w v w' : w' <> w -> upd f w v w' = f w'.
Proof. intros H. unfold upd. destruct (Nat.eqb w' w) eqn:E; auto. apply Nat.eqb_eq in E. contradiction. Qed.

Section Unique.
  Variable out : key -> outcome.
  Variable owner : nat -> nat.

  Definition uinv (s : ustate) : Prop :=
    NoDup (u_sent s) /\
    (forall k, In k (u_sent s) -> find_key k (u_cache s) <> None) /\
    (forall w k, u_pend s w = Some k -> owner (fst k) = w /\ find_key k (u_cache s) = None) /\
    (forall w k, In k (u_script s w) -> owner (fst k) = w).

  Lemma uinv_step s l : uinv s -> uinv (ustep out s l).
  Proof.
    intros Hinv. pose proof Hinv as (H1 & H2 & H3 & H4). destruct l as [w|w]; cbn [ustep].
    - destruct (u_pend s w) as [kp|] eqn:Ep; [exact Hinv|].
      destruct (u_script s w) as [|k rest] eqn:Es; [exact Hinv|].
      destruct (find_key k (u_cache s)) as [o|] eqn:Ef.
      + unfold uinv; cbn [u_sent u_cache u_pend u_script]. split; [exact H1|]. split; [exact H2|]. split; [exact H3|].
        intros w' k' Hin. destruct (Nat.eq_dec w' w) as [->|Hn].
          -- rewrite upd_same in Hin. apply H4. rewrite Es. right; exact Hin.
          -- rewrite upd_other in Hin by exact Hn. apply H4; exact Hin.
      + unfold uinv; cbn [u_sent u_cache u_pend u_script]. split; [exact H1|]. split; [exact H2|]. split.
        * intros w' k' Hp. destruct (Nat.eq_dec w' w) as [->|Hn].
          -- rewrite upd_same in Hp. inversion Hp; subst k'. split; [|exact Ef]. apply H4. rewrite Es. left; reflexivity.
          -- rewrite upd_other in Hp by exact Hn. apply H3; exact Hp.
        * intros w' k' Hin. destruct (Nat.eq_dec w' w) as [->|Hn].
          -- rewrite upd_same in Hin. apply H4. rewrite Es. right; exact Hin.
          -- rewrite upd_other in Hin by exact Hn. apply H4; exact Hin.
    - destruct (u_pend s w) as [k|] eqn:Ep; [|exact Hinv].
      destruct (H3 w k Ep) as [Ho Hf].
      unfold uinv; cbn [u_sent u_cache u_pend u_script]. split; [|split; [|split]].
      + constructor; [|exact H1]. intros Hin. apply (H2 k Hin). exact Hf.
      + intros k' [<-|Hin]; rewrite find_key_cons.
        * rewrite key_eqb_refl. discriminate.
        * destruct (key_eqb k' k); [discriminate | apply H2; exact Hin].
      + intros w' k' Hp. destruct (Nat.eq_dec w' w) as [->|Hn].
        * rewrite upd_same in Hp. discriminate.
        * rewrite upd_other in Hp by exact Hn. destruct (H3 w' k' Hp) as [Ho' Hf']. split; [exact Ho'|].
          rewrite find_key_cons. rewrite key_eqb_neq; [exact Hf'|]. intros ->. apply Hn. rewrite <- Ho', <- Ho. reflexivity.
      + exact H4.
  Qed.

  Lemma uinv_init scripts : owned owner scripts -> uinv (uinit scripts).
  Proof.
    intros Ho. unfold uinv, uinit; cbn. repeat split; try constructor; try (intros; contradiction); try (intros; discriminate).
    exact Ho.
  Qed.

  Lemma uinv_run sched : forall s, uinv s -> uinv (urun out sched s).
  Proof. unfold urun. induction sched as [|l sched IH]; intros s H; cbn; auto. apply IH. apply uinv_step. exact H. Qed.

  (* with unique inputs the same request is never sent twice, for every number of workers and every interleaving of
     their lookups and sends *)
  Lemma unique_never_sent_twice scripts sched :
    owned owner scripts -> NoDup (u_sent (urun out sched (uinit scripts))).
  Proof. intros Ho. apply (uinv_run sched (uinit scripts) (uinv_init scripts Ho)). Qed.

  (* ... and nothing is lost by the deduplication: once the workers are done, every generated case was sent *)
  Definition ucomp (scripts0 : nat -> list key) (s : ustate) : Prop :=
    (forall w k, In k (scripts0 w) -> In k (u_script s w) \/ u_pend s w = Some k \/ find_key k (u_cache s) <> None) /\
    (forall k, find_key k (u_cache s) <> None -> In k (u_sent s)).

  Lemma ucomp_step scripts0 s l : ucomp scripts0 s -> ucomp scripts0 (ustep out s l).
  Proof.
    intros HC. pose proof HC as [C1 C2]. destruct l as [w|w]; cbn [ustep].
    - destruct (u_pend s w) as [kp|] eqn:Ep; [exact HC|].
      destruct (u_script s w) as [|k rest] eqn:Es; [exact HC|].
      destruct (find_key k (u_cache s)) as [o|] eqn:Ef; unfold ucomp; cbn [u_sent u_cache u_pend u_script]; (split; [|exact C2]);
        intros w0 k0 Hin; destruct (Nat.eq_dec w0 w) as [->|Hn]; rewrite ?upd_same, ?upd_other by exact Hn; try (apply C1; exact Hin);
        destruct (C1 w k0 Hin) as [Hs|[Hp|Hc]]; auto; try congruence;
        rewrite Es in Hs; destruct Hs as [<-|Hs]; auto.
      right; right. rewrite Ef. discriminate.
    - destruct (u_pend s w) as [k|] eqn:Ep; [|exact HC].
      unfold ucomp; cbn [u_sent u_cache u_pend u_script]. split.
      + intros w0 k0 Hin. destruct (C1 w0 k0 Hin) as [Hs|[Hp|Hc]]; auto.
        * destruct (Nat.eq_dec w0 w) as [->|Hn].
          -- right; right. rewrite Ep in Hp. inversion Hp; subst k0. rewrite find_key_cons, key_eqb_refl. discriminate.
          -- right; left. rewrite upd_other by exact Hn. exact Hp.
        * right; right. rewrite find_key_cons. destruct (key_eqb k0 k); [discriminate | exact Hc].
      + intros k0. rewrite find_key_cons. destruct (key_eqb k0 k) eqn:E.
        * apply key_eqb_eq in E. subst k0. intros _. left; reflexivity.
        * intros H. right. apply C2; exact H.
  Qed.

  Lemma ucomp_init scripts : ucomp scripts (uinit scripts).
  Proof. split; cbn; [intros; left; assumption | intros k H; contradiction]. Qed.

  Lemma ucomp_run scripts0 sched : forall s, ucomp scripts0 s -> ucomp scripts0 (urun out sched s).
  Proof. unfold urun. induction sched as [|l sched IH]; intros s H; cbn; auto. apply IH. apply ucomp_step. exact H. Qed.

  Lemma unique_nothing_lost scripts sched n :
    let s := urun out sched (uinit scripts) in
    quiescent n s -> forall w k, w < n -> In k (scripts w) -> In k (u_sent s).
  Proof.
    intros s Hq w k Hw Hin. destruct (ucomp_run scripts sched (uinit scripts) (ucomp_init scripts)) as [C1 C2]. fold s in C1, C2.
    destruct (Hq w Hw) as [Hp Hs]. destruct (C1 w k Hin) as [H|[H|H]].
    - rewrite Hs in H. contradiction.
    - rewrite Hp in H. discriminate.
    - apply C2; exact H.
  Qed.
End Unique.

(* one worker: no hypothesis on the cases at all *)
Lemma unique_one_worker out script sched :
  NoDup (u_sent (urun out sched (uinit (fun w => match w with 0 => script | _ => [] end)))).
Proof.
  apply (unique_never_sent_twice out (fun _ => 0)). intros w k. destruct w; [reflexivity | intros H; contradiction].
Qed.

(* the hypothesis is needed: two workers given the same case both miss the cache and both send it *)
Definition k7 : key := (0, 7%N).
Lemma unique_refuted_shared_case :
  u_sent (urun (fun _ => OOk) [ULookup 0; ULookup 1; USend 0; USend 1] (uinit (scripts_of [[k7]; [k7]]))) = [k7; k7].
Proof. vm_compute. reflexivity. Qed.

(* non-vacuity: two workers, repeated cases, everything sent exactly once *)
Definition ex_scripts := scripts_of [[(0, 1%N); (0, 2%N); (0, 1%N)]; [(1, 1%N); (1, 1%N)]].
Lemma unique_example :
  owned (fun o => o) ex_scripts /\
  uobs (urun (out_of [(0, 2%N)]) [ULookup 0; ULookup 1; USend 1; USend 0; ULookup 1; ULookup 0; USend 0; ULookup 0] (uinit ex_scripts))
  = ([(0, (0, 1%N), Miss); (1, (1, 1%N), Miss); (1, (1, 1%N), HitOk); (0, (0, 2%N), Miss); (0, (0, 1%N), HitOk)],
     [(1, 1%N); (0, 1%N); (0, 2%N)]).
Proof.
  split; [|vm_compute; reflexivity].
  intros w k. unfold ex_scripts, scripts_of. destruct w as [|[|w]]; cbn.
  - intros [<-|[<-|[<-|[]]]]; reflexivity.
  - intros [<-|[<-|[]]]; reflexivity.
  - destruct w; intros [].
Qed.
