(* Ties the hand-written model to the functions regenerated from the Python source (Gen_C12.v is rewritten on
   every run by harness/props/c12_gen.py): a semantic edit of the source makes these lemmas fail to check. *)
From Coq Require Import List Arith Bool Lia.
From Verif Require Import C11.Model_C11 C12.Gen_C12 C12.ModelU_C12.

Lemma gen_count_failure_eq : forall c n l, gen_count_failure (maxf c) n l = count_failure c n l.
Proof.
  intros c n l. unfold gen_count_failure, count_failure. destruct (maxf c) as [m|]; [|reflexivity].
  rewrite Nat.add_1_r. destruct (Nat.leb m (S n)); reflexivity.
Qed.

Lemma gen_is_stopped_eq : forall s, gen_is_stopped (stop s) (limit s) = has_to_stop s.
Proof. reflexivity. Qed.

Lemma gen_srank_eq : forall s, gen_srank s = srank s.
Proof. intros []; reflexivity. Qed.

(* the outcome cache of unique_inputs: the regenerated store is a plain binding (nothing is ever dropped or cleared), the
   regenerated lookup is the model's lookup *)
Lemma gen_cache_outcome_eq : forall (d : list (key * outcome)) k v, gen_cache_outcome d k v = (k, v) :: d.
Proof. reflexivity. Qed.

Lemma gen_get_cached_outcome_eq : forall (d : list (key * outcome)) k, gen_get_cached_outcome key_eqb d k = find_key k d.
Proof.
  intros d k. unfold gen_get_cached_outcome. induction d as [|[k' o] r IH]; cbn [gen_assoc_get find_key]; [reflexivity|].
  destruct (key_eqb k k'); [reflexivity|exact IH].
Qed.
