(* C12, unique inputs: model of cached_test_func + EngineContext.outcome_cache
   (engine/phases/unit/_executor.py, engine/context.py).

   A worker looks the case up in the shared cache (get_cached_outcome); on a miss it sends the request and
   only afterwards stores the outcome (cache_outcome).  Lookup and store are two separate steps, other workers
   may run between them.  Keys are (operation, hash of the case): hash(case) is the hash of the reproduction
   command, which contains method and URL, so keys of different operations differ.  Definitions only. *)
From Coq Require Import List NArith Bool Arith.
Import ListNotations.

Definition key := (nat * N)%type.
Definition key_eqb (a b : key) : bool := Nat.eqb (fst a) (fst b) && N.eqb (snd a) (snd b).

Inductive outcome := OOk | OExc.                  (* cache_outcome(case, None) / cache_outcome(case, exc) *)
Inductive lookup_res := Miss | HitOk | HitExc.    (* NOT_SET -> send; None -> return; exception -> re-raise *)
Inductive ulabel := ULookup (w : nat) | USend (w : nat).

Record ustate := {
  u_cache : list (key * outcome);
  u_sent : list key;                              (* newest first *)
  u_pend : nat -> option key;                     (* the case a worker is about to send *)
  u_script : nat -> list key;                     (* the cases a worker will still generate *)
  u_log : list (nat * key * lookup_res)           (* newest first *)
}.

Fixpoint find_key (k : key) (c : list (key * outcome)) : option outcome :=
  match c with
  | [] => None
  | (k', o) :: r => if key_eqb k k' then Some o else find_key k r
  end.

Definition upd {A} (f : nat -> A) (w : nat) (v : A) : nat -> A := fun w' => if Nat.eqb w' w then v else f w'.

Definition ustep (out : key -> outcome) (s : ustate) (l : ulabel) : ustate :=
  match l with
  | ULookup w =>
      match u_pend s w, u_script s w with
      | None, k :: rest =>
          match find_key k (u_cache s) with
          | Some o =>
              {| u_cache := u_cache s; u_sent := u_sent s; u_pend := u_pend s; u_script := upd (u_script s) w rest;
                 u_log := (w, k, match o with OOk => HitOk | OExc => HitExc end) :: u_log s |}
          | None =>
              {| u_cache := u_cache s; u_sent := u_sent s; u_pend := upd (u_pend s) w (Some k);
                 u_script := upd (u_script s) w rest; u_log := (w, k, Miss) :: u_log s |}
          end
      | _, _ => s
      end
  | USend w =>
      match u_pend s w with
      | Some k =>
          {| u_cache := (k, out k) :: u_cache s; u_sent := k :: u_sent s; u_pend := upd (u_pend s) w None;
             u_script := u_script s; u_log := u_log s |}
      | None => s
      end
  end.

Definition uinit (scripts : nat -> list key) : ustate :=
  {| u_cache := []; u_sent := []; u_pend := fun _ => None; u_script := scripts; u_log := [] |}.

Definition urun (out : key -> outcome) (sched : list ulabel) (s : ustate) : ustate := fold_left (ustep out) sched s.

(* every operation is handed to exactly one worker at a time (TaskProducer.next_operation under its lock; the phases follow
   one another): a worker of the model stands for whoever handles one operation, so its script is the sequence of all cases
   generated for that operation and the cases of different workers belong to different operations *)
Definition owned (owner : nat -> nat) (scripts : nat -> list key) : Prop :=
  forall w k, In k (scripts w) -> owner (fst k) = w.

(* nothing left to do for the workers below n *)
Definition quiescent (n : nat) (s : ustate) : Prop :=
  forall w, w < n -> u_pend s w = None /\ u_script s w = [].

(* executable helpers for the correspondence check *)
Definition scripts_of (l : list (list key)) : nat -> list key := fun w => nth w l [].
Definition out_of (excs : list key) : key -> outcome :=
  fun k => if existsb (key_eqb k) excs then OExc else OOk.
Definition uobs (s : ustate) : list (nat * key * lookup_res) * list key := (rev (u_log s), rev (u_sent s)).
